------------------------------ MODULE Trace_LU ------------------------------
(***************************************************************************)
(* Trace specification for C16.  The trace (NDJSON, written by             *)
(* harness/src/bin/replay_lu.rs from the REAL lu_decomp / lin_solve /      *)
(* lu_decomp_complex / lin_solve_complex) is read with ndJsonDeserialize.  *)
(* Per scenario the lines are                                              *)
(*    dec(full) [sol(full)] dec(banded) [sol(banded)]      or     shape    *)
(* (a sol line exists iff the code's factorisation returned Ok).           *)
(* For each line the Level-B model (LU.tla, exact rationals) is run on the *)
(* scenario's input and the Level-A clauses of LUContract.tla are          *)
(* evaluated ON THE VALUES THE CODE RETURNED (floats are logged exactly as *)
(* odd mantissa and binary exponent, see ME in LUContract.tla; the pivot   *)
(* rows it reported drive the guided elimination of the pivot_max clause): *)
(* failures are VIOL lines (the run continues); Level-B mismatches that    *)
(* keep the contract (pivot indices among equally large candidates, factor *)
(* entries, class in the either-allowed case) are DRIFT.                   *)
(* (IF .. THEN TRUE ELSE PrintT is used instead of \/ because TLC treats a *)
(* disjunction inside an action as a choice and evaluates both sides.)     *)
(***************************************************************************)
EXTENDS LUContract, FiniteSets, TLC, TLCExt, Json, IOUtils

\* The trace file is parsed once (in Init, into TLC register 1): a plain definition would be re-evaluated,
\* i.e. the file re-parsed, at every use.
Rec == TLCGet(1)
NLines == Len(Rec)

VARIABLES l,      \* next line to match
          pc,     \* "start" | "sol_full" | "dec_banded" | "sol_banded"
          sid,    \* current scenario id
          sc,     \* current scenario
          mD,     \* Level-B result of the factorisation of the current scenario
          mX      \* what the four lines of a scenario share: exact singularity, Cramer solutions, dyadic flags of the solves
vars == <<l, pc, sid, sc, mD, mX>>

NoSc == [fam |-> "none", kind |-> "none", n |-> 0, A |-> <<>>, AI |-> <<>>, bs |-> <<>>, rs |-> <<>>, cs |-> <<>>,
         rows |-> 0, cols |-> 0, irows |-> 0, icols |-> 0, iplen |-> 0]
NoD == [cls |-> "none", a |-> <<>>, ip |-> <<>>, k |-> 0, dy |-> TRUE, re |-> <<>>, lex |-> <<>>]

NoX == [sing |-> FALSE, want |-> <<>>, sdy |-> <<>>]

Init == TLCSet(1, ndJsonDeserialize(IOEnv.TRACE)) /\ l = 1 /\ pc = "start" /\ sid = 0 /\ sc = NoSc /\ mD = NoD /\ mX = NoX

Viol(clause, r, s, detail) == PrintT(<<"VIOL", "C16", clause, r.sid, [kind |-> s.kind, n |-> s.n, obs |-> detail]>>)
Drift(r, detail) == PrintT(<<"DRIFT", "C16", r.act, r.sid, detail>>)

IsRealSc(s) == s.kind = "real"
SingularSc(s) == IF IsRealSc(s) THEN RealSingular(s.A, s.n) ELSE ComplexSingular(s.A, s.AI, s.n)
WantSc(s, k) == IF IsRealSc(s) THEN RealSolution(s.A, s.n, s.bs[k]) ELSE ComplexSolution(s.A, s.AI, s.n, s.bs[k])
ModelDec(s) == IF IsRealSc(s) THEN Dec(s.A, s.n, s.rs) ELSE CDec(s.A, s.AI, s.n, s.rs)
\* the model's factor and the exact solution in the form the harness logs floats in
ModelLuME(s, m) == LET ex == FacExp(m, s.cs, s.n)
                   IN [i \in 1..s.n |-> [j \in 1..s.n |-> IF IsRealSc(s) THEN ME(m.a[i][j], ex[i][j]) ELSE CME(m.a[i][j], ex[i][j])]]
\* w: a Cramer solution of the unscaled system; the code solves the scaled one: component j carries 2^-cs[j]
WantME(s, w) == [j \in 1..s.n |-> IF IsRealSc(s) THEN ME(w[j], -s.cs[j]) ELSE CME(w[j], -s.cs[j])]
Want3(s, w) == [j \in 1..s.n |-> IF IsRealSc(s) THEN R3(w[j], -s.cs[j]) ELSE C3(w[j], -s.cs[j])]
BadPivotStage(s, ipObs, obsCls) == IF IsRealSc(s) THEN RealBadPivotStage(s.A, s.n, s.rs, ipObs, obsCls)
                                   ELSE ComplexBadPivotStage(s.A, s.AI, s.n, s.rs, ipObs, obsCls)
ModelSol(s, m, k) == IF IsRealSc(s) THEN Sol(m.a, s.n, SubSeq(m.ip, 1, s.n - 1), s.bs[k])
                                    ELSE CSol(m.a, s.n, SubSeq(m.ip, 1, s.n - 1), s.bs[k])
Shared(s, m) == LET sing == SingularSc(s)
                IN [sing |-> sing,
                    want |-> IF sing THEN <<>> ELSE [k \in 1..Len(s.bs) |-> WantSc(s, k)],
                    sdy |-> [k \in 1..Len(s.bs) |-> m.cls = "ok" /\ m.dy /\ ModelSol(s, m, k).dy]]

\* Exactness ("floating point is exact on an all-dyadic elimination") is a statement about the elimination path the
\* model took.  Partial pivoting leaves ties open: an implementation that resolves a tie differently follows another
\* path, on which intermediates need not be dyadic.  The exactness clauses therefore apply only where the pivot rows
\* reported by the code agree with the model's wherever both are set; otherwise the tolerance forms apply.
SamePath(ipObs, ipModel) == Len(ipObs) = Len(ipModel) /\ \A k \in 1..Len(ipObs) : ipObs[k] = -1 \/ ipModel[k] = UNSET \/ ipObs[k] = ipModel[k]
OnPath(x, same) == IF same THEN x ELSE [x EXCEPT !.sdy = [k \in DOMAIN x.sdy |-> FALSE]]

WellFormedSc(s) ==
  /\ s.kind \in {"real", "complex"}
  /\ s.n \in 1..4 /\ Len(s.A) = s.n /\ (s.kind = "complex" => Len(s.AI) = s.n /\ s.n <= 3)
  /\ Len(s.rs) = s.n /\ Len(s.cs) = s.n
  /\ \A k \in 1..Len(s.bs) : Len(s.bs[k]) = s.n

\* checks common to dec(full) and dec(banded): s = scenario, m = Level-B result
DecChecks(r, s, m, x) ==
  LET sing == x.sing
      okClass == C16_Class(sing, m.dy /\ SamePath(r.ip, m.ip), r.cls)
      okMult == C16_Multipliers(r.cls, r.mult_ok)
      bad == BadPivotStage(s, r.ip, r.cls)
      okPiv == C16_PivotMax(bad)
      sameB == /\ r.cls = m.cls
               /\ r.ip = m.ip
               /\ IF m.dy THEN r.lu = ModelLuME(s, m) ELSE r.lu_close
  IN /\ (IF okClass THEN TRUE
         ELSE Viol("class", r, s, [storage |-> r.storage, A |-> s.A, AI |-> s.AI, rs |-> s.rs, cs |-> s.cs, exactly_singular |-> sing,
                                   all_dyadic |-> m.dy, code_class |-> r.cls]))
     /\ (IF okMult THEN TRUE
         ELSE Viol("multipliers", r, s, [storage |-> r.storage, A |-> s.A, AI |-> s.AI, rs |-> s.rs, cs |-> s.cs,
                                         code_class |-> r.cls, factor |-> r.lu]))
     /\ (IF okPiv THEN TRUE
         ELSE Viol("pivot_max", r, s, [storage |-> r.storage, A |-> s.A, AI |-> s.AI, rs |-> s.rs, cs |-> s.cs,
                                       code_class |-> r.cls, code_ip |-> r.ip, stage |-> bad, model_ip |-> m.ip]))
     /\ (IF okClass /\ okMult /\ okPiv /\ ~sameB
         THEN Drift(r, [storage |-> r.storage, A |-> s.A, AI |-> s.AI, rs |-> s.rs, cs |-> s.cs, model_class |-> m.cls, code_class |-> r.cls,
                        model_ip |-> m.ip, code_ip |-> r.ip, all_dyadic |-> m.dy, lu_close |-> r.lu_close])
         ELSE TRUE)

SolChecks(r, s, m, x) ==
  LET sing == x.sing
      okB == C16_OnlyB(r.a_same, r.ip_same)
      OkSol(k) == LET allDy == x.sdy[k]
                  IN C16_Solution(sing, allDy, IF sing THEN <<>> ELSE IF allDy THEN WantME(s, x.want[k]) ELSE Want3(s, x.want[k]),
                                  r.panic, r.xs[k], r.close[k], r.xe_used[k])
      bad == {k \in 1..Len(s.bs) : ~OkSol(k)}
  IN /\ Len(r.xs) = Len(s.bs)
     /\ (IF bad = {} THEN TRUE
         ELSE LET k == CHOOSE kk \in bad : \A y \in bad : kk <= y
              IN Viol("solution", r, s, [storage |-> r.storage, A |-> s.A, AI |-> s.AI, rs |-> s.rs, cs |-> s.cs, b |-> s.bs[k],
                                         panic |-> r.panic, code_x_mant_exp |-> r.xs[k], close |-> r.close[k],
                                         want_num_den_exp |-> IF sing THEN <<>> ELSE Want3(s, x.want[k]), n_bad_rhs |-> Cardinality(bad)]))
     /\ (IF okB THEN TRUE
         ELSE Viol("only_b", r, s, [storage |-> r.storage, A |-> s.A, AI |-> s.AI, rs |-> s.rs, cs |-> s.cs,
                                    a_same |-> r.a_same, ip_same |-> r.ip_same]))

Step ==
  /\ l <= NLines
  /\ LET r == Rec[l] IN
     \/ /\ pc = "start" /\ r.act = "shape"
        /\ r.sc.kind \in {"shape_real", "shape_complex"}
        /\ LET s == r.sc
               want == IF s.kind = "shape_real" THEN ShapeClass(s.rows, s.cols, s.iplen)
                       ELSE CShapeClass(s.rows, s.cols, s.irows, s.icols, s.iplen)
           IN /\ (IF C16_Shape(want, r.cls) THEN TRUE
                  ELSE Viol("shape", r, s, [rows |-> s.rows, cols |-> s.cols, irows |-> s.irows, icols |-> s.icols,
                                            iplen |-> s.iplen, want |-> want, code_class |-> r.cls]))
              \* well-shaped call on an identity matrix: Level B says ok
              /\ (IF want = "proceed" /\ r.cls # "ok" THEN Drift(r, [want |-> "ok", code_class |-> r.cls]) ELSE TRUE)
        /\ pc' = "start" /\ sid' = r.sid /\ UNCHANGED <<sc, mD, mX>>
     \/ /\ pc = "start" /\ r.act = "dec" /\ r.storage = "full"
        /\ WellFormedSc(r.sc)
        \* (primed variables, not LET: TLC evaluates a LET definition again at every use)
        /\ sc' = r.sc /\ sid' = r.sid
        /\ mD' = ModelDec(sc')
        /\ mX' = OnPath(Shared(sc', mD'), SamePath(r.ip, mD'.ip))
        /\ DecChecks(r, sc', mD', mX') = TRUE   \* "= TRUE": evaluated as one expression, so that its LET definitions are evaluated once
        /\ pc' = IF r.cls = "ok" THEN "sol_full" ELSE "dec_banded"
     \/ /\ pc = "sol_full" /\ r.act = "sol" /\ r.storage = "full" /\ r.sid = sid
        /\ SolChecks(r, sc, mD, mX) = TRUE
        /\ pc' = "dec_banded" /\ UNCHANGED <<sid, sc, mD, mX>>
     \/ /\ pc = "dec_banded" /\ r.act = "dec" /\ r.storage = "banded" /\ r.sid = sid
        /\ DecChecks(r, sc, mD, mX) = TRUE
        /\ mX' = OnPath(mX, SamePath(r.ip, mD.ip))
        /\ pc' = (IF r.cls = "ok" THEN "sol_banded" ELSE "start") /\ UNCHANGED <<sid, sc, mD>>
     \/ /\ pc = "sol_banded" /\ r.act = "sol" /\ r.storage = "banded" /\ r.sid = sid
        /\ SolChecks(r, sc, mD, mX) = TRUE
        /\ pc' = "start" /\ UNCHANGED <<sid, sc, mD, mX>>
  /\ l' = l + 1

Next == Step
Spec == Init /\ [][Next]_vars

Accepted ==
  LET dd == TLCGet("stats").diameter IN
  LET all == ndJsonDeserialize(IOEnv.TRACE) IN
  IF dd = Len(all) + 1 THEN TRUE
  ELSE /\ PrintT(<<"UNMATCHED", dd, IF dd <= Len(all) THEN ToJson(all[dd]) ELSE "none">>)
       /\ FALSE
=============================================================================

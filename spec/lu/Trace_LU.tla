------------------------------ MODULE Trace_LU ------------------------------
(***************************************************************************)
(* Trace specification for C16.  The trace (NDJSON, written by             *)
(* harness/src/bin/replay_lu.rs from the REAL lu_decomp / lin_solve /      *)
(* lu_decomp_complex / lin_solve_complex) is read with ndJsonDeserialize.  *)
(* Per scenario the lines are                                              *)
(*    dec(full) [sol(full)] dec(banded) [sol(banded)]      or     shape    *)
(* (a sol line exists iff the code's factorisation returned Ok).           *)
(* For each line the Level-B model (LU.tla, exact rationals) is run on the *)
(* scenario's input and the Level-A clauses of LUContract.tla are          *)
(* evaluated ON THE VALUES THE CODE RETURNED: failures are VIOL lines (the *)
(* run continues); Level-B mismatches that keep the contract (pivot        *)
(* indices, factor entries, class in the either-allowed case) are DRIFT.   *)
(* (IF .. THEN TRUE ELSE PrintT is used instead of \/ because TLC treats a *)
(* disjunction inside an action as a choice and evaluates both sides.)     *)
(***************************************************************************)
EXTENDS LUContract, FiniteSets, TLC, TLCExt, Json, IOUtils

\* The trace file is parsed once (in Init, into TLC register 1): a plain definition would be re-evaluated,
\* i.e. the file re-parsed, at every use.
Rec == TLCGet(1)
NLines == Len(Rec)

VARIABLES l,      \* next line to match
          pc,     \* "start" | "sol_full" | "dec_banded" | "sol_banded"
          sid,    \* current scenario id
          sc,     \* current scenario
          mD      \* Level-B result of the factorisation of the current scenario
vars == <<l, pc, sid, sc, mD>>

NoSc == [kind |-> "none", n |-> 0, A |-> <<>>, AI |-> <<>>, bs |-> <<>>, rows |-> 0, cols |-> 0, irows |-> 0, icols |-> 0, iplen |-> 0]
NoD == [cls |-> "none", a |-> <<>>, ip |-> <<>>, k |-> 0, dy |-> TRUE]

Init == TLCSet(1, ndJsonDeserialize(IOEnv.TRACE)) /\ l = 1 /\ pc = "start" /\ sid = 0 /\ sc = NoSc /\ mD = NoD

Viol(clause, r, s, detail) == PrintT(<<"VIOL", "C16", clause, r.sid, [kind |-> s.kind, n |-> s.n, obs |-> detail]>>)
Drift(r, detail) == PrintT(<<"DRIFT", "C16", r.act, r.sid, detail>>)

IsRealSc(s) == s.kind = "real"
SingularSc(s) == IF IsRealSc(s) THEN RealSingular(s.A, s.n) ELSE ComplexSingular(s.A, s.AI, s.n)
WantSc(s, k) == IF IsRealSc(s) THEN RealSolution(s.A, s.n, s.bs[k]) ELSE ComplexSolution(s.A, s.AI, s.n, s.bs[k])
ModelDec(s) == IF IsRealSc(s) THEN Dec(s.A, s.n) ELSE CDec(s.A, s.AI, s.n)
ModelSol(s, m, k) == IF IsRealSc(s) THEN Sol(m.a, s.n, SubSeq(m.ip, 1, s.n - 1), s.bs[k])
                                    ELSE CSol(m.a, s.n, SubSeq(m.ip, 1, s.n - 1), s.bs[k])

WellFormedSc(s) ==
  /\ s.kind \in {"real", "complex"}
  /\ s.n \in 1..3 /\ Len(s.A) = s.n /\ (s.kind = "complex" => Len(s.AI) = s.n /\ s.n <= 2)
  /\ \A k \in 1..Len(s.bs) : Len(s.bs[k]) = s.n

\* checks common to dec(full) and dec(banded): s = scenario, m = Level-B result
DecChecks(r, s, m) ==
  LET sing == SingularSc(s)
      okClass == C16_Class(sing, m.dy, r.cls)
      okMult == C16_Multipliers(r.cls, r.mult_ok)
      sameB == /\ r.cls = m.cls
               /\ r.ip = m.ip
               /\ IF m.dy THEN r.lu = m.a ELSE r.lu_close
  IN /\ (IF okClass THEN TRUE
         ELSE Viol("class", r, s, [storage |-> r.storage, A |-> s.A, AI |-> s.AI, exactly_singular |-> sing,
                                   all_dyadic |-> m.dy, code_class |-> r.cls]))
     /\ (IF okMult THEN TRUE
         ELSE Viol("multipliers", r, s, [storage |-> r.storage, A |-> s.A, AI |-> s.AI, code_class |-> r.cls, factor |-> r.lu]))
     /\ (IF okClass /\ okMult /\ ~sameB
         THEN Drift(r, [storage |-> r.storage, A |-> s.A, AI |-> s.AI, model_class |-> m.cls, code_class |-> r.cls,
                        model_ip |-> m.ip, code_ip |-> r.ip, all_dyadic |-> m.dy, lu_close |-> r.lu_close])
         ELSE TRUE)

SolChecks(r, s, m) ==
  LET sing == SingularSc(s)
      okB == C16_OnlyB(r.a_same, r.ip_same)
      OkSol(k) == LET allDy == m.cls = "ok" /\ m.dy /\ ModelSol(s, m, k).dy
                  IN C16_Solution(sing, allDy, IF sing THEN <<>> ELSE WantSc(s, k), r.panic, r.xs[k], r.close[k], r.xe_used[k])
      bad == {k \in 1..Len(s.bs) : ~OkSol(k)}
  IN /\ Len(r.xs) = Len(s.bs)
     /\ (IF bad = {} THEN TRUE
         ELSE LET k == CHOOSE x \in bad : \A y \in bad : x <= y
              IN Viol("solution", r, s, [storage |-> r.storage, A |-> s.A, AI |-> s.AI, b |-> s.bs[k], panic |-> r.panic,
                                         code_x |-> r.xs[k], close |-> r.close[k],
                                         want |-> IF sing THEN <<>> ELSE WantSc(s, k), n_bad_rhs |-> Cardinality(bad)]))
     /\ (IF okB THEN TRUE
         ELSE Viol("only_b", r, s, [storage |-> r.storage, A |-> s.A, AI |-> s.AI, a_same |-> r.a_same, ip_same |-> r.ip_same]))

Step ==
  /\ l <= NLines
  /\ LET r == Rec[l] IN
     \/ /\ pc = "start" /\ r.act = "shape"
        /\ r.sc.kind \in {"shape_real", "shape_complex"}
        /\ LET s == r.sc
               want == IF s.kind = "shape_real" THEN ShapeClass(s.rows, s.cols, s.iplen)
                       ELSE CShapeClass(s.rows, s.cols, s.irows, s.icols, s.iplen)
           IN /\ (IF C16_Shape(want, r.cls) THEN TRUE
                  ELSE Viol("shape", r, s, [rows |-> s.rows, cols |-> s.cols, irows |-> s.irows, icols |-> s.icols,
                                            iplen |-> s.iplen, want |-> want, code_class |-> r.cls]))
              \* well-shaped call on an identity matrix: Level B says ok
              /\ (IF want = "proceed" /\ r.cls # "ok" THEN Drift(r, [want |-> "ok", code_class |-> r.cls]) ELSE TRUE)
        /\ pc' = "start" /\ sid' = r.sid /\ UNCHANGED <<sc, mD>>
     \/ /\ pc = "start" /\ r.act = "dec" /\ r.storage = "full"
        /\ WellFormedSc(r.sc)
        /\ LET s == r.sc
               m == ModelDec(s)
           IN /\ DecChecks(r, s, m)
              /\ sc' = s /\ mD' = m /\ sid' = r.sid
        /\ pc' = IF r.cls = "ok" THEN "sol_full" ELSE "dec_banded"
     \/ /\ pc = "sol_full" /\ r.act = "sol" /\ r.storage = "full" /\ r.sid = sid
        /\ SolChecks(r, sc, mD)
        /\ pc' = "dec_banded" /\ UNCHANGED <<sid, sc, mD>>
     \/ /\ pc = "dec_banded" /\ r.act = "dec" /\ r.storage = "banded" /\ r.sid = sid
        /\ DecChecks(r, sc, mD)
        /\ pc' = (IF r.cls = "ok" THEN "sol_banded" ELSE "start") /\ UNCHANGED <<sid, sc, mD>>
     \/ /\ pc = "sol_banded" /\ r.act = "sol" /\ r.storage = "banded" /\ r.sid = sid
        /\ SolChecks(r, sc, mD)
        /\ pc' = "start" /\ UNCHANGED <<sid, sc, mD>>
  /\ l' = l + 1

Next == Step
Spec == Init /\ [][Next]_vars

Accepted ==
  LET dd == TLCGet("stats").diameter IN
  LET all == ndJsonDeserialize(IOEnv.TRACE) IN
  IF dd = Len(all) + 1 THEN TRUE
  ELSE /\ PrintT(<<"UNMATCHED", dd, IF dd <= Len(all) THEN ToJson(all[dd]) ELSE "none">>)
       /\ FALSE
=============================================================================

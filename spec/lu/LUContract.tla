----------------------------- MODULE LUContract -----------------------------
(***************************************************************************)
(* Level A (contract) for property C16, on the exact small-integer domain. *)
(* Nothing here mentions elimination, pivots or permutations: singularity  *)
(* is det(A) = 0 (Leibniz formula) and the solution is Cramer's rule, both *)
(* over exact rationals / Gaussian rationals.                              *)
(*                                                                         *)
(* Clauses (obs* = what an implementation returned):                       *)
(*   class        Singular iff A is exactly singular -- required when      *)
(*                every intermediate of the exact elimination is dyadic    *)
(*                (floating point is then exact); when a non-dyadic value  *)
(*                occurs, a nonsingular A must still be accepted, while    *)
(*                for an exactly singular A either class is allowed        *)
(*                (rounding may leave a residue instead of a zero pivot).  *)
(*   solution     Ok and det # 0 => x = A^-1 b: exactly when all           *)
(*                intermediates are dyadic, else within the tolerance the  *)
(*                harness applies to the rational carried by the scenario. *)
(*   multipliers  all stored multipliers have magnitude <= 1.              *)
(*   shape        wrong shapes / pivot length => the corresponding error.  *)
(*   only_b       a solve modifies only b.                                 *)
(***************************************************************************)
EXTENDS LU

(* ---- determinant and Cramer's rule, generic in the field operations ---- *)
Det(a, n, Mul(_, _), Add(_, _), Sub(_, _)) ==
  CASE n = 1 -> a[1][1]
    [] n = 2 -> Sub(Mul(a[1][1], a[2][2]), Mul(a[1][2], a[2][1]))
    [] n = 3 -> Add(Sub(Mul(a[1][1], Sub(Mul(a[2][2], a[3][3]), Mul(a[2][3], a[3][2]))),
                        Mul(a[1][2], Sub(Mul(a[2][1], a[3][3]), Mul(a[2][3], a[3][1])))),
                    Mul(a[1][3], Sub(Mul(a[2][1], a[3][2]), Mul(a[2][2], a[3][1]))))

ReplaceCol(a, n, c, b) == [i \in 1..n |-> [j \in 1..n |-> IF j = c THEN b[i] ELSE a[i][j]]]

RDet(a, n) == Det(a, n, RMul, RAdd, RSub)
CSub(z, w) == CAdd(z, CNeg(w))
CDet(a, n) == Det(a, n, CMul, CAdd, CSub)
\* mathematically exact complex division (independent of the coded formula's shape)
CDivExact(z, w) == LET d == RAdd(RMul(w[1], w[1]), RMul(w[2], w[2]))
                   IN <<RDiv(RAdd(RMul(z[1], w[1]), RMul(z[2], w[2])), d), RDiv(RSub(RMul(z[2], w[1]), RMul(z[1], w[2])), d)>>

\* A: n x n integers, b: n integers
RealSingular(A, n) == RIsZero(RDet(RatMat(A), n))
RealSolution(A, n, b) ==
  LET a == RatMat(A)
      rb == [i \in 1..n |-> RInt(b[i])]
      d == RDet(a, n)
  IN [c \in 1..n |-> RDiv(RDet(ReplaceCol(a, n, c, rb), n), d)]

\* AR, AI: n x n integers; b: n pairs <<re, im>> of integers
ComplexSingular(AR, AI, n) == CIsZero(CDet(CMat(AR, AI), n))
ComplexSolution(AR, AI, n, b) ==
  LET a == CMat(AR, AI)
      cb == [i \in 1..n |-> CInt(b[i][1], b[i][2])]
      d == CDet(a, n)
  IN [c \in 1..n |-> CDivExact(CDet(ReplaceCol(a, n, c, cb), n), d)]

(* ---- clauses ------------------------------------------------------------ *)
\* obsCls: "ok" | "singular" | anything else (error / panic)
C16_Class(singular, allDyadic, obsCls) ==
  IF allDyadic THEN obsCls = (IF singular THEN "singular" ELSE "ok")
  ELSE IF ~singular THEN obsCls = "ok"
  ELSE obsCls \in {"ok", "singular"}

\* obsExact: the returned vector as exact rationals (only meaningful when every returned value is a small dyadic);
\* obsClose: the harness' verdict "within tolerance of xeUsed"; xeUsed: the rational the harness compared with
C16_Solution(singular, allDyadic, want, obsPanic, obsExact, obsClose, xeUsed) ==
  singular \/ (/\ ~obsPanic
               /\ IF allDyadic THEN obsExact = want ELSE (obsClose /\ xeUsed = want))

C16_Multipliers(obsCls, obsMultOk) == obsCls = "ok" => obsMultOk

C16_Shape(want, obsCls) == want # "proceed" => obsCls = want

C16_OnlyB(obsASame, obsIpSame) == obsASame /\ obsIpSame
=============================================================================

----------------------------- MODULE LUContract -----------------------------
(***************************************************************************)
(* Level A (contract) for property C16, on the exact small-integer domain. *)
(* Singularity is det(A) = 0 (Leibniz / Laplace formula) and the solution  *)
(* is Cramer's rule, both over exact rationals / Gaussian rationals; only  *)
(* the pivot_max clause speaks about elimination (it has to: it is about   *)
(* the pivoting strategy).                                                 *)
(* A scenario may be graded: the matrix handed to the code is D_r A D_c,   *)
(* the right-hand side D_r b (powers of two, see LU.tla); det and Cramer   *)
(* are taken on A and b: D_r A D_c is singular iff A is, and the solution  *)
(* is D_c^-1 A^-1 b.                                                       *)
(*                                                                         *)
(* Clauses (obs* = what an implementation returned):                       *)
(*   class        Singular iff A is exactly singular -- required when      *)
(*                every intermediate of the exact elimination is dyadic    *)
(*                (floating point is then exact); when a non-dyadic value  *)
(*                occurs, a nonsingular A must still be accepted, while    *)
(*                for an exactly singular A either class is allowed        *)
(*                (rounding may leave a residue instead of a zero pivot).  *)
(*   solution     Ok and det # 0 => x = A^-1 b: exactly when all           *)
(*                intermediates are dyadic, else within the tolerance the  *)
(*                harness applies to the rational carried by the scenario. *)
(*   multipliers  all stored multipliers are bounded: magnitude <= 1 (real) *)
(*                or modulus <= sqrt 2 (complex: the pivot is the entry of *)
(*                largest |re|+|im|, and |z| <= |z|_1 <= sqrt 2 |z|).      *)
(*   pivot_max    the row exchanges are partial pivoting: at every stage   *)
(*                the row the implementation reports as pivot row holds an *)
(*                entry of maximal magnitude (|.| real, |re|+|im| complex) *)
(*                in its column of the exactly eliminated matrix, given    *)
(*                the rows it reported before (any maximal row is allowed).*)
(*   shape        wrong shapes / pivot length => the corresponding error.  *)
(*   only_b       a solve modifies only b.                                 *)
(***************************************************************************)
EXTENDS LU

(* ---- determinant and Cramer's rule, generic in the field operations ---- *)
Det(a, n, Mul(_, _), Add(_, _), Sub(_, _)) ==
  CASE n = 1 -> a[1][1]
    [] n = 2 -> Sub(Mul(a[1][1], a[2][2]), Mul(a[1][2], a[2][1]))
    [] n = 3 -> Add(Sub(Mul(a[1][1], Sub(Mul(a[2][2], a[3][3]), Mul(a[2][3], a[3][2]))),
                        Mul(a[1][2], Sub(Mul(a[2][1], a[3][3]), Mul(a[2][3], a[3][1])))),
                    Mul(a[1][3], Sub(Mul(a[2][1], a[3][2]), Mul(a[2][2], a[3][1]))))
    [] n = 4 -> \* Laplace expansion along the first row; Minor(c) = rows 2..4 without column c
                LET Minor(c) == [i \in 1..3 |-> [j \in 1..3 |-> a[i + 1][IF j < c THEN j ELSE j + 1]]]
                    D3(m) == Add(Sub(Mul(m[1][1], Sub(Mul(m[2][2], m[3][3]), Mul(m[2][3], m[3][2]))),
                                     Mul(m[1][2], Sub(Mul(m[2][1], m[3][3]), Mul(m[2][3], m[3][1])))),
                                 Mul(m[1][3], Sub(Mul(m[2][1], m[3][2]), Mul(m[2][2], m[3][1]))))
                IN Sub(Add(Sub(Mul(a[1][1], D3(Minor(1))), Mul(a[1][2], D3(Minor(2)))), Mul(a[1][3], D3(Minor(3)))),
                       Mul(a[1][4], D3(Minor(4))))

ReplaceCol(a, n, c, b) == [i \in 1..n |-> [j \in 1..n |-> IF j = c THEN b[i] ELSE a[i][j]]]

RDet(a, n) == Det(a, n, RMul, RAdd, RSub)
CSub(z, w) == CAdd(z, CNeg(w))
CDet(a, n) == Det(a, n, CMul, CAdd, CSub)
\* mathematically exact complex division (independent of the coded formula's shape)
CDivExact(z, w) == LET d == RAdd(RMul(w[1], w[1]), RMul(w[2], w[2]))
                   IN <<RDiv(RAdd(RMul(z[1], w[1]), RMul(z[2], w[2])), d), RDiv(RSub(RMul(z[2], w[1]), RMul(z[1], w[2])), d)>>

\* A: n x n integers, b: n integers
RealSingular(A, n) == RIsZero(RDet(RatMat(A), n))
RealSolution(A, n, b) ==
  LET a == RatMat(A)
      rb == [i \in 1..n |-> RInt(b[i])]
      d == RDet(a, n)
  IN [c \in 1..n |-> RDiv(RDet(ReplaceCol(a, n, c, rb), n), d)]

\* AR, AI: n x n integers; b: n pairs <<re, im>> of integers
ComplexSingular(AR, AI, n) == CIsZero(CDet(CMat(AR, AI), n))
ComplexSolution(AR, AI, n, b) ==
  LET a == CMat(AR, AI)
      cb == [i \in 1..n |-> CInt(b[i][1], b[i][2])]
      d == CDet(a, n)
  IN [c \in 1..n |-> CDivExact(CDet(ReplaceCol(a, n, c, cb), n), d)]

(* ---- partial pivoting, on the pivot rows an implementation reported ---- *)
\* Exact elimination of A (row exponents rs) following ipObs.  Result: -1 when every reported pivot row holds a
\* maximal entry of its column, else the first stage (0-based) where it does not (or where the reported row is not a
\* row k..n-1).  A slot never written (UNSET) ends the run: that is fine unless the implementation said Ok.
\* A zero pivot in a maximal row means the whole column is zero: the elimination ends there.
RECURSIVE GuidedPiv(_, _, _, _, _, _, _, _)
GuidedPiv(isReal, a, re, lex, n, k, ipObs, obsCls) ==
  IF k >= n - 1 \/ Len(ipObs) < n THEN -1
  ELSE LET m == ipObs[k + 1]
           Mag(i) == IF isReal THEN RAbs(Get(a, i, k)) ELSE CAbs1(Get(a, i, k))
       IN IF m = UNSET THEN (IF obsCls = "ok" THEN k ELSE -1)
          ELSE IF m < k \/ m > n - 1 THEN k
          ELSE IF \E i \in k..n - 1 : ScLt(Mag(m), re[m + 1], Mag(i), re[i + 1]) THEN k
          ELSE LET s == IF isReal THEN DecStageAt(a, re, lex, n, k, m) ELSE CDecStageAt(a, re, lex, n, k, m)
               IN IF s.sing THEN -1 ELSE GuidedPiv(isReal, s.a, s.re, s.lex, n, k + 1, ipObs, obsCls)

RealBadPivotStage(A, n, rs, ipObs, obsCls) == GuidedPiv(TRUE, RatMat(A), rs, ZeroMat(n), n, 0, ipObs, obsCls)
ComplexBadPivotStage(AR, AI, n, rs, ipObs, obsCls) == GuidedPiv(FALSE, CMat(AR, AI), rs, ZeroMat(n), n, 0, ipObs, obsCls)

(* ---- floats as exact values: odd mantissa and binary exponent ----------- *)
\* The harness logs every float v as <<m, e>> with v = m * 2^e, m odd (<<0, 0>> for 0; <<0, 1>> when |m| >= 2^30 or
\* v is not finite).  ME(x, e) is that form of the dyadic rational x times 2^e (<<0, 2>> when x is not dyadic).
RECURSIVE Log2(_)
Log2(d) == IF d = 1 THEN 0 ELSE 1 + Log2(d \div 2)
RECURSIVE StripTwos(_, _)
StripTwos(m, s) == IF m % 2 = 0 THEN StripTwos(m \div 2, s + 1) ELSE <<m, s>>
ME(x, e) == IF x[1] = 0 THEN <<0, 0>>
            ELSE IF ~IsPow2(x[2]) THEN <<0, 2>>
            ELSE LET o == StripTwos(x[1], 0) IN <<o[1], e + o[2] - Log2(x[2])>>
CME(z, e) == <<ME(z[1], e), ME(z[2], e)>>
\* the rational x times 2^e as the triple the scenario carries to the harness
R3(x, e) == <<x[1], x[2], e>>
C3(z, e) == <<R3(z[1], e), R3(z[2], e)>>

(* ---- clauses ------------------------------------------------------------ *)
\* obsCls: "ok" | "singular" | anything else (error / panic)
C16_Class(singular, allDyadic, obsCls) ==
  IF allDyadic THEN obsCls = (IF singular THEN "singular" ELSE "ok")
  ELSE IF ~singular THEN obsCls = "ok"
  ELSE obsCls \in {"ok", "singular"}

\* obsExact: the returned vector as exact rationals (only meaningful when every returned value is a small dyadic);
\* obsClose: the harness' verdict "within tolerance of xeUsed"; xeUsed: the rational the harness compared with
C16_Solution(singular, allDyadic, want, obsPanic, obsExact, obsClose, xeUsed) ==
  singular \/ (/\ ~obsPanic
               /\ IF allDyadic THEN obsExact = want ELSE (obsClose /\ xeUsed = want))

C16_Multipliers(obsCls, obsMultOk) == obsCls = "ok" => obsMultOk

\* badStage: result of Real/ComplexBadPivotStage on the reported pivot rows
C16_PivotMax(badStage) == badStage = -1

C16_Shape(want, obsCls) == want # "proceed" => obsCls = want

C16_OnlyB(obsASame, obsIpSame) == obsASame /\ obsIpSame
=============================================================================

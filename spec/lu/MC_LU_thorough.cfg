\* C16 thorough: all 1x1, 2x2 and 3x3 over -2..2 (1,953,125 3x3 matrices), complex 1x1 and 2x2 over Gaussian integers with parts in -1..1.
\* Replay: all singular matrices; nonsingular ones hash-sampled (1/SwapMod of those needing a row swap, 1/RestMod of the rest).
SPECIFICATION Spec
CONSTANTS
  RealSizes <- MC_RealSizes
  E1 <- MC_E5
  E2 <- MC_E5
  E3 <- MC_E5
  Rhs1 <- MC_Rhs1
  Rhs2 <- MC_Rhs2
  Rhs3 <- MC_Rhs3Thorough
  CSizes <- MC_CSizes
  CParts <- MC_E3
  CRhs1 <- MC_CRhs1
  CRhs2 <- MC_CRhs2
  Shapes = TRUE
  SwapMod = 32
  RestMod = 64
  GModR2 = 1
  GModR3 = 16
  GModC2 = 4
  KC3 = 1500
  GModC3 = 2
  KR4 = 400
  GModR4 = 4
INVARIANTS TypeOK Contract Emit

\* C16 thorough: all 1x1, 2x2 and 3x3 over -2..2 (1,953,125 3x3 matrices), complex 1x1 and 2x2 over Gaussian integers with parts in -1..1.
\* Replay: all singular matrices; nonsingular ones hash-sampled (1/SwapMod of those needing a row swap, 1/RestMod of the rest).
\* Graded (power-of-two scaled) versions: every (matrix, scaling) pair for 1x1 and real 2x2, 1 in 32 for real 3x3 over -1..1, 1 in 8 for
\* complex 2x2; 600 pseudo-random complex 3x3 and 200 real 4x4 matrices, unscaled and with 1 in 4 / 1 in 8 of the scalings; all replayed.
SPECIFICATION Spec
CONSTANTS
  RealSizes <- MC_RealSizes
  E1 <- MC_E5
  E2 <- MC_E5
  E3 <- MC_E5
  Rhs1 <- MC_Rhs1
  Rhs2 <- MC_Rhs2
  Rhs3 <- MC_Rhs3Thorough
  CSizes <- MC_CSizes
  CParts <- MC_E3
  CRhs1 <- MC_CRhs1
  CRhs2 <- MC_CRhs2
  Shapes = TRUE
  SwapMod = 32
  RestMod = 64
  GModR2 = 1
  GModR3 = 32
  GModC2 = 8
  KC3 = 600
  GModC3 = 4
  KR4 = 200
  GModR4 = 8
INVARIANTS TypeOK Contract Emit

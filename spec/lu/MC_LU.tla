-------------------------------- MODULE MC_LU --------------------------------
(***************************************************************************)
(* Exhaustive bounded model for C16.  The scenario (a small integer matrix *)
(* with its right-hand sides, a Gaussian-integer matrix, or a shape /      *)
(* pivot-length case) is chosen in Init; the Next actions run the Level-B  *)
(* elimination (LU.tla) stage by stage over exact rationals, then all the  *)
(* solves stage by stage; at the end of each phase the Level-A clauses of  *)
(* LUContract.tla are evaluated on the Level-B result (`cok` must stay     *)
(* TRUE: Level B => contract).  Finished scenarios print a REPLAY line.    *)
(***************************************************************************)
EXTENDS LUContract, TLC, Json

CONSTANTS RealSizes,     \* subset of 1..3
          E1, E2, E3,    \* entry sets per size
          Rhs1, Rhs2, Rhs3,     \* sequences of integer right-hand sides per size
          CSizes,        \* subset of 1..2 (complex)
          CParts,        \* real / imaginary parts of the Gaussian integers
          CRhs1, CRhs2,  \* sequences of complex right-hand sides
          Shapes,        \* BOOLEAN: include the argument-check scenarios
          SwapMod, RestMod   \* replay sampling of nonsingular matrices with / without a row swap (1 = all)

V4 == <<-1, 0, 1, 2>>
MC_E5 == -2..2
MC_E3 == -1..1
MC_Rhs1 == << <<1>>, <<-1>>, <<2>>, <<0>> >>
MC_Rhs2 == [k \in 1..16 |-> <<V4[((k - 1) \div 4) + 1], V4[((k - 1) % 4) + 1]>>]     \* all of {-1,0,1,2}^2
MC_Rhs3Quick == << <<1, 2, -1>>, <<0, -1, 2>> >>
MC_Rhs3Thorough == << <<1, 2, -1>>, <<0, -1, 2>>, <<2, 0, 1>> >>
MC_CRhs1 == << << <<1, 1>> >>, << <<2, -1>> >>, << <<0, 1>> >> >>
MC_CRhs2 == << << <<1, 0>>, <<0, 1>> >>, << <<1, -1>>, <<2, 1>> >> >>
MC_CSizes == {1, 2}
MC_NoSizes == {}
MC_RealSizes == {1, 2, 3}

VARIABLES sc, pc, d, ss, cok
vars == <<sc, pc, d, ss, cok>>

EntrySet(n) == CASE n = 1 -> E1 [] n = 2 -> E2 [] n = 3 -> E3
RhsOf(n) == CASE n = 1 -> Rhs1 [] n = 2 -> Rhs2 [] n = 3 -> Rhs3
CRhsOf(n) == CASE n = 1 -> CRhs1 [] n = 2 -> CRhs2

Scen(kind, n, A, AI, bs, rows, cols, irows, icols, iplen) ==
  [kind |-> kind, n |-> n, A |-> A, AI |-> AI, bs |-> bs, rows |-> rows, cols |-> cols, irows |-> irows, icols |-> icols,
   iplen |-> iplen]

InitScenario ==
  \/ \E n \in RealSizes \ {3} : \E A \in [1..n -> [1..n -> EntrySet(n)]] :
       sc = Scen("real", n, A, <<>>, RhsOf(n), n, n, n, n, n)
  \/ /\ 3 \in RealSizes              \* row by row: TLC refuses to build sets of more than 10^6 elements
     /\ \E r1 \in [1..3 -> E3] : \E r2 \in [1..3 -> E3] : \E r3 \in [1..3 -> E3] :
          sc = Scen("real", 3, <<r1, r2, r3>>, <<>>, Rhs3, 3, 3, 3, 3, 3)
  \/ \E n \in CSizes : \E AR \in [1..n -> [1..n -> CParts]] : \E AI \in [1..n -> [1..n -> CParts]] :
       sc = Scen("complex", n, AR, AI, CRhsOf(n), n, n, n, n, n)
  \/ /\ Shapes
     /\ \E rows \in 1..3 : \E cols \in 1..3 : \E iplen \in 0..4 :
          sc = Scen("shape_real", rows, <<>>, <<>>, <<>>, rows, cols, rows, cols, iplen)
  \/ /\ Shapes
     /\ \E rows \in 1..2 : \E cols \in 1..2 : \E irows \in 1..2 : \E icols \in 1..2 : \E iplen \in 1..3 :
          sc = Scen("shape_complex", rows, <<>>, <<>>, <<>>, rows, cols, irows, icols, iplen)

IsShape == sc.kind \in {"shape_real", "shape_complex"}
IsReal == sc.kind = "real"
NoDec == [cls |-> "run", a |-> <<>>, ip |-> <<>>, k |-> 0, dy |-> TRUE]

Init ==
  /\ InitScenario
  /\ pc = "dec"
  /\ d = IF sc.kind = "real" THEN DecInit(RatMat(sc.A), sc.n)
         ELSE IF sc.kind = "complex" THEN DecInit(CMat(sc.A, sc.AI), sc.n) ELSE NoDec
  /\ ss = <<>>
  /\ cok = TRUE

WantShape == IF sc.kind = "shape_real" THEN ShapeClass(sc.rows, sc.cols, sc.iplen)
             ELSE CShapeClass(sc.rows, sc.cols, sc.irows, sc.icols, sc.iplen)

Singular == IF IsReal THEN RealSingular(sc.A, sc.n) ELSE ComplexSingular(sc.A, sc.AI, sc.n)
Want(k) == IF IsReal THEN RealSolution(sc.A, sc.n, sc.bs[k]) ELSE ComplexSolution(sc.A, sc.AI, sc.n, sc.bs[k])

\* argument checks: a single step
ShapeAct ==
  /\ pc = "dec" /\ IsShape
  /\ d' = [d EXCEPT !.cls = WantShape]
  /\ pc' = "done"
  /\ UNCHANGED <<sc, ss, cok>>

\* one stage of the factorisation
DecAct ==
  /\ pc = "dec" /\ ~IsShape
  /\ LET d1 == IF IsReal THEN DecStep(d, sc.n) ELSE CDecStep(d, sc.n) IN
       /\ d' = d1
       /\ IF d1.cls = "run" THEN pc' = "dec" /\ UNCHANGED <<ss, cok>>
          ELSE /\ cok' = (cok /\ C16_Class(Singular, TRUE, d1.cls)      \* exact arithmetic: the strict form of the clause
                              /\ C16_Multipliers(d1.cls, IF IsReal THEN MultipliersLeOne(d1.a, sc.n)
                                                                    ELSE CMultipliersLeOne(d1.a, sc.n)))
               /\ IF d1.cls = "ok"
                  THEN /\ pc' = "sol"
                       /\ ss' = [k \in 1..Len(sc.bs) |->
                                   SolInit([i \in 1..sc.n |-> IF IsReal THEN RInt(sc.bs[k][i])
                                                                        ELSE CInt(sc.bs[k][i][1], sc.bs[k][i][2])])]
                  ELSE pc' = "done" /\ UNCHANGED ss
  /\ UNCHANGED sc

\* a whole phase (forward sweep, or back substitution) of one solve: the per-column steps of LU.tla are run until the
\* phase changes -- one TLC state per phase keeps the 2*10^6-matrix model affordable
RECURSIVE SolPhase(_, _, _, _, _)
SolPhase(a, n, ip, s, ph) ==
  IF s.ph # ph THEN s
  ELSE SolPhase(a, n, ip, IF IsReal THEN SolStep(a, n, ip, s) ELSE CSolStep(a, n, ip, s), ph)

\* one phase of every solve.  Only the first n-1 pivots are handed over: lin_solve never reads ip[n-1]
\* (for n = 1 it reads none).
SolAct ==
  /\ pc = "sol"
  /\ LET ipUsed == SubSeq(d.ip, 1, sc.n - 1)
         s1 == [k \in 1..Len(ss) |-> SolPhase(d.a, sc.n, ipUsed, ss[k], ss[k].ph)]
     IN /\ ss' = s1
        /\ IF \A k \in 1..Len(s1) : s1[k].ph = "done"
           THEN /\ pc' = "done"
                /\ cok' = (cok /\ \A k \in 1..Len(s1) :
                                    C16_Solution(Singular, TRUE, Want(k), FALSE, s1[k].b, TRUE, Want(k)))
           ELSE pc' = "sol" /\ UNCHANGED cok
  /\ UNCHANGED <<sc, d>>

Next == ShapeAct \/ DecAct \/ SolAct
Spec == Init /\ [][Next]_vars

Contract == cok

TypeOK == pc \in {"dec", "sol", "done"} /\ d.cls \in {"run", "ok", "singular", "nonsquare", "pivot_size", "proceed"}

(* ---- replay emission ----------------------------------------------------- *)
HasSwap == \E k \in 1..Len(d.ip) : d.ip[k] # UNSET /\ d.ip[k] # k - 1
Hash == LET n == sc.n IN
        IF sc.kind = "real"
        THEN LET RECURSIVE H(_, _)
                 H(x, acc) == IF x > n * n THEN acc
                              ELSE H(x + 1, (acc * 7 + sc.A[((x - 1) \div n) + 1][((x - 1) % n) + 1] + 3) % 10007)
             IN H(1, 0)
        ELSE 0
Sampled ==
  \/ IsShape \/ sc.kind = "complex" \/ sc.n < 3 \/ d.cls = "singular"
  \/ HasSwap /\ Hash % SwapMod = 0
  \/ ~HasSwap /\ Hash % RestMod = 0

Emit ==
  (pc = "done" /\ Sampled) =>
    PrintT(<<"REPLAY", ToJson([sc |-> sc,
        expect |-> [cls |-> d.cls, dec_dyadic |-> d.dy, lu |-> d.a, ip |-> d.ip, swap |-> HasSwap,
                    singular |-> IF IsShape THEN FALSE ELSE Singular,
                    xs |-> [k \in 1..Len(ss) |-> [dyadic |-> d.dy /\ ss[k].dy, x |-> ss[k].b]],
                    xe |-> IF IsShape \/ d.cls # "ok" THEN <<>> ELSE [k \in 1..Len(sc.bs) |-> Want(k)]]])>>)
=============================================================================

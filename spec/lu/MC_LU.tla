-------------------------------- MODULE MC_LU --------------------------------
(***************************************************************************)
(* Exhaustive bounded model for C16.  The scenario (a small integer matrix *)
(* with its right-hand sides, a Gaussian-integer matrix, or a shape /      *)
(* pivot-length case) is chosen in Init; the Next actions run the Level-B  *)
(* elimination (LU.tla) stage by stage over exact rationals, then all the  *)
(* solves stage by stage; at the end of each phase the Level-A clauses of  *)
(* LUContract.tla are evaluated on the Level-B result (`cok` must stay     *)
(* TRUE: Level B => contract).  Finished scenarios print a REPLAY line.    *)
(*                                                                         *)
(* Scenario families (field `fam`):                                        *)
(*   "exh"     every matrix over the entry set, unscaled                   *)
(*   "graded"  the same matrices D_r A D_c with power-of-two row / column  *)
(*             scalings (ScalePairs: all orders of near 1, 1/2, 1/4 and far*)
(*             1, 2^-30, 2^-60 row scales, uniformly tiny, one tiny column *)
(*             in every position, graded columns, and their products);     *)
(*             (matrix, scaling) pairs are hash-sampled 1 in GMod*, the    *)
(*             residue class is chosen by the run's seed (env C16_SEED)    *)
(*   "lcg"     pseudo-random matrices (a linear congruential generator     *)
(*             started from the seed) for the sizes that cannot be         *)
(*             enumerated: complex 3x3 over Gaussian integers with parts   *)
(*             in -1..1 and real 4x4 over -1..1; each unscaled and with    *)
(*             hash-sampled scalings                                       *)
(***************************************************************************)
EXTENDS LUContract, Json, IOUtils, FiniteSets, SequencesExt

CONSTANTS RealSizes,     \* subset of 1..3
          E1, E2, E3,    \* entry sets per size
          Rhs1, Rhs2, Rhs3,     \* sequences of integer right-hand sides per size
          CSizes,        \* subset of 1..2 (complex)
          CParts,        \* real / imaginary parts of the Gaussian integers
          CRhs1, CRhs2,  \* sequences of complex right-hand sides
          Shapes,        \* BOOLEAN: include the argument-check scenarios
          SwapMod, RestMod,  \* replay sampling of nonsingular matrices with / without a row swap (1 = all)
          GModR2, GModR3, GModC2,   \* graded families: 1 in GMod* of the (matrix, scaling) pairs (real 2x2, 3x3; complex 2x2)
          KC3, GModC3,       \* number of pseudo-random complex 3x3 matrices; 1 in GModC3 of their scalings
          KR4, GModR4        \* number of pseudo-random real 4x4 matrices; 1 in GModR4 of their scalings

V4 == <<-1, 0, 1, 2>>
MC_E5 == -2..2
MC_E3 == -1..1
MC_Rhs1 == << <<1>>, <<-1>>, <<2>>, <<0>> >>
MC_Rhs2 == [k \in 1..16 |-> <<V4[((k - 1) \div 4) + 1], V4[((k - 1) % 4) + 1]>>]     \* all of {-1,0,1,2}^2
MC_Rhs3Quick == << <<1, 2, -1>>, <<0, -1, 2>> >>
MC_Rhs3Thorough == << <<1, 2, -1>>, <<0, -1, 2>>, <<2, 0, 1>> >>
MC_CRhs1 == << << <<1, 1>> >>, << <<2, -1>> >>, << <<0, 1>> >> >>
MC_CRhs2 == << << <<1, 0>>, <<0, 1>> >>, << <<1, -1>>, <<2, 1>> >> >>
CRhs3 == << << <<1, 0>>, <<0, 1>>, <<1, 1>> >>, << <<1, -1>>, <<2, 1>>, <<0, -1>> >> >>
Rhs4 == << <<1, 2, -1, 0>>, <<0, -1, 2, 1>> >>
Seed == IF "C16_SEED" \in DOMAIN IOEnv THEN atoi(IOEnv.C16_SEED) ELSE 1
MC_CSizes == {1, 2}
MC_NoSizes == {}
MC_RealSizes == {1, 2, 3}

VARIABLES sc, pc, d, ss, cok
vars == <<sc, pc, d, ss, cok>>

EntrySet(n) == CASE n = 1 -> E1 [] n = 2 -> E2 [] n = 3 -> E3
RhsOf(n) == CASE n = 1 -> Rhs1 [] n = 2 -> Rhs2 [] n = 3 -> Rhs3
CRhsOf(n) == CASE n = 1 -> CRhs1 [] n = 2 -> CRhs2

\* the matrix handed to the code is A[i][j] * 2^(rs[i] + cs[j]) (complex: AR + i AI likewise), the right-hand side
\* bs[k][i] * 2^rs[i]
Scen(fam, kind, n, A, AI, bs, rs, cs, rows, cols, irows, icols, iplen) ==
  [fam |-> fam, kind |-> kind, n |-> n, A |-> A, AI |-> AI, bs |-> bs, rs |-> rs, cs |-> cs,
   rows |-> rows, cols |-> cols, irows |-> irows, icols |-> icols, iplen |-> iplen]
Plain(kind, n, A, AI, bs) == Scen("exh", kind, n, A, AI, bs, ZeroVec(n), ZeroVec(n), n, n, n, n, n)

(* ---- power-of-two scalings ------------------------------------------------ *)
Perms(n) == {p \in [1..n -> 1..n] : \A i, j \in 1..n : p[i] = p[j] => i = j}
RowScales(n) == {[i \in 1..n |-> -(p[i] - 1)] : p \in Perms(n)}             \* 1, 1/2, 1/4, .. in every order
                \cup {[i \in 1..n |-> -30 * (p[i] - 1)] : p \in Perms(n)}   \* 1, 2^-30, 2^-60, .. in every order
                \cup {[i \in 1..n |-> -60], ZeroVec(n)}
ColScales(n) == {[j \in 1..n |-> IF j = p THEN -60 ELSE 0] : p \in 1..n}     \* one tiny column: a tiny pivot in position p
                \cup {[j \in 1..n |-> -(j - 1)], [j \in 1..n |-> -(n - j)], ZeroVec(n)}
PairSeq(n) == SetToSeq({<<rs, cs>> : rs \in RowScales(n), cs \in ColScales(n)} \ {<<ZeroVec(n), ZeroVec(n)>>})
Pairs1 == PairSeq(1)
Pairs2 == PairSeq(2)
Pairs3 == PairSeq(3)
Pairs4 == PairSeq(4)
PairsOf(n) == CASE n = 1 -> Pairs1 [] n = 2 -> Pairs2 [] n = 3 -> Pairs3 [] n = 4 -> Pairs4
\* indices p of PairsOf(n) with (h + p) % md = Seed % md (every index when md = 1)
SelIdx(h, n, md) ==
  LET L == Len(PairsOf(n))
      p0 == ((Seed % md) + md - (h % md)) % md
  IN {p0 + t * md : t \in 0..(L \div md)} \cap 1..L

HashR(A, n) == LET RECURSIVE H(_, _)
                   H(x, acc) == IF x > n * n THEN acc
                                ELSE H(x + 1, (acc * 7 + A[((x - 1) \div n) + 1][((x - 1) % n) + 1] + 3) % 10007)
               IN H(1, 0)
HashC(AR, AI, n) == (HashR(AR, n) * 31 + HashR(AI, n)) % 10007

(* ---- pseudo-random matrices ---------------------------------------------- *)
LcgNext(x) == (x * 1103 + 12347) % 32749
RECURSIVE LcgSeq(_, _)
LcgSeq(x, c) == IF c = 0 THEN <<>> ELSE <<LcgNext(x)>> \o LcgSeq(LcgNext(x), c - 1)
LcgStart(t, salt) == ((Seed % 997) * 7919 + t * 3571 + salt) % 32749
LcgReal(t, n) == LET v == LcgSeq(LcgStart(t, 101), n * n)
                 IN [i \in 1..n |-> [j \in 1..n |-> ((v[(i - 1) * n + j] \div 8) % 3) - 1]]
LcgImag(t, n) == LET v == LcgSeq(LcgStart(t, 101), n * n)
                 IN [i \in 1..n |-> [j \in 1..n |-> ((v[(i - 1) * n + j] \div 24) % 3) - 1]]

Graded(fam, kind, n, A, AI, bs, p) ==
  Scen(fam, kind, n, A, AI, bs, PairsOf(n)[p][1], PairsOf(n)[p][2], n, n, n, n, n)

InitScenario ==
  \/ \E n \in RealSizes \ {3} : \E A \in [1..n -> [1..n -> EntrySet(n)]] :
       \/ sc = Plain("real", n, A, <<>>, RhsOf(n))
       \/ \E p \in SelIdx(HashR(A, n), n, IF n = 1 THEN 1 ELSE GModR2) : sc = Graded("graded", "real", n, A, <<>>, RhsOf(n), p)
  \/ /\ 3 \in RealSizes              \* row by row: TLC refuses to build sets of more than 10^6 elements
     /\ \E r1 \in [1..3 -> E3] : \E r2 \in [1..3 -> E3] : \E r3 \in [1..3 -> E3] :
          sc = Plain("real", 3, <<r1, r2, r3>>, <<>>, Rhs3)
  \/ /\ 3 \in RealSizes              \* graded 3x3: always over -1..1
     /\ \E r1 \in [1..3 -> MC_E3] : \E r2 \in [1..3 -> MC_E3] : \E r3 \in [1..3 -> MC_E3] :
          \E p \in SelIdx(HashR(<<r1, r2, r3>>, 3), 3, GModR3) : sc = Graded("graded", "real", 3, <<r1, r2, r3>>, <<>>, Rhs3, p)
  \/ \E n \in CSizes : \E AR \in [1..n -> [1..n -> CParts]] : \E AI \in [1..n -> [1..n -> CParts]] :
       \/ sc = Plain("complex", n, AR, AI, CRhsOf(n))
       \/ \E p \in SelIdx(HashC(AR, AI, n), n, IF n = 1 THEN 1 ELSE GModC2) :
            sc = Graded("graded", "complex", n, AR, AI, CRhsOf(n), p)
  \/ \E t \in 1..KC3 :
       \/ sc = Scen("lcg", "complex", 3, LcgReal(t, 3), LcgImag(t, 3), CRhs3, ZeroVec(3), ZeroVec(3), 3, 3, 3, 3, 3)
       \/ \E p \in SelIdx(t, 3, GModC3) : sc = Graded("lcg", "complex", 3, LcgReal(t, 3), LcgImag(t, 3), CRhs3, p)
  \/ \E t \in 1..KR4 :
       \/ sc = Scen("lcg", "real", 4, LcgReal(t, 4), <<>>, Rhs4, ZeroVec(4), ZeroVec(4), 4, 4, 4, 4, 4)
       \/ \E p \in SelIdx(t, 4, GModR4) : sc = Graded("lcg", "real", 4, LcgReal(t, 4), <<>>, Rhs4, p)
  \/ /\ Shapes
     /\ \E rows \in 1..3 : \E cols \in 1..3 : \E iplen \in 0..4 :
          sc = Scen("exh", "shape_real", rows, <<>>, <<>>, <<>>, <<>>, <<>>, rows, cols, rows, cols, iplen)
  \/ /\ Shapes
     /\ \E rows \in 1..2 : \E cols \in 1..2 : \E irows \in 1..2 : \E icols \in 1..2 : \E iplen \in 1..3 :
          sc = Scen("exh", "shape_complex", rows, <<>>, <<>>, <<>>, <<>>, <<>>, rows, cols, irows, icols, iplen)

IsShape == sc.kind \in {"shape_real", "shape_complex"}
IsReal == sc.kind = "real"
NoDec == [cls |-> "run", a |-> <<>>, ip |-> <<>>, k |-> 0, dy |-> TRUE, re |-> <<>>, lex |-> <<>>]

Init ==
  /\ InitScenario
  /\ pc = "dec"
  /\ d = IF sc.kind = "real" THEN DecInit(RatMat(sc.A), sc.n, sc.rs)
         ELSE IF sc.kind = "complex" THEN DecInit(CMat(sc.A, sc.AI), sc.n, sc.rs) ELSE NoDec
  /\ ss = <<>>
  /\ cok = TRUE

WantShape == IF sc.kind = "shape_real" THEN ShapeClass(sc.rows, sc.cols, sc.iplen)
             ELSE CShapeClass(sc.rows, sc.cols, sc.irows, sc.icols, sc.iplen)

Singular == IF IsReal THEN RealSingular(sc.A, sc.n) ELSE ComplexSingular(sc.A, sc.AI, sc.n)
Want(k) == IF IsReal THEN RealSolution(sc.A, sc.n, sc.bs[k]) ELSE ComplexSolution(sc.A, sc.AI, sc.n, sc.bs[k])

\* argument checks: a single step
ShapeAct ==
  /\ pc = "dec" /\ IsShape
  /\ d' = [d EXCEPT !.cls = WantShape]
  /\ pc' = "done"
  /\ UNCHANGED <<sc, ss, cok>>

\* one stage of the factorisation
DecAct ==
  /\ pc = "dec" /\ ~IsShape
  \* (d' instead of a LET: TLC evaluates a LET definition again in every conjunct of an action that uses it)
  /\ d' = IF IsReal THEN DecStep(d, sc.n) ELSE CDecStep(d, sc.n)
  /\ IF d'.cls = "run" THEN pc' = "dec" /\ UNCHANGED <<ss, cok>>
     ELSE /\ cok' = (cok /\ C16_Class(Singular, TRUE, d'.cls)      \* exact arithmetic: the strict form of the clause
                         /\ C16_Multipliers(d'.cls, IF IsReal THEN MultipliersLeOne(d', sc.n)
                                                               ELSE CMultipliersBounded(d', sc.n))
                         /\ C16_PivotMax(IF IsReal THEN RealBadPivotStage(sc.A, sc.n, sc.rs, d'.ip, d'.cls)
                                         ELSE ComplexBadPivotStage(sc.A, sc.AI, sc.n, sc.rs, d'.ip, d'.cls)))
          /\ IF d'.cls = "ok"
             THEN /\ pc' = "sol"
                  /\ ss' = [k \in 1..Len(sc.bs) |->
                              SolInit([i \in 1..sc.n |-> IF IsReal THEN RInt(sc.bs[k][i])
                                                                   ELSE CInt(sc.bs[k][i][1], sc.bs[k][i][2])])]
             ELSE pc' = "done" /\ UNCHANGED ss
  /\ UNCHANGED sc

\* a whole phase (forward sweep, or back substitution) of one solve: the per-column steps of LU.tla are run until the
\* phase changes -- one TLC state per phase keeps the 2*10^6-matrix model affordable
RECURSIVE SolPhase(_, _, _, _, _)
SolPhase(a, n, ip, s, ph) ==
  IF s.ph # ph THEN s
  ELSE SolPhase(a, n, ip, IF IsReal THEN SolStep(a, n, ip, s) ELSE CSolStep(a, n, ip, s), ph)

\* one phase of every solve.  Only the first n-1 pivots are handed over: lin_solve never reads ip[n-1]
\* (for n = 1 it reads none).
SolAct ==
  /\ pc = "sol"
  /\ ss' = [k \in 1..Len(ss) |-> SolPhase(d.a, sc.n, SubSeq(d.ip, 1, sc.n - 1), ss[k], ss[k].ph)]
  /\ IF \A k \in 1..Len(ss') : ss'[k].ph = "done"
     THEN /\ pc' = "done"
          /\ cok' = (cok /\ \A k \in 1..Len(ss') :
                              LET w == Want(k) IN C16_Solution(Singular, TRUE, w, FALSE, ss'[k].b, TRUE, w))
     ELSE pc' = "sol" /\ UNCHANGED cok
  /\ UNCHANGED <<sc, d>>

Next == ShapeAct \/ DecAct \/ SolAct
Spec == Init /\ [][Next]_vars

Contract == cok

TypeOK == pc \in {"dec", "sol", "done"} /\ d.cls \in {"run", "ok", "singular", "nonsquare", "pivot_size", "proceed"}

(* ---- replay emission ----------------------------------------------------- *)
HasSwap == \E k \in 1..Len(d.ip) : d.ip[k] # UNSET /\ d.ip[k] # k - 1
Hash == IF sc.kind = "real" THEN HashR(sc.A, sc.n) ELSE 0
Sampled ==
  \/ IsShape \/ sc.kind = "complex" \/ sc.n < 3 \/ d.cls = "singular" \/ sc.fam # "exh"
  \/ HasSwap /\ Hash % SwapMod = 0
  \/ ~HasSwap /\ Hash % RestMod = 0

Emit ==
  (pc = "done" /\ Sampled) =>
    PrintT(<<"REPLAY", ToJson([sc |-> sc,
        expect |-> [cls |-> d.cls, dec_dyadic |-> d.dy, ip |-> d.ip, swap |-> HasSwap,
                    \* every expected number is a triple <<num, den, e>>: the rational times 2^e
                    lu |-> IF IsShape THEN <<>>
                           ELSE LET ex == FacExp(d, sc.cs, sc.n)
                                IN [i \in 1..sc.n |-> [j \in 1..sc.n |->
                                      IF IsReal THEN R3(d.a[i][j], ex[i][j]) ELSE C3(d.a[i][j], ex[i][j])]],
                    singular |-> IF IsShape THEN FALSE ELSE Singular,
                    xs |-> [k \in 1..Len(ss) |-> [dyadic |-> d.dy /\ ss[k].dy, x |-> ss[k].b]],
                    xe |-> IF IsShape \/ d.cls # "ok" THEN <<>>
                           ELSE [k \in 1..Len(sc.bs) |-> [j \in 1..sc.n |->
                                   IF IsReal THEN R3(Want(k)[j], -sc.cs[j]) ELSE C3(Want(k)[j], -sc.cs[j])]]]])>>)
=============================================================================

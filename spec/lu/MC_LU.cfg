\* C16 quick: all 1x1 and 2x2 over -2..2, all 3x3 over {-1,0,1}, complex 1x1 and 2x2 over Gaussian integers with parts in -1..1;
\* graded (power-of-two scaled) versions of them: every (matrix, scaling) pair for 1x1, 1 in 8 for real 2x2, 1 in 256 for real 3x3,
\* 1 in 64 for complex 2x2; 150 pseudo-random complex 3x3 and 60 real 4x4 matrices, unscaled and with 1 in 4 / 1 in 16 of the scalings
SPECIFICATION Spec
CONSTANTS
  RealSizes <- MC_RealSizes
  E1 <- MC_E5
  E2 <- MC_E5
  E3 <- MC_E3
  Rhs1 <- MC_Rhs1
  Rhs2 <- MC_Rhs2
  Rhs3 <- MC_Rhs3Quick
  CSizes <- MC_CSizes
  CParts <- MC_E3
  CRhs1 <- MC_CRhs1
  CRhs2 <- MC_CRhs2
  Shapes = TRUE
  SwapMod = 1
  RestMod = 1
  GModR2 = 8
  GModR3 = 256
  GModC2 = 64
  KC3 = 150
  GModC3 = 4
  KR4 = 60
  GModR4 = 16
INVARIANTS TypeOK Contract Emit

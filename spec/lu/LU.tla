--------------------------------- MODULE LU ---------------------------------
(***************************************************************************)
(* Level B: lu_decomp / lin_solve (Hairer's DEC / SOL) and                 *)
(* lu_decomp_complex / lin_solve_complex (DECC / SOLC) transcribed from    *)
(* /repo/src/matrix/lu.rs and linear.rs over EXACT rationals.              *)
(*                                                                         *)
(* A rational is a gcd-normalised pair <<num, den>> with den > 0.          *)
(* A complex number is a pair <<re, im>> of rationals.                     *)
(* A matrix is an n x n sequence of sequences; code indices are 0-based,   *)
(* Get(a, i, j) == a[i+1][j+1].                                            *)
(*                                                                         *)
(* The elimination is split into the stages the code runs through          *)
(* (one per column k, then the final diagonal test; the forward sweep per  *)
(* column and the back substitution per column of the solve), so that the  *)
(* model checker and the trace specification use the same operators.       *)
(* `dy` flags record whether every intermediate value of a stage is a      *)
(* dyadic rational: then binary floating point computes it exactly.        *)
(***************************************************************************)
EXTENDS Integers, Sequences

Abs(x) == IF x < 0 THEN -x ELSE x
RECURSIVE GCD(_, _)
GCD(a, b) == IF b = 0 THEN a ELSE GCD(b, a % b)
Norm(n, d) == LET g == GCD(Abs(n), Abs(d))
              IN IF d < 0 THEN <<(-n) \div g, (-d) \div g>> ELSE <<n \div g, d \div g>>

RInt(i) == <<i, 1>>
RZero == <<0, 1>>
RAdd(x, y) == IF x[2] = y[2] THEN Norm(x[1] + y[1], x[2]) ELSE Norm(x[1] * y[2] + y[1] * x[2], x[2] * y[2])
RNeg(x) == <<-x[1], x[2]>>
RSub(x, y) == RAdd(x, RNeg(y))
RMul(x, y) == Norm(x[1] * y[1], x[2] * y[2])
RInv(x) == Norm(x[2], x[1])                       \* x # 0
RDiv(x, y) == Norm(x[1] * y[2], x[2] * y[1])      \* y # 0
RAbs(x) == <<Abs(x[1]), x[2]>>
RLt(x, y) == x[1] * y[2] < y[1] * x[2]
RIsZero(x) == x[1] = 0
RLeOne(x) == Abs(x[1]) <= x[2]
RECURSIVE IsPow2(_)
IsPow2(d) == d = 1 \/ (d % 2 = 0 /\ IsPow2(d \div 2))
Dyadic(x) == IsPow2(x[2])

Get(a, i, j) == a[i + 1][j + 1]
UNSET == -1                                        \* pivot slot never written
RatMat(A) == [i \in 1..Len(A) |-> [j \in 1..Len(A) |-> RInt(A[i][j])]]
AllDyadicVec(b) == \A i \in 1..Len(b) : Dyadic(b[i])

(* ============================== real: lu_decomp ========================= *)
\* pivot search: m = k; for i in k+1..n: if |a[i,k]| > |a[m,k]| then m = i   (strict: first maximum wins)
RECURSIVE PivSearch(_, _, _, _, _)
PivSearch(a, n, k, i, m) ==
  IF i >= n THEN m
  ELSE PivSearch(a, n, k, i + 1, IF RLt(RAbs(Get(a, m, k)), RAbs(Get(a, i, k))) THEN i ELSE m)

\* one pass of the "for k in 0..n-1" loop body
DecStage(a, n, k) ==
  LET m == PivSearch(a, n, k, k + 1, k)
      pivot == Get(a, m, k)
  IN IF RIsZero(pivot) THEN [sing |-> TRUE, a |-> a, m |-> m, dy |-> TRUE]
     ELSE LET t == RInv(pivot)
              \* entry (i,j), j >= k, after exchanging rows m and k (the code swaps column k first, the others inside the j loop)
              Sw(i, j) == IF i = m THEN Get(a, k, j) ELSE IF i = k THEN Get(a, m, j) ELSE Get(a, i, j)
              Mult(i) == RMul(RNeg(Sw(i, k)), t)                  \* a[(i,k)] = -a[(i,k)] * t
              new == [i1 \in 1..n |-> [j1 \in 1..n |->
                        LET i == i1 - 1
                            j == j1 - 1
                        IN IF j < k THEN Get(a, i, j)             \* earlier columns are not permuted (deferred swaps)
                           ELSE IF j = k THEN (IF i > k THEN Mult(i) ELSE Sw(i, k))
                           ELSE IF i > k THEN RAdd(Sw(i, j), RMul(Mult(i), Get(a, m, j)))   \* a[(i,j)] += a[(i,k)] * tj, tj = original a[(m,j)]
                           ELSE Sw(i, j)]]
          IN [sing |-> FALSE, a |-> new, m |-> m, dy |-> Dyadic(t)]

\* result record of a (partial) decomposition
DecInit(a, n) == [cls |-> "run", a |-> a, ip |-> [x \in 1..n |-> UNSET], k |-> 0, dy |-> TRUE]

\* one step of lu_decomp from state d (cls = "run")
DecStep(d, n) ==
  IF n = 1
  THEN IF RIsZero(Get(d.a, 0, 0)) THEN [d EXCEPT !.cls = "singular"]
       ELSE [d EXCEPT !.cls = "ok", !.ip = <<0>>]
  ELSE IF d.k < n - 1
  THEN LET s == DecStage(d.a, n, d.k)
       IN IF s.sing THEN [d EXCEPT !.cls = "singular", !.ip[d.k + 1] = s.m]
          ELSE [d EXCEPT !.a = s.a, !.ip[d.k + 1] = s.m, !.k = d.k + 1, !.dy = d.dy /\ s.dy]
  ELSE \* final diagonal test
       IF RIsZero(Get(d.a, n - 1, n - 1)) THEN [d EXCEPT !.cls = "singular"] ELSE [d EXCEPT !.cls = "ok"]

RECURSIVE DecRun(_, _)
DecRun(d, n) == IF d.cls # "run" THEN d ELSE DecRun(DecStep(d, n), n)
Dec(A, n) == DecRun(DecInit(RatMat(A), n), n)

(* ============================== real: lin_solve ========================= *)
\* forward sweep for column k: swap b[ip[k]], b[k]; b[i] += a[(i,k)] * b[k] for i > k.   Reads ip[k] only for k < n-1.
SolFwd(a, n, ip, b, k) ==
  LET m == ip[k + 1]
      b1 == [i1 \in 1..n |-> IF i1 - 1 = m THEN b[k + 1] ELSE IF i1 - 1 = k THEN b[m + 1] ELSE b[i1]]
  IN [i1 \in 1..n |-> IF i1 - 1 > k THEN RAdd(b1[i1], RMul(Get(a, i1 - 1, k), b1[k + 1])) ELSE b1[i1]]

\* back substitution for column k (k = n-1 down to 1): b[k] /= a[(k,k)]; b[i] += a[(i,k)] * -b[k] for i < k
SolBack(a, n, b, k) ==
  LET bk == RDiv(b[k + 1], Get(a, k, k))
  IN [i1 \in 1..n |-> IF i1 - 1 = k THEN bk
                      ELSE IF i1 - 1 < k THEN RAdd(b[i1], RMul(Get(a, i1 - 1, k), RNeg(bk))) ELSE b[i1]]

\* solve state: [b, k, ph ("fwd" | "back" | "done"), dy]
SolInit(b) == [b |-> b, k |-> 0, ph |-> "fwd", dy |-> TRUE]
SolStep(a, n, ip, s) ==
  IF n = 1 THEN LET b1 == <<RDiv(s.b[1], Get(a, 0, 0))>> IN [s EXCEPT !.b = b1, !.ph = "done", !.dy = AllDyadicVec(b1)]
  ELSE IF s.ph = "fwd"
  THEN LET b1 == SolFwd(a, n, ip, s.b, s.k)
       IN [s EXCEPT !.b = b1, !.dy = s.dy /\ AllDyadicVec(b1),
                    !.k = IF s.k + 1 < n - 1 THEN s.k + 1 ELSE n - 1,
                    !.ph = IF s.k + 1 < n - 1 THEN "fwd" ELSE "back"]
  ELSE IF s.k >= 1
  THEN LET b1 == SolBack(a, n, s.b, s.k)
       IN [s EXCEPT !.b = b1, !.dy = s.dy /\ AllDyadicVec(b1), !.k = s.k - 1]
  ELSE LET b1 == [s.b EXCEPT ![1] = RDiv(s.b[1], Get(a, 0, 0))]
       IN [s EXCEPT !.b = b1, !.dy = s.dy /\ AllDyadicVec(b1), !.ph = "done"]

RECURSIVE SolRun(_, _, _, _)
SolRun(a, n, ip, s) == IF s.ph = "done" THEN s ELSE SolRun(a, n, ip, SolStep(a, n, ip, s))
\* b: vector of integers
Sol(a, n, ip, b) == SolRun(a, n, ip, SolInit([i \in 1..n |-> RInt(b[i])]))

MultipliersLeOne(a, n) == \A i \in 0..n - 1 : \A k \in 0..n - 1 : i > k => RLeOne(Get(a, i, k))

(* ============================== complex ================================= *)
CZero == <<RZero, RZero>>
CInt(re, im) == <<RInt(re), RInt(im)>>
CAdd(z, w) == <<RAdd(z[1], w[1]), RAdd(z[2], w[2])>>
CNeg(z) == <<RNeg(z[1]), RNeg(z[2])>>
\* prod_r = zr*wr - zi*wi ; prod_i = zi*wr + zr*wi
CMul(z, w) == <<RSub(RMul(z[1], w[1]), RMul(z[2], w[2])), RAdd(RMul(z[2], w[1]), RMul(z[1], w[2]))>>
CAbs1(z) == RAdd(RAbs(z[1]), RAbs(z[2]))                      \* |re| + |im|, the magnitude DECC pivots on
CIsZero(z) == RIsZero(z[1]) /\ RIsZero(z[2])
\* reciprocal as coded: den = tr*tr + ti*ti; (tr/den, -ti/den)
CDen(z) == RAdd(RMul(z[1], z[1]), RMul(z[2], z[2]))
CRecip(z) == <<RDiv(z[1], CDen(z)), RDiv(RNeg(z[2]), CDen(z))>>
\* division as coded in SOLC: ((br*ar + bi*ai)/den, (bi*ar - br*ai)/den)
CDivCoded(b, a) == <<RDiv(RAdd(RMul(b[1], a[1]), RMul(b[2], a[2])), CDen(a)),
                     RDiv(RSub(RMul(b[2], a[1]), RMul(b[1], a[2])), CDen(a))>>
CDyadic(z) == Dyadic(z[1]) /\ Dyadic(z[2])
CModLeOne(z) == LET q == CDen(z) IN q[1] <= q[2]               \* re^2 + im^2 <= 1
CMat(AR, AI) == [i \in 1..Len(AR) |-> [j \in 1..Len(AR) |-> CInt(AR[i][j], AI[i][j])]]
AllCDyadicVec(b) == \A i \in 1..Len(b) : CDyadic(b[i])

RECURSIVE CPivSearch(_, _, _, _, _)
CPivSearch(a, n, k, i, m) ==
  IF i >= n THEN m
  ELSE CPivSearch(a, n, k, i + 1, IF RLt(CAbs1(Get(a, m, k)), CAbs1(Get(a, i, k))) THEN i ELSE m)

CDecStage(a, n, k) ==
  LET m == CPivSearch(a, n, k, k + 1, k)
      pivot == Get(a, m, k)
  IN IF CIsZero(pivot) THEN [sing |-> TRUE, a |-> a, m |-> m, dy |-> TRUE]
     ELSE LET t == CRecip(pivot)
              Sw(i, j) == IF i = m THEN Get(a, k, j) ELSE IF i = k THEN Get(a, m, j) ELSE Get(a, i, j)
              Mult(i) == CNeg(CMul(Sw(i, k), t))                  \* (ar,ai)[(i,k)] = -( a[(i,k)] * t )
              \* the three multiplier branches (real / imaginary / general) compute the same product
              new == [i1 \in 1..n |-> [j1 \in 1..n |->
                        LET i == i1 - 1
                            j == j1 - 1
                        IN IF j < k THEN Get(a, i, j)
                           ELSE IF j = k THEN (IF i > k THEN Mult(i) ELSE Sw(i, k))
                           ELSE IF i > k THEN CAdd(Sw(i, j), CMul(Mult(i), Get(a, m, j)))
                           ELSE Sw(i, j)]]
          IN [sing |-> FALSE, a |-> new, m |-> m, dy |-> Dyadic(CDen(pivot)) /\ CDyadic(t)]

CDecStep(d, n) ==
  IF n = 1
  THEN IF CIsZero(Get(d.a, 0, 0)) THEN [d EXCEPT !.cls = "singular"]
       ELSE [d EXCEPT !.cls = "ok", !.ip = <<0>>]
  ELSE IF d.k < n - 1
  THEN LET s == CDecStage(d.a, n, d.k)
       IN IF s.sing THEN [d EXCEPT !.cls = "singular", !.ip[d.k + 1] = s.m]
          ELSE [d EXCEPT !.a = s.a, !.ip[d.k + 1] = s.m, !.k = d.k + 1, !.dy = d.dy /\ s.dy]
  ELSE IF CIsZero(Get(d.a, n - 1, n - 1)) THEN [d EXCEPT !.cls = "singular"] ELSE [d EXCEPT !.cls = "ok"]

RECURSIVE CDecRun(_, _)
CDecRun(d, n) == IF d.cls # "run" THEN d ELSE CDecRun(CDecStep(d, n), n)
CDec(AR, AI, n) == CDecRun(DecInit(CMat(AR, AI), n), n)

CSolFwd(a, n, ip, b, k) ==
  LET m == ip[k + 1]
      b1 == [i1 \in 1..n |-> IF i1 - 1 = m THEN b[k + 1] ELSE IF i1 - 1 = k THEN b[m + 1] ELSE b[i1]]
  IN [i1 \in 1..n |-> IF i1 - 1 > k THEN CAdd(b1[i1], CMul(Get(a, i1 - 1, k), b1[k + 1])) ELSE b1[i1]]

CSolBack(a, n, b, k) ==
  LET bk == CDivCoded(b[k + 1], Get(a, k, k))
  IN [i1 \in 1..n |-> IF i1 - 1 = k THEN bk
                      ELSE IF i1 - 1 < k THEN CAdd(b[i1], CMul(Get(a, i1 - 1, k), CNeg(bk))) ELSE b[i1]]

CSolStep(a, n, ip, s) ==
  IF n = 1 THEN LET b1 == <<CDivCoded(s.b[1], Get(a, 0, 0))>> IN [s EXCEPT !.b = b1, !.ph = "done", !.dy = AllCDyadicVec(b1)]
  ELSE IF s.ph = "fwd"
  THEN LET b1 == CSolFwd(a, n, ip, s.b, s.k)
       IN [s EXCEPT !.b = b1, !.dy = s.dy /\ AllCDyadicVec(b1),
                    !.k = IF s.k + 1 < n - 1 THEN s.k + 1 ELSE n - 1,
                    !.ph = IF s.k + 1 < n - 1 THEN "fwd" ELSE "back"]
  ELSE IF s.k >= 1
  THEN LET b1 == CSolBack(a, n, s.b, s.k)
       IN [s EXCEPT !.b = b1, !.dy = s.dy /\ AllCDyadicVec(b1), !.k = s.k - 1]
  ELSE LET b1 == [s.b EXCEPT ![1] = CDivCoded(s.b[1], Get(a, 0, 0))]
       IN [s EXCEPT !.b = b1, !.dy = s.dy /\ AllCDyadicVec(b1), !.ph = "done"]

RECURSIVE CSolRun(_, _, _, _)
CSolRun(a, n, ip, s) == IF s.ph = "done" THEN s ELSE CSolRun(a, n, ip, CSolStep(a, n, ip, s))
\* b: vector of <<re, im>> integer pairs
CSol(a, n, ip, b) == CSolRun(a, n, ip, SolInit([i \in 1..n |-> CInt(b[i][1], b[i][2])]))

CMultipliersLeOne(a, n) == \A i \in 0..n - 1 : \A k \in 0..n - 1 : i > k => CModLeOne(Get(a, i, k))

(* ============================== argument checks ========================= *)
\* lu_decomp: n != ncols -> NonSquareMatrix; ip.len() != n -> PivotSizeMismatch (in this order)
ShapeClass(rows, cols, iplen) == IF rows # cols THEN "nonsquare" ELSE IF iplen # rows THEN "pivot_size" ELSE "proceed"
\* lu_decomp_complex: n != ar.ncols || n != ai.nrows || n != ai.ncols -> NonSquareMatrix
CShapeClass(rows, cols, irows, icols, iplen) ==
  IF rows # cols \/ rows # irows \/ rows # icols THEN "nonsquare" ELSE IF iplen # rows THEN "pivot_size" ELSE "proceed"
=============================================================================

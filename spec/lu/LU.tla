--------------------------------- MODULE LU ---------------------------------
(***************************************************************************)
(* Level B: lu_decomp / lin_solve (Hairer's DEC / SOL) and                 *)
(* lu_decomp_complex / lin_solve_complex (DECC / SOLC) transcribed from    *)
(* /repo/src/matrix/lu.rs and linear.rs over EXACT rationals.              *)
(*                                                                         *)
(* A rational is a gcd-normalised pair <<num, den>> with den > 0.          *)
(* A complex number is a pair <<re, im>> of rationals.                     *)
(* A matrix is an n x n sequence of sequences; code indices are 0-based,   *)
(* Get(a, i, j) == a[i+1][j+1].                                            *)
(*                                                                         *)
(* The elimination is split into the stages the code runs through          *)
(* (one per column k, then the final diagonal test; the forward sweep per  *)
(* column and the back substitution per column of the solve), so that the  *)
(* model checker and the trace specification use the same operators.       *)
(* `dy` flags record whether every intermediate value of a stage is a      *)
(* dyadic rational: then binary floating point computes it exactly.        *)
(*                                                                         *)
(* Graded matrices.  The matrix handed to the code may be D_r A D_c with   *)
(* D_r = diag(2^rs[i]), D_c = diag(2^cs[j]) and A the small-integer matrix *)
(* of the scenario.  Scaling by powers of two is exact in binary floating  *)
(* point, and with the same pivot rows the elimination of D_r A D_c is the *)
(* elimination of A entry by entry, times a power of two:                  *)
(*    active part (i,j), j >= k :  2^(re[i] + cs[j])  (re = rs permuted by *)
(*                                 the row exchanges done so far)          *)
(*    multiplier (i,k), i > k   :  2^(re[i] - re[k])  (re after the        *)
(*                                 exchange of stage k)                    *)
(* So the model keeps the UNSCALED exact rationals plus the exponents `re` *)
(* (current row exponents) and `lex` (exponents of the stored multipliers);*)
(* the scaling enters only where the code compares magnitudes: the pivot   *)
(* search (ScLt).  The solve needs no exponents: with the right-hand side  *)
(* D_r b its result is D_c^-1 (A^-1 b).                                    *)
(***************************************************************************)
EXTENDS Integers, Sequences, TLC

Abs(x) == IF x < 0 THEN -x ELSE x
RECURSIVE GCD(_, _)
GCD(a, b) == IF b = 0 THEN a ELSE GCD(b, a % b)
Norm(n, d) == LET g == GCD(Abs(n), Abs(d))
              IN IF d < 0 THEN <<(-n) \div g, (-d) \div g>> ELSE <<n \div g, d \div g>>

RInt(i) == <<i, 1>>
RZero == <<0, 1>>
RAdd(x, y) == IF x[2] = y[2] THEN Norm(x[1] + y[1], x[2]) ELSE Norm(x[1] * y[2] + y[1] * x[2], x[2] * y[2])
RNeg(x) == <<-x[1], x[2]>>
RSub(x, y) == RAdd(x, RNeg(y))
RMul(x, y) == Norm(x[1] * y[1], x[2] * y[2])
RInv(x) == Norm(x[2], x[1])                       \* x # 0
RDiv(x, y) == Norm(x[1] * y[2], x[2] * y[1])      \* y # 0
RAbs(x) == <<Abs(x[1]), x[2]>>
RLt(x, y) == x[1] * y[2] < y[1] * x[2]
RIsZero(x) == x[1] = 0
RECURSIVE IsPow2(_)
IsPow2(d) == d = 1 \/ (d % 2 = 0 /\ IsPow2(d \div 2))
Dyadic(x) == IsPow2(x[2])

RECURSIVE Pow2(_)
Pow2(e) == IF e = 0 THEN 1 ELSE 2 * Pow2(e - 1)
\* x * 2^ex < y * 2^ey for rationals x, y >= 0.  TLC integers are 32-bit: an exponent difference of 20 or more is
\* decided by its sign, which is right as long as the cross products stay below 2^20 (asserted; on the scenario
\* domains they stay below 2^10); smaller differences are multiplied out.
ScLt(x, ex, y, ey) ==
  IF RIsZero(y) THEN FALSE
  ELSE IF RIsZero(x) THEN TRUE
  ELSE LET dd == ex - ey
           p == x[1] * y[2]
           q == y[1] * x[2]
       IN IF dd = 0 THEN p < q
          ELSE IF dd >= 20 THEN Assert(q < 1048576, <<"ScLt: cross product too large", x, y>>) /\ FALSE
          ELSE IF dd <= -20 THEN Assert(p < 1048576, <<"ScLt: cross product too large", x, y>>)
          ELSE IF dd > 0 THEN Assert(p < 2048, <<"ScLt: cross product too large", x, y>>) /\ p * Pow2(dd) < q
          ELSE Assert(q < 2048, <<"ScLt: cross product too large", x, y>>) /\ p < q * Pow2(-dd)

Get(a, i, j) == a[i + 1][j + 1]
SwapAt(v, i, j) == [x \in 1..Len(v) |-> IF x = i THEN v[j] ELSE IF x = j THEN v[i] ELSE v[x]]     \* 1-based positions
ZeroVec(n) == [i \in 1..n |-> 0]
ZeroMat(n) == [i \in 1..n |-> [j \in 1..n |-> 0]]
UNSET == -1                                        \* pivot slot never written
RatMat(A) == [i \in 1..Len(A) |-> [j \in 1..Len(A) |-> RInt(A[i][j])]]
AllDyadicVec(b) == \A i \in 1..Len(b) : Dyadic(b[i])

(* ============================== real: lu_decomp ========================= *)
\* magnitude of the entry in row i of column k as the code sees it: |a[i,k]| * 2^re[i]  (the column factor is common)
\* pivot search: m = k; for i in k+1..n: if |a[i,k]| > |a[m,k]| then m = i   (strict: first maximum wins)
RECURSIVE PivSearch(_, _, _, _, _, _)
PivSearch(a, re, n, k, i, m) ==
  IF i >= n THEN m
  ELSE PivSearch(a, re, n, k, i + 1,
                 IF ScLt(RAbs(Get(a, m, k)), re[m + 1], RAbs(Get(a, i, k)), re[i + 1]) THEN i ELSE m)

\* exponents after stage k with pivot row m: the row exponents are exchanged, the new multipliers get re[i] - re[k]
StageRe(re, k, m) == SwapAt(re, m + 1, k + 1)
StageLex(lex, re1, n, k) ==
  [i1 \in 1..n |-> [j1 \in 1..n |-> IF j1 - 1 = k /\ i1 - 1 > k THEN re1[i1] - re1[k + 1] ELSE lex[i1][j1]]]

\* one pass of the "for k in 0..n-1" loop body with pivot row m (the model takes m from PivSearch; the contract's guided
\* elimination takes the row the implementation reported)
DecStageAt(a, re, lex, n, k, m) ==
  LET pivot == Get(a, m, k)
  IN IF RIsZero(pivot) THEN [sing |-> TRUE, a |-> a, re |-> re, lex |-> lex, m |-> m, dy |-> TRUE]
     ELSE LET t == RInv(pivot)
              \* entry (i,j), j >= k, after exchanging rows m and k (the code swaps column k first, the others inside the j loop)
              Sw(i, j) == IF i = m THEN Get(a, k, j) ELSE IF i = k THEN Get(a, m, j) ELSE Get(a, i, j)
              Mult(i) == RMul(RNeg(Sw(i, k)), t)                  \* a[(i,k)] = -a[(i,k)] * t
              new == [i1 \in 1..n |-> [j1 \in 1..n |->
                        LET i == i1 - 1
                            j == j1 - 1
                        IN IF j < k THEN Get(a, i, j)             \* earlier columns are not permuted (deferred swaps)
                           ELSE IF j = k THEN (IF i > k THEN Mult(i) ELSE Sw(i, k))
                           ELSE IF i > k THEN RAdd(Sw(i, j), RMul(Mult(i), Get(a, m, j)))   \* a[(i,j)] += a[(i,k)] * tj, tj = original a[(m,j)]
                           ELSE Sw(i, j)]]
              re1 == StageRe(re, k, m)
          IN [sing |-> FALSE, a |-> new, re |-> re1, lex |-> StageLex(lex, re1, n, k), m |-> m, dy |-> Dyadic(t)]
DecStage(a, re, lex, n, k) == DecStageAt(a, re, lex, n, k, PivSearch(a, re, n, k, k + 1, k))

\* result record of a (partial) decomposition; rs: the row exponents of the scenario (zeros for an unscaled matrix)
DecInit(a, n, rs) == [cls |-> "run", a |-> a, ip |-> [x \in 1..n |-> UNSET], k |-> 0, dy |-> TRUE,
                      re |-> rs, lex |-> ZeroMat(n)]
\* exponent of every entry of the (partial) factor d: value handed back by the code = d.a[i][j] * 2^FacExp[i][j]
FacExp(d, cs, n) == [i \in 1..n |-> [j \in 1..n |-> IF i > j /\ j - 1 < d.k THEN d.lex[i][j] ELSE d.re[i] + cs[j]]]

\* one step of lu_decomp from state d (cls = "run")
DecStep(d, n) ==
  IF n = 1
  THEN IF RIsZero(Get(d.a, 0, 0)) THEN [d EXCEPT !.cls = "singular"]
       ELSE [d EXCEPT !.cls = "ok", !.ip = <<0>>]
  ELSE IF d.k < n - 1
  THEN LET s == DecStage(d.a, d.re, d.lex, n, d.k)
       IN IF s.sing THEN [d EXCEPT !.cls = "singular", !.ip[d.k + 1] = s.m]
          ELSE [d EXCEPT !.a = s.a, !.re = s.re, !.lex = s.lex, !.ip[d.k + 1] = s.m, !.k = d.k + 1, !.dy = d.dy /\ s.dy]
  ELSE \* final diagonal test
       IF RIsZero(Get(d.a, n - 1, n - 1)) THEN [d EXCEPT !.cls = "singular"] ELSE [d EXCEPT !.cls = "ok"]

RECURSIVE DecRun(_, _)
DecRun(d, n) == IF d.cls # "run" THEN d ELSE DecRun(DecStep(d, n), n)
Dec(A, n, rs) == DecRun(DecInit(RatMat(A), n, rs), n)

(* ============================== real: lin_solve ========================= *)
\* forward sweep for column k: swap b[ip[k]], b[k]; b[i] += a[(i,k)] * b[k] for i > k.   Reads ip[k] only for k < n-1.
SolFwd(a, n, ip, b, k) ==
  LET m == ip[k + 1]
      b1 == [i1 \in 1..n |-> IF i1 - 1 = m THEN b[k + 1] ELSE IF i1 - 1 = k THEN b[m + 1] ELSE b[i1]]
  IN [i1 \in 1..n |-> IF i1 - 1 > k THEN RAdd(b1[i1], RMul(Get(a, i1 - 1, k), b1[k + 1])) ELSE b1[i1]]

\* back substitution for column k (k = n-1 down to 1): b[k] /= a[(k,k)]; b[i] += a[(i,k)] * -b[k] for i < k
SolBack(a, n, b, k) ==
  LET bk == RDiv(b[k + 1], Get(a, k, k))
  IN [i1 \in 1..n |-> IF i1 - 1 = k THEN bk
                      ELSE IF i1 - 1 < k THEN RAdd(b[i1], RMul(Get(a, i1 - 1, k), RNeg(bk))) ELSE b[i1]]

\* solve state: [b, k, ph ("fwd" | "back" | "done"), dy]
SolInit(b) == [b |-> b, k |-> 0, ph |-> "fwd", dy |-> TRUE]
SolStep(a, n, ip, s) ==
  IF n = 1 THEN LET b1 == <<RDiv(s.b[1], Get(a, 0, 0))>> IN [s EXCEPT !.b = b1, !.ph = "done", !.dy = AllDyadicVec(b1)]
  ELSE IF s.ph = "fwd"
  THEN LET b1 == SolFwd(a, n, ip, s.b, s.k)
       IN [s EXCEPT !.b = b1, !.dy = s.dy /\ AllDyadicVec(b1),
                    !.k = IF s.k + 1 < n - 1 THEN s.k + 1 ELSE n - 1,
                    !.ph = IF s.k + 1 < n - 1 THEN "fwd" ELSE "back"]
  ELSE IF s.k >= 1
  THEN LET b1 == SolBack(a, n, s.b, s.k)
       IN [s EXCEPT !.b = b1, !.dy = s.dy /\ AllDyadicVec(b1), !.k = s.k - 1]
  ELSE LET b1 == [s.b EXCEPT ![1] = RDiv(s.b[1], Get(a, 0, 0))]
       IN [s EXCEPT !.b = b1, !.dy = s.dy /\ AllDyadicVec(b1), !.ph = "done"]

RECURSIVE SolRun(_, _, _, _)
SolRun(a, n, ip, s) == IF s.ph = "done" THEN s ELSE SolRun(a, n, ip, SolStep(a, n, ip, s))
\* b: vector of integers
Sol(a, n, ip, b) == SolRun(a, n, ip, SolInit([i \in 1..n |-> RInt(b[i])]))

\* stored multipliers of the finished stages, as the code holds them: |l| * 2^lex <= 1
MultipliersLeOne(d, n) ==
  \A i \in 0..n - 1 : \A k \in 0..n - 1 : (i > k /\ k < d.k) => ~ScLt(<<1, 1>>, 0, RAbs(Get(d.a, i, k)), Get(d.lex, i, k))

(* ============================== complex ================================= *)
CZero == <<RZero, RZero>>
CInt(re, im) == <<RInt(re), RInt(im)>>
CAdd(z, w) == <<RAdd(z[1], w[1]), RAdd(z[2], w[2])>>
CNeg(z) == <<RNeg(z[1]), RNeg(z[2])>>
\* prod_r = zr*wr - zi*wi ; prod_i = zi*wr + zr*wi
CMul(z, w) == <<RSub(RMul(z[1], w[1]), RMul(z[2], w[2])), RAdd(RMul(z[2], w[1]), RMul(z[1], w[2]))>>
CAbs1(z) == RAdd(RAbs(z[1]), RAbs(z[2]))                      \* |re| + |im|, the magnitude DECC pivots on
CIsZero(z) == RIsZero(z[1]) /\ RIsZero(z[2])
\* reciprocal as coded: den = tr*tr + ti*ti; (tr/den, -ti/den)
CDen(z) == RAdd(RMul(z[1], z[1]), RMul(z[2], z[2]))
CRecip(z) == <<RDiv(z[1], CDen(z)), RDiv(RNeg(z[2]), CDen(z))>>
\* division as coded in SOLC: ((br*ar + bi*ai)/den, (bi*ar - br*ai)/den)
CDivCoded(b, a) == <<RDiv(RAdd(RMul(b[1], a[1]), RMul(b[2], a[2])), CDen(a)),
                     RDiv(RSub(RMul(b[2], a[1]), RMul(b[1], a[2])), CDen(a))>>
CDyadic(z) == Dyadic(z[1]) /\ Dyadic(z[2])
CMat(AR, AI) == [i \in 1..Len(AR) |-> [j \in 1..Len(AR) |-> CInt(AR[i][j], AI[i][j])]]
AllCDyadicVec(b) == \A i \in 1..Len(b) : CDyadic(b[i])

RECURSIVE CPivSearch(_, _, _, _, _, _)
CPivSearch(a, re, n, k, i, m) ==
  IF i >= n THEN m
  ELSE CPivSearch(a, re, n, k, i + 1,
                  IF ScLt(CAbs1(Get(a, m, k)), re[m + 1], CAbs1(Get(a, i, k)), re[i + 1]) THEN i ELSE m)

CDecStageAt(a, re, lex, n, k, m) ==
  LET pivot == Get(a, m, k)
  IN IF CIsZero(pivot) THEN [sing |-> TRUE, a |-> a, re |-> re, lex |-> lex, m |-> m, dy |-> TRUE]
     ELSE LET t == CRecip(pivot)
              Sw(i, j) == IF i = m THEN Get(a, k, j) ELSE IF i = k THEN Get(a, m, j) ELSE Get(a, i, j)
              Mult(i) == CNeg(CMul(Sw(i, k), t))                  \* (ar,ai)[(i,k)] = -( a[(i,k)] * t )
              \* the three multiplier branches (real / imaginary / general) compute the same product
              new == [i1 \in 1..n |-> [j1 \in 1..n |->
                        LET i == i1 - 1
                            j == j1 - 1
                        IN IF j < k THEN Get(a, i, j)
                           ELSE IF j = k THEN (IF i > k THEN Mult(i) ELSE Sw(i, k))
                           ELSE IF i > k THEN CAdd(Sw(i, j), CMul(Mult(i), Get(a, m, j)))
                           ELSE Sw(i, j)]]
              re1 == StageRe(re, k, m)
          IN [sing |-> FALSE, a |-> new, re |-> re1, lex |-> StageLex(lex, re1, n, k), m |-> m,
              dy |-> Dyadic(CDen(pivot)) /\ CDyadic(t)]
CDecStage(a, re, lex, n, k) == CDecStageAt(a, re, lex, n, k, CPivSearch(a, re, n, k, k + 1, k))

CDecStep(d, n) ==
  IF n = 1
  THEN IF CIsZero(Get(d.a, 0, 0)) THEN [d EXCEPT !.cls = "singular"]
       ELSE [d EXCEPT !.cls = "ok", !.ip = <<0>>]
  ELSE IF d.k < n - 1
  THEN LET s == CDecStage(d.a, d.re, d.lex, n, d.k)
       IN IF s.sing THEN [d EXCEPT !.cls = "singular", !.ip[d.k + 1] = s.m]
          ELSE [d EXCEPT !.a = s.a, !.re = s.re, !.lex = s.lex, !.ip[d.k + 1] = s.m, !.k = d.k + 1, !.dy = d.dy /\ s.dy]
  ELSE IF CIsZero(Get(d.a, n - 1, n - 1)) THEN [d EXCEPT !.cls = "singular"] ELSE [d EXCEPT !.cls = "ok"]

RECURSIVE CDecRun(_, _)
CDecRun(d, n) == IF d.cls # "run" THEN d ELSE CDecRun(CDecStep(d, n), n)
CDec(AR, AI, n, rs) == CDecRun(DecInit(CMat(AR, AI), n, rs), n)

CSolFwd(a, n, ip, b, k) ==
  LET m == ip[k + 1]
      b1 == [i1 \in 1..n |-> IF i1 - 1 = m THEN b[k + 1] ELSE IF i1 - 1 = k THEN b[m + 1] ELSE b[i1]]
  IN [i1 \in 1..n |-> IF i1 - 1 > k THEN CAdd(b1[i1], CMul(Get(a, i1 - 1, k), b1[k + 1])) ELSE b1[i1]]

CSolBack(a, n, b, k) ==
  LET bk == CDivCoded(b[k + 1], Get(a, k, k))
  IN [i1 \in 1..n |-> IF i1 - 1 = k THEN bk
                      ELSE IF i1 - 1 < k THEN CAdd(b[i1], CMul(Get(a, i1 - 1, k), CNeg(bk))) ELSE b[i1]]

CSolStep(a, n, ip, s) ==
  IF n = 1 THEN LET b1 == <<CDivCoded(s.b[1], Get(a, 0, 0))>> IN [s EXCEPT !.b = b1, !.ph = "done", !.dy = AllCDyadicVec(b1)]
  ELSE IF s.ph = "fwd"
  THEN LET b1 == CSolFwd(a, n, ip, s.b, s.k)
       IN [s EXCEPT !.b = b1, !.dy = s.dy /\ AllCDyadicVec(b1),
                    !.k = IF s.k + 1 < n - 1 THEN s.k + 1 ELSE n - 1,
                    !.ph = IF s.k + 1 < n - 1 THEN "fwd" ELSE "back"]
  ELSE IF s.k >= 1
  THEN LET b1 == CSolBack(a, n, s.b, s.k)
       IN [s EXCEPT !.b = b1, !.dy = s.dy /\ AllCDyadicVec(b1), !.k = s.k - 1]
  ELSE LET b1 == [s.b EXCEPT ![1] = CDivCoded(s.b[1], Get(a, 0, 0))]
       IN [s EXCEPT !.b = b1, !.dy = s.dy /\ AllCDyadicVec(b1), !.ph = "done"]

RECURSIVE CSolRun(_, _, _, _)
CSolRun(a, n, ip, s) == IF s.ph = "done" THEN s ELSE CSolRun(a, n, ip, CSolStep(a, n, ip, s))
\* b: vector of <<re, im>> integer pairs
CSol(a, n, ip, b) == CSolRun(a, n, ip, SolInit([i \in 1..n |-> CInt(b[i][1], b[i][2])]))

\* pivoting on |re|+|im| bounds the modulus of a multiplier by sqrt 2 (|z| <= |z|_1 <= sqrt 2 |z|): |l|^2 * 4^lex <= 2
CMultipliersBounded(d, n) ==
  \A i \in 0..n - 1 : \A k \in 0..n - 1 :
     (i > k /\ k < d.k) => ~ScLt(<<2, 1>>, 0, CDen(Get(d.a, i, k)), 2 * Get(d.lex, i, k))

(* ============================== argument checks ========================= *)
\* lu_decomp: n != ncols -> NonSquareMatrix; ip.len() != n -> PivotSizeMismatch (in this order)
ShapeClass(rows, cols, iplen) == IF rows # cols THEN "nonsquare" ELSE IF iplen # rows THEN "pivot_size" ELSE "proceed"
\* lu_decomp_complex: n != ar.ncols || n != ai.nrows || n != ai.ncols -> NonSquareMatrix
CShapeClass(rows, cols, irows, icols, iplen) ==
  IF rows # cols \/ rows # irows \/ rows # icols THEN "nonsquare" ELSE IF iplen # rows THEN "pivot_size" ELSE "proceed"
=============================================================================

INIT Init
NEXT Next
POSTCONDITION AllVisited

--------------------------- MODULE Trace_Tableau ---------------------------
(* Trace specification for tableau extraction (checks C02 and C07).

   TRACE is an NDJSON file with one record per coefficient that was extracted from the real code
   (harness/src/bin/probe_tableau.rs: arguments of the successive IVP::ode calls of one step on an impulse
   probe, state after the step, step interpolant at theta; or, via = "source", the value of the constant
   in src/methods/<method>.rs):

     [prop |-> "C02", method |-> "DOPRI5", coef |-> "a_5_3", dir |-> "fwd", via |-> "lowlevel",
      dist |-> 0, bound |-> 1]

   dist is the distance between the extracted double and the specification's rational
   (spec/tableaux/Tableaux<METHOD>.tla, same table: checks/tableaux_gen.py) in the unit named by the
   driver (ulps of the correctly rounded rational for c, A, b; ulps of the largest monomial for b_j(theta);
   2^-52 relative units for error-estimator sums), computed by the driver in exact rational arithmetic
   because TLC has neither 53-bit mantissas nor big integers; values above 2*10^9 are capped there.
   The contract evaluated here is Conforms: every coefficient the code applies is the specification's
   coefficient up to the stated rounding allowance.  Every non-conforming record is printed as
   <<"VIOL", prop, method, record number, dist>> (kept short: TLC wraps long tuples over several lines; the
   driver looks the record up by its number); acceptance of the whole trace is by the
   POSTCONDITION on the diameter (all records were visited). *)
EXTENDS Naturals, Sequences, TLC, Json, IOUtils

Rec == ndJsonDeserialize(IOEnv.TRACE)

VARIABLE i

Conforms(r) == r.dist <= r.bound

Init == i = 0

Next ==
    /\ i < Len(Rec)
    /\ i' = i + 1
    /\ LET r == Rec[i + 1] IN
         \/ Conforms(r)
         \/ PrintT(<<"VIOL", r.prop, r.method, i + 1, r.dist>>)

AllVisited == TLCGet("stats").diameter = Len(Rec) + 1
=============================================================================

SPECIFICATION Spec
CONSTANTS
  U = 1024
  RootT = 4
  Family = "fstep"
  Grids <- Grids_t
  MaxT = 2
  MaxRoots = 2
  Known <- Known_none
INVARIANTS ContractHolds Emit

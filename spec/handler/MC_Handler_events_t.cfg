SPECIFICATION Spec
CONSTANTS
  U = 1024
  RootT = 4
  Family = "events"
  Grids <- Grids_evt
  MaxT = 1
  MaxRoots = 2
  KAll = TRUE
  Known <- Known_none
INVARIANTS ContractHolds Emit

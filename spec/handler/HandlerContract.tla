-------------------------- MODULE HandlerContract --------------------------
(***************************************************************************)
(* Level A: what the listed properties demand of the output side of        *)
(* solve_ivp, written over an OBSERVED run R only (inputs + what was       *)
(* reported).  Nothing here refers to how the handler is coded.            *)
(*                                                                         *)
(* R = [ sc    |-> scenario (grid, hasT, teval, evs, dense, hasFs, fs, ...),*)
(*       K     |-> number of accepted-step callbacks delivered,            *)
(*       intr  |-> the last callback returned Interrupt,                   *)
(*       out   |-> <<[t, at, seg, ex]>>   reported samples,                *)
(*       tev   |-> per event function <<[t, at, seg, cb]>>,                *)
(*       segs  |-> <<[lo, h]>> dense segments,                             *)
(*       alt   |-> `out` of the same run with dense_output flipped,        *)
(*       nt    |-> [out, tev] of the same run with no event terminal ]     *)
(* Times are in sub-units (U per tick = 2^-40), measured from x0 in the    *)
(* direction of integration.  A value [at, seg] is "interpolant (or end    *)
(* state) of step seg evaluated at time at".                               *)
(***************************************************************************)
EXTENDS Handler

CONSTANT RootT        \* root-finder accuracy allowed by the contract, in ticks

Last(s) == s[Len(s)]
Range(s) == { s[i] : i \in 1..Len(s) }

X0(R)     == R.sc.grid[1]
Reached(R) == R.sc.grid[R.K + 1]                      \* right end of the last delivered step
NSteps(R) == Len(R.sc.grid) - 1
\* index of the terminal event function that stopped the run (0 if none)
TermFns(R) == { i \in 1..Len(R.sc.evs) : R.sc.evs[i].term > 0 /\ Len(R.tev[i]) >= R.sc.evs[i].term }
\* the stopping point: the terminal event if one stopped the run, else the last covered time
StopT(R) == IF R.intr /\ R.out # <<>> THEN Last(R.out).t ELSE Reached(R)

\* a value is acceptable for reported time t: interpolant of a step containing t (within tol)
\* evaluated at t, or the end state of a step whose end is within tol of t
InStep(R, s, t) == IF s = 0 THEN Abs(t - X0(R)) <= Tol
                   ELSE s <= R.K /\ R.sc.grid[s] - Tol <= t /\ t <= R.sc.grid[s + 1] + Tol
ValueOK(R, o) == /\ o.seg >= 0 /\ o.seg <= R.K
                 /\ \/ (o.at = o.t /\ InStep(R, o.seg, o.t))
                    \/ (o.at = R.sc.grid[o.seg + 1] /\ Abs(o.at - o.t) <= Tol)

StrictlyIncreasing(ts) == \A j \in 1..Len(ts) - 1 : ts[j] < ts[j + 1]
NonDecreasing(ts)      == \A j \in 1..Len(ts) - 1 : ts[j] <= ts[j + 1]
Times(s) == [j \in 1..Len(s) |-> s[j].t]
IsPrefixOf(s, t) == Len(s) <= Len(t) /\ \A j \in 1..Len(s) : s[j] = t[j]
Strip(s) == [j \in 1..Len(s) |-> [t |-> s[j].t, at |-> s[j].at, seg |-> s[j].seg]]

(* ---------------------------------------------------------------- C05 *)
\* body of the output: everything except the terminal event point
Body(R) == IF R.intr /\ R.out # <<>> THEN SubSeq(R.out, 1, Len(R.out) - 1) ELSE R.out

C05_Exact(R) ==
    R.sc.hasT =>
      LET te   == R.sc.teval
          stop == StopT(R)
          full == ~R.intr /\ R.K = NSteps(R)                \* the run covered the whole interval: every requested time is due
          must == IF full THEN Len(te) ELSE Cardinality({ j \in 1..Len(te) : te[j] <= stop })
          may  == IF full THEN Len(te) ELSE Cardinality({ j \in 1..Len(te) : te[j] <= stop + Tol })
          b    == Body(R)
      IN  /\ must <= Len(b) /\ Len(b) <= may
          /\ \A j \in 1..Len(b) : b[j].t = te[j] /\ b[j].ex
C05_Values(R) == R.sc.hasT => \A j \in 1..Len(Body(R)) : ValueOK(R, Body(R)[j])
C05_DenseIndep(R) == Strip(R.alt) = Strip(R.out)

(* ---------------------------------------------------------------- C06 *)
C06_Segments(R) ==
    IF R.sc.dense
    THEN /\ Len(R.segs) = R.K
         /\ \A k \in 1..R.K : R.segs[k].lo = R.sc.grid[k] /\ R.segs[k].lo + R.segs[k].h = R.sc.grid[k + 1]
    ELSE R.segs = <<>>

(* ---------------------------------------------------------------- C08 *)
DirOK(l, r, dir) ==
    CASE dir = "All" -> (l <= 0 /\ r >= 0) \/ (l >= 0 /\ r <= 0)
      [] dir = "Pos" -> l <= 0 /\ r >= 0 /\ l < r
      [] dir = "Neg" -> l >= 0 /\ r <= 0 /\ l > r
NearRoot(e, t) == \E j \in 1..Len(e.roots) : Abs(t - e.roots[j] * U) <= RootT * U

C08_Event(R, i, e) ==
    LET k == e.cb
        a == R.sc.grid[k]  b == R.sc.grid[k + 1]
    IN  /\ k >= 1 /\ k <= R.K
        /\ a <= e.t /\ e.t <= b                                   \* inside the bracketing step
        /\ e.t <= StopT(R)                                        \* ... of the returned solution: not beyond the stop
        /\ \/ (e.at = e.t /\ e.seg = k)                           \* y_e = sol(t_e)
           \/ (e.t = a /\ e.at = a /\ e.seg = k - 1)              \* ... = state at the left end
        /\ NearRoot(R.sc.evs[i], e.t)                             \* g(t_e, y_e) = 0 to root-finder accuracy
        /\ DirOK(G(R.sc.evs[i], a), G(R.sc.evs[i], b), R.sc.evs[i].dir)
C08_Inv(R) ==
    /\ Len(R.tev) = Len(R.sc.evs)
    /\ \A i \in 1..Len(R.tev) :
          /\ \A j \in 1..Len(R.tev[i]) : C08_Event(R, i, R.tev[i][j])
          /\ NonDecreasing(Times(R.tev[i]))

(* ---------------------------------------------------------------- C09 *)
StrictOpp(l, r, dir) ==
    CASE dir = "All" -> (l < 0 /\ r > 0) \/ (l > 0 /\ r < 0)
      [] dir = "Pos" -> l < 0 /\ r > 0
      [] dir = "Neg" -> l > 0 /\ r < 0
SameStrict(l, r) == (l < 0 /\ r < 0) \/ (l > 0 /\ r > 0)
CountIn(R, i, k) == Cardinality({ j \in 1..Len(R.tev[i]) : R.tev[i][j].cb = k })

C09_Step(R, i, k) ==
    LET e == R.sc.evs[i]
        a == R.sc.grid[k]  b == R.sc.grid[k + 1]
        l == G(e, a)  r == G(e, b)
        cnt == CountIn(R, i, k)
        rin == RootsIn(e, a, b)
        interrupted == R.intr /\ k = R.K
        tstar == StopT(R)
    IN  /\ (SameStrict(l, r) => cnt = 0)
        /\ (StrictOpp(l, r, e.dir) =>
              IF ~interrupted THEN cnt = 1
              ELSE /\ cnt <= 1
                   /\ ((\A c \in rin : c * U + 2 * RootT * U < tstar) => cnt = 1)     \* earlier events are kept
                   /\ ((\A c \in rin : c * U - 2 * RootT * U > tstar) => cnt = 0))    \* later ones are not reported
\* an exact zero at a step end may be reported from either adjacent step - but from at least one of them
\* when the signs on the far sides are strictly opposite in the configured direction
C09_ZeroEnd(R, i, k) ==
    LET e == R.sc.evs[i]
        l == G(e, R.sc.grid[k])  z == G(e, R.sc.grid[k + 1])  r == G(e, R.sc.grid[k + 2])
        fully == ~(R.intr /\ k + 1 >= R.K)                  \* both steps were processed completely
    IN  (z = 0 /\ StrictOpp(l, r, e.dir) /\ fully) => CountIn(R, i, k) + CountIn(R, i, k + 1) \in {1, 2}
\* a function with a single known root: every reported event of it is located at that root (root-finder accuracy)
C09_Located(R) ==
    \A i \in 1..Len(R.sc.evs) : Len(R.sc.evs[i].roots) = 1 =>
        \A j \in 1..Len(R.tev[i]) : Abs(R.tev[i][j].t - R.sc.evs[i].roots[1] * U) <= RootT * U
\* what the same run without the terminal flag reports before the stopping point is reported by the terminal run too
KeepsEarlier(R) ==
    R.intr => \A i \in 1..Len(R.nt.tev) : \A j \in 1..Len(R.nt.tev[i]) :
                 R.nt.tev[i][j].t < StopT(R) => (j <= Len(R.tev[i]) /\ R.tev[i][j] = R.nt.tev[i][j])
C09_Inv(R) == /\ \A i \in 1..Len(R.sc.evs) : \A k \in 1..R.K : C09_Step(R, i, k)
              /\ C09_Located(R)
              /\ KeepsEarlier(R)
              /\ \A i \in 1..Len(R.sc.evs) : \A k \in 1..(R.K - 1) : C09_ZeroEnd(R, i, k)

(* ---------------------------------------------------------------- C10 *)
C10_Stop(R) ==
    /\ R.intr <=> TermFns(R) # {}                                 \* stops iff a terminal count was reached
    /\ \A i \in 1..Len(R.sc.evs) : R.sc.evs[i].term > 0 => Len(R.tev[i]) <= R.sc.evs[i].term
    /\ R.intr => /\ R.out # <<>>
                 /\ \E i \in TermFns(R) :                          \* final sample is the event point
                       LET e == Last(R.tev[i]) IN Last(R.out).t = e.t /\ Last(R.out).at = e.at /\ Last(R.out).seg = e.seg
                 /\ \A j \in 1..Len(R.out) : R.out[j].t <= Last(R.out).t + Tol      \* nothing later is reported
                 /\ \A i \in 1..Len(R.tev) : \A j \in 1..Len(R.tev[i]) : R.tev[i][j].t <= Last(R.out).t
\* a terminal event function (count 1) that changes sign in the configured direction over a delivered step - or
\* passes through an exact zero at a step end between strictly opposite signs - stops the run
C10_MustStop(R) ==
    \A i \in 1..Len(R.sc.evs) :
       LET e == R.sc.evs[i] IN
       e.term = 1 =>
         /\ (\A k \in 1..R.K : StrictOpp(G(e, R.sc.grid[k]), G(e, R.sc.grid[k + 1]), e.dir) => R.intr)
         /\ (\A k \in 1..(R.K - 1) :
                (G(e, R.sc.grid[k + 1]) = 0 /\ StrictOpp(G(e, R.sc.grid[k]), G(e, R.sc.grid[k + 2]), e.dir)) => R.intr)
C10_Prefix(R) ==
    /\ IsPrefixOf(Strip(Body(R)), Strip(R.nt.out))
    /\ \A i \in 1..Len(R.tev) : IsPrefixOf(R.tev[i], R.nt.tev[i])

(* ------------------------------------------------- C03 / C11 / C18 (output side) *)
\* sample discipline: start at x0, strictly monotone, never beyond what was covered
C03_Samples(R) ==
    /\ (~R.sc.hasT => R.out # <<>> /\ R.out[1].t = X0(R))
    /\ IF R.sc.hasT THEN NonDecreasing(Times(Body(R))) ELSE StrictlyIncreasing(Times(Body(R)))
    /\ (R.intr /\ Len(R.out) >= 2 => Last(R.out).t >= R.out[Len(R.out) - 1].t - Tol)   \* the terminal event point may coincide (within tol) with the sample before it
    /\ \A j \in 1..Len(R.out) : R.out[j].t >= X0(R) /\ R.out[j].t <= Reached(R) + Tol
    /\ \A j \in 1..Len(R.out) : ValueOK(R, R.out[j])
\* without t_eval a run that covered the whole grid ends with the last grid point
C03_LastIsEnd(R) ==
    (~R.sc.hasT /\ ~R.intr /\ R.K = NSteps(R)) =>
        IF R.sc.hasFs THEN Abs(Last(R.out).t - Reached(R)) <= Tol     \* the pinned first output may stand for an end point within 1e-12 of it
        ELSE Last(R.out).t = Reached(R)
\* without output filtering every accepted step is a reported interval
C18_Intervals(R) ==
    (~R.sc.hasT /\ ~R.sc.hasFs) =>
        LET b == Body(R)
            n == IF R.intr THEN R.K ELSE R.K + 1                  \* the interrupted step ends at the event point
        IN  Len(b) = n /\ \A j \in 1..n : b[j].t = R.sc.grid[j] /\ b[j].at = b[j].t /\ b[j].seg = j - 1
\* first_step accepted => first reported interval is first_step
C11_FirstInterval(R) ==
    (~R.sc.hasT /\ R.sc.hasFs /\ R.K >= 1 /\ R.sc.fs = R.sc.grid[2] /\ ~(R.intr /\ R.K = 1)) =>
        Len(R.out) >= 2 /\ R.out[2].t = R.sc.fs

(* ------------------------------------------------------------ all clauses *)
Clauses(R) ==
    { <<"C05", "exact_times",    C05_Exact(R)>>,
      <<"C05", "values",         C05_Values(R)>>,
      <<"C05", "dense_indep",    C05_DenseIndep(R)>>,
      <<"C06", "segments",       C06_Segments(R)>>,
      <<"C08", "events",         C08_Inv(R)>>,
      <<"C09", "sign_changes",   C09_Inv(R)>>,
      <<"C10", "stop",           C10_Stop(R)>>,
      <<"C10", "must_stop",      C10_MustStop(R)>>,
      <<"C10", "prefix",         C10_Prefix(R)>>,
      <<"C10", "keeps_earlier",  KeepsEarlier(R)>>,
      <<"C03", "samples",        C03_Samples(R)>>,
      <<"C03", "last_is_end",    C03_LastIsEnd(R)>>,
      <<"C18", "intervals",      C18_Intervals(R)>>,
      <<"C11", "first_interval", C11_FirstInterval(R)>> }
Failed(R) == { <<c[1], c[2]>> : c \in { d \in Clauses(R) : ~d[3] } }
=============================================================================

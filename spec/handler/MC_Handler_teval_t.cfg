SPECIFICATION Spec
CONSTANTS
  U = 1024
  RootT = 4
  Family = "teval"
  Grids <- Grids_t
  MaxT = 4
  MaxRoots = 1
  KAll = TRUE
  Known <- Known_none
INVARIANTS ContractHolds Emit

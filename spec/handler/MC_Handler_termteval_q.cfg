SPECIFICATION Spec
CONSTANTS
  U = 1024
  RootT = 4
  Family = "termteval"
  Grids <- Grids_q2
  MaxT = 2
  MaxRoots = 1
  Known <- Known_none
INVARIANTS ContractHolds Emit

SPECIFICATION Spec
CONSTANTS
  U = 1024
  RootT = 4
  Family = "termteval"
  Grids <- Grids_ev1
  MaxT = 2
  MaxRoots = 1
  KAll = FALSE
  Known <- Known_none
INVARIANTS ContractHolds Emit

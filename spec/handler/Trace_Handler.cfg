SPECIFICATION TraceSpec
CONSTANTS
  U = 1024
  RootT = 4
POSTCONDITION TraceAccepted
CHECK_DEADLOCK FALSE

SPECIFICATION Spec
CONSTANTS
  U = 1024
  RootT = 4
  Family = "events"
  Grids <- Grids_ev
  MaxT = 1
  MaxRoots = 2
  KAll = FALSE
  Known <- Known_none
INVARIANTS ContractHolds Emit

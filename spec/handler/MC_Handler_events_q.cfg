SPECIFICATION Spec
CONSTANTS
  U = 1024
  RootT = 4
  Family = "events"
  Grids <- Grids_q
  MaxT = 2
  MaxRoots = 2
  Known <- Known_none
INVARIANTS ContractHolds Emit

SPECIFICATION Spec
CONSTANTS
  U = 1024
  RootT = 4
  Family = "teval"
  Grids <- Grids_q
  MaxT = 3
  MaxRoots = 1
  KAll = TRUE
  Known <- Known_none
INVARIANTS ContractHolds Emit

SPECIFICATION Spec
CONSTANTS
  U = 1024
  RootT = 4
  Family = "termteval"
  Grids <- Grids_ev
  MaxT = 2
  MaxRoots = 1
  KAll = TRUE
  Known <- Known_none
INVARIANTS ContractHolds Emit

SPECIFICATION Spec
CONSTANTS
  U = 1024
  RootT = 4
  Family = "termteval"
  Grids <- Grids_t2
  MaxT = 2
  MaxRoots = 2
  Known <- Known_none
INVARIANTS ContractHolds Emit

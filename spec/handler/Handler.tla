------------------------------ MODULE Handler ------------------------------
(***************************************************************************)
(* Level B (implementation-shaped) model of the output handler of          *)
(* solve_ivp: `DefaultSolOut::solout` in src/solve/solout.rs.              *)
(*                                                                         *)
(* One call of the callback is one application of Callback(sc, hs, k, TE): *)
(*   1 CollectDense   2 DetectEvents (sort, record, terminal early return) *)
(*   3 yold := y      4 Sampling (t_eval mode / solver-steps mode)         *)
(* exactly in the order and with the comparisons of the code.              *)
(*                                                                         *)
(* Time is abstract: positions are integers measured from x0 in the        *)
(* direction of integration, in sub-units of 1/U tick, 1 tick = 2^-40.     *)
(* The handler's absolute slack 1e-12 is 1.0995 tick (2^-40 = 9.09e-13     *)
(* <= 1e-12 < 2*2^-40): one tick for whole-tick positions, 1125 sub-units  *)
(* when step end points are jittered by sub-units.                         *)
(* Event functions are g(p) = sgn * PROD (p - root) measured in ticks.      *)
(* A step end answers for an event only where g vanishes there exactly     *)
(* (repair 4876364; before it the shortcut was |g| <= XTOL = 2 ticks, a    *)
(* bound on the VALUE of g that mislocates event functions of small scale).*)
(* Values are symbolic: [at |-> time the value belongs to, seg |-> index   *)
(* of the step whose interpolant (or end state) produced it].              *)
(***************************************************************************)
EXTENDS Integers, Sequences, FiniteSets, TLC

CONSTANT U            \* sub-units per tick

Tol   == (U * 1125) \div 1024    \* 1e-12 = 1.0995 ticks = 1125.9 sub-units of 2^-50 (floor: comparisons are on integers)
XTol  == 2            \* 2e-12, in whole ticks (event values are in ticks)

Abs(x)  == IF x < 0 THEN -x ELSE x
Sgn(x)  == IF x > 0 THEN 1 ELSE IF x < 0 THEN -1 ELSE 0
Min(a, b) == IF a < b THEN a ELSE b
Max(a, b) == IF a > b THEN a ELSE b

(* ---------------------------------------------------------------- events *)
RECURSIVE ProdRoots(_, _)
ProdRoots(roots, q) ==
    IF roots = <<>> THEN 1 ELSE (q - Head(roots)) * ProdRoots(Tail(roots), q)

\* value (in ticks) of event function e at a grid position p (a multiple of U)
G(e, p) == e.sgn * ProdRoots(e.roots, p \div U)

GVec(sc, p) == [i \in 1..Len(sc.evs) |-> G(sc.evs[i], p)]

\* `crossed` of the code
Crossed(l, r, dir) ==
    CASE dir = "All" -> (l <= 0 /\ r >= 0) \/ (l >= 0 /\ r <= 0)
      [] dir = "Pos" -> l < 0 /\ r >= 0
      [] dir = "Neg" -> l > 0 /\ r <= 0

(* ---------------------------------------------------------------- state *)
\* sc: scenario (inputs), see MC_Handler / Trace_Handler for its fields:
\*   grid  : <<p0 = 0, p1, ..., pm>>   accepted step end points
\*   hasT  : BOOLEAN, teval : sequence of requested times
\*   evs   : sequence of [roots, sgn, dir, term]   (term = 0: not terminal)
\*   dense : BOOLEAN
\*   hasFs : first_step given; fs : its magnitude; fsMatch : its sign equals the sign of xend - x0
\*           (the documented usage); the handler's target is x0 + fs in integration direction
HInit(sc) ==
    [ idx   |-> 1,                                   \* next_idx (1-based)
      out   |-> <<>>,                                \* collected samples [t, at, seg]
      prev  |-> [i \in 1..Len(sc.evs) |-> 0],        \* prev_event
      hits  |-> [i \in 1..Len(sc.evs) |-> 0],        \* event_hits
      tev   |-> [i \in 1..Len(sc.evs) |-> <<>>],     \* t_events / y_events
      fdone |-> FALSE,                               \* first_output_done
      yset  |-> FALSE,                               \* yold non-empty
      segs  |-> <<>>,                                \* dense segments [lo, h]
      flag  |-> "None" ]                             \* last returned ControlFlag

\* the state value handed to callback k: y(x_k)
StateVal(sc, k) == [at |-> sc.grid[k + 1], seg |-> k]
\* the interpolant of step k evaluated at t
Interp(k, t) == [at |-> t, seg |-> k]

(* ------------------------------------------------------- event detection *)
\* The set of indices whose event function `crossed` in step k
Detected(sc, hs, gcur) ==
    { i \in 1..Len(sc.evs) : Crossed(hs.prev[i], gcur[i], sc.evs[i].dir) }

\* How the event time is determined: "L" = left end (g vanishes there), "R" = right
\* end (g vanishes there), "B" = Brent refinement on the interpolant.
RefineKind(l, r) == IF l = 0 THEN "L" ELSE IF r = 0 THEN "R" ELSE "B"

\* Detected events of step k as records; TE[i] is the oracle for Brent's result.
EventRec(sc, hs, k, gcur, TE, i) ==
    LET a == sc.grid[k]  b == sc.grid[k + 1]
        kind == RefineKind(hs.prev[i], gcur[i])
    IN  CASE kind = "L" -> [i |-> i, t |-> a, at |-> a, seg |-> k - 1, cb |-> k]       \* (xold, yold)
          [] kind = "R" -> [i |-> i, t |-> b, at |-> b, seg |-> k, cb |-> k]           \* (x, y)
          [] kind = "B" -> [i |-> i, t |-> TE[i], at |-> TE[i], seg |-> k, cb |-> k]   \* interpolate(b)

\* stable sort by time in integration order = total order on (t, i)
Before(e1, e2) == e1.t < e2.t \/ (e1.t = e2.t /\ e1.i < e2.i)

RECURSIVE SortEvents(_)
SortEvents(S) ==
    IF S = {} THEN <<>>
    ELSE LET m == CHOOSE e \in S : \A f \in S \ {e} : Before(e, f)
         IN  <<m>> \o SortEvents(S \ {m})

\* requested times of the current step that are not beyond the terminal event are still reported
\* (terminal branch of the code; same scan as a regular step, bounded by the event time, no slack)
RECURSIVE ScanUpTo(_, _, _, _, _)
ScanUpTo(te, i, xold, tstop, k) ==
    IF i <= Len(te) /\ te[i] <= tstop
    THEN LET r == ScanUpTo(te, i + 1, xold, tstop, k)
             em == IF te[i] >= xold - Tol THEN <<[t |-> te[i], at |-> te[i], seg |-> k, ex |-> TRUE]>> ELSE <<>>
         IN <<r[1], em \o r[2]>>
    ELSE <<i, <<>>>>

\* Process the sorted events one by one; stops at a terminal event.
\* acc = [tev, hits, out, idx, stop]
RECURSIVE ProcessEvents(_, _, _, _)
ProcessEvents(sc, k, evs, acc) ==
    IF evs = <<>> \/ acc.stop THEN acc
    ELSE LET e == Head(evs)
             i == e.i
             hits2 == [acc.hits EXCEPT ![i] = @ + 1]
             tev2  == [acc.tev EXCEPT ![i] = Append(@, [t |-> e.t, at |-> e.at, seg |-> e.seg, cb |-> e.cb])]
             term  == sc.evs[i].term > 0 /\ hits2[i] >= sc.evs[i].term
             scan  == IF term /\ sc.hasT /\ k >= 1 THEN ScanUpTo(sc.teval, acc.idx, sc.grid[k], e.t, k) ELSE <<acc.idx, <<>>>>
         IN  ProcessEvents(sc, k, Tail(evs),
                 [ tev  |-> tev2, hits |-> hits2,
                   out  |-> IF term THEN Append(acc.out \o scan[2], [t |-> e.t, at |-> e.at, seg |-> e.seg, ex |-> TRUE]) ELSE acc.out,
                   idx  |-> scan[1],
                   stop |-> term ])

(* ------------------------------------------------------------- sampling *)
\* t_eval mode, initial-callback branch: |xold - x| <= tol
RECURSIVE ScanInit(_, _, _, _)
ScanInit(te, i, x, k) ==       \* returns <<new idx, emitted>>
    IF i <= Len(te) /\ Abs(te[i] - x) <= Tol
    THEN LET r == ScanInit(te, i + 1, x, k) IN <<r[1], <<[t |-> te[i], at |-> x, seg |-> k, ex |-> TRUE]>> \o r[2]>>
    ELSE <<i, <<>>>>

\* t_eval mode, regular step (xold, x]: forward branch of the code; the model measures
\* time in integration direction, so the backward branch is the same relation.
RECURSIVE ScanStep(_, _, _, _, _)
ScanStep(te, i, xold, x, k) ==
    IF i <= Len(te) /\ te[i] <= x + Tol
    THEN LET r == ScanStep(te, i + 1, xold, x, k)
             em == IF te[i] >= xold - Tol THEN <<[t |-> te[i], at |-> te[i], seg |-> k, ex |-> TRUE]>> ELSE <<>>
         IN <<r[1], em \o r[2]>>
    ELSE <<i, <<>>>>

(* -------------------------------------------------------------- callback *)
\* Callback number k (k = 0: initial call with xold = x = x0 and no interpolant).
\* TE: oracle, TE[i] = point returned by Brent for event function i (used only if refined).
Callback(sc, hs, k, TE) ==
    LET xold == IF k = 0 THEN sc.grid[1] ELSE sc.grid[k]
        x    == sc.grid[k + 1]
        y    == StateVal(sc, k)
        \* 1 dense collection: x # xold, interpolant present (k >= 1), seg.h # 0
        segs1 == IF sc.dense /\ x # xold /\ k >= 1 THEN Append(hs.segs, [lo |-> xold, h |-> x - xold]) ELSE hs.segs
        nev  == Len(sc.evs)
        gcur == GVec(sc, x)
        \* 2 events
        first == ~hs.yset
        det   == IF nev = 0 \/ first THEN {} ELSE Detected(sc, hs, gcur)
        recs  == { EventRec(sc, hs, k, gcur, TE, i) : i \in det }
        acc   == ProcessEvents(sc, k, SortEvents(recs), [tev |-> hs.tev, hits |-> hs.hits, out |-> hs.out, idx |-> hs.idx, stop |-> FALSE])
        prev2 == IF nev = 0 THEN hs.prev ELSE gcur
    IN
    IF acc.stop
    THEN \* terminal early return: before yold update and before sampling
         [hs EXCEPT !.segs = segs1, !.tev = acc.tev, !.hits = acc.hits, !.out = acc.out, !.idx = acc.idx, !.prev = prev2, !.flag = "Interrupt"]
    ELSE
    LET h1 == [hs EXCEPT !.segs = segs1, !.tev = acc.tev, !.hits = acc.hits, !.prev = prev2, !.yset = TRUE, !.flag = "Continue"]
    IN
    IF sc.hasT
    THEN \* Mode 1
         LET r == IF Abs(xold - x) <= Tol THEN ScanInit(sc.teval, h1.idx, x, k)
                                         ELSE ScanStep(sc.teval, h1.idx, xold, x, k)
         IN [h1 EXCEPT !.idx = r[1], !.out = h1.out \o r[2]]
    ELSE \* Mode 2
         IF sc.hasFs /\ ~h1.fdone /\ Abs(xold - x) > Tol
         THEN LET target == sc.fs
              IN IF x - target >= -Tol
                 THEN \* reached or passed the target (the interpolant is always present for k >= 1)
                      LET o1 == Append(h1.out, [t |-> target, at |-> target, seg |-> k, ex |-> TRUE])
                          o2 == IF Abs(x - target) > Tol THEN Append(o1, [t |-> x, at |-> x, seg |-> k, ex |-> TRUE]) ELSE o1
                      IN [h1 EXCEPT !.out = o2, !.fdone = TRUE]
                 ELSE h1                                           \* skip this output
         ELSE IF h1.out = <<>> \/ Abs(h1.out[Len(h1.out)].t - x) > Tol
              THEN [h1 EXCEPT !.out = Append(h1.out, [t |-> x, at |-> x, seg |-> k, ex |-> TRUE])]
              ELSE h1

(* ------------------------------------------------- oracle for Brent (MC) *)
\* Brent returns a point inside the bracket close to a root of g_i lying in the
\* step.  The bounded model lets it return the root itself or a point one tick
\* to either side (clipped to the bracket): enough to explore every ordering of
\* nearly simultaneous events.
RootsIn(e, a, b) == { c \in { e.roots[j] : j \in 1..Len(e.roots) } : a < c * U /\ c * U < b }
BrentChoices(e, a, b) ==
    { Max(a, Min(b, c * U + d)) : c \in RootsIn(e, a, b), d \in {-U, 0, U} }

=============================================================================

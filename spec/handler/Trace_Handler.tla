---------------------------- MODULE Trace_Handler ----------------------------
(***************************************************************************)
(* Trace specification: validates what the REAL output handler did (trace  *)
(* written by harness/src/bin/replay_handler.rs) against                   *)
(*   - Level B: every `cb` line must be the Callback action of Handler.tla *)
(*     (oracle for Brent's result bound from the log); a mismatch is DRIFT *)
(*   - Level A: at every `ret` line the contract operators of              *)
(*     HandlerContract.tla are evaluated on the logged outputs; a failed   *)
(*     clause prints VIOL.                                                 *)
(* The trace is accepted when every line has been consumed (POSTCONDITION).*)
(***************************************************************************)
EXTENDS HandlerContract, Json, IOUtils, TLCExt

Rec == ndJsonDeserialize(IOEnv.TRACE)

VARIABLES l, sc, hs, ok
tvars == <<l, sc, hs, ok>>

NoSc == [grid |-> <<0>>, hasT |-> FALSE, teval |-> <<>>, evs |-> <<>>, dense |-> FALSE, hasFs |-> FALSE, fs |-> 0, fsMatch |-> TRUE]

TraceInit == l = 1 /\ sc = NoSc /\ hs = HInit(NoSc) /\ ok = TRUE

IsEvent(e) == l <= Len(Rec) /\ Rec[l].e = e /\ l' = l + 1

TraceCall ==
    /\ IsEvent("call")
    /\ sc' = Rec[l].sc
    /\ hs' = HInit(Rec[l].sc)
    /\ ok' = TRUE

Conforms(h, r) ==
    /\ h.flag = r.flag
    /\ h.idx = r.idx
    /\ Len(h.out) = r.nout
    /\ Len(h.segs) = r.nsegs
    /\ h.hits = r.hits
    /\ h.fdone = r.fdone
    /\ h.prev = r.prev

TraceCb ==
    /\ IsEvent("cb")
    /\ LET r  == Rec[l]
           \* oracle for Brent's result: the logged event time; a function whose event was not reported at this
           \* callback (cut off by a terminal stop) can only have been sorted after the reported ones
           te == [i \in 1..Len(r.te) |-> IF r.te[i] = 0 /\ r.k >= 1 THEN sc.grid[r.k + 1] + 1 ELSE r.te[i]]
           h2 == Callback(sc, hs, r.k, te)
       IN  /\ hs' = h2
           /\ ok' = (ok /\ Conforms(h2, r))
           /\ (ok /\ ~Conforms(h2, r)) => PrintT(<<"DRIFT", "cb", l, r.k>>)
    /\ UNCHANGED sc

Obs(r) == [ sc |-> sc, K |-> r.K, intr |-> r.intr, out |-> r.out, tev |-> r.tev, segs |-> r.segs,
            alt |-> r.alt, nt |-> r.nt ]

TraceRet ==
    /\ IsEvent("ret")
    /\ LET r == Rec[l]
           R == Obs(r)
           F == IF r.panic THEN { <<"C04", "panic">> } ELSE Failed(R)
       IN  /\ \A f \in F : PrintT(<<"VIOL", f[1], f[2], r.id>>)
           \* Level B: final outputs of the model equal those of the code
           /\ (ok /\ ~r.panic /\ ~(Strip(hs.out) = Strip(r.out) /\ hs.tev = r.tev /\ hs.segs = r.segs))
                 => PrintT(<<"DRIFT", "ret", l, r.id>>)
    /\ UNCHANGED <<sc, hs, ok>>

TraceNext == TraceCall \/ TraceCb \/ TraceRet
TraceSpec == TraceInit /\ [][TraceNext]_tvars

TraceAccepted ==
    LET d == TLCGet("stats").diameter IN
    IF d - 1 = Len(Rec) THEN TRUE
    ELSE Print(<<"TRACE-REJECTED at line", d, IF d <= Len(Rec) THEN Rec[d] ELSE "eof">>, FALSE)
=============================================================================

----------------------------- MODULE MC_Handler -----------------------------
(***************************************************************************)
(* Bounded exhaustive model of the output handler.  The scenario (step     *)
(* grid, requested times, event functions, stop, options) is chosen in     *)
(* Init; the behaviour then delivers the callbacks one by one to three     *)
(* copies of the Level-B handler (the run itself, the run with             *)
(* dense_output flipped, the run with no event terminal) sharing the       *)
(* root-finder oracle, and at the end the Level-A contract is evaluated    *)
(* on the model's own outputs:  Level B => contract.                       *)
(* Every initial state prints its scenario for replay into the real code.  *)
(***************************************************************************)
EXTENDS HandlerContract, Json

CONSTANTS Family,      \* "teval" | "events" | "events2" | "termteval" | "fstep"
          Grids,       \* set of grids in ticks
          MaxT,        \* max number of requested times
          MaxRoots,    \* max roots per event function
          KAll,        \* TRUE: every budget stop 0..m ; FALSE: only the full run and the stop after the first step
          Known        \* set of <<prop, clause>> the model is allowed to fail (known findings), see cfg

VARIABLES sc, K, hs, hsA, hsN, k, pc
vars == <<sc, K, hs, hsA, hsN, k, pc>>

TermDirs == IF KAll THEN {"All", "Neg"} ELSE {"All"}
Scale(g) == [j \in 1..Len(g) |-> g[j] * U]
PosOf(g) == 0..g[Len(g)]                                  \* tick positions inside the span

NonDecSeqs(P, n) == UNION { { s \in [1..m -> P] : \A j \in 1..m - 1 : s[j] <= s[j + 1] } : m \in 0..n }

RootSets(P, n) == UNION { { s \in [1..m -> P] : \A j \in 1..m - 1 : s[j] < s[j + 1] } : m \in 1..n }

EvFns(P, n, dirs, terms) ==
    { [roots |-> r, sgn |-> s, dir |-> d, term |-> t] : r \in RootSets(P, n), s \in {1, -1}, d \in dirs, t \in terms }

NoEv == <<>>
Base(g) == [grid |-> Scale(g), hasT |-> FALSE, teval |-> <<>>, evs |-> NoEv, dense |-> TRUE, hasFs |-> FALSE, fs |-> 0, fsMatch |-> TRUE]

ScenariosOf(g) ==
    CASE Family = "teval" ->
            \* the accepted-step end points are jittered by -1/0/+1 sub-unit (~1e-15): a stepper lands on
            \* its targets only to rounding, while the requested times are exact
            { [Base(g) EXCEPT !.hasT = TRUE, !.teval = Scale(s), !.dense = d,
                              !.grid = [j \in 1..Len(g) |-> IF j = 1 THEN 0 ELSE g[j] * U + jit]] :
                 s \in NonDecSeqs(PosOf(g), MaxT), d \in BOOLEAN, jit \in {-1, 0, 1} }
      [] Family = "events" ->
            \* with no requested times, or with one requested time only at the end of the grid (the first reported
            \* point then lies after x0: event bookkeeping must not depend on what has been reported so far)
            { [Base(g) EXCEPT !.evs = <<e>>, !.hasT = tv, !.teval = IF tv THEN <<g[Len(g)] * U>> ELSE <<>>] :
                 e \in EvFns(PosOf(g), MaxRoots, {"All", "Pos", "Neg"}, {0, 1, 2}), tv \in BOOLEAN }
      [] Family = "events2" ->
            { [Base(g) EXCEPT !.evs = <<e1, e2>>] :
                 e1 \in { e \in EvFns(PosOf(g), 1, {"All", "Pos"}, {0, 1}) : e.sgn = 1 },
                 e2 \in EvFns(PosOf(g), MaxRoots, {"All", "Neg"}, {0, 1}) }
      [] Family = "termteval" ->
            { [Base(g) EXCEPT !.hasT = TRUE, !.teval = Scale(s), !.evs = <<e>>] :
                 s \in NonDecSeqs(PosOf(g), MaxT),
                 e \in EvFns(PosOf(g), MaxRoots, TermDirs, {1, 2}) }
      [] Family = "fstep" ->
            { [Base(g) EXCEPT !.hasFs = TRUE, !.fs = f * U, !.fsMatch = fm, !.evs = ev] :
                 f \in 1..g[Len(g)], fm \in BOOLEAN,
                 ev \in {NoEv} \cup { <<e>> : e \in EvFns(PosOf(g), 1, {"All"}, {0, 1}) } }

Scenarios == UNION { ScenariosOf(g) : g \in Grids }

\* terms zeroed: the same run with no event terminal
NoTerm(s) == [s EXCEPT !.evs = [i \in 1..Len(s.evs) |-> [s.evs[i] EXCEPT !.term = 0]]]
Flip(s)   == [s EXCEPT !.dense = ~s.dense]

Init == /\ sc \in Scenarios
        /\ K \in (IF KAll THEN 0..(Len(sc.grid) - 1) ELSE {Len(sc.grid) - 1, 1} \cap 0..(Len(sc.grid) - 1))   \* accepted steps delivered (budget stop)
        /\ hs = HInit(sc) /\ hsA = HInit(sc) /\ hsN = HInit(sc)
        /\ k = 0 /\ pc = "run"

\* oracle: one Brent result per event function for this step
RECURSIVE SeqProduct(_)
SeqProduct(cs) == IF cs = <<>> THEN { <<>> }
                  ELSE { <<h>> \o t : h \in Head(cs), t \in SeqProduct(Tail(cs)) }
Oracles(kk) ==
    IF kk = 0 \/ Len(sc.evs) = 0 THEN { [i \in 1..Len(sc.evs) |-> 0] }
    ELSE LET a == sc.grid[kk]  b == sc.grid[kk + 1]
             ch(i) == LET c == BrentChoices(sc.evs[i], a, b) IN IF c = {} THEN {0} ELSE c
         IN  SeqProduct([i \in 1..Len(sc.evs) |-> ch(i)])

Step == /\ pc = "run" /\ k <= K
        /\ \E TE \in Oracles(k) :
              /\ hs'  = IF hs.flag = "Interrupt" THEN hs ELSE Callback(sc, hs, k, TE)
              /\ hsA' = IF hsA.flag = "Interrupt" THEN hsA ELSE Callback(Flip(sc), hsA, k, TE)
              /\ hsN' = Callback(NoTerm(sc), hsN, k, TE)
        /\ k' = k + 1
        /\ pc' = IF k = K THEN "done" ELSE "run"
        /\ UNCHANGED <<sc, K>>

Next == Step \/ (pc = "done" /\ UNCHANGED vars)
Spec == Init /\ [][Next]_vars

\* the observed-run record of the model's own behaviour
RunRec ==
    LET kk == IF hs.flag = "Interrupt"
              THEN \* the callback that interrupted is the last delivered one
                   LET cbs == { e.cb : e \in UNION { Range(hs.tev[i]) : i \in 1..Len(hs.tev) } } IN
                   CHOOSE n \in cbs : \A m \in cbs : m <= n
              ELSE K
    IN [ sc |-> sc, K |-> kk, intr |-> hs.flag = "Interrupt", out |-> hs.out, tev |-> hs.tev, segs |-> hs.segs,
         alt |-> hsA.out, nt |-> [out |-> hsN.out, tev |-> hsN.tev] ]

\* Level B => contract, on every completed behaviour (Known = clauses with a recorded finding)
ContractHolds == pc = "done" => (Failed(RunRec) \subseteq Known \/ (PrintT(<<"FAILED", Failed(RunRec)>>) /\ FALSE))

\* anti-vacuity witnesses (checked to be VIOLATED by selftest configurations)
NeverInterrupt == ~(pc = "done" /\ hs.flag = "Interrupt")

Grids_q == { <<0, 4, 8, 12>>, <<0, 4, 7>>, <<0, 5>> }
Grids_t == { <<0, 4, 8, 12>>, <<0, 4, 7>>, <<0, 5>>, <<0, 2, 5, 8>>, <<0, 3, 5>>, <<0, 6, 8, 14>> }
Grids_q2 == { <<0, 4, 8>>, <<0, 5>> }
\* steps of 6-7 ticks: roots 3 or more ticks away from both step ends are refined by the real Brent code
Grids_ev == { <<0, 6, 13>>, <<0, 7>> }
Grids_ev1 == { <<0, 6, 13>> }
Grids_evt == { <<0, 6, 13>>, <<0, 7>>, <<0, 4, 10, 17>>, <<0, 2, 9>> }

Grids_t2 == { <<0, 4, 8, 12>>, <<0, 4, 7>>, <<0, 5>>, <<0, 2, 5>> }
Known_none == {}

\* scenario emission for replay into the real handler
Emit == (pc = "run" /\ k = 0) => PrintT(<<"REPLAY", ToJson([sc |-> sc, K |-> K])>>)
=============================================================================

SPECIFICATION Spec
CONSTANTS
  U = 1024
  RootT = 4
  Family = "events2"
  Grids <- Grids_t2
  MaxT = 2
  MaxRoots = 1
  Known <- Known_none
INVARIANTS ContractHolds Emit

SPECIFICATION Spec
CONSTANTS
  U = 1024
  RootT = 4
  Family = "events2"
  Grids <- Grids_ev
  MaxT = 1
  MaxRoots = 1
  KAll = TRUE
  Known <- Known_none
INVARIANTS ContractHolds Emit

---------------------------- MODULE Trace_Stepper ----------------------------
(***************************************************************************)
(* Trace specification for recorded runs of solve_ivp and of the six       *)
(* low-level solvers (harness/src/bin/record.rs).  One line = one action:  *)
(*   call  - a run starts (configuration)                                  *)
(*   ode / jac / ev - the code evaluated f / the Jacobian / the events     *)
(*   cb    - a SolOut callback of a low-level solver (recording SolOut)    *)
(*   hk    - a decision point reported through the hook (see Trace_Radau)  *)
(*   gap   - summary of elided events of a very long run                   *)
(*   fact  - a relational fact about runs too long to trace line by line   *)
(*   ret | abort - the run returned / was cut by budget or panicked        *)
(*   pair  - two finished runs related by a relational clause              *)
(* Per-event clauses (evaluation inside the span, callback protocol) are   *)
(* evaluated as the events stream by; per-run clauses at ret; relational   *)
(* clauses at pair.  A failed clause prints VIOL and the run continues.    *)
(***************************************************************************)
EXTENDS StepperContract, Json, IOUtils, TLCExt

Rec == ndJsonDeserialize(IOEnv.TRACE)

VARIABLES l, C, A
tvars == <<l, C, A>>

NoCall == [id |-> 0]
A0 == [ nOde |-> 0, nOdeJ |-> 0, nJac |-> 0, nEv |-> 0, nCb |-> 0,
        evalOut |-> 0, maxEval |-> -1,
        lastX |-> -1, lastXb |-> "", interrupted |-> FALSE, afterStop |-> 0,
        modPending |-> "", modBad |-> 0, cbBad |-> 0, ipBad |-> 0, rsBad |-> 0, rsSeen |-> 0, active |-> FALSE,
        recent |-> {}, needDeriv |-> "", derivBad |-> 0,
        \* Level B (Stepper.tla) conformance for the explicit solvers on low-level runs:
        iv |-> <<>>,            \* ranks of the stepper evaluations since the last callback
        prevMod |-> FALSE,      \* the last callback returned ModifiedSolution (one re-evaluation follows it)
        mAtt |-> 0, mAcc |-> 0, mRej |-> 0, mTot |-> 0, lbBad |-> 0,
        gapped |-> FALSE, everGapped |-> FALSE,
        \* Level B (BdfOrder.tla): order the previous step was taken with, length of the run of equal steps, offences
        bdfOrd |-> 0, bdfRun |-> 0, bdfBad |-> 0, bdfMax |-> 0 ]   \* events were elided since the last callback / anywhere in this run

TraceInit == l = 1 /\ C = NoCall /\ A = A0

IsEvent(e) == l <= Len(Rec) /\ Rec[l].e = e /\ l' = l + 1

\* (IF, not \/: a disjunction inside an action would be explored as two branches)
Viol(prop, clause, ok) == IF ok THEN TRUE ELSE PrintT(<<"VIOL", prop, clause, C.id>>)

TraceCall ==
    /\ IsEvent("call")
    /\ C' = Rec[l]
    /\ A' = [A0 EXCEPT !.active = TRUE]

Out(r) == IF InSpan(C, r) THEN 0 ELSE 1

TraceOde ==
    /\ IsEvent("ode")
    /\ LET e == Rec[l]
           plain == ~e.j
           \* after ModifiedSolution the next stepper evaluation must be at the state the callback wrote
           modok == ~plain \/ A.modPending = "" \/ e.d = A.modPending
       IN A' = [A EXCEPT !.nOde = IF plain THEN @ + 1 ELSE @,
                         !.nOdeJ = IF plain THEN @ ELSE @ + 1,
                         !.evalOut = @ + Out(e.r),
                         !.maxEval = IF e.r > @ THEN e.r ELSE @,
                         !.afterStop = IF A.interrupted THEN @ + 1 ELSE @,
                         !.modBad = IF modok THEN @ ELSE @ + 1,
                         !.modPending = IF plain THEN "" ELSE @,
                         !.recent = IF plain THEN @ \cup {e.d} ELSE @,
                         !.needDeriv = IF plain /\ e.d = @ THEN "" ELSE @,
                         !.iv = IF plain /\ Len(@) < 4000 THEN Append(@, e.r) ELSE @]
    /\ UNCHANGED C

TraceJac ==
    /\ IsEvent("jac")
    /\ A' = [A EXCEPT !.nJac = @ + 1, !.evalOut = @ + Out(Rec[l].r),
                      !.afterStop = IF A.interrupted THEN @ + 1 ELSE @]
    /\ UNCHANGED C

TraceEv ==
    /\ IsEvent("ev")
    /\ A' = [A EXCEPT !.nEv = @ + 1, !.evalOut = @ + Out(Rec[l].r)]
    /\ UNCHANGED C

\* decision points reported by the solver through the verification hook: consumed by Trace_Radau, skipped here
TraceHk == IsEvent("hk") /\ UNCHANGED <<C, A>>

\* a relational fact the recorder computed over runs that are too long to be traced line by line (e.g. more than 100000
\* steps): the line names property and clause and carries the verdict
TraceFact == /\ IsEvent("fact")
             /\ IF Rec[l].ok THEN TRUE ELSE PrintT(<<"VIOL", Rec[l].prop, Rec[l].clause, Rec[l].id>>)
             /\ UNCHANGED <<C, A>>

X2AtZero == \E j \in 1..Len(C.script) : C.script[j].k = 0 /\ C.script[j].action = "modify_x2"

(* ---- Level B attempt grammars of the implicit solvers (ranks of the stepper evaluations between two callbacks) *)
\* Radau: attempt = (Newton iteration = 3 stage evaluations at x+c1h < x+c2h < x+h)+ , optionally one evaluation at
\* x (refined error estimate on a first / rejected step); failed attempts are retried with a smaller h; the accepted
\* attempt is followed by one evaluation at the new x.  Returns [ok, att, it].
RECURSIVE RadauParse(_, _, _, _, _, _, _)
RadauParse(evs, i, xo, xn, curC, att, it) ==
    IF i > Len(evs) THEN [ok |-> FALSE, att |-> att, it |-> it]                       \* the accept evaluation is missing
    ELSE IF i = Len(evs) THEN [ok |-> (evs[i] = xn /\ curC = xn /\ att >= 1), att |-> att, it |-> it]
    ELSE IF evs[i] = xo /\ att >= 1 THEN RadauParse(evs, i + 1, xo, xn, curC, att, it)   \* refinement evaluation at x
    ELSE IF i + 2 <= Len(evs) /\ evs[i] < evs[i + 1] /\ evs[i + 1] < evs[i + 2] /\ evs[i] > xo
         THEN LET c == evs[i + 2] IN
              IF c = curC THEN RadauParse(evs, i + 3, xo, xn, curC, att, it + 1)            \* next Newton iteration
              ELSE IF curC = -1 \/ c < curC THEN RadauParse(evs, i + 3, xo, xn, c, att + 1, it + 1)   \* new (smaller) attempt
              ELSE [ok |-> FALSE, att |-> att, it |-> it]
         ELSE [ok |-> FALSE, att |-> att, it |-> it]
\* BDF: attempt = 1..4 Newton evaluations, all at x+h; failed attempts are retried with a smaller h; the accepted
\* attempt ends at the new x (no separate evaluation there).
RECURSIVE BdfParse(_, _, _, _, _, _, _)
BdfParse(evs, i, xo, xn, cur, att, inAtt) ==
    IF i > Len(evs) THEN [ok |-> (cur = xn /\ att >= 1), att |-> att, it |-> 0]
    ELSE IF evs[i] = cur /\ inAtt < 8 THEN BdfParse(evs, i + 1, xo, xn, cur, att, inAtt + 1)
    ELSE IF evs[i] > xo /\ (cur = -1 \/ evs[i] < cur) THEN BdfParse(evs, i + 1, xo, xn, evs[i], att + 1, 1)
    ELSE [ok |-> FALSE, att |-> att, it |-> 0]

TraceCb ==
    /\ IsEvent("cb")
    \* Level B: BDF restarts its history on ModifiedSolution - the step that follows equals the first step of a fresh run from
    \* the point the callback left (probe of the recorder; the listed properties do not demand it: drift, never a violation)
    /\ ((Rec[l].hasip /\ ~Rec[l].ip.cont_ok) => PrintT(<<"DRIFT", "bdf_restart", C.id, C.method>>))
    /\ LET e == Rec[l]
           first == A.nCb = 0
           okFirst == /\ e.k = 0 /\ e.xold.b = C.x0.b /\ e.x.b = C.x0.b
                      /\ (X2AtZero \/ e.d = C.y0d)
           okStep  == /\ e.k = A.nCb
                      /\ e.contig                               \* xold is the previous x (to rounding)
                      /\ e.x.r > e.xold.r                       \* strictly advances
                      /\ (C.lowdense => e.hasip) /\ e.ip.b_ok   \* interpolant valid on exactly that interval
           ok == IF first THEN okFirst ELSE okStep
           ipok == first \/ ~e.hasip \/ (e.ip.l_ok /\ e.ip.r_ok /\ (e.ip.fin \/ ~e.fin))
           \* the interpolant of a step is a function of that step alone: a fresh solver redoing the step from
           \* (xold, yold) hands out the same polynomial (restart probe of the recorder, explicit methods)
           rsok == first \/ ~e.hasip \/ e.ip.rs_ok
           \* the derivative a step starts from is f at the accepted state it starts from: the one-step methods must
           \* have evaluated f(x_k, y_k) - before handing step k to SolOut or afterwards - by the time step k+1 is
           \* accepted (BDF works on differences instead)
           derivok == A.needDeriv = "" \/ A.gapped
           need == IF first \/ C.method = "BDF" \/ A.gapped \/ e.d \in A.recent THEN "" ELSE e.d
           \* ---- Level B: the evaluations since the previous callback are (rejected attempts)* accepted attempt,
           \* each attempt a fixed block of stage evaluations at x + c_i h (Stepper.tla Trial), as coded per method
           \* (a scheduled XOut point makes DOP853 build dense coefficients on some steps only: not modelled)
           explicit == C.method \in {"RK4", "RK23", "DOPRI5", "DOP853"} /\ C.api = "low"
                       /\ ~(\E j \in 1..Len(C.script) : C.script[j].action = "xout")
           per   == CASE C.method = "RK4" -> 4 [] C.method = "RK23" -> 3 [] C.method = "DOPRI5" -> 6 [] OTHER -> 11
           extra == IF C.method = "DOP853" THEN (IF C.lowdense THEN 4 ELSE 1) ELSE 0
           evs   == IF A.prevMod /\ Len(A.iv) >= 1 THEN Tail(A.iv) ELSE A.iv
           body  == Len(evs) - extra
           natt  == body \div per
           \* the last stage of every attempt is at x + h: strictly shrinking over the rejected attempts, and the
           \* accepted one ends exactly at the new x
           ends  == [j \in 1..natt |-> evs[j * per]]
           shape == /\ body >= per /\ body % per = 0
                    /\ \A j \in 1..natt - 1 : ends[j] > ends[j + 1]
                    /\ ends[natt] = e.xin.r                          \* (xin: x as the solver passed it; the callback may move x)
                    /\ \A j \in 1..Len(evs) : evs[j] >= e.xold.r /\ evs[j] <= ends[1]
           implicitM == C.method \in {"RADAU", "BDF"} /\ C.api = "low"
           ip == IF first \/ ~implicitM \/ A.gapped \/ Len(A.iv) >= 4000 THEN [ok |-> TRUE, att |-> 0, it |-> 0]
                 ELSE IF C.method = "RADAU" THEN RadauParse(evs, 1, e.xold.r, e.xin.r, -1, 0, 0)
                 ELSE BdfParse(evs, 1, e.xold.r, e.xin.r, -1, 0, 0)
           lbok  == (first \/ ~explicit \/ Len(A.iv) >= 4000 \/ A.gapped \/ shape) /\ ip.ok
           nrejNow == IF first \/ ~explicit \/ ~shape THEN 0 ELSE natt - 1
           \* rejection counting rule of the code: RK23 counts every rejection; DOPRI5/DOP853 only once two steps were accepted
           rejCounted == IF C.method = "RK23" THEN nrejNow ELSE IF A.mAcc > 1 THEN nrejNow ELSE 0
           totNow == IF first THEN 0 ELSE IF C.method \in {"RK4", "RK23"} THEN 1 ELSE nrejNow + 1
           \* ---- Level B (BdfOrder.tla): order bookkeeping of BDF as seen through the dense coefficient marker
           bdf   == C.method = "BDF" /\ C.api = "low" /\ ~first /\ e.hasip
           o     == e.ip.ord
           bdfok == ~bdf \/
                    ( /\ o >= 1 /\ o <= 5
                      /\ (A.prevMod => o = 1)                                            \* ModifiedSolution restarts at order 1
                      /\ (A.bdfOrd # 0 /\ ~A.prevMod => (o - A.bdfOrd \in {-1, 0, 1}))   \* one order at a time
                      /\ (A.bdfOrd # 0 /\ o = A.bdfOrd + 1 => A.bdfRun >= A.bdfOrd + 1) ) \* an increase needs order+1 equal steps
           runNow == IF bdf /\ o = A.bdfOrd /\ e.ip.heq THEN A.bdfRun + 1 ELSE 1
       IN A' = [A EXCEPT !.nCb = @ + 1,
                         !.cbBad = IF ok THEN @ ELSE @ + 1,
                         !.ipBad = IF ipok THEN @ ELSE @ + 1,
                         !.rsBad = IF rsok THEN @ ELSE @ + 1,
                         !.rsSeen = IF ~first /\ e.hasip /\ e.ip.rs THEN @ + 1 ELSE @,
                         !.derivBad = IF derivok THEN @ ELSE @ + 1,
                         !.recent = {}, !.needDeriv = need,
                         !.iv = <<>>, !.prevMod = (e.ret = "Modified"), !.gapped = FALSE,
                         !.lbBad = IF lbok THEN @ ELSE @ + 1,
                         !.mAtt = @ + nrejNow + (IF first THEN 0 ELSE 1) + (IF ip.att > 1 THEN ip.att - 1 ELSE 0),
                         !.mAcc = IF first THEN @ ELSE @ + 1,
                         !.mRej = @ + rejCounted,
                         !.mTot = @ + totNow,
                         !.bdfBad = IF bdfok THEN @ ELSE @ + 1,
                         !.bdfOrd = IF bdf THEN o ELSE @, !.bdfRun = runNow,
                         !.bdfMax = IF bdf /\ o > @ THEN o ELSE @,
                         !.lastX = e.x.r, !.lastXb = e.x.b,
                         !.afterStop = IF A.interrupted THEN @ + 1 ELSE @,
                         !.interrupted = (e.ret = "Interrupt"),
                         !.modPending = IF e.ret = "Modified" THEN e.d ELSE ""]
    /\ UNCHANGED C

TraceGap ==
    /\ IsEvent("gap")
    /\ LET e == Rec[l] IN
       A' = [A EXCEPT !.nOde = @ + e.n_ode, !.nOdeJ = @ + e.n_odej, !.nJac = @ + e.n_jac, !.nEv = @ + e.n_ev,
                      !.nCb = @ + e.n_cb, !.rsBad = @ + e.rs_bad,
                      !.recent = {}, !.needDeriv = "", !.iv = <<>>, !.gapped = TRUE, !.everGapped = TRUE, !.modPending = "", !.bdfOrd = 0, !.bdfRun = 0,
                      !.evalOut = @ + Out(e.rmin) + Out(e.rmax),
                      !.maxEval = IF e.rmax > @ THEN e.rmax ELSE @]
    /\ UNCHANGED C

TraceRet ==
    /\ IsEvent("ret")
    /\ LET R == Rec[l] IN
       /\ Viol("C02", "radau_nodes", C02_RadauNodes(R))
       /\ Viol("C02", "radau_converged", C02_RadauConverged(R))
       /\ Viol("C03", "evals_in_span", C03_EvalsInSpan(A))
       /\ Viol("C03", "samples", C03_Samples(C, R))
       /\ Viol("C03", "status", C03_Status(C, A, R))
       /\ Viol("C04", "honest_status", C04_Honest(C, R))
       /\ Viol("C05", "recorded", C05_Recorded(C, R))
       /\ Viol("C06", "solution", C06_Solution(C, R))
       /\ Viol("C06", "callback_interpolant", C06_Callback(A))
       /\ Viol("C07", "restart", A.rsBad = 0)         \* every step's interpolant equals the one a fresh solver builds for that step (explicit methods); a BDF step taken after `order` steps of equal size reproduces the order+1 accepted states its polynomial is built from
       /\ Viol("C08", "recorded", C08_Recorded(C, R))
       /\ Viol("C08", "direction", C08_Direction(C, R))
       /\ Viol("C09", "recorded", C09_Recorded(C, R))
       /\ Viol("C09", "no_spurious", C09_NoSpurious(C, R))
       /\ Viol("C10", "recorded", C10_Recorded(C, R))
       /\ Viol("C10", "honoured", C10_Honoured(C, R))
       /\ Viol("C10", "no_pass", C10_NoPass(C, R))
       /\ Viol("C11", "options", C11_Options(C, R))
       /\ Viol("C18", "counters", C18_Counters(C, A, R))
       /\ Viol("C18", "intervals", C18_Intervals(C, R))
       /\ Viol("C15", "dae", C15_Dae(C, R))
       /\ Viol("C15", "mass_reference", C15_MassRef(C, R))
       /\ Viol("C19", "protocol", C19_Protocol(C, A, R))
       /\ Viol("C19", "interpolant", IsLow(R) => (C06_Callback(A) /\ A.rsBad = 0))   \* "passing an interpolant valid on that interval"
       \* Level B conformance (drift, never a violation): attempt structure and the counters the model predicts
       /\ LET lb == C.method \in {"RK4", "RK23", "DOPRI5", "DOP853"} /\ C.api = "low" /\ R.kind = "low"
                      /\ ~(\E j \in 1..Len(C.script) : C.script[j].action = "xout")
                      /\ R.status \in {"Success", "UserInterrupt"} /\ ~A.everGapped IN
          /\ (lb /\ A.lbBad > 0) => PrintT(<<"DRIFT", "attempt_structure", C.id, C.method>>)
          /\ (lb /\ A.lbBad = 0 /\ ~(R.naccpt = A.mAcc /\ R.nrejct = A.mRej /\ R.nstep = A.mTot))
                => PrintT(<<"DRIFT", "counting_rule", C.id, C.method, <<R.naccpt, R.nrejct, R.nstep>>, <<A.mAcc, A.mRej, A.mTot>>>>)
          /\ lb => PrintT(<<"COVER", C.method, A.mAcc, A.mAtt - A.mAcc>>)
       /\ (C.method \in {"RADAU", "BDF"} /\ C.api = "low" /\ R.kind = "low" /\ A.lbBad > 0) => PrintT(<<"DRIFT", "attempt_structure", C.id, C.method>>)
       /\ (C.method \in {"RADAU", "BDF"} /\ C.api = "low" /\ R.kind = "low" /\ ~A.everGapped) => PrintT(<<"COVER", C.method, A.mAcc, A.mAtt - A.mAcc>>)
       /\ (C.method = "BDF" /\ C.api = "low" /\ A.bdfBad > 0) => PrintT(<<"DRIFT", "bdf_order", C.id, C.method>>)
       /\ (C.method = "BDF" /\ C.api = "low" /\ R.kind = "low") => PrintT(<<"COVER", "BDF_max_order_" \o ToString(A.bdfMax), 1, 0>>)
    /\ A' = [A EXCEPT !.active = FALSE]
    /\ UNCHANGED C

TraceAbort ==
    /\ IsEvent("abort")
    /\ Viol("C04", "abort_" \o Rec[l].why, FALSE)
    /\ Viol("C15", "mass_reference", ~Rec[l].mass_unsolved)     \* y' = M^-1 f is solvable, M y' = f was not solved
    /\ Viol("C03", "evals_in_span", C03_EvalsInSpan(A))
    /\ A' = [A EXCEPT !.active = FALSE]
    /\ UNCHANGED C

PViol(p, ok) == IF ok THEN TRUE ELSE PrintT(<<"VIOL", p.prop, "pair_" \o p.mode, p.b>>)

TracePair ==
    /\ IsEvent("pair")
    /\ LET p  == Rec[l]
           Ca == Rec[p.ca]  Ra == Rec[p.la]
           Cb == Rec[p.cb]  Rb == Rec[p.lb]
           both == Ra.e = "ret" /\ Rb.e = "ret" /\ Ra.kind # "err" /\ Rb.kind # "err"
           same_err == Ra.e = Rb.e /\ (Ra.e = "ret" => Ra.kind = Rb.kind /\ Ra.status = Rb.status)
       IN  IF ~both THEN PViol(p, same_err \/ p.mode \in {"budget_prefix", "prefix_cb", "terminal_prefix"})
           ELSE CASE p.mode = "equal"           -> PViol(p, Rel_Equal(Ra, Rb))
                  [] p.mode = "equal_y"         -> PViol(p, Rel_EqualY(Ra, Rb))
                  [] p.mode = "observer"        -> PViol(p, Rel_Observer(Ca, Ra, Cb, Rb))
                  [] p.mode = "budget_prefix"   -> PViol(p, Rel_BudgetPrefix(Ra, Cb, Rb))
                  [] p.mode = "terminal_prefix" -> PViol(p, Rel_TerminalPrefix(Ra, Cb, Rb) /\ p.fact)
                  [] p.mode = "grid_values"     -> PViol(p, p.fact)
                  \* duplication: unchanged "up to rounding in the error norm": counters and status equal, all copies of the
                  \* duplicated run bit-identical to each other, times / states equal to rounding (fact of the recorder)
                  [] p.mode = "copies"          -> PViol(p, p.fact /\ Ra.status = Rb.status /\ Counters(Ra) = Counters(Rb)
                                                              /\ (IsSol(Rb) => Rb.copies_eq))
                  [] p.mode = "mirror_events"   -> PViol(p, p.fact /\ (Ra.status = Rb.status))
                  [] p.mode = "prefix_cb"       -> PViol(p, Rel_PrefixCb(Ra, Cb, Rb))
                  [] p.mode = "equal_cb"        -> PViol(p, Rel_EqualCb(Ra, Rb))
                  \* the same stepper evaluations (times and states), status and counters; callbacks are not compared
                  [] p.mode = "equal_low"       -> PViol(p, Ra.status = Rb.status /\ Ra.oded = Rb.oded /\ Counters(Ra) = Counters(Rb))
                  [] p.mode = "dense_indep"     -> PViol(p, Rel_DenseIndep(Ra, Rb))
                  [] OTHER                      -> PViol(p, Rel_EqualCb(Ra, Rb) /\ Ra.oded = Rb.oded)   \* double_from:k (states mapped back by the recorder)
    /\ UNCHANGED <<C, A>>

TraceNext == TraceCall \/ TraceOde \/ TraceJac \/ TraceEv \/ TraceHk \/ TraceFact \/ TraceCb \/ TraceGap \/ TraceRet \/ TraceAbort \/ TracePair
TraceSpec == TraceInit /\ [][TraceNext]_tvars

TraceAccepted ==
    LET d == TLCGet("stats").diameter IN
    IF d - 1 = Len(Rec) THEN TRUE
    ELSE Print(<<"TRACE-REJECTED at line", d, IF d <= Len(Rec) THEN Rec[d] ELSE "eof">>, FALSE)
=============================================================================

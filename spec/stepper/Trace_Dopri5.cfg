SPECIFICATION TraceSpec
CONSTANTS
  Stages = 6
  AccEvals = 0
  DenseEvals = 0
  StiffEvery = 1000
  StiffLimit = 15
  NonStiffReset = 6
  Metric = FALSE
CONSTRAINT Track
INVARIANT TraceInv
POSTCONDITION Accepted
CHECK_DEADLOCK FALSE

SPECIFICATION TraceSpec
CONSTANTS
  Stages = 3
  AccEvals = 1
  DenseEvals = 0
  CountRule = "scipy"
  HasHinit = FALSE
  HasSmall = FALSE
  StiffEvery = 0
  StiffLimit = 15
  NonStiffReset = 6
  Metric = FALSE
  LowBudget = 100000
CONSTRAINT Track
INVARIANT TraceInv
POSTCONDITION Accepted
CHECK_DEADLOCK FALSE

------------------------------ MODULE BdfOrder ------------------------------
(***************************************************************************)
(* Level B model of the order / step-size bookkeeping of BDF                *)
(* (src/methods/bdf.rs): `order` in 1..5, `n_equal_steps` = accepted steps  *)
(* taken since the step size or the order last changed.                    *)
(*   Accept         n_equal + 1                                            *)
(*   Adapt          only when n_equal >= order + 1 after an accepted step: *)
(*                  order' in {order-1, order, order+1} within 1..5, the   *)
(*                  step factor is applied, n_equal := 0                    *)
(*   Reject / NewtonFail / SingularLU / ClampToHmax / ClampToHmin / Land   *)
(*                  change the step size only: n_equal := 0, order kept    *)
(*   Modified       (ModifiedSolution from the callback) restarts the      *)
(*                  history: order := 1, n_equal := 0                      *)
(* The observable trace of a run is the sequence of accepted steps, each    *)
(* with the order it was taken with and whether its size equals the        *)
(* previous accepted step's size.                                          *)
(***************************************************************************)
EXTENDS Integers, Sequences, TLC

CONSTANTS MaxOrder, MaxAcc      \* 5 ; bound on accepted steps for the bounded model

VARIABLES order, nEq, acc, hist
\* hist: sequence of [ord |-> order the step was taken with, same |-> step size unchanged since the previous accepted step]
vars == <<order, nEq, acc, hist>>

Init == order = 1 /\ nEq = 0 /\ acc = 0 /\ hist = <<>>

\* an accepted step taken with the current order; `same` records whether h changed since the previous accepted step
Accept(same) ==
    /\ acc < MaxAcc
    /\ acc' = acc + 1
    /\ nEq' = nEq + 1
    /\ hist' = Append(hist, [ord |-> order, same |-> same])
    /\ UNCHANGED order

\* order / step adaptation after an accepted step (before the next attempt)
Adapt ==
    /\ nEq >= order + 1
    /\ \E o2 \in {order - 1, order, order + 1} :
          /\ o2 >= 1 /\ o2 <= MaxOrder
          /\ order' = o2
    /\ nEq' = 0
    /\ UNCHANGED <<acc, hist>>

\* any event that changes the step size without touching the order
StepSizeChange == /\ nEq' = 0 /\ UNCHANGED <<order, acc, hist>>

Modified == /\ order' = 1 /\ nEq' = 0 /\ UNCHANGED <<acc, hist>>

\* the `same` flag of the next accepted step is TRUE exactly when nothing reset nEq since the last accepted one
Next == \/ Accept(nEq >= 1)
        \/ Adapt
        \/ StepSizeChange
        \/ Modified

Spec == Init /\ [][Next]_vars

(* ------------------------------------------------------------ invariants *)
OrderInRange == order >= 1 /\ order <= MaxOrder
\* the order changes by at most one between consecutive accepted steps (unless restarted to 1)
SmallOrderMoves == \A k \in 1..Len(hist) - 1 :
                      \/ hist[k + 1].ord - hist[k].ord \in {-1, 0, 1}
                      \/ hist[k + 1].ord = 1
\* an order increase is only possible after order+1 accepted steps of equal size and order
RunBefore(k) == \* number of consecutive steps ending at k that have the same order and unchanged size
    LET RECURSIVE back(_)
        back(j) == IF j >= 1 /\ hist[j].ord = hist[k].ord /\ (j = k \/ hist[j + 1].same) THEN 1 + back(j - 1) ELSE 0
    IN back(k)
IncreaseNeedsEqualSteps ==
    \A k \in 1..Len(hist) - 1 :
        hist[k + 1].ord = hist[k].ord + 1 => RunBefore(k) >= hist[k].ord + 1
=============================================================================

SPECIFICATION Spec
CONSTANTS
  Methods <- AllMethods
  S = 1200
  HSet <- H_q
  HMaxOpts <- HMax_q
  FirstOpts <- First_q
  NMaxOpts <- NMax_q
  Cap = 100000
  MaxMods = 1
  AllowInterrupt = TRUE
INVARIANTS C03_Inv C11_Inv C18_Inv C19_Inv

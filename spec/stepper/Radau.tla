------------------------------- MODULE Radau -------------------------------
(***************************************************************************)
(* Level B (implementation-shaped) model of the main loop of               *)
(* src/methods/radau.rs (`RADAU::solve`), one action per critical section  *)
(* and per observable event, with the flags and counters as coded:         *)
(*                                                                         *)
(*   F0Eval, InitialCallback, ModEval0          before the loop            *)
(*   JacEval      `if call_jac { f.jac(..) }`   at the loop top            *)
(*   Begin        `if call_decomp { .. }` (both factorisations, either may *)
(*                be singular), steps.total += 1, budget and underflow     *)
(*                guards                                                   *)
(*   NewtonIter   one simplified-Newton iteration (three evaluations);     *)
(*                outcomes: continue | converged | diverging (theta >=     *)
(*                0.99) | slow (dyth >= 1: step shrunk, counted as a       *)
(*                rejection, the attempt retried - until repair 29daa34    *)
(*                the code fell through to the error test of the attempt   *)
(*                it had just abandoned) | exhausted                       *)
(*   ErrFirst     error estimate (one more back-substitution), outcomes:   *)
(*                accept | refine (first or rejected step) | reject        *)
(*   Refine       the refined estimate (one evaluation at x)               *)
(*   AcceptEval   commit the step, evaluate f at the new point             *)
(*   Callback / ModEval, then Post: exit on `last`, next step size, the    *)
(*                landing clamp, the fast path that keeps Jacobian and     *)
(*                factorisation (theta small, ratio in (1, 1.2)), and the  *)
(*                flags call_jac / call_decomp for the next attempt        *)
(*                                                                         *)
(* Deliberate fidelity to the code where it departs from Hairer's radau5:  *)
(*  - after a Newton failure or a rejection call_jac keeps its value: a    *)
(*    Jacobian that was kept (call_jac = FALSE) is NOT refreshed, and a    *)
(*    fresh one (call_jac = TRUE) is evaluated again at the same point;    *)
(*  - a singular factorisation `continue`s before steps.total is counted;  *)
(*  - (until repair 29daa34: the `slow` outcome fell through to the error  *)
(*    test; the model followed the code in both versions).                 *)
(*                                                                         *)
(* What the model cannot compute (norms, convergence rates, step ratios)   *)
(* is an oracle, passed to the actions as parameters: the bounded model    *)
(* (MC_Radau) quantifies over them, the trace specification (Trace_Radau)  *)
(* binds them from the recorded run where they are observable and lets TLC *)
(* infer the rest.  Positions are integers in the direction of             *)
(* integration; in trace mode they are the recorder's ranks, which keep    *)
(* order but not distance: guards that need distances are under `Metric`.  *)
(***************************************************************************)
EXTENDS Integers, Sequences, FiniteSets, TLC

CONSTANTS MaxNewton,   \* newton_maxiter (7 in the code)
          SingLimit,   \* consecutive Newton / factorisation failures tolerated (5 in the code)
          Metric       \* TRUE: positions are distances (bounded model); FALSE: ranks (traces)

VARIABLES P,           \* parameters of the run: [x0, xe, slo, shi, nmax, hmax]  (xend = xe, 'at xend to rounding' = [slo, shi]; nmax = 0: none)
          x, xold, h, xph, first, reject, last, callJac, callDecomp, sing, theta, it, pc, status,
          nJac, nLu, nOde, total, acc, rej, ncb,
          jacAt, evalMax   \* history: where the Jacobian in use was evaluated; furthest evaluation point
rvars == <<P, x, xold, h, xph, first, reject, last, callJac, callDecomp, sing, theta, it, pc, status,
           nJac, nLu, nOde, total, acc, rej, ncb, jacAt, evalMax>>

AtEnd(p)     == P.slo <= p /\ p <= P.shi
BeforeEnd(p) == p < P.xe          \* strictly before xend itself (P.xe), as the code compares
Max2(a, b)   == IF a > b THEN a ELSE b

\* the state before the first evaluation; h0 = the first step as chosen by the caller / the default, clamped to hmax and
\* cut to the interval: the first step lands on xend when it would reach it (repair e4f8321)
RInit(params, h0) ==
    /\ P = params
    /\ x = params.x0 /\ xold = params.x0 /\ xph = params.x0
    /\ h0 >= 0 /\ params.x0 + h0 <= params.shi
    /\ h = h0
    \* (`first_step_lands` is a strict test made after the clamp to h_max: a first step cut to the interval by that clamp
    \*  arrives at xend with the flag unset and leaves through the arrival test instead)
    /\ last \in {params.slo <= params.x0 + h0, FALSE}
    /\ first = TRUE /\ reject = FALSE /\ callJac = TRUE /\ callDecomp = TRUE
    /\ sing = 0 /\ theta = "init" /\ it = 0 /\ pc = "f0" /\ status = "None"
    /\ nJac = 0 /\ nLu = 0 /\ nOde = 0 /\ total = 0 /\ acc = 0 /\ rej = 0 /\ ncb = 0
    /\ jacAt = -1 /\ evalMax = params.x0

Finish(st) == pc' = "done" /\ status' = st

(* ------------------------------------------------------------------ before the loop *)
F0Eval ==
    /\ pc = "f0"
    /\ nOde' = nOde + 1 /\ pc' = "cb0"
    /\ UNCHANGED <<P, x, xold, h, xph, first, reject, last, callJac, callDecomp, sing, theta, it, status, nJac, nLu, total, acc, rej, ncb, jacAt, evalMax>>

InitialCallback(flag) ==
    /\ pc = "cb0"
    /\ ncb' = 1
    /\ CASE flag = "Interrupt" -> Finish("UserInterrupt")
         [] flag = "Modified"  -> pc' = "mod0" /\ UNCHANGED status
         [] OTHER              -> pc' = "top" /\ UNCHANGED status
    /\ UNCHANGED <<P, x, xold, h, xph, first, reject, last, callJac, callDecomp, sing, theta, it, nJac, nLu, nOde, total, acc, rej, jacAt, evalMax>>

ModEval0 ==
    /\ pc = "mod0"
    /\ nOde' = nOde + 1 /\ pc' = "top"
    /\ UNCHANGED <<P, x, xold, h, xph, first, reject, last, callJac, callDecomp, sing, theta, it, status, nJac, nLu, total, acc, rej, ncb, jacAt, evalMax>>

(* ------------------------------------------------------------------ loop top *)
JacEval ==
    /\ pc = "top" /\ callJac
    /\ nJac' = nJac + 1 /\ jacAt' = x /\ pc' = "dec"
    /\ UNCHANGED <<P, x, xold, h, xph, first, reject, last, callJac, callDecomp, sing, theta, it, status, nLu, nOde, total, acc, rej, ncb, evalMax>>

\* a failed attempt: singular_count, halve (or otherwise shrink) the step, retry from the loop top
Fail(g, redo) ==
    IF sing + 1 > SingLimit
    THEN /\ Finish("SingularMatrix") /\ sing' = sing + 1
         /\ UNCHANGED <<h, reject, last, callDecomp>>
    ELSE /\ sing' = sing + 1
         /\ (Metric => g < h) /\ g >= 0 /\ h' = g
         /\ reject' = TRUE /\ last' = FALSE
         /\ callDecomp' = (callDecomp \/ redo)
         /\ pc' = "top" /\ UNCHANGED status

\* out: "ok" | "sing1" (real matrix singular) | "sing2" (complex matrix singular) | "under" (step size guard)
Begin(out, g) ==
    /\ pc = "dec" \/ (pc = "top" /\ ~callJac)
    /\ IF out \in {"sing1", "sing2"}
       THEN /\ callDecomp
            /\ nLu' = nLu + (IF out = "sing1" THEN 1 ELSE 2)
            /\ Fail(g, FALSE)
            /\ UNCHANGED <<xph, it, theta, total, evalMax>>
       ELSE /\ nLu' = nLu + (IF callDecomp THEN 2 ELSE 0)
            /\ total' = total + 1
            /\ IF P.nmax > 0 /\ total' > P.nmax
               THEN Finish("NeedLargerNMax") /\ UNCHANGED <<xph, it, theta>>
               ELSE IF out = "under"
               THEN /\ (Metric => h = 0)
                    /\ Finish("StepSizeTooSmall") /\ UNCHANGED <<xph, it, theta>>
               ELSE /\ out = "ok" /\ h > 0
                    /\ xph' = x + h /\ it' = 0 /\ theta' = "init"
                    /\ pc' = "newton" /\ UNCHANGED status
            /\ UNCHANGED <<h, reject, last, callDecomp, sing, evalMax>>
    /\ UNCHANGED <<P, x, xold, first, callJac, nJac, nOde, acc, rej, ncb, jacAt>>

(* ------------------------------------------------------------------ Newton *)
\* out: "cont" | "conv" | "div" | "slow";  th: the contraction estimate of this iteration ("small" < 0.001 <= "mid" < 0.99)
NewtonIter(out, th, g) ==
    /\ pc = "newton" /\ it < MaxNewton
    /\ nOde' = nOde + 3
    /\ evalMax' = Max2(evalMax, xph)
    /\ it' = it + 1
    /\ LET rated == it' > 1 /\ it' < MaxNewton IN      \* theta is (re)computed on iterations 2 .. MaxNewton-1 only
       /\ theta' = IF rated /\ out # "div" THEN th ELSE theta
       /\ CASE out = "div"  -> rated /\ Fail(g, TRUE) /\ UNCHANGED rej
            [] out = "slow" -> /\ rated
                               /\ (Metric => (g < h /\ g > 0)) /\ g >= 0
                               /\ h' = g
                               /\ rej' = rej + 1 /\ last' = FALSE
                               /\ reject' = TRUE /\ callDecomp' = TRUE
                               /\ pc' = "top"                          \* the attempt is abandoned and retried (repair 29daa34)
                               /\ UNCHANGED <<sing, status>>
            [] out = "conv" -> pc' = "err" /\ UNCHANGED <<h, reject, last, callDecomp, sing, rej, status>>
            [] out = "cont" -> IF it' >= MaxNewton
                               THEN Fail(g, TRUE) /\ UNCHANGED rej     \* the next pass of the loop gives up
                               ELSE pc' = "newton" /\ UNCHANGED <<h, reject, last, callDecomp, sing, rej, status>>
    /\ UNCHANGED <<P, x, xold, xph, first, callJac, nJac, nLu, total, acc, ncb, jacAt>>

(* ------------------------------------------------------------------ error test *)
DoReject(g) ==
    /\ reject' = TRUE /\ callDecomp' = TRUE /\ last' = FALSE
    /\ g < h /\ g >= 0 /\ h' = g
    /\ rej' = IF first THEN rej ELSE rej + 1
    /\ pc' = "top"

\* out: "acc" | "refine" | "rej"
ErrFirst(out, g) ==
    /\ pc = "err"
    /\ nLu' = nLu + 1
    /\ CASE out = "acc"    -> pc' = "accept" /\ UNCHANGED <<h, reject, last, callDecomp, rej>>
         [] out = "refine" -> (first \/ reject) /\ pc' = "refine" /\ UNCHANGED <<h, reject, last, callDecomp, rej>>
         [] out = "rej"    -> ~(first \/ reject) /\ DoReject(g)
    /\ UNCHANGED <<P, x, xold, xph, first, callJac, sing, theta, it, status, nJac, nOde, total, acc, ncb, jacAt, evalMax>>

Refine(out, g) ==
    /\ pc = "refine"
    /\ nOde' = nOde + 1
    /\ CASE out = "acc" -> pc' = "accept" /\ UNCHANGED <<h, reject, last, callDecomp, rej>>
         [] out = "rej" -> DoReject(g)
    /\ UNCHANGED <<P, x, xold, xph, first, callJac, sing, theta, it, status, nJac, nLu, total, acc, ncb, jacAt, evalMax>>

AcceptEval ==
    /\ pc = "accept"
    /\ acc' = acc + 1 /\ first' = FALSE
    /\ xold' = x /\ x' = xph
    /\ nOde' = nOde + 1
    /\ evalMax' = Max2(evalMax, xph)
    /\ pc' = "cb"
    /\ UNCHANGED <<P, h, xph, reject, last, callJac, callDecomp, sing, theta, it, status, nJac, nLu, total, rej, ncb, jacAt>>

(* ------------------------------------------------------------------ callback and step-size selection *)
\* choice: "arrive" | "land" | "fast" | "normal";  g: the next step size (ignored by "fast", which keeps h)
Post(choice, g) ==
    IF last THEN Finish("Success") /\ UNCHANGED <<h, reject, last, callJac, callDecomp, sing>>
    ELSE /\ sing' = 0
         /\ reject' = FALSE
         /\ IF choice = "arrive"                                                     \* within a few ulp of xend
            THEN AtEnd(x) /\ Finish("Success") /\ UNCHANGED <<h, last, callJac, callDecomp>>
            ELSE /\ UNCHANGED status /\ pc' = "top"
                 /\ (Metric => ~AtEnd(x))
                 /\ (Metric /\ reject /\ choice # "fast" => g <= h)                               \* after a rejection the step does not grow
                 /\ (Metric /\ choice # "fast" => g <= P.hmax)
                 \* (ranks: g = 0 stands for "no further attempt is observed", e.g. the budget ends the run first)
                 /\ CASE choice = "land"   -> /\ (g > 0 /\ AtEnd(x + g)) \/ (~Metric /\ g = 0)      \* g: the distance to xend
                                              /\ h' = g /\ last' = TRUE
                                              /\ callDecomp' = TRUE /\ callJac' = (theta # "small")
                      [] choice = "fast"   -> /\ theta = "small" /\ ~reject                               \* ratio > 1 is impossible after a rejection
                                              /\ h' = IF Metric THEN h ELSE g                             \* the step is kept (ranks: rebound)
                                              /\ (h' > 0 /\ BeforeEnd(x + h')) \/ (~Metric /\ g = 0)
                                              /\ UNCHANGED last
                                              /\ callDecomp' = FALSE /\ callJac' = FALSE
                      [] choice = "normal" -> /\ (g > 0 /\ BeforeEnd(x + g)) \/ (~Metric /\ g = 0)
                                              /\ h' = g /\ UNCHANGED last
                                              /\ callDecomp' = TRUE /\ callJac' = (theta # "small")

\* xm: where the run continues from - the callback owns x and may move it back inside the step it was handed when it
\* returns ModifiedSolution (a restart at an interior point); otherwise xm = x
Callback(flag, choice, g, xm) ==
    /\ pc = "cb"
    /\ ncb' = ncb + 1
    \* (a restart inside the step that landed on xend is not modelled: the code would leave through its `last` exit)
    /\ IF flag = "Modified" THEN xold < xm /\ xm <= x /\ (last => xm = x) /\ x' = xm ELSE xm = x /\ UNCHANGED x
    /\ CASE flag = "Interrupt" -> Finish("UserInterrupt") /\ UNCHANGED <<h, reject, last, callJac, callDecomp, sing>>
         [] flag = "Modified"  -> pc' = "mod" /\ UNCHANGED <<status, h, reject, last, callJac, callDecomp, sing>>
         [] OTHER              -> Post(choice, g)
    /\ UNCHANGED <<P, xold, xph, first, theta, it, nJac, nLu, nOde, total, acc, rej, jacAt, evalMax>>

ModEval(choice, g) ==
    /\ pc = "mod"
    /\ nOde' = nOde + 1
    /\ Post(choice, g)
    /\ UNCHANGED <<P, x, xold, xph, first, theta, it, nJac, nLu, total, acc, rej, ncb, jacAt, evalMax>>

Done == pc = "done" /\ UNCHANGED rvars

(* ------------------------------------------------------------------ properties of the model *)
\* C03: nothing is evaluated beyond xend, x never passes it, Success means arrival
R_Span    == /\ x <= P.shi /\ xph <= P.shi /\ evalMax <= P.shi
             /\ (status = "Success" => AtEnd(x))
\* C11: the budget is honoured (the attempt that trips the guard is counted)
R_Budget  == /\ (P.nmax > 0 => total <= P.nmax + 1)
             /\ (status = "NeedLargerNMax" => P.nmax > 0 /\ total = P.nmax + 1)
\* C18 / C19: one callback per accepted step plus the initial one; nstep >= naccpt; rejections are a subset of attempts
R_Counts  == /\ (pc \in {"top", "dec", "newton", "err", "refine", "accept", "mod"} => ncb = acc + 1)
             /\ (pc = "cb" => ncb = acc)
             /\ total >= acc
             /\ rej <= total                            \* every attempt is counted at most once as rejected (since repair 29daa34)
\* a Jacobian flagged for (re)evaluation is the one in use when the iteration starts
R_JacFresh == (pc = "newton" /\ callJac) => jacAt = x
\* the factorisation is never skipped while a rejection is pending
R_DecompAfterFailure == (pc \in {"top", "dec"} /\ reject) => callDecomp
\* a first step is never counted as rejected by the error test (only by the `slow` Newton exit)
R_Flags   == /\ (first => acc = 0)
             /\ (last /\ pc \in {"newton", "err", "refine", "accept", "cb", "mod"} => AtEnd(xph))
R_Terminates == <>(pc = "done")
=============================================================================

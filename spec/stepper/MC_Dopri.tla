----------------------------- MODULE MC_Dopri -----------------------------
(* Bounded model of Dopri.tla: all oracle choices, small constants. *)
EXTENDS Dopri

CONSTANTS S, HSet, NMaxOpts, HMaxOpts, FsOpts, AllowInterrupt, MaxMods

VARIABLE nmods
mvars == <<dvars, nmods>>

Flags == {"Continue"} \cup (IF AllowInterrupt THEN {"Interrupt"} ELSE {}) \cup (IF nmods < MaxMods THEN {"Modified"} ELSE {})
Steps == HSet \cup {0}

MCInit ==
    /\ nmods = 0
    /\ \E nm \in NMaxOpts, hm \in HMaxOpts, fs \in FsOpts :
          DInit([x0 |-> 0, xe |-> S, slo |-> S, shi |-> S, nmax |-> (IF nm = 0 THEN -1 ELSE nm), hmax |-> IF hm = 0 THEN S ELSE hm, hasFs |-> fs])

MCNext ==
    \/ \E h0 \in HSet : (F0Eval(IF h0 > P.hmax THEN P.hmax ELSE h0) /\ UNCHANGED nmods)
    \/ \E p \in 0..S, h0 \in HSet : HinitProbe(p, h0) /\ UNCHANGED nmods
    \/ \E fl \in Flags : InitialCallback(fl) /\ nmods' = IF fl = "Modified" THEN nmods + 1 ELSE nmods
    \/ (ModEval0 /\ UNCHANGED nmods)
    \/ \E sm \in BOOLEAN, ld \in BOOLEAN, e \in 0..S : Top(sm, ld, e) /\ UNCHANGED nmods
    \/ \E p \in 0..S : StageEval(p) /\ UNCHANGED nmods
    \/ \E ok \in BOOLEAN, g \in Steps : ErrTest(ok, g) /\ UNCHANGED nmods
    \/ \E fire \in BOOLEAN : StiffTest(fire) /\ UNCHANGED nmods
    \/ \E dn \in BOOLEAN : Commit(dn) /\ UNCHANGED nmods
    \/ \E fl \in Flags, xm \in 0..S : Callback(fl, IF fl = "Modified" THEN xm ELSE x) /\ nmods' = IF fl = "Modified" THEN nmods + 1 ELSE nmods
    \/ (ModEval /\ UNCHANGED nmods)
    \/ \E g \in Steps : Post(g) /\ UNCHANGED nmods
    \/ (Done /\ UNCHANGED nmods)

MCSpec == MCInit /\ [][MCNext]_mvars
MCFair == MCSpec /\ WF_mvars(MCNext /\ pc # "done")
=============================================================================

SPECIFICATION Spec
CONSTANTS
  MaxN = 3
  DefaultVariant = "default_noop"
INVARIANT ReadsWhatIsMeant

SPECIFICATION TraceSpec
CONSTANTS
  Stages = 11
  AccEvals = 1
  DenseEvals = 3
  CountRule = "hairer"
  HasHinit = TRUE
  HasSmall = TRUE
  StiffEvery = 1000
  StiffLimit = 15
  NonStiffReset = 6
  Metric = FALSE
  LowBudget = 100000
CONSTRAINT Track
INVARIANT TraceInv
POSTCONDITION Accepted
CHECK_DEADLOCK FALSE

------------------------------ MODULE Stepper ------------------------------
(***************************************************************************)
(* Level B (implementation-shaped) model of the integration loop shared by *)
(* the six solvers of src/methods (rk4, rk23, dopri5, dop853, radau, bdf), *)
(* one action per critical section, per-method guards as coded:            *)
(*   Init / InitialCallback / Head (budget, underflow, landing) / Trial    *)
(*   (oracle: accept | reject | non-finite error | Newton failure |        *)
(*   singular matrix | probably stiff) / Accept (+ callback) / Exit.       *)
(* What the discrete model cannot compute (error norm, next step size,     *)
(* Newton convergence) is an oracle chosen nondeterministically within the *)
(* guards the code enforces (a rejection strictly shrinks |h|, the next    *)
(* step is at most hmax, ...).                                             *)
(* Positions are integers measured from x0 in the direction of             *)
(* integration; step sizes are multiples of 100 so that 1.01 h is integral.*)
(***************************************************************************)
EXTENDS Integers, Sequences, FiniteSets, TLC

CONSTANTS Methods,     \* subset of {"RK4", "RK23", "DOPRI5", "DOP853", "RADAU", "BDF"}
          S,           \* xend - x0
          HSet,        \* step sizes the controller may choose
          HMaxOpts,    \* max_step options (0 = not given: hmax = span)
          FirstOpts,   \* first_step options (0 = not given)
          NMaxOpts,    \* step budgets (0 = unlimited)
          Cap,         \* counters saturate at Cap (large for safety runs; small for liveness runs so that a
                       \* non-terminating loop is a lasso in a finite graph rather than an infinite one)
          MaxMods,     \* how many callbacks may return ModifiedSolution
          AllowInterrupt

VARIABLES Method,      \* the variant being run (chosen in Init, never changes)
          x, h, hmax, nmax, last, reject, first, pc, status,
          total, acc, rej, sing,            \* counters of the code
          ncb, nmods, xold,                 \* history: callbacks made, modifications, left end of the last accepted step
          evalMax, longSteps                \* history: furthest evaluation point, accepted steps longer than allowed
vars == <<Method, x, h, hmax, nmax, last, reject, first, pc, status, total, acc, rej, sing, ncb, nmods, xold, evalMax, longSteps>>

Implicit == Method \in {"RADAU", "BDF"}
Adaptive == Method # "RK4"
INF == 1000000

Min(a, b) == IF a < b THEN a ELSE b
Inc(v) == IF v < Cap THEN v + 1 ELSE v
HMin == CHOOSE m \in HSet : \A k \in HSet : m <= k

Init ==
    /\ Method \in Methods
    /\ x = 0 /\ xold = 0
    /\ hmax \in { IF m = 0 THEN S ELSE m : m \in HMaxOpts }
    /\ nmax \in { IF k = 0 THEN INF ELSE k : k \in NMaxOpts }
    /\ \E f \in FirstOpts :
          \* first_step (not larger than max_step: precondition of C11) or the automatic choice, which is
          \* clamped by hmax and by the interval (hinit / Radau's 1e-6 / RK4's span/100)
          /\ (f = 0 \/ f <= hmax)
          /\ h = IF f # 0 THEN f
                 ELSE CHOOSE g \in HSet : g <= Min(hmax, S) /\ \A k \in HSet : k <= Min(hmax, S) => k <= g
    /\ last = FALSE /\ reject = FALSE /\ first = TRUE
    /\ pc = "cb0" /\ status = "None"
    /\ total = 0 /\ acc = 0 /\ rej = 0 /\ sing = 0
    /\ ncb = 0 /\ nmods = 0 /\ evalMax = 0 /\ longSteps = 0

Finish(st) == pc' = "done" /\ status' = st

\* flags a callback may return
Flags == {"Continue"} \cup (IF AllowInterrupt THEN {"Interrupt"} ELSE {}) \cup (IF nmods < MaxMods THEN {"Modified"} ELSE {})

(* initial call of SolOut: xold = x = x0 *)
InitialCallback ==
    /\ pc = "cb0"
    /\ \E fl \in Flags :
          /\ ncb' = 1
          /\ nmods' = IF fl = "Modified" THEN nmods + 1 ELSE nmods
          /\ IF fl = "Interrupt" THEN Finish("UserInterrupt") ELSE pc' = "head" /\ UNCHANGED status
    /\ \* Radau (after the fix) lands its first step on xend
       IF Method = "RADAU" /\ x + h > S THEN h' = S - x /\ last' = TRUE ELSE UNCHANGED <<h, last>>
    /\ UNCHANGED <<x, hmax, nmax, reject, first, total, acc, rej, sing, xold, evalMax, longSteps>>

BudgetHit ==
    CASE Method \in {"RK4", "RK23", "BDF"} -> total >= nmax
      [] Method \in {"DOPRI5", "DOP853"}  -> total > nmax
      [] Method = "RADAU"                 -> total + 1 > nmax

Underflow == Method # "RK4" /\ h = 0       \* h = 0 stands for "below the underflow guard"

(* loop head: budget, underflow, landing *)
LoopHead ==
    /\ pc = "head"
    /\ IF BudgetHit THEN Finish("NeedLargerNMax") /\ UNCHANGED <<h, last, total>>
       ELSE IF Underflow THEN Finish("StepSizeTooSmall") /\ UNCHANGED <<h, last, total>>
       ELSE /\ pc' = "trial" /\ UNCHANGED status
            /\ total' = IF Method \in {"DOPRI5", "DOP853", "RADAU", "BDF"} THEN Inc(total) ELSE total
            /\ CASE Method \in {"RK4", "DOPRI5", "DOP853"} ->
                      IF 100 * (x - S) + 101 * h > 0 THEN h' = S - x /\ last' = TRUE ELSE UNCHANGED <<h, last>>
                 [] Method \in {"RK23", "BDF"} ->
                      IF x + h > S THEN h' = S - x /\ UNCHANGED last ELSE UNCHANGED <<h, last>>
                 [] Method = "RADAU" -> UNCHANGED <<h, last>>          \* landed when the step was chosen
    /\ UNCHANGED <<x, hmax, nmax, reject, first, acc, rej, sing, ncb, nmods, xold, evalMax, longSteps>>

\* next step sizes the controller may propose after an accepted step
NextH == { g \in HSet : g <= hmax /\ (reject => g <= h \/ Method \in {"RK23", "BDF", "RK4"}) }
\* smaller step sizes after a rejection (0 = underflow)
Smaller == { g \in HSet \cup {0} : g < h }

Stop(st) == /\ Finish(st)
            /\ UNCHANGED <<x, h, last, reject, first, ncb, nmods, xold>>

(* one attempt at a step of size h from x *)
Trial ==
    /\ pc = "trial"
    /\ evalMax' = IF x + h > evalMax THEN x + h ELSE evalMax          \* stages are evaluated at x + c_i h, c_i <= 1
    /\ \/ \* --- accepted
          /\ acc' = Inc(acc)
          /\ total' = IF Method \in {"RK4", "RK23"} THEN Inc(total) ELSE total
          /\ \/ \* stiffness detection may abandon the run right after accepting (explicit DOPRI5 / DOP853)
                /\ Method \in {"DOPRI5", "DOP853"}
                /\ Stop("ProbablyStiff")
                /\ UNCHANGED <<rej, sing, longSteps>>
             \/ /\ x' = x + h /\ xold' = x
                /\ longSteps' = IF h > hmax /\ ~(last /\ 100 * h <= 101 * hmax) THEN Inc(longSteps) ELSE longSteps
                /\ first' = FALSE
                /\ pc' = "callback"
                /\ UNCHANGED <<h, last, reject, rej, sing, status, ncb, nmods>>
       \/ \* --- rejected (error norm > 1, or not finite): |h| strictly shrinks
          /\ Adaptive
          /\ \E g \in Smaller : h' = g
          /\ rej' = CASE Method \in {"DOPRI5", "DOP853"} -> IF acc > 1 THEN Inc(rej) ELSE rej
                      [] Method = "RADAU" -> IF first THEN rej ELSE Inc(rej)
                      [] OTHER -> Inc(rej)
          /\ reject' = TRUE /\ last' = FALSE
          /\ pc' = "head"
          /\ UNCHANGED <<x, acc, total, sing, first, status, ncb, nmods, xold, longSteps>>
       \/ \* --- Newton failure / singular iteration matrix (implicit methods): halve
          /\ Implicit
          /\ IF Method = "RADAU" /\ sing + 1 > 5
             THEN Stop("SingularMatrix") /\ UNCHANGED <<rej, acc, total, sing, longSteps>>
             ELSE /\ \E g \in Smaller : h' = g
                  /\ sing' = IF Method = "RADAU" THEN sing + 1 ELSE sing
                  /\ rej' = IF Method = "BDF" THEN Inc(rej) ELSE rej
                  /\ reject' = TRUE /\ last' = FALSE
                  /\ pc' = "head"
                  /\ UNCHANGED <<x, acc, total, first, status, ncb, nmods, xold, longSteps>>
    /\ UNCHANGED <<hmax, nmax>>

(* SolOut after an accepted step, then the exit test and the next step size *)
Callback ==
    /\ pc = "callback"
    /\ \E fl \in Flags :
          /\ ncb' = Inc(ncb)
          /\ nmods' = IF fl = "Modified" THEN nmods + 1 ELSE nmods
          /\ IF fl = "Interrupt" THEN Finish("UserInterrupt") /\ UNCHANGED <<h, last, reject, sing>>
             ELSE IF (Method \in {"RK4", "DOPRI5", "DOP853", "RADAU"} /\ last) \/ (Method = "RK23" /\ x = S) \/ (Method = "BDF" /\ x >= S)
                  THEN Finish("Success") /\ UNCHANGED <<h, last, reject, sing>>
                  ELSE /\ pc' = "head" /\ UNCHANGED status
                       /\ sing' = 0
                       /\ IF Method = "RK4" THEN UNCHANGED <<h, last, reject>>
                          ELSE \E g \in NextH :
                                 /\ reject' = FALSE
                                 /\ IF Method = "RADAU" /\ x + g >= S
                                    THEN h' = S - x /\ last' = TRUE           \* Radau lands when choosing the step
                                    ELSE h' = g /\ UNCHANGED last
    /\ UNCHANGED <<x, hmax, nmax, first, total, acc, rej, xold, evalMax, longSteps>>

Done == pc = "done" /\ UNCHANGED vars

Next == ((InitialCallback \/ LoopHead \/ Trial \/ Callback) /\ UNCHANGED Method) \/ Done
Spec == Init /\ [][Next]_vars
FairSpec == Spec /\ WF_vars((InitialCallback \/ LoopHead \/ Trial \/ Callback) /\ UNCHANGED Method)

(* ------------------------------------------------------------------ properties *)
\* C03: never beyond xend, never an evaluation outside [x0, xend]; Success iff the interval was covered
C03_Inv == /\ 0 <= x /\ x <= S
           /\ evalMax <= S
           /\ (status = "Success" => x = S)
\* C11: accepted steps respect max_step (1% stretch on the landing step); budget honoured
C11_Inv == /\ longSteps = 0
           /\ (nmax < INF => total <= nmax + 1)
           /\ (status = "NeedLargerNMax" => nmax < INF)
\* C18: counters count what happened: every accepted step is followed by exactly one callback
C18_Inv == /\ total >= acc \/ Method = "RK23"
           /\ (pc \in {"head", "trial"} => ncb = acc + 1)
           /\ (pc = "done" /\ status # "ProbablyStiff" /\ ncb >= 1 => ncb = acc + 1)
\* C19: Interrupt ends the run at once
C19_Inv == (status = "UserInterrupt" => pc = "done")
\* C04: every behaviour terminates
Termination == <>(pc = "done")
=============================================================================

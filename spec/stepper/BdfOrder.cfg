SPECIFICATION Spec
CONSTANTS
  MaxOrder = 5
  MaxAcc = 9
INVARIANTS OrderInRange SmallOrderMoves IncreaseNeedsEqualSteps

SPECIFICATION Spec
CONSTANTS
  MaxT = 3
INVARIANTS CoversStored ZeroLength DenseIffRequested NoUnreachableFirstOutput

SPECIFICATION Spec
CONSTANTS
  MaxT = 3
INVARIANTS CoversReported Rk4Step CoversStored ZeroLength DenseIffRequested NoUnreachableFirstOutput

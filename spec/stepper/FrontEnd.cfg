SPECIFICATION Spec
CONSTANTS
  MaxT = 3
INVARIANTS ZeroLength DenseIffRequested NoUnreachableFirstOutput

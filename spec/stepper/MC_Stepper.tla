----------------------------- MODULE MC_Stepper -----------------------------
(* Bounded instances of Stepper.tla: all six variants, every relation of first_step / max_step / budget to the span. *)
EXTENDS Stepper
AllMethods == {"RK4", "RK23", "DOPRI5", "DOP853", "RADAU", "BDF"}
H_q == {100, 200, 400, 900}
H_t == {100, 200, 300, 400, 700, 1200, 1600}
HMax_q == {0, 400, 300, 2000}          \* not given / divides the span / does not / larger than the span
First_q == {0, 200, 1200, 1700}        \* not given / inside / equal to the span / larger than the span
NMax_q == {0, 1, 2, 5}
=============================================================================

SPECIFICATION MCSpec
CONSTANTS
  Stages = 3
  AccEvals = 1
  DenseEvals = 2
  CountRule = "hairer"
  HasHinit = TRUE
  HasSmall = TRUE
  StiffEvery = 2
  StiffLimit = 3
  NonStiffReset = 2
  Metric = TRUE
  S = 5
  HSet = {1, 2, 5}
  NMaxOpts = {0, 4}
  HMaxOpts = {0, 2}
  FsOpts = {TRUE, FALSE}
  AllowInterrupt = TRUE
  MaxMods = 1
INVARIANTS D_Span D_Budget D_Counts D_Stiff D_Flags
CHECK_DEADLOCK FALSE

SPECIFICATION FairSpec
CONSTANTS
  Methods <- AllMethods
  S = 1200
  HSet <- H_q
  HMaxOpts <- HMax_q
  FirstOpts <- First_q
  NMaxOpts = {0}
  Cap = 2
  MaxMods = 0
  AllowInterrupt = FALSE
PROPERTIES Termination

----------------------------- MODULE MC_Radau -----------------------------
(* Bounded model of Radau.tla: all oracle choices, small constants. *)
EXTENDS Radau

CONSTANTS S, HSet, NMaxOpts, HMaxOpts, AllowInterrupt, MaxMods

VARIABLE nmods
mvars == <<rvars, nmods>>

Flags == {"Continue"} \cup (IF AllowInterrupt THEN {"Interrupt"} ELSE {}) \cup (IF nmods < MaxMods THEN {"Modified"} ELSE {})
Steps == HSet \cup {0}
Thetas == {"small", "mid"}

MCInit ==
    /\ nmods = 0
    /\ \E nm \in NMaxOpts, hm \in HMaxOpts, h0 \in HSet :
          LET hmax == IF hm = 0 THEN S ELSE hm
              hc   == IF h0 > hmax THEN hmax ELSE h0
              hl   == IF hc >= S THEN S ELSE hc
          IN RInit([x0 |-> 0, xe |-> S, slo |-> S, shi |-> S, nmax |-> nm, hmax |-> hmax], hl)

MCNext ==
    \/ (F0Eval /\ UNCHANGED nmods)
    \/ \E fl \in Flags : InitialCallback(fl) /\ nmods' = IF fl = "Modified" THEN nmods + 1 ELSE nmods
    \/ (ModEval0 /\ UNCHANGED nmods)
    \/ (JacEval /\ UNCHANGED nmods)
    \/ \E out \in {"ok", "sing1", "sing2", "under"}, g \in Steps : Begin(out, g) /\ UNCHANGED nmods
    \/ \E out \in {"cont", "conv", "div", "slow"}, th \in Thetas, g \in Steps : NewtonIter(out, th, g) /\ UNCHANGED nmods
    \/ \E out \in {"acc", "refine", "rej"}, g \in Steps : ErrFirst(out, g) /\ UNCHANGED nmods
    \/ \E out \in {"acc", "rej"}, g \in Steps : Refine(out, g) /\ UNCHANGED nmods
    \/ (AcceptEval /\ UNCHANGED nmods)
    \/ \E fl \in Flags, ch \in {"arrive", "land", "fast", "normal"}, g \in Steps :
          (\E xm \in 0..S : Callback(fl, ch, g, xm)) /\ nmods' = IF fl = "Modified" THEN nmods + 1 ELSE nmods
    \/ \E ch \in {"arrive", "land", "fast", "normal"}, g \in Steps : ModEval(ch, g) /\ UNCHANGED nmods
    \/ (Done /\ UNCHANGED nmods)

MCSpec == MCInit /\ [][MCNext]_mvars
MCFair == MCSpec /\ WF_mvars(MCNext /\ pc # "done")
=============================================================================

SPECIFICATION MCFair
CONSTANTS
  Stages = 2
  AccEvals = 0
  DenseEvals = 0
  CountRule = "scipy"
  HasHinit = TRUE
  HasSmall = TRUE
  StiffEvery = 0
  StiffLimit = 2
  NonStiffReset = 2
  Metric = TRUE
  S = 4
  HSet = {1, 2, 4}
  NMaxOpts = {3}
  HMaxOpts = {0, 2}
  FsOpts = {TRUE, FALSE}
  AllowInterrupt = FALSE
  MaxMods = 0
PROPERTY D_Terminates
CHECK_DEADLOCK FALSE

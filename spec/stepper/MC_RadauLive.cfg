SPECIFICATION MCFair
CONSTANTS
  MaxNewton = 3
  SingLimit = 1
  Metric = TRUE
  S = 3
  HSet = {1, 3}
  NMaxOpts = {0}
  HMaxOpts = {0}
  AllowInterrupt = FALSE
  MaxMods = 0
PROPERTY R_Terminates
CHECK_DEADLOCK FALSE

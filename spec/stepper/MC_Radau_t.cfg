SPECIFICATION MCSpec
CONSTANTS
  MaxNewton = 3
  SingLimit = 1
  Metric = TRUE
  S = 5
  HSet = {1, 2, 5}
  NMaxOpts = {0, 3}
  HMaxOpts = {0}
  AllowInterrupt = TRUE
  MaxMods = 1
INVARIANTS R_Span R_Budget R_Counts R_JacFresh R_DecompAfterFailure R_Flags
CHECK_DEADLOCK FALSE

SPECIFICATION TraceSpec
CONSTANTS
  MaxNewton = 7
  SingLimit = 5
  Metric = FALSE
CONSTRAINT Track
INVARIANT TraceInv
POSTCONDITION Accepted
CHECK_DEADLOCK FALSE

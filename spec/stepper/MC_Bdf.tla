------------------------------ MODULE MC_Bdf ------------------------------
(* Bounded model of Bdf.tla: all oracle choices, small constants. *)
EXTENDS Bdf

CONSTANTS S, HSet, NMaxOpts, HMaxOpts, AllowInterrupt, MaxMods, FsOpts

VARIABLE nmods
mvars == <<bvars, nmods>>

Flags == {"Continue"} \cup (IF AllowInterrupt THEN {"Interrupt"} ELSE {}) \cup (IF nmods < MaxMods THEN {"Modified"} ELSE {})
Steps == HSet \cup {0}

MCInit ==
    /\ nmods = 0
    /\ \E nm \in NMaxOpts, hm \in HMaxOpts, h0 \in HSet, fs \in FsOpts :
          LET hmax == IF hm = 0 THEN S ELSE hm
          IN BInit([x0 |-> 0, xe |-> S, slo |-> S, shi |-> S, nmax |-> nm, hasFs |-> fs, hasMin |-> FALSE, hmax |-> hmax],
                   IF h0 > hmax THEN hmax ELSE h0)

\* the step attempted: clamp to hmax, then cut to the interval
Att ==
    LET cm == h > P.hmax
        hc == IF cm THEN P.hmax ELSE h
        by == x + hc > P.xe
        g  == IF by THEN P.xe - x ELSE hc
    IN \/ Attempt(cm, FALSE, by, FALSE, FALSE, g)
       \/ Attempt(FALSE, FALSE, TRUE, TRUE, FALSE, 0)       \* arrival (only enabled at xend)
       \/ Attempt(FALSE, FALSE, FALSE, FALSE, TRUE, 0)      \* step-size guard (only enabled with h = 0)

MCNext ==
    \/ (F0Eval /\ UNCHANGED nmods) \/ (Jac0 /\ UNCHANGED nmods)
    \/ \E p \in 0..S : HinitProbe(p) /\ UNCHANGED nmods
    \/ \E fl \in Flags : InitialCallback(fl) /\ nmods' = IF fl = "Modified" THEN nmods + 1 ELSE nmods
    \/ (ModEvalA /\ UNCHANGED nmods) \/ (ModEvalB /\ UNCHANGED nmods)
    \/ (Att /\ UNCHANGED nmods)
    \/ \E out \in {"keep", "ok", "sing"}, g \in Steps : Factor(out, g, FALSE) /\ UNCHANGED nmods
    \/ (NewtonEval /\ UNCHANGED nmods)
    \/ \E conv \in BOOLEAN, iters \in 0..MaxNewton, g \in Steps : NewtonEnd(conv, iters, g, FALSE) /\ UNCHANGED nmods
    \/ \E a \in BOOLEAN, g \in Steps : ErrTest(a, g, FALSE) /\ UNCHANGED nmods
    \/ \E fl \in Flags, xm \in 0..S : Callback(fl, xm) /\ nmods' = IF fl = "Modified" THEN nmods + 1 ELSE nmods
    \/ \E no \in 0..MaxOrder, g \in HSet : Post(no, g) /\ UNCHANGED nmods
    \/ (JacOrd /\ UNCHANGED nmods)
    \/ (Done /\ UNCHANGED nmods)

MCSpec == MCInit /\ [][MCNext]_mvars
MCFair == MCSpec /\ WF_mvars(MCNext /\ pc # "done")
=============================================================================

SPECIFICATION MCSpec
CONSTANTS
  MaxNewton = 3
  SingLimit = 1
  Metric = TRUE
  S = 4
  HSet = {1, 2, 4}
  NMaxOpts = {0}
  HMaxOpts = {0}
  AllowInterrupt = FALSE
  MaxMods = 0
INVARIANTS R_Span R_Budget R_Counts R_JacFresh R_DecompAfterFailure R_Flags
CHECK_DEADLOCK FALSE

SPECIFICATION MCSpec
CONSTANTS
  Stages = 2
  AccEvals = 0
  DenseEvals = 0
  CountRule = "scipy"
  HasHinit = TRUE
  HasSmall = TRUE
  StiffEvery = 0
  StiffLimit = 2
  NonStiffReset = 2
  Metric = TRUE
  S = 4
  HSet = {1, 2, 4}
  NMaxOpts = {0, 2}
  HMaxOpts = {0, 2}
  FsOpts = {TRUE, FALSE}
  AllowInterrupt = TRUE
  MaxMods = 1
INVARIANTS D_Span D_Budget D_Counts D_Stiff D_Flags
CHECK_DEADLOCK FALSE

SPECIFICATION Spec
CONSTANTS
  MaxN = 4
  Variant = "aliased"
INVARIANT OnceEach

---------------------------- MODULE MC_Tolerance ----------------------------
(***************************************************************************)
(* Tolerance cell semantics (src/methods/mod.rs) and Radau's tolerance     *)
(* adjustment loop (src/methods/radau.rs "Adjust tolerances").             *)
(* A Scalar tolerance is ONE cell: Index and IndexMut return that same     *)
(* cell for every index; a Vector has one cell per component.              *)
(* The loop `for i in 0..n { rtol[i] = T(rtol[i]); atol[i] = ... }` is     *)
(* modelled with symbolic values: a cell holds the number of times the     *)
(* transformation T has been applied to it.                                *)
(* Contract (C13, "a scalar tolerance written as a constant vector gives   *)
(* the same trajectory"): after the loop every component reads as          *)
(* transformed exactly once, whatever the representation.                  *)
(* Variant "aliased" is the loop run directly on the user's tolerance (the *)
(* code before the repair): TLC refutes the contract for Scalar, n >= 2.   *)
(* Variant "expanded" (the code as repaired) first expands both tolerances *)
(* to per-component vectors.                                               *)
(***************************************************************************)
EXTENDS Integers, Sequences, FiniteSets, TLC

CONSTANTS MaxN, Variant        \* Variant \in {"expanded", "aliased"}

VARIABLES n, rtol, atol, i, pc
vars == <<n, rtol, atol, i, pc>>

\* a tolerance value: [kind |-> "S"|"V", cells |-> sequence of application counts]
Scalar == [kind |-> "S", cells |-> <<0>>]
Vector(k) == [kind |-> "V", cells |-> [j \in 1..k |-> 0]]

Read(t, j) == IF t.kind = "S" THEN t.cells[1] ELSE t.cells[j]                       \* Index
Write(t, j, v) == IF t.kind = "S" THEN [t EXCEPT !.cells[1] = v]                    \* IndexMut: same cell for Scalar
                  ELSE [t EXCEPT !.cells[j] = v]
Expand(t, k) == [kind |-> "V", cells |-> [j \in 1..k |-> Read(t, j)]]               \* (0..n).map(|i| t[i]).collect()

Init == /\ n \in 1..MaxN
        /\ rtol \in {Scalar, Vector(n)} /\ atol \in {Scalar, Vector(n)}
        /\ i = 1 /\ pc = "expand"

DoExpand == /\ pc = "expand"
            /\ IF Variant = "expanded" THEN rtol' = Expand(rtol, n) /\ atol' = Expand(atol, n)
               ELSE UNCHANGED <<rtol, atol>>
            /\ pc' = "loop" /\ UNCHANGED <<n, i>>

\* quot = atol[i]/rtol[i]; rtol[i] = 0.1*rtol[i]^(2/3); atol[i] = rtol[i]*quot
LoopStep == /\ pc = "loop" /\ i <= n
            /\ rtol' = Write(rtol, i, Read(rtol, i) + 1)
            /\ atol' = Write(atol, i, Read(atol, i) + 1)
            /\ i' = i + 1 /\ UNCHANGED <<n, pc>>
LoopEnd == pc = "loop" /\ i > n /\ pc' = "done" /\ UNCHANGED <<n, rtol, atol, i>>

Next == DoExpand \/ LoopStep \/ LoopEnd \/ (pc = "done" /\ UNCHANGED vars)
Spec == Init /\ [][Next]_vars

OnceEach == pc = "done" => \A j \in 1..n : Read(rtol, j) = 1 /\ Read(atol, j) = 1
=============================================================================

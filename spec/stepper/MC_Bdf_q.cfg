SPECIFICATION MCSpec
CONSTANTS
  MaxNewton = 2
  MaxOrder = 3
  Metric = TRUE
  S = 4
  HSet = {1, 2, 4}
  NMaxOpts = {0}
  HMaxOpts = {0, 2}
  FsOpts = {TRUE, FALSE}
  AllowInterrupt = FALSE
  MaxMods = 0
INVARIANTS B_Span B_Budget B_Counts B_Order B_LuFresh B_OrderNeedsRun
CHECK_DEADLOCK FALSE

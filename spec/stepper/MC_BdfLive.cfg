SPECIFICATION MCFair
CONSTANTS
  MaxNewton = 2
  MaxOrder = 2
  Metric = TRUE
  S = 3
  HSet = {1, 3}
  NMaxOpts = {0}
  HMaxOpts = {0}
  FsOpts = {TRUE}
  AllowInterrupt = FALSE
  MaxMods = 0
PROPERTY B_Terminates
CHECK_DEADLOCK FALSE

---------------------------- MODULE Trace_Dopri ----------------------------
(***************************************************************************)
(* Trace validation of recorded DOPRI5 / DOP853 / RK23 / RK4 runs (low-    *)
(* level and through solve_ivp) against Dopri.tla.  Lines: call, ode, ev, cb, hk     *)
(* (decision points reported through ivp::verif_trace: dp_small, dp_land,  *)
(* dp_acc, dp_rej, dp_stiff), ret.  The budget exit, the next step size    *)
(* and - in solve_ivp runs - the callbacks of the crate's own output       *)
(* handler leave no line and are silent steps.  The end of an attempt is   *)
(* bound by look-ahead to its last stage (ranks keep order, not distance). *)
(* Acceptance: every line is consumed (register 1 = furthest line).        *)
(***************************************************************************)
EXTENDS Dopri, Json, IOUtils, TLCExt

CONSTANT LowBudget      \* max_steps of the low-level builder when the caller gives none (100000; RK23: 10000)

Rec == ndJsonDeserialize(IOEnv.TRACE)
N == Len(Rec)

VARIABLES l, cid, api, dense
tvars == <<dvars, l, cid, api, dense>>

Plain(i) == i <= N /\ Rec[i].e = "ode" /\ ~Rec[i].j
Hk(i, tag) == i <= N /\ Rec[i].e = "hk" /\ Rec[i].t = tag
IsRet(i) == i <= N /\ Rec[i].e = "ret"
Line(e) == l <= N /\ Rec[l].e = e
Adv(n) == l' = l + n /\ UNCHANGED <<cid, api, dense>>
Stay == UNCHANGED <<l, cid, api, dense>>
AllPlain(i, n) == \A j \in 0..(n - 1) : Plain(i + j)
Flag(r) == IF r \in {"Interrupt", "Modified"} THEN r ELSE "Continue"

IdleP == [x0 |-> 0, xe |-> 0, slo |-> 0, shi |-> 0, nmax |-> -1, hmax |-> 0, hasFs |-> FALSE]
CanonIdle ==
    /\ pc' = "idle" /\ P' = IdleP
    /\ x' = 0 /\ xph' = 0 /\ h' = 0 /\ last' = FALSE /\ reject' = FALSE /\ status' = "None" /\ k' = 0
    /\ nOde' = 0 /\ total' = 0 /\ acc' = 0 /\ rej' = 0 /\ ncb' = 0 /\ iasti' = 0 /\ nonstiff' = 0 /\ evalMax' = 0

TraceInit ==
    /\ l = 1 /\ cid = 0 /\ api = "" /\ dense = FALSE
    /\ pc = "idle" /\ P = IdleP
    /\ x = 0 /\ xph = 0 /\ h = 0 /\ last = FALSE /\ reject = FALSE /\ status = "None" /\ k = 0
    /\ nOde = 0 /\ total = 0 /\ acc = 0 /\ rej = 0 /\ ncb = 0 /\ iasti = 0 /\ nonstiff = 0 /\ evalMax = 0

TCall ==
    /\ pc = "idle" /\ Line("call")
    /\ LET c == Rec[l] IN
          /\ cid' = c.id
          /\ api' = IF c.nocb THEN "solve_ivp" ELSE c.api           \* called without a callback: nothing to consume, as with the crate's own handler
          /\ dense' = (c.api = "solve_ivp" \/ c.lowdense)         \* solve_ivp builds the solver with its default: dense coefficients on
          /\ P' = [x0 |-> c.x0.r, xe |-> c.xend.r, slo |-> c.m.xend_lo, shi |-> c.m.xend_hi,
                   nmax |-> IF c.maxsteps < 0 THEN (IF c.api = "low" THEN LowBudget ELSE -1) ELSE c.maxsteps,
                   hmax |-> 0, hasFs |-> c.hasFs]
          /\ x' = c.x0.r /\ xph' = c.x0.r /\ h' = 0 /\ last' = FALSE /\ reject' = FALSE /\ pc' = "f0" /\ status' = "None" /\ k' = 0
          /\ nOde' = 0 /\ total' = 0 /\ acc' = 0 /\ rej' = 0 /\ ncb' = 0 /\ iasti' = 0 /\ nonstiff' = 0 /\ evalMax' = c.x0.r
    /\ l' = l + 1

TF0 == Plain(l) /\ Rec[l].r = x /\ F0Eval(1) /\ Adv(1)
THinit == Plain(l) /\ HinitProbe(Rec[l].r, 1) /\ Adv(1)
TCb0 == Line("cb") /\ api = "low" /\ Rec[l].k = 0 /\ InitialCallback(Flag(Rec[l].ret)) /\ Adv(1)
\* solve_ivp runs: the callbacks are those of the crate's own output handler and leave no line of their own; the handler
\* evaluates the event functions (ev lines), never modifies the state, and interrupts on a terminal event
TEv == Line("ev") /\ pc \in {"cb0", "cb"} /\ api = "solve_ivp" /\ UNCHANGED dvars /\ Adv(1)
TCb0S == /\ api = "solve_ivp" /\ l <= N /\ Rec[l].e # "ev"
         /\ InitialCallback(IF IsRet(l) THEN "Interrupt" ELSE "Continue") /\ Stay
TMod0 == Plain(l) /\ Rec[l].r = x /\ ModEval0 /\ Adv(1)

\* loop top: the guard / the landing test that fired is reported; the budget exit is silent
TTop ==
    /\ pc = "top"
    /\ IF Hk(l, "dp_small") THEN Top(TRUE, FALSE, 0) /\ Adv(1)
       ELSE LET ld == Hk(l, "dp_land")
                l1 == IF ld THEN l + 1 ELSE l
            IN IF AllPlain(l1, Stages)
               THEN Top(FALSE, ld, Rec[l1 + Stages - 1].r) /\ l' = l1 /\ UNCHANGED <<cid, api, dense>>
               ELSE IsRet(l) /\ Top(FALSE, FALSE, 0) /\ Stay             \* only the budget exit remains
TStage == Plain(l) /\ StageEval(Rec[l].r) /\ Adv(1)
TErr ==
    \/ /\ Hk(l, "dp_acc") /\ Rec[l].n = acc + 1
       /\ AllPlain(l + 1, AccEvals) /\ (\A j \in 1..AccEvals : Rec[l + j].r = xph)
       /\ ErrTest(TRUE, 0) /\ Adv(1 + AccEvals)
    \/ Hk(l, "dp_rej") /\ ErrTest(FALSE, 1) /\ Adv(1)
TStiff == Hk(l, "dp_stiff") /\ StiffTest(Rec[l].n = 1) /\ Adv(1)
\* dense coefficients: always with dense output on; with it off only for a step that holds a sparse-output point - then
\* the extra evaluations are there (DOP853) or nothing tells (DOPRI5: no evaluations, no state)
TCommit ==
    LET extra == DenseEvals > 0 /\ AllPlain(l, DenseEvals) /\ (\A j \in 0..(DenseEvals - 1) : Rec[l + j].r >= x /\ Rec[l + j].r <= xph)
        dn    == IF DenseEvals = 0 \/ dense THEN dense
                 ELSE extra /\ l + DenseEvals <= N /\ Rec[l + DenseEvals].e = "cb"
    IN /\ (DenseEvals > 0 /\ dn => extra)
       /\ Commit(dn)
       /\ Adv(IF dn THEN DenseEvals ELSE 0)
TCb == /\ Line("cb") /\ api = "low" /\ Rec[l].k = ncb
       /\ (Flag(Rec[l].ret) # "Modified" => Rec[l].x.r = x)
       /\ Callback(Flag(Rec[l].ret), IF Flag(Rec[l].ret) = "Modified" THEN Rec[l].x.r ELSE x) /\ Adv(1)
TCbS == /\ api = "solve_ivp" /\ l <= N /\ Rec[l].e # "ev"
        /\ \/ IsRet(l) /\ Callback("Interrupt", x) /\ Stay
           \/ Callback("Continue", x) /\ Stay
TMod == Plain(l) /\ Rec[l].r = x /\ ModEval /\ Adv(1)
TPost == Post(1) /\ Stay
TRet ==
    /\ pc = "done" /\ Line("ret")
    /\ LET R == Rec[l] IN
          /\ R.status = status
          /\ R.nfev = nOde /\ R.nstep = total /\ R.naccpt = acc /\ R.nrejct = rej
    /\ CanonIdle
    /\ l' = l + 1 /\ cid' = 0 /\ api' = "" /\ dense' = FALSE

TraceNext == TCall \/ TF0 \/ THinit \/ TCb0 \/ TEv \/ TCb0S \/ TMod0 \/ TTop \/ TStage \/ TErr \/ TStiff \/ TCommit \/ TCb \/ TCbS
             \/ TMod \/ TPost \/ TRet
TraceSpec == TraceInit /\ [][TraceNext]_tvars

Track == TLCSet(1, IF TLCGet(1) < l THEN l ELSE TLCGet(1))
ASSUME TLCSet(1, 0)
Accepted ==
    IF TLCGet(1) = N + 1 THEN PrintT(<<"DOPRI-TRACE", "accepted", N>>)
    ELSE PrintT(<<"DOPRI-TRACE", "rejected", TLCGet(1)>>)

TraceInv == pc # "idle" => (D_Span /\ D_Budget /\ D_Stiff)
=============================================================================

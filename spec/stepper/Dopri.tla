------------------------------- MODULE Dopri -------------------------------
(***************************************************************************)
(* Level B (implementation-shaped) model of the main loop shared by        *)
(* src/methods/dopri5.rs and src/methods/dop853.rs (`DOPRI5::solve`,       *)
(* `DOP853::solve`: Hairer's dopri5 / dop853 control skeleton), one action *)
(* per critical section and per observable event, flags and counters as    *)
(* coded:                                                                  *)
(*                                                                         *)
(*   F0Eval, HinitProbe, InitialCallback, ModEval0     before the loop     *)
(*   Top          budget guard `steps.total > nmax`, underflow guard       *)
(*                `0.1 |h| <= |x| uround`, the landing test                *)
(*                `(x + 1.01 h - xend) posneg > 0` (h := xend - x,         *)
(*                last := true), steps.total += 1                          *)
(*   StageEval    one evaluation of the right-hand side inside the attempt *)
(*                (Stages of them; the last one at x + h)                  *)
(*   ErrTest      accept (steps.accepted += 1; DOP853: one more evaluation *)
(*                at x + h) | reject (hnew < h, reject := true, last :=    *)
(*                false, steps.rejected += 1 only once two steps have been *)
(*                accepted - as coded)                                     *)
(*   StiffTest    every StiffEvery-th accepted step or while iasti > 0:    *)
(*                fire (nonstiff := 0, iasti += 1, exit ProbablyStiff at   *)
(*                StiffLimit - the step is counted but neither committed   *)
(*                nor reported: the open C18 finding) | quiet (nonstiff +=  *)
(*                1, iasti := 0 at NonStiffReset)                          *)
(*   DenseEval    DOP853: three more evaluations when dense coefficients   *)
(*                are built for this step                                  *)
(*   Callback / ModEval, then Post: exit Success on `last`; else hnew      *)
(*                clamped to h_max, and not above h after a rejection      *)
(*                                                                         *)
(* What the model cannot compute (error norms, step ratios, the stiffness  *)
(* quotient) is an oracle passed to the actions as parameters: the bounded *)
(* model (MC_Dopri) quantifies over them, the trace specification          *)
(* (Trace_Dopri) binds them from the recorded run.  Positions are integers *)
(* in the direction of integration; in trace mode they are the recorder's  *)
(* ranks, which keep order but not distance: guards that need distances    *)
(* are under `Metric`.                                                     *)
(***************************************************************************)
EXTENDS Integers, Sequences, FiniteSets, TLC

CONSTANTS Stages,        \* evaluations per attempt (DOPRI5: 6, DOP853: 11)
          AccEvals,      \* evaluations on acceptance, before the stiffness test (DOPRI5: 0, DOP853: 1)
          DenseEvals,    \* extra evaluations when dense coefficients are built (DOPRI5: 0, DOP853: 3)
          CountRule,     \* "hairer": steps.total counts attempts, budget test total > nmax, a rejection is counted once two
                         \*           steps were accepted (DOPRI5, DOP853)
                         \* "scipy":  steps.total counts accepted steps, budget test total >= nmax, every rejection is counted
                         \*           (RK23, RK4)
          HasHinit,      \* an automatic first step is computed by hinit when none is given (not RK4: span / 100)
          HasSmall,      \* the underflow guard exists (not RK4)
          StiffEvery,    \* nstiff (1000 in the code; 0: no stiffness test)
          StiffLimit,    \* 15
          NonStiffReset, \* 6
          Metric         \* TRUE: positions are distances (bounded model); FALSE: ranks (traces)

VARIABLES P,             \* [x0, xe, slo, shi, nmax, hmax, hasFs]  (nmax < 0: none)
          x, h, xph, last, reject, pc, status, k,
          nOde, total, acc, rej, ncb, iasti, nonstiff, evalMax
dvars == <<P, x, h, xph, last, reject, pc, status, k, nOde, total, acc, rej, ncb, iasti, nonstiff, evalMax>>

AtEnd(p) == P.slo <= p /\ p <= P.shi
Max2(a, b) == IF a > b THEN a ELSE b

DInit(params) ==
    /\ P = params
    /\ x = params.x0 /\ xph = params.x0 /\ h = 0
    /\ last = FALSE /\ reject = FALSE /\ pc = "f0" /\ status = "None" /\ k = 0
    /\ nOde = 0 /\ total = 0 /\ acc = 0 /\ rej = 0 /\ ncb = 0 /\ iasti = 0 /\ nonstiff = 0
    /\ evalMax = params.x0

Finish(st) == pc' = "done" /\ status' = st

(* ------------------------------------------------------------------ before the loop *)
\* f(x0, y0); with first_step given the step is known, else hinit probes once inside the span
F0Eval(h0) ==
    /\ pc = "f0"
    /\ nOde' = nOde + 1
    /\ IF P.hasFs \/ ~HasHinit THEN h0 > 0 /\ h' = h0 /\ pc' = "cb0" ELSE h' = h /\ pc' = "hinit"
    /\ UNCHANGED <<P, x, xph, last, reject, status, k, total, acc, rej, ncb, iasti, nonstiff, evalMax>>

\* hinit's explicit Euler probe at x0 + h_probe (bounded by h_max and the interval: repair 47bfa2a), then the step it returns
HinitProbe(p, h0) ==
    /\ pc = "hinit"
    /\ p >= P.x0 /\ p <= P.shi
    /\ (Metric => p - P.x0 <= P.hmax)
    /\ h0 > 0 /\ (Metric => h0 <= P.hmax)
    /\ nOde' = nOde + 1 /\ evalMax' = Max2(evalMax, p)
    /\ h' = h0 /\ pc' = "cb0"
    /\ UNCHANGED <<P, x, xph, last, reject, status, k, total, acc, rej, ncb, iasti, nonstiff>>

InitialCallback(flag) ==
    /\ pc = "cb0"
    /\ ncb' = 1
    /\ CASE flag = "Interrupt" -> Finish("UserInterrupt")
         [] flag = "Modified"  -> pc' = "mod0" /\ UNCHANGED status
         [] OTHER              -> pc' = "top" /\ UNCHANGED status
    /\ UNCHANGED <<P, x, h, xph, last, reject, k, nOde, total, acc, rej, iasti, nonstiff, evalMax>>

ModEval0 ==
    /\ pc = "mod0"
    /\ nOde' = nOde + 1 /\ pc' = "top"
    /\ UNCHANGED <<P, x, h, xph, last, reject, status, k, total, acc, rej, ncb, iasti, nonstiff, evalMax>>

(* ------------------------------------------------------------------ loop top *)
\* small: the underflow guard fired;  land: the landing test fired;  e: where the attempt ends (x + h after the landing clamp)
Top(small, land, e) ==
    /\ pc = "top"
    /\ IF P.nmax >= 0 /\ (IF CountRule = "hairer" THEN total > P.nmax ELSE total >= P.nmax)
       THEN Finish("NeedLargerNMax") /\ UNCHANGED <<h, xph, last, total, k>>
       ELSE IF HasSmall /\ (small \/ (Metric /\ h = 0))
       THEN /\ (Metric => h = 0)
            /\ Finish("StepSizeTooSmall") /\ UNCHANGED <<h, xph, last, total, k>>
       ELSE /\ ~small
            /\ (Metric => h > 0)
            /\ IF land
               THEN /\ (Metric => x + h >= P.xe)              \* 1% stretch (hairer, RK4): integer positions have none
                    /\ AtEnd(e)                                \* x + (xend - x) is xend to an ulp
                    \* (RK23 leaves on x == xend exactly: an arrival one ulp off is followed by one more, tiny, clamped attempt -
                    \*  possibly backwards)
                    /\ last' = IF CountRule = "scipy" /\ HasSmall THEN (e = P.xe) ELSE TRUE
                    /\ (e > x \/ (~Metric /\ AtEnd(x)))
               ELSE /\ (Metric => (e = x + h /\ (e < P.xe \/ (CountRule = "scipy" /\ HasSmall /\ e = P.xe))))
                    /\ e > x
                    /\ (~Metric => IF CountRule = "scipy" /\ HasSmall THEN e <= P.shi ELSE e < P.slo)     \* x + 1.01 h does not reach xend
                    /\ last' = IF CountRule = "scipy" /\ HasSmall THEN (e = P.xe) ELSE last
            /\ h' = IF Metric THEN e - x ELSE h
            /\ xph' = e /\ total' = (IF CountRule = "hairer" THEN total + 1 ELSE total) /\ k' = 0
            /\ pc' = "stages" /\ UNCHANGED status
    /\ UNCHANGED <<P, x, reject, nOde, acc, rej, ncb, iasti, nonstiff, evalMax>>

\* one stage: an evaluation inside the attempt; the last one at its end
StageEval(p) ==
    /\ pc = "stages" /\ k < Stages
    /\ (IF xph >= x THEN p >= x /\ p <= xph ELSE p <= x /\ p >= xph)
    /\ (k + 1 = Stages => p = xph)
    /\ nOde' = nOde + 1 /\ k' = k + 1 /\ evalMax' = Max2(evalMax, p)
    /\ pc' = IF k + 1 = Stages THEN "err" ELSE "stages"
    /\ UNCHANGED <<P, x, h, xph, last, reject, status, total, acc, rej, ncb, iasti, nonstiff>>

\* ok: err <= 1;  g: the step proposed after a rejection
\* (RK4 - the one stepper without the underflow guard - has no error test: every attempt is accepted)
ErrTest(ok, g) ==
    /\ pc = "err"
    /\ (~ok => HasSmall)
    /\ IF ok
       THEN /\ acc' = acc + 1
            /\ total' = (IF CountRule = "hairer" THEN total ELSE total + 1)
            /\ nOde' = nOde + AccEvals
            /\ pc' = IF StiffEvery > 0 /\ ((acc' % StiffEvery = 0) \/ iasti > 0) THEN "stiff" ELSE "dense"
            /\ UNCHANGED <<h, reject, last, rej>>
       ELSE /\ g >= 0 /\ (Metric => g < h)
            /\ h' = g /\ reject' = TRUE /\ last' = FALSE
            /\ rej' = IF acc > 1 \/ CountRule = "scipy" THEN rej + 1 ELSE rej   \* hairer, as coded: rejections before the second accepted step are not counted
            /\ pc' = "top" /\ UNCHANGED <<acc, nOde, total>>
    /\ UNCHANGED <<P, x, xph, status, k, ncb, iasti, nonstiff, evalMax>>

\* fire: the stiffness quotient exceeded its bound
StiffTest(fire) ==
    /\ pc = "stiff"
    /\ IF fire
       THEN /\ nonstiff' = 0 /\ iasti' = iasti + 1
            /\ IF iasti' = StiffLimit THEN Finish("ProbablyStiff") ELSE pc' = "dense" /\ UNCHANGED status
       ELSE /\ nonstiff' = nonstiff + 1
            /\ iasti' = IF nonstiff' = NonStiffReset THEN 0 ELSE iasti
            /\ pc' = "dense" /\ UNCHANGED status
    /\ UNCHANGED <<P, x, h, xph, last, reject, k, nOde, total, acc, rej, ncb, evalMax>>

\* dn: dense coefficients are built for this step (dense_output, or a sparse-output point falls into it); the step is committed
Commit(dn) ==
    /\ pc = "dense"
    /\ nOde' = nOde + (IF dn THEN DenseEvals ELSE 0)
    /\ x' = xph
    /\ pc' = "cb"
    /\ UNCHANGED <<P, h, xph, last, reject, status, k, total, acc, rej, ncb, iasti, nonstiff, evalMax>>

\* xm: where the callback leaves x (ModifiedSolution may move it)
Callback(flag, xm) ==
    /\ pc = "cb"
    /\ ncb' = ncb + 1
    /\ CASE flag = "Interrupt" -> Finish("UserInterrupt") /\ UNCHANGED x
         [] flag = "Modified"  -> pc' = "mod" /\ x' = xm /\ UNCHANGED status
         [] OTHER              -> pc' = "post" /\ UNCHANGED <<status, x>>
    /\ UNCHANGED <<P, h, xph, last, reject, k, nOde, total, acc, rej, iasti, nonstiff, evalMax>>

ModEval ==
    /\ pc = "mod"
    /\ nOde' = nOde + 1 /\ pc' = "post"
    /\ UNCHANGED <<P, x, h, xph, last, reject, status, k, total, acc, rej, ncb, iasti, nonstiff, evalMax>>

\* g: the next step size (after the h_max clamp and the no-growth rule that follows a rejection)
Post(g) ==
    /\ pc = "post"
    /\ IF last
       THEN Finish("Success") /\ UNCHANGED <<h, reject>>
       ELSE /\ g >= 0 /\ (Metric => g <= P.hmax)
            /\ (Metric /\ reject => g <= h)
            /\ (Metric /\ ~HasSmall => g = h)                \* RK4: the step is fixed
            /\ h' = g /\ reject' = FALSE
            /\ pc' = "top" /\ UNCHANGED status
    /\ UNCHANGED <<P, x, xph, last, k, nOde, total, acc, rej, ncb, iasti, nonstiff, evalMax>>

Done == pc = "done" /\ UNCHANGED dvars

(* ------------------------------------------------------------------ invariants *)
\* nothing is evaluated or committed beyond xend; Success means the last step landed there
D_Span ==
    /\ evalMax <= P.shi /\ x <= P.shi /\ x >= P.x0
    /\ (status = "Success" => AtEnd(xph) /\ last)          \* the last committed step ended at xend (a callback may have moved x since)
\* the budget: never more than max_steps + 1 attempts are counted
D_Budget == P.nmax >= 0 => total <= P.nmax + (IF CountRule = "hairer" THEN 1 ELSE 0)
\* the evaluation counter is what the structure of the loop implies
D_Counts ==
    /\ (IF CountRule = "hairer" THEN acc + rej <= total ELSE total = acc)
    /\ pc # "f0" => nOde >= 1 + (IF CountRule = "hairer" THEN total * Stages - (IF pc = "stages" THEN Stages - k ELSE 0)
                                                        ELSE (acc + rej) * Stages + (IF pc = "stages" THEN k ELSE 0))
                           + acc * AccEvals
    /\ ncb <= acc + 1
    /\ (pc \in {"post", "mod", "top", "stages", "err"} => ncb = acc + 1)           \* every committed step was reported
    /\ (status = "ProbablyStiff" => ncb = acc)                                     \* ... except the one the stiffness exit drops
\* stiffness bookkeeping
D_Stiff ==
    /\ iasti >= 0 /\ iasti <= StiffLimit /\ nonstiff >= 0 /\ nonstiff <= acc
    /\ (status = "ProbablyStiff" <=> (pc = "done" /\ iasti = StiffLimit))
    /\ (iasti > 0 => nonstiff < NonStiffReset)              \* NonStiffReset quiet tests in a row clear the count
\* status values
D_Flags ==
    /\ status \in {"None", "Success", "UserInterrupt", "NeedLargerNMax", "StepSizeTooSmall", "ProbablyStiff"}
    /\ (pc = "done" <=> status # "None")
    /\ (status = "NeedLargerNMax" => P.nmax >= 0 /\ total = P.nmax + (IF CountRule = "hairer" THEN 1 ELSE 0))
\* liveness (under weak fairness of the loop and with a budget): every run ends
D_Terminates == <>(pc = "done")
=============================================================================

SPECIFICATION MCSpec
CONSTANTS
  MaxNewton = 2
  MaxOrder = 4
  Metric = TRUE
  S = 5
  HSet = {1, 2, 5}
  NMaxOpts = {0, 3}
  HMaxOpts = {0, 2}
  FsOpts = {TRUE, FALSE}
  AllowInterrupt = TRUE
  MaxMods = 1
INVARIANTS B_Span B_Budget B_Counts B_Order B_LuFresh B_OrderNeedsRun
CHECK_DEADLOCK FALSE

SPECIFICATION Spec
CONSTANTS
  MaxN = 4
  Variant = "expanded"
INVARIANT OnceEach

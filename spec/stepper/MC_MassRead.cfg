SPECIFICATION Spec
CONSTANTS
  MaxN = 3
  DefaultVariant = "default_fills"
INVARIANT ReadsWhatIsMeant

-------------------------------- MODULE Bdf --------------------------------
(***************************************************************************)
(* Level B (implementation-shaped) model of the main loop of               *)
(* src/methods/bdf.rs (`BDF::solve`): variable-order (1..5), variable-step *)
(* backward differentiation in the fixed-leading-coefficient form.         *)
(* One action per critical section / observable event:                     *)
(*                                                                         *)
(*   F0Eval, Jac0, HinitProbe (no first_step), InitialCallback,            *)
(*   ModEvalA / ModEvalB (ModifiedSolution: re-evaluate f, restart at      *)
(*   order 1 with a fresh Jacobian)                                        *)
(*   Attempt   loop top: budget, underflow, max_step / min_step clamps,    *)
(*             landing on xend (or arrival within a few ulp), step count   *)
(*   Factor    (re)factorisation of I - c J when the stored one is stale   *)
(*             (or c moved by more than 10%); may be singular              *)
(*   NewtonEval / NewtonEnd   simplified Newton at the new point; on       *)
(*             failure the Jacobian is re-evaluated AT THE PREDICTED POINT *)
(*             and the step is halved                                      *)
(*   ErrTest   accept | reject                                             *)
(*   Callback, then Post: success test, order selection after order+1      *)
(*             equal steps (order moves by at most one; a changed order    *)
(*             re-evaluates the Jacobian)                                  *)
(*                                                                         *)
(* Every failure path resets the run of equal steps and counts a           *)
(* rejection; with min_step given a failure at the lower bound ends the    *)
(* run with StepSizeTooSmall (repair 9466fce).  Oracles are action         *)
(* parameters as in Radau.tla; `Metric` separates distance guards (bounded *)
(* model) from what survives in rank order (traces).                       *)
(***************************************************************************)
EXTENDS Integers, Sequences, FiniteSets, TLC

CONSTANTS MaxNewton,   \* newton_maxiter (4)
          MaxOrder,    \* 5
          Metric

VARIABLES P,           \* [x0, xe, slo, shi, nmax, hasFs, hasMin, hmax]
          x, xnew, h, order, nEq, luCur, it, pc, status,
          nJac, nLu, nOde, total, acc, rej, ncb,
          jacAt, evalMax, ordHist     \* history: where the Jacobian in use was evaluated, furthest evaluation, nEq at the last order change
bvars == <<P, x, xnew, h, order, nEq, luCur, it, pc, status, nJac, nLu, nOde, total, acc, rej, ncb, jacAt, evalMax, ordHist>>

AtEnd(p)     == P.slo <= p /\ p <= P.shi
BeforeEnd(p) == p < P.xe
Max2(a, b)   == IF a > b THEN a ELSE b

BInit(params, h0) ==
    /\ P = params
    /\ x = params.x0 /\ xnew = params.x0 /\ h = h0 /\ h0 >= 0
    /\ order = 1 /\ nEq = 0 /\ luCur = FALSE /\ it = 0 /\ pc = "f0" /\ status = "None"
    /\ nJac = 0 /\ nLu = 0 /\ nOde = 0 /\ total = 0 /\ acc = 0 /\ rej = 0 /\ ncb = 0
    /\ jacAt = -1 /\ evalMax = params.x0 /\ ordHist = 0

Finish(st) == pc' = "done" /\ status' = st
Keep(vs) == UNCHANGED vs

(* ------------------------------------------------------------------ before the loop *)
F0Eval == /\ pc = "f0" /\ nOde' = nOde + 1 /\ pc' = "jac0"
          /\ UNCHANGED <<P, x, xnew, h, order, nEq, luCur, it, status, nJac, nLu, total, acc, rej, ncb, jacAt, evalMax, ordHist>>
Jac0 ==   /\ pc = "jac0" /\ nJac' = nJac + 1 /\ jacAt' = x
          /\ pc' = IF P.hasFs THEN "cb0" ELSE "hinit"
          /\ UNCHANGED <<P, x, xnew, h, order, nEq, luCur, it, status, nLu, nOde, total, acc, rej, ncb, evalMax, ordHist>>
\* hinit's explicit Euler probe (inside the interval: repair 47bfa2a)
HinitProbe(p) ==
          /\ pc = "hinit" /\ nOde' = nOde + 1 /\ pc' = "cb0"
          /\ p >= P.x0 /\ p <= P.shi /\ evalMax' = Max2(evalMax, p)
          /\ UNCHANGED <<P, x, xnew, h, order, nEq, luCur, it, status, nJac, nLu, total, acc, rej, ncb, jacAt, ordHist>>
InitialCallback(flag) ==
          /\ pc = "cb0" /\ ncb' = 1
          /\ CASE flag = "Interrupt" -> Finish("UserInterrupt")
               [] flag = "Modified"  -> pc' = "moda" /\ UNCHANGED status
               [] OTHER              -> pc' = "top" /\ UNCHANGED status
          /\ UNCHANGED <<P, x, xnew, h, order, nEq, luCur, it, nJac, nLu, nOde, total, acc, rej, jacAt, evalMax, ordHist>>
\* ModifiedSolution: f re-evaluated at the written state, history restarted at order 1, Jacobian refreshed
ModEvalA == /\ pc = "moda" /\ nOde' = nOde + 1 /\ pc' = "modb"
            /\ UNCHANGED <<P, x, xnew, h, order, nEq, luCur, it, status, nJac, nLu, total, acc, rej, ncb, jacAt, evalMax, ordHist>>
ModEvalB == /\ pc = "modb" /\ nJac' = nJac + 1 /\ jacAt' = x
            /\ order' = 1 /\ nEq' = 0 /\ luCur' = FALSE /\ ordHist' = 0
            /\ pc' = IF ncb = 1 /\ acc = 0 THEN "top" ELSE "post"
            /\ UNCHANGED <<P, x, xnew, h, it, status, nLu, nOde, total, acc, rej, ncb, evalMax>>

(* ------------------------------------------------------------------ loop top *)
\* clampMax / clampMin: the max_step / min_step clamps fired; beyond: x + h passes xend; arrive: within a few ulp of it;
\* under: one of the two step-size guards fired; g: the step actually attempted (after clamps and landing)
Attempt(clampMax, clampMin, beyond, arrive, under, g) ==
    /\ pc = "top"
    /\ IF P.nmax > 0 /\ total >= P.nmax
       THEN Finish("NeedLargerNMax") /\ UNCHANGED <<xnew, h, nEq, luCur, total, it>>
       ELSE IF under
       THEN /\ (Metric => h = 0)
            /\ Finish("StepSizeTooSmall") /\ UNCHANGED <<xnew, h, nEq, luCur, total, it>>
       ELSE IF beyond /\ arrive
       THEN AtEnd(x) /\ Finish("Success") /\ UNCHANGED <<xnew, h, nEq, luCur, total, it>>
       ELSE /\ (clampMin => P.hasMin)
            /\ (Metric => (g > 0 /\ g <= P.hmax /\ (clampMax <=> h > P.hmax) /\ (beyond <=> x + (IF clampMax THEN P.hmax ELSE h) > P.xe)))
            /\ (beyond => AtEnd(x + g))                                   \* the landing step ends at xend
            /\ (~beyond => x + g <= P.shi)
            /\ (Metric /\ ~beyond /\ ~clampMax /\ ~clampMin => g = h)
            /\ h' = g /\ xnew' = x + g
            /\ nEq' = IF clampMax \/ clampMin \/ beyond THEN 0 ELSE nEq
            /\ luCur' = IF clampMax \/ clampMin \/ beyond THEN FALSE ELSE luCur
            /\ total' = total + 1 /\ it' = 0
            /\ pc' = "lu" /\ UNCHANGED status
    /\ UNCHANGED <<P, x, order, nJac, nLu, nOde, acc, rej, ncb, jacAt, evalMax, ordHist>>

\* a failed attempt: halve / shrink, restart the run of equal steps, count a rejection
Shrink(g, minExit) ==
    IF minExit
    THEN P.hasMin /\ Finish("StepSizeTooSmall") /\ UNCHANGED <<h, nEq, rej>>
    ELSE /\ (Metric => (g < h /\ g >= 0))
         /\ h' = g /\ nEq' = 0 /\ rej' = rej + 1
         /\ pc' = "top" /\ UNCHANGED status

\* out: "keep" (the stored factorisation is current) | "ok" | "sing"
Factor(out, g, minExit) ==
    /\ pc = "lu"
    /\ CASE out = "keep" -> /\ luCur /\ pc' = "newton"
                            /\ UNCHANGED <<h, nEq, luCur, rej, nLu, status>>
         [] out = "ok"   -> /\ nLu' = nLu + 1 /\ luCur' = TRUE /\ pc' = "newton"
                            /\ UNCHANGED <<h, nEq, rej, status>>
         [] out = "sing" -> /\ nLu' = nLu + 1 /\ luCur' = FALSE
                            /\ Shrink(g, minExit)
    /\ UNCHANGED <<P, x, xnew, order, it, nJac, nOde, total, acc, ncb, jacAt, evalMax, ordHist>>

NewtonEval ==
    /\ pc = "newton" /\ it < MaxNewton
    /\ nOde' = nOde + 1 /\ it' = it + 1 /\ evalMax' = Max2(evalMax, xnew)
    /\ UNCHANGED <<P, x, xnew, h, order, nEq, luCur, pc, status, nJac, nLu, total, acc, rej, ncb, jacAt, ordHist>>

\* iters: the loop counter reported by the code: it = iters + 1 when the loop was left by `break`, it = iters = MaxNewton otherwise
NewtonEnd(conv, iters, g, minExit) ==
    /\ pc = "newton" /\ it >= 1
    /\ (it = iters + 1) \/ (~conv /\ it = iters /\ it = MaxNewton)
    /\ IF conv
       THEN pc' = "err" /\ UNCHANGED <<h, nEq, luCur, rej, nJac, jacAt, status>>
       ELSE IF minExit
       THEN Shrink(g, TRUE) /\ UNCHANGED <<luCur, nJac, jacAt>>
       ELSE /\ nJac' = nJac + 1 /\ jacAt' = xnew /\ luCur' = FALSE          \* Jacobian at the predicted point
            /\ Shrink(g, FALSE)
    /\ UNCHANGED <<P, x, xnew, order, it, nLu, nOde, total, acc, ncb, evalMax, ordHist>>

ErrTest(accept, g, minExit) ==
    /\ pc = "err"
    /\ IF accept
       THEN /\ acc' = acc + 1 /\ nEq' = nEq + 1 /\ x' = xnew /\ pc' = "cb"
            /\ UNCHANGED <<h, rej, status>>
       ELSE Shrink(g, minExit) /\ UNCHANGED <<acc, x>>
    /\ UNCHANGED <<P, xnew, order, luCur, it, nJac, nLu, nOde, total, ncb, jacAt, evalMax, ordHist>>

\* xm: where the run continues from (a callback returning ModifiedSolution may move x back inside the step it was handed)
Callback(flag, xm) ==
    /\ pc = "cb" /\ ncb' = ncb + 1
    /\ IF flag = "Modified" THEN xm <= x /\ x' = xm ELSE xm = x /\ UNCHANGED x
    /\ CASE flag = "Interrupt" -> Finish("UserInterrupt")
         [] flag = "Modified"  -> pc' = "moda" /\ UNCHANGED status
         [] OTHER              -> pc' = "post" /\ UNCHANGED status
    /\ UNCHANGED <<P, xnew, h, order, nEq, luCur, it, nJac, nLu, nOde, total, acc, rej, jacAt, evalMax, ordHist>>

\* newOrd = 0: no order selection on this step; g: the step size chosen (order selection only)
Post(newOrd, g) ==
    /\ pc = "post"
    /\ IF ~BeforeEnd(x)
       THEN Finish("Success") /\ UNCHANGED <<h, order, nEq, luCur, ordHist>>
       ELSE IF nEq >= order + 1
       THEN /\ newOrd >= 1 /\ newOrd <= MaxOrder
            /\ newOrd - order \in {-1, 0, 1}
            /\ (Metric => g > 0)
            /\ h' = g /\ order' = newOrd /\ ordHist' = nEq /\ nEq' = 0 /\ luCur' = FALSE
            /\ pc' = IF newOrd # order THEN "jacord" ELSE "top"
            /\ UNCHANGED status
       ELSE /\ newOrd = 0 /\ pc' = "top" /\ UNCHANGED <<h, order, nEq, luCur, ordHist, status>>
    /\ UNCHANGED <<P, x, xnew, it, nJac, nLu, nOde, total, acc, rej, ncb, jacAt, evalMax>>

JacOrd == /\ pc = "jacord" /\ nJac' = nJac + 1 /\ jacAt' = x /\ pc' = "top"
          /\ UNCHANGED <<P, x, xnew, h, order, nEq, luCur, it, status, nLu, nOde, total, acc, rej, ncb, evalMax, ordHist>>

Done == pc = "done" /\ UNCHANGED bvars

(* ------------------------------------------------------------------ properties of the model *)
B_Span   == /\ x <= P.shi /\ xnew <= P.shi /\ evalMax <= P.shi
            /\ (status = "Success" => AtEnd(x) \/ ~BeforeEnd(x))
B_Budget == /\ (P.nmax > 0 => total <= P.nmax)
            /\ (status = "NeedLargerNMax" => P.nmax > 0 /\ total = P.nmax)
B_Counts == /\ (pc \in {"top", "lu", "newton", "err", "post", "jacord"} => ncb = acc + 1)
            /\ (pc = "cb" => ncb = acc)
            /\ total >= acc + rej                       \* every counted attempt ends in at most one acceptance or rejection
B_Order  == /\ order >= 1 /\ order <= MaxOrder
            /\ nEq <= acc
\* the iteration always runs on a current factorisation
B_LuFresh == (pc = "newton") => luCur
\* an order change needs order + 1 equal steps (BdfOrder.tla)
B_OrderNeedsRun == (pc = "jacord") => ordHist >= 2
B_Terminates == <>(pc = "done")
=============================================================================

SPECIFICATION TraceSpec
CONSTANTS
  MaxNewton = 4
  MaxOrder = 5
  Metric = FALSE
CONSTRAINT Track
INVARIANT TraceInv
POSTCONDITION Accepted
CHECK_DEADLOCK FALSE

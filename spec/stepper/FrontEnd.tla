------------------------------ MODULE FrontEnd ------------------------------
(***************************************************************************)
(* Level B model of the front end of solve_ivp (src/solve/solve_ivp.rs):   *)
(* the two shortcuts taken before any solver is built, and the hand-over   *)
(* to the stepper + output handler otherwise.                              *)
(*   ZeroInterval : |xend - x0| < 1e-15  -> the requested times within     *)
(*                  1e-12 of x0 (or [x0]), each with y0; all counters 0;   *)
(*                  Success; a constant continuous solution if dense       *)
(*   EmptyState   : y0 empty -> t = t_eval or [x0, xend], empty states; if  *)
(*                  dense, one (empty) segment over [x0, xend] (repair     *)
(*                  56c8554: it was the constant solution at x0, which     *)
(*                  does not cover the reported xend)                      *)
(*   Dispatch     : first_step is handed to the output handler only when   *)
(*                  it does not exceed the interval (repair c5b5f88); the  *)
(*                  continuous solution is built from the stored step      *)
(*                  segments, or - when no step was accepted - is the      *)
(*                  constant one at x0 (repair c290538)                    *)
(*   RK4          : the fixed step is first_step with the sign of the      *)
(*                  interval (repair c44329b), else a hundredth of the     *)
(*                  interval, and never longer than max_step (bd7c67f)     *)
(* Requested times are abstract: "at" (within 1e-12 of x0) or "off".       *)
(***************************************************************************)
EXTENDS Integers, Sequences, FiniteSets, TLC

CONSTANTS MaxT

VARIABLES zero, n0, hasT, teval, dense, fs, nacc, pc, out, rk4, fsSign, ms
vars == <<zero, n0, hasT, teval, dense, fs, nacc, pc, out, rk4, fsSign, ms>>

Init == /\ zero \in BOOLEAN                  \* xend = x0 (to 1e-15)
        /\ n0 \in BOOLEAN                    \* empty state vector
        /\ hasT \in BOOLEAN
        /\ teval \in UNION { [1..m -> {"at", "off"}] : m \in 0..MaxT }
        /\ (~hasT => teval = <<>>)
        /\ dense \in BOOLEAN
        /\ fs \in {"none", "inside", "beyond"}    \* first_step relative to the interval
        /\ nacc \in {"none", "some"}               \* oracle: did the stepper accept a step before it returned
        /\ rk4 \in BOOLEAN                  \* method = RK4 (fixed step chosen by the front end)
        /\ fsSign \in {"interval", "opposite"}   \* sign of a given first_step relative to xend - x0
        /\ ms \in {"none", "below", "above"}     \* max_step relative to the step RK4 would otherwise take
        /\ pc = "call"
        /\ out = [kind |-> "none"]

SelectAt(s) == SelectSeq(s, LAMBDA q : q = "at")

Call ==
    /\ pc = "call"
    /\ pc' = "ret"
    /\ out' = IF zero
              THEN [kind |-> "zero", t |-> IF hasT THEN SelectAt(teval) ELSE <<"at">>,
                    counters |-> 0, status |-> "Success", cont |-> IF dense THEN "constant" ELSE "none", handlerFs |-> FALSE]
              ELSE IF n0
              THEN [kind |-> "empty", t |-> IF hasT THEN teval ELSE <<"at", "off">>,
                    counters |-> 0, status |-> "Success", cont |-> IF dense THEN "span" ELSE "none", handlerFs |-> FALSE]
              ELSE [kind |-> "solve", t |-> <<>>, counters |-> -1, status |-> "stepper", cont |-> IF ~dense THEN "none" ELSE IF nacc = "none" THEN "constant" ELSE "segments",
                    handlerFs |-> (fs = "inside"),
                    \* RK4's fixed step: [sign relative to the interval, length relative to max_step]
                    step |-> IF rk4 THEN [sign |-> "interval", len |-> IF ms = "below" THEN "max_step" ELSE "own"]
                                    ELSE [sign |-> "stepper", len |-> "stepper"]]
    /\ UNCHANGED <<zero, n0, hasT, teval, dense, fs, nacc, rk4, fsSign, ms>>

Next == Call \/ (pc = "ret" /\ UNCHANGED vars)
Spec == Init /\ [][Next]_vars

\* C18: all counters are zero for the zero-length run; C03: only x0 (or the requested times at x0) is reported, Success
ZeroLength == (pc = "ret" /\ zero) =>
                 /\ out.counters = 0 /\ out.status = "Success"
                 /\ \A j \in 1..Len(out.t) : out.t[j] = "at"
                 /\ (~hasT => Len(out.t) = 1)
\* C06: sol is available exactly when dense_output was requested
DenseIffRequested == pc = "ret" => ((out.cont # "none") <=> dense)
\* C06: the continuous solution covers the stored samples: segments only when there are steps behind them
CoversStored == (pc = "ret" /\ dense /\ out.kind = "solve") => (out.cont = "segments" <=> nacc = "some")
\* C06 (repairs 56c8554): every time reported by a shortcut is covered by the continuous solution: the constant one covers
\* times at x0 only, the empty-state run reports xend too
CoversReported == (pc = "ret" /\ dense /\ out.kind \in {"zero", "empty"}) =>
                     (out.cont = "constant" => \A j \in 1..Len(out.t) : out.t[j] = "at")
\* C11 (repairs c44329b, bd7c67f): RK4 steps in the direction of the interval whatever the sign of first_step, and never
\* with a step longer than max_step
Rk4Step == (pc = "ret" /\ out.kind = "solve" /\ rk4) =>
              /\ out.step.sign = "interval"
              /\ (ms = "below" => out.step.len = "max_step")
\* C03 (repair c5b5f88): the handler never waits for a first output beyond xend
NoUnreachableFirstOutput == (pc = "ret" /\ out.kind = "solve" /\ fs = "beyond") => ~out.handlerFs
=============================================================================

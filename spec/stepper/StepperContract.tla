-------------------------- MODULE StepperContract --------------------------
(***************************************************************************)
(* Level A contract for runs of solve_ivp and of the low-level solvers,    *)
(* written over an OBSERVED run:                                           *)
(*   C  = the `call` record   (configuration, marks)                       *)
(*   A  = accumulators built by the trace spec while consuming the run's   *)
(*        ode / jac / ev / cb / gap events (counts, protocol flags)        *)
(*   R  = the `ret` record    (what was returned)                          *)
(* Times are records [r |-> rank in integration order, b |-> hex token of  *)
(* the raw bits]; ranks support <, <=, =; tokens support bit identity.     *)
(* Marks (x0 - 8ulp, xend +- 8ulp, ...) are ranks inserted by the recorder.*)
(* Each operator is one clause of one listed property.                     *)
(***************************************************************************)
EXTENDS Integers, Sequences, FiniteSets, TLC

Last(s) == s[Len(s)]
IsPrefixOf(s, t) == Len(s) <= Len(t) /\ \A j \in 1..Len(s) : s[j] = t[j]
Front(s) == SubSeq(s, 1, Len(s) - 1)
Ranks(ts) == [j \in 1..Len(ts) |-> ts[j].r]
Toks(ts)  == [j \in 1..Len(ts) |-> ts[j].b]
StrictInc(rs) == \A j \in 1..Len(rs) - 1 : rs[j] < rs[j + 1]
NonDec(rs)    == \A j \in 1..Len(rs) - 1 : rs[j] <= rs[j + 1]

IsSol(R) == R.kind = "sol"
IsLow(R) == R.kind = "low"
IsErr(R) == R.kind = "err"

InSpan(C, r) == C.m.x0_lo <= r /\ r <= C.m.xend_hi

\* which terminal event functions reached their count
TermReached(C, R) == { i \in 1..Len(C.events) : C.events[i].term > 0 /\ Len(R.t_events[i]) >= C.events[i].term }

(* ---------------------------------------------------------------- C03 *)
\* (evaluation times are checked event by event in the trace spec: A.evalOut counts the offenders)
C03_EvalsInSpan(A) == A.evalOut = 0
C03_Samples(C, R) ==
    IsSol(R) =>
      /\ R.ylen = Len(R.t) /\ R.ydims_ok
      /\ (~C.hasT => Len(R.t) >= 1 /\ R.t[1].b = C.x0.b)
      /\ IF C.hasT \/ R.status = "UserInterrupt" THEN NonDec(Ranks(R.t)) ELSE StrictInc(Ranks(R.t))
      /\ (R.status = "UserInterrupt" /\ ~C.hasT /\ Len(R.t) >= 2 => StrictInc(Ranks(Front(R.t))))
      /\ \A j \in 1..Len(R.t) : C.x0.r <= R.t[j].r /\ R.t[j].r <= C.m.xend_hi
C03_Status(C, A, R) ==
    IsSol(R) =>
      /\ (R.status = "Success" /\ ~C.hasT /\ C.x0.b # C.xend.b => Last(R.t).r >= C.m.xend_lo)       \* last sample is xend to rounding
      /\ (R.status = "Success" /\ C.x0.b # C.xend.b /\ C.n > 0 => A.maxEval >= C.m.xend_lo)             \* the interval was covered
      /\ (R.status = "UserInterrupt" <=> TermReached(C, R) # {})
      \* "Success exactly when the whole interval was covered": a run whose last sample is xend is not reported as a failure
      /\ (R.status \notin {"Success", "UserInterrupt"} /\ ~C.hasT /\ ~C.hasFs /\ Len(R.t) >= 1 /\ C.x0.b # C.xend.b
             => Last(R.t).r < C.m.xend_lo)
      /\ (C.errctl => R.finite)       \* an error-controlled method never accepts a non-finite state: Success or not, the samples are finite

(* ---------------------------------------------------------------- C04 *)
C04_Returns(R) == R.e = "ret"                                \* not abort{budget|panic}
\* never Success with non-finite states; and the samples accepted so far are accepted states of an error-controlled
\* method, hence finite, whatever the status
C04_Honest(C, R) == (R.e = "ret" /\ IsSol(R) /\ C.errctl) => R.finite

(* ---------------------------------------------------------------- C05 (recorded runs) *)
\* (C.tin: every requested time lies inside the span, as the property presupposes)
C05_Recorded(C, R) ==
    (IsSol(R) /\ C.hasT /\ C.tin) =>
      LET body == IF R.status = "UserInterrupt" /\ Len(R.t) >= 1 THEN Front(R.t) ELSE R.t
          te   == C.teval
      IN  /\ IsPrefixOf(Toks(body), Toks(te))                                     \* exactly the requested times, bit for bit, in order
          /\ (R.status = "Success" => Len(body) = Len(te))                        \* all of them on success
          /\ (R.status = "UserInterrupt" /\ Len(R.t) >= 1 =>                      \* every requested time not beyond the event
                Len(body) >= Cardinality({ j \in 1..Len(te) : te[j].r <= Last(R.t).r }))
          /\ (R.status \notin {"Success", "UserInterrupt"} /\ R.hasspan =>          \* ... not beyond the last covered time
                Len(body) >= Cardinality({ j \in 1..Len(te) : te[j].r <= R.span.hi.r }))
          /\ (C.dense => R.sol.at_t_ok)                                           \* value = interpolant at that time

(* ---------------------------------------------------------------- C06 *)
C06_Solution(C, R) ==
    IsSol(R) =>
      IF C.dense
      THEN /\ R.hasspan
           /\ (C.n > 0 /\ C.x0.b # C.xend.b => R.span.lo.b = C.x0.b)             \* covered span starts at x0
           /\ (Len(R.t) >= 1 /\ C.x0.b # C.xend.b => R.span.hi_tol >= Last(R.t).r) \* ... and includes the last reported time (1e-12 slack)
           /\ R.sol.inside_ok /\ R.sol.many_ok                                   \* sol succeeds between first and last covered time
           /\ R.sol.outside_oor                                                  \* out-of-range error clearly outside
           /\ R.sol.at_t_ok                                                      \* sol(t_i) reproduces y_i
      ELSE ~R.hasspan /\ R.sol.inside_ok                                         \* NotEnabled
\* per-step interpolant handed to SolOut callbacks (low-level runs): A.ipBad counts offending callbacks
C06_Callback(A) == A.ipBad = 0

(* ---------------------------------------------------------------- C08 / C09 / C10 (recorded runs) *)
C08_Recorded(C, R) ==
    IsSol(R) =>
      /\ Len(R.t_events) = Len(C.events) /\ Len(R.y_events_len) = Len(C.events)
      /\ \A i \in 1..Len(R.t_events) :
            /\ R.y_events_len[i] = Len(R.t_events[i])
            /\ NonDec(Ranks(R.t_events[i]))
            /\ \A j \in 1..Len(R.t_events[i]) :
                  /\ R.ev[i][j].g_small /\ R.ev[i][j].g_brk /\ R.ev[i][j].ye_dim /\ R.ev[i][j].ye_sol
                  /\ C.x0.r <= R.t_events[i][j].r /\ R.t_events[i][j].r <= C.m.xend_hi
                  \* bracketed by accepted steps: without t_eval the last reported time is the last accepted step end (or the stop)
                  /\ (~C.hasT /\ Len(R.t) >= 1 => R.t_events[i][j].r <= Last(R.t).r)

\* all accepted step ends are reported only without t_eval / first_step
OppD(l, r, dir) == CASE dir = "All" -> (l = -1 /\ r = 1) \/ (l = 1 /\ r = -1)
                     [] dir = "Pos" -> l = -1 /\ r = 1
                     [] dir = "Neg" -> l = 1 /\ r = -1
\* C08: "the sign change it marks has the configured direction": an event strictly inside a reported interval whose
\* end signs are both non-zero marks a change with the configured direction
C08_Direction(C, R) ==
    (IsSol(R) /\ ~C.hasT /\ ~C.hasFs /\ Len(C.events) > 0) =>
      \A i \in 1..Len(C.events) : \A k \in 1..Len(R.t) - 1 :
         LET l == R.gsign[i][k]  r == R.gsign[i][k + 1]
             open == Cardinality({ j \in 1..Len(R.t_events[i]) : R.t[k].r < R.t_events[i][j].r /\ R.t_events[i][j].r < R.t[k + 1].r })
         IN (l # 0 /\ r # 0 /\ open >= 1) => OppD(l, r, C.events[i].dir)
Opp(l, r, dir) == CASE dir = "All" -> (l = -1 /\ r = 1) \/ (l = 1 /\ r = -1)
                    [] dir = "Pos" -> l = -1 /\ r = 1
                    [] dir = "Neg" -> l = 1 /\ r = -1
Same(l, r) == (l = 1 /\ r = 1) \/ (l = -1 /\ r = -1)
C09_Recorded(C, R) ==
    (IsSol(R) /\ ~C.hasT /\ ~C.hasFs /\ Len(C.events) > 0) =>
      LET nb == IF R.status = "UserInterrupt" THEN Len(R.t) - 2 ELSE Len(R.t) - 1    \* fully processed steps
      IN \A i \in 1..Len(C.events) : \A k \in 1..nb :
            LET l == R.gsign[i][k]  r == R.gsign[i][k + 1]
                closed == Cardinality({ j \in 1..Len(R.t_events[i]) : R.t[k].r <= R.t_events[i][j].r /\ R.t_events[i][j].r <= R.t[k + 1].r })
                open   == Cardinality({ j \in 1..Len(R.t_events[i]) : R.t[k].r < R.t_events[i][j].r /\ R.t_events[i][j].r < R.t[k + 1].r })
            IN  /\ (Opp(l, r, C.events[i].dir) => closed >= 1 /\ open <= 1)
                /\ (Same(l, r) => open = 0)
                /\ (~Opp(l, r, C.events[i].dir) /\ l # 0 /\ r # 0 => open = 0)       \* wrong direction: nothing reported
                \* an exact zero at a reported step end: reported from one of the two adjacent steps
                /\ (k + 1 <= nb /\ r = 0 /\ Opp(l, R.gsign[i][k + 2], C.events[i].dir) =>
                       Cardinality({ j \in 1..Len(R.t_events[i]) : R.t[k].r <= R.t_events[i][j].r /\ R.t_events[i][j].r <= R.t[k + 2].r }) >= 1)
\* "when it has the same strict sign at both [ends of a step], none is [reported]": every reported event lies in some
\* accepted step (closed) whose end values do not have the same strict sign (the final event point of a stopped run is
\* the end of a partial step and is not judged here)
C09_NoSpurious(C, R) ==
    (IsSol(R) /\ ~C.hasT /\ ~C.hasFs /\ Len(C.events) > 0 /\ Len(R.t) >= 2) =>
      \A i \in 1..Len(C.events) : \A j \in 1..Len(R.t_events[i]) :
         LET te == R.t_events[i][j].r IN
         (R.status = "UserInterrupt" /\ te = Last(R.t).r) \/
         \E k \in 1..Len(R.t) - 1 : R.t[k].r <= te /\ te <= R.t[k + 1].r /\ ~Same(R.gsign[i][k], R.gsign[i][k + 1])
\* a terminal count that was reached stops the run with UserInterrupt
C10_Honoured(C, R) == (IsSol(R) /\ TermReached(C, R) # {}) => R.status = "UserInterrupt"
\* the run does not integrate past a sign change of a function that is terminal at its first occurrence (sign pattern of the
\* event function at the reported step ends, as in C09_Recorded; the partial step that ends at the event point is not judged)
C10_NoPass(C, R) ==
    (IsSol(R) /\ ~C.hasT /\ ~C.hasFs /\ Len(C.events) > 0) =>
      LET nb == IF R.status = "UserInterrupt" THEN Len(R.t) - 2 ELSE Len(R.t) - 1
      IN \A i \in 1..Len(C.events) : C.events[i].term = 1 =>
            \A k \in 1..nb : ~Opp(R.gsign[i][k], R.gsign[i][k + 1], C.events[i].dir)
C10_Recorded(C, R) ==
    (IsSol(R) /\ R.status = "UserInterrupt") =>
      /\ Len(R.t) >= 1
      /\ \E i \in TermReached(C, R) :
            /\ Len(R.t_events[i]) = C.events[i].term
            /\ Last(R.t).b = Last(R.t_events[i]).b                  \* final sample is the event point
            /\ Last(R.yd) = Last(R.evd[i])
      /\ \A i \in 1..Len(R.t_events) : \A j \in 1..Len(R.t_events[i]) : R.t_events[i][j].r <= Last(R.t).r

(* ---------------------------------------------------------------- C11 *)
C11_Options(C, R) ==
    /\ (IsSol(R) /\ C.hasMs => R.ms.ok100)                                      \* no reported interval longer than max_step (1% on the last)
    /\ (R.e = "ret" /\ R.fs.has /\ ~IsErr(R) => R.fs.ok)                        \* first trial evaluates at x0 + c2*first_step
    /\ (IsSol(R) /\ R.fs_iv.has => R.fs_iv.ok)                                   \* ... and the first reported interval is first_step
    /\ (~IsErr(R) /\ C.maxsteps >= 0 => R.nstep <= C.maxsteps + 1)
    /\ (~IsErr(R) /\ R.status = "NeedLargerNMax" => C.maxsteps >= 0 \/ C.api = "low")

(* ---------------------------------------------------------------- C02 (recorded Radau runs) *)
\* the three evaluations of every Newton iteration lie at the Radau IIA nodes of one attempted step (fact of the recorder)
C02_RadauNodes(R) == R.nodes.has => R.nodes.ok
\* an accepted Radau step comes out of a simplified-Newton iteration that converged (fact of the recorder from the hook lines)
C02_RadauConverged(R) == R.nodes.has => R.nodes.conv_ok

(* ---------------------------------------------------------------- C15 *)
\* index-1 differential-algebraic problems (singular mass): Radau solves them, the algebraic constraint holds at every
\* stored sample and the differential components agree with the reduced ordinary system (facts of the recorder)
C15_Dae(C, R) == (IsSol(R) /\ R.dae.has) => (R.dae.solved /\ R.dae.res_ok /\ R.dae.ref_ok)

\* nonsingular non-identity mass: the result agrees (1e3 (rtol + atol) relative) with y' = M^-1 f integrated directly
C15_MassRef(C, R) == (IsSol(R) /\ R.massref.has) => R.massref.ok

(* ---------------------------------------------------------------- C18 *)
C18_Counters(C, A, R) ==
    ~IsErr(R) =>
      /\ R.nfev = A.nOde
      /\ R.njev = A.nJac
      /\ R.nstep >= R.naccpt
      /\ (IsLow(R) /\ ~C.nocb => R.naccpt = A.nCb - 1)                       \* (nocb: the solver was called without a callback)
      /\ (C.x0.b = C.xend.b => R.nfev = 0 /\ R.njev = 0 /\ R.naccpt = 0 /\ R.nstep = 0 /\ R.nrejct = 0 /\ R.nlu = 0)
      /\ (Len(R.oded) = A.nOde \/ Len(R.oded) = 20000)                          \* the digest stream is the event stream
\* naccpt = number of reported intervals when no output filtering is requested
C18_Intervals(C, R) ==
    (IsSol(R) /\ ~C.hasT /\ ~C.hasFs /\ C.x0.b # C.xend.b /\ C.n > 0) => R.naccpt = Len(R.t) - 1

(* ---------------------------------------------------------------- C19 *)
\* protocol flags accumulated event by event (see Trace_Stepper)
C19_Protocol(C, A, R) ==
    (IsLow(R) /\ ~C.nocb) =>                                                    \* (nocb: the solver was called without a callback)
      /\ A.cbBad = 0                                                            \* initial call, contiguity, interpolant bounds
      /\ A.afterStop = 0                                                        \* nothing after Interrupt
      /\ A.modBad = 0                                                           \* derivative re-evaluated at the written state
      /\ A.derivBad = 0                                                         \* f(x_new, y_new) evaluated for every accepted step
      /\ (R.status = "UserInterrupt" <=> A.interrupted)
      /\ (R.status = "Success" => A.nCb >= 1 /\ A.lastX >= C.m.xend_lo /\ A.lastX <= C.m.xend_hi)

(* ---------------------------------------------------------------- relational clauses *)
Counters(R) == <<R.nfev, R.njev, R.nstep, R.naccpt, R.nrejct>>

Rel_Equal(Ra, Rb) ==
    /\ Ra.status = Rb.status /\ Ra.kind = Rb.kind
    /\ Ra.oded = Rb.oded
    /\ (IsSol(Ra) => Ra.yd = Rb.yd /\ Ra.evd = Rb.evd /\ Rb.copies_eq)
    /\ Counters(Ra) = Counters(Rb)
Rel_EqualY(Ra, Rb) ==
    /\ Ra.status = Rb.status
    /\ (IsSol(Ra) => Ra.yd = Rb.yd)
    /\ <<Ra.nstep, Ra.naccpt, Ra.nrejct>> = <<Rb.nstep, Rb.naccpt, Rb.nrejct>>
Rel_Observer(Ca, Ra, Cb, Rb) ==
    /\ Ra.status = Rb.status
    /\ Ra.oded = Rb.oded                                                        \* same accepted-step sequence and states
    /\ Counters(Ra) = Counters(Rb)
    /\ (~Cb.hasT => Ra.yd = Rb.yd)                                              \* every reported step state, incl. the final one
Rel_BudgetPrefix(Ra, Cb, Rb) ==
    /\ IsPrefixOf(Rb.yd, Ra.yd)
    /\ IsPrefixOf(Rb.oded, Ra.oded)
    /\ Rb.nstep <= Cb.maxsteps + 1
    /\ (Len(Rb.yd) < Len(Ra.yd) => Rb.status = "NeedLargerNMax")
    /\ (Rb.status = "NeedLargerNMax" => Len(Rb.oded) <= Len(Ra.oded))
    /\ (Rb.status # "NeedLargerNMax" => Rb.status = Ra.status /\ Rb.yd = Ra.yd)
    /\ (Rb.yd = Ra.yd /\ Ra.status = "Success" => Rb.status = "Success")     \* a budget that was enough did not run out
Rel_TerminalPrefix(Ra, Cb, Rb) ==
    IF Rb.status = "UserInterrupt"
    THEN /\ IsPrefixOf(Front(Rb.yd), Ra.yd)
         /\ \A i \in 1..Len(Rb.evd) : IsPrefixOf(Rb.evd[i], Ra.evd[i])
         /\ IsPrefixOf(Rb.oded, Ra.oded)
    ELSE Rb.yd = Ra.yd /\ Rb.evd = Ra.evd /\ Rb.status = Ra.status
Rel_PrefixCb(Ra, Cb, Rb) ==
    /\ IsPrefixOf(Rb.cbd, Ra.cbd)
    /\ IsPrefixOf(Rb.oded, Ra.oded)
    /\ Rb.status = "UserInterrupt"
    /\ Len(Rb.cbd) = Cb.script[1].k + 1
Rel_EqualCb(Ra, Rb) ==
    /\ Ra.cbd = Rb.cbd
    /\ Ra.status = Rb.status
Rel_DenseIndep(Ra, Rb) == Ra.yd = Rb.yd /\ Ra.status = Rb.status
=============================================================================

SPECIFICATION TraceSpec
CONSTANTS
  Stages = 3
  AccEvals = 0
  DenseEvals = 0
  CountRule = "scipy"
  HasHinit = TRUE
  HasSmall = TRUE
  StiffEvery = 0
  StiffLimit = 15
  NonStiffReset = 6
  Metric = FALSE
  LowBudget = 10000
CONSTRAINT Track
INVARIANT TraceInv
POSTCONDITION Accepted
CHECK_DEADLOCK FALSE

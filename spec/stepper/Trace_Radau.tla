---------------------------- MODULE Trace_Radau ----------------------------
(***************************************************************************)
(* Trace validation of recorded low-level RADAU runs against Radau.tla.    *)
(* Input: the lines of a recorded family (harness/src/bin/record.rs)       *)
(* restricted to whole runs of the low-level Radau solver (the driver      *)
(* selects runs, it does not alter lines).  One observable event = one     *)
(* action of Radau.tla:                                                    *)
(*   call -> start of a run          ode (plain) -> F0Eval / ModEval0 /    *)
(*   jac  -> JacEval                    a Newton triple (NewtonIter) /     *)
(*   ode (inside jac) -> stutter        Refine / AcceptEval / ModEval      *)
(*   cb   -> InitialCallback / Callback                                    *)
(*   ret  -> the counters and the status of the model equal the reported   *)
(*   hk   -> a decision point reported through the hook ivp::verif_trace   *)
(*           (cfg ivp_verif): singular factorisation, Newton outcome with  *)
(*           the contraction class, error estimates, step-size path        *)
(* The start of an attempt (Begin: factorisation, budget and step-size     *)
(* guards) leaves no event and is a silent step.  With the decisions       *)
(* logged the search is linear; the next step size is bound by look-ahead  *)
(* to the end of the next Newton triple (ranks keep order, not distance).  *)
(* Acceptance: every line is consumed (register 1 = furthest line).        *)
(***************************************************************************)
EXTENDS Radau, Json, IOUtils, TLCExt

Rec == ndJsonDeserialize(IOEnv.TRACE)
N == Len(Rec)

VARIABLES l, cid, api
tvars == <<rvars, l, cid, api>>

Plain(i) == i <= N /\ Rec[i].e = "ode" /\ ~Rec[i].j
Hk(i, tag) == i <= N /\ Rec[i].e = "hk" /\ Rec[i].t = tag
Triple(i) == Plain(i) /\ Plain(i + 1) /\ Plain(i + 2) /\ Rec[i].r < Rec[i + 1].r /\ Rec[i + 1].r < Rec[i + 2].r

\* end of the next attempt that starts at or after line i (0: the run ends without another attempt)
RECURSIVE NextXph(_)
NextXph(i) == IF i + 2 > N THEN 0
              ELSE IF Rec[i].e \in {"jac", "hk"} \/ (Rec[i].e = "ode" /\ Rec[i].j) THEN NextXph(i + 1)
              ELSE IF Triple(i) THEN Rec[i + 2].r ELSE 0
\* end of the first attempt of the run whose call is at line i - 1
RECURSIVE FirstXph(_)
FirstXph(i) == IF i > N \/ Rec[i].e \in {"ret", "abort", "call"} THEN 0
               ELSE IF Triple(i) THEN Rec[i + 2].r ELSE FirstXph(i + 1)

StepTo(i) == LET e == NextXph(i) IN IF e = 0 THEN 0 ELSE e - x

TraceInit ==
    /\ l = 1 /\ cid = 0 /\ api = ""
    /\ pc = "idle"
    /\ P = [x0 |-> 0, xe |-> 0, slo |-> 0, shi |-> 0, nmax |-> 0, hmax |-> 0]
    /\ x = 0 /\ xold = 0 /\ h = 0 /\ xph = 0 /\ first = TRUE /\ reject = FALSE /\ last = FALSE
    /\ callJac = TRUE /\ callDecomp = TRUE /\ sing = 0 /\ theta = "init" /\ it = 0 /\ status = "None"
    /\ nJac = 0 /\ nLu = 0 /\ nOde = 0 /\ total = 0 /\ acc = 0 /\ rej = 0 /\ ncb = 0 /\ jacAt = -1 /\ evalMax = 0

Line(e) == l <= N /\ Rec[l].e = e
Adv(k) == l' = l + k /\ UNCHANGED <<cid, api>>

TCall ==
    /\ pc = "idle" /\ Line("call")
    /\ LET c == Rec[l]
           fx == FirstXph(l + 1)
           h0 == IF fx = 0 THEN 0 ELSE fx - c.x0.r
       IN /\ cid' = c.id /\ api' = (IF c.nocb THEN "solve_ivp" ELSE c.api)
          /\ P' = [x0 |-> c.x0.r, xe |-> c.xend.r, slo |-> c.m.xend_lo, shi |-> c.m.xend_hi,
                   nmax |-> IF c.maxsteps < 0 THEN 100000 ELSE c.maxsteps, hmax |-> 0]
          /\ x' = c.x0.r /\ xold' = c.x0.r /\ xph' = c.x0.r
          /\ h' = h0 /\ last' \in {fx # 0 /\ c.m.xend_lo <= fx, FALSE}
          /\ first' = TRUE /\ reject' = FALSE /\ callJac' = TRUE /\ callDecomp' = TRUE
          /\ sing' = 0 /\ theta' = "init" /\ it' = 0 /\ pc' = "f0" /\ status' = "None"
          /\ nJac' = 0 /\ nLu' = 0 /\ nOde' = 0 /\ total' = 0 /\ acc' = 0 /\ rej' = 0 /\ ncb' = 0
          /\ jacAt' = -1 /\ evalMax' = c.x0.r
    /\ l' = l + 1

Flag(r) == IF r \in {"Interrupt", "Modified"} THEN r ELSE "Continue"
ThetaOf(i) == IF Rec[i].small THEN "small" ELSE "mid"
\* the step-size path reported after a callback (or after the re-evaluation that follows ModifiedSolution)
PostTags == {"post_last", "post_arrive", "post_land", "post_fast", "post_normal"}
ChoiceOf(tag) == CASE tag = "post_arrive" -> "arrive" [] tag = "post_land" -> "land" [] tag = "post_fast" -> "fast" [] OTHER -> "normal"
PostOk(i) == /\ i <= N /\ Rec[i].e = "hk" /\ Rec[i].t \in PostTags
             /\ (Rec[i].t = "post_last") = last                       \* the `last` exit is taken exactly when the flag is set

TF0 == Plain(l) /\ Rec[l].r = x /\ F0Eval /\ Adv(1)
TCb0 == Line("cb") /\ Rec[l].k = 0 /\ InitialCallback(Rec[l].ret) /\ Adv(1)
\* solve_ivp runs: the callbacks are those of the crate's own output handler and leave no line of their own; the handler
\* evaluates the event functions (ev lines), never modifies the state, and interrupts on a terminal event (the run
\* then returns at once)
TEv == Line("ev") /\ pc \in {"cb0", "cb"} /\ api = "solve_ivp" /\ UNCHANGED rvars /\ Adv(1)
TCb0S == /\ api = "solve_ivp" /\ l <= N /\ Rec[l].e # "ev"
         /\ InitialCallback(IF Rec[l].e = "ret" THEN "Interrupt" ELSE "Continue")
         /\ UNCHANGED <<l, cid, api>>
TCbS == /\ api = "solve_ivp" /\ l <= N /\ Rec[l].e # "ev"
        /\ IF Rec[l].e = "ret"
           THEN Callback("Interrupt", "normal", 0, x) /\ UNCHANGED <<l, cid, api>>
           ELSE PostOk(l) /\ Callback("Continue", ChoiceOf(Rec[l].t), StepTo(l + 1), x) /\ Adv(1)
TMod0 == Plain(l) /\ Rec[l].r = x /\ ModEval0 /\ Adv(1)
TJac == Line("jac") /\ Rec[l].r = x /\ JacEval /\ Adv(1)
\* evaluations made by the finite-difference Jacobian shim of the recorder: inside JacEval
TFd == Line("ode") /\ Rec[l].j /\ UNCHANGED rvars /\ Adv(1)
\* a singular factorisation is reported; the guards that end a run, and the plain start of an attempt, are silent
TSing == Hk(l, "lu_sing") /\ Begin(IF Rec[l].n = 1 THEN "sing1" ELSE "sing2", StepTo(l + 1)) /\ Adv(1)
TBegin == ~Hk(l, "lu_sing") /\ (\E out \in {"ok", "under"} : Begin(out, 0)) /\ UNCHANGED <<l, cid, api>>
\* one Newton iteration: three evaluations and the reported outcome
TNewton ==
    /\ Triple(l) /\ Rec[l].r > x /\ Rec[l + 2].r = xph
    /\ l + 3 <= N /\ Rec[l + 3].e = "hk"
    /\ LET t == Rec[l + 3].t
           out == CASE t = "nw_cont" -> "cont" [] t = "nw_conv" -> "conv" [] t = "nw_div" -> "div" [] t = "nw_slow" -> "slow" [] OTHER -> "none"
       IN /\ out # "none"
          /\ NewtonIter(out, ThetaOf(l + 3), StepTo(l + 4))
    /\ Adv(4)
\* the loop-top test that gives up after the last iteration (folded into that iteration's outcome by the model)
TExh == Hk(l, "nw_exh") /\ pc \in {"top", "done"} /\ it = MaxNewton /\ UNCHANGED rvars /\ Adv(1)
\* first error estimate; without a refinement the decision follows at once
TErr ==
    /\ Hk(l, "err")
    /\ IF Rec[l].ge1 /\ (first \/ reject)
       THEN ErrFirst("refine", 0) /\ Adv(1)
       ELSE /\ Hk(l + 1, "err_final")
            /\ ErrFirst(IF Rec[l + 1].le1 THEN "acc" ELSE "rej", StepTo(l + 2))
            /\ Adv(2)
TRefine == /\ Plain(l) /\ Rec[l].r = x /\ Hk(l + 1, "err_final")
           /\ Refine(IF Rec[l + 1].le1 THEN "acc" ELSE "rej", StepTo(l + 2))
           /\ Adv(2)
TAccept == Plain(l) /\ Rec[l].r = xph /\ AcceptEval /\ Adv(1)
TCb ==
    \* (the line carries x as the callback left it: after ModifiedSolution it may lie inside the step)
    /\ Line("cb") /\ Rec[l].k = ncb /\ Rec[l].xold.r = xold
    /\ IF Flag(Rec[l].ret) \in {"Interrupt", "Modified"}
       THEN Callback(Flag(Rec[l].ret), "normal", 0, IF Flag(Rec[l].ret) = "Modified" THEN Rec[l].x.r ELSE x) /\ Adv(1)
       ELSE Rec[l].x.r = x /\ PostOk(l + 1) /\ Callback("Continue", ChoiceOf(Rec[l + 1].t), StepTo(l + 2), x) /\ Adv(2)
TMod == Plain(l) /\ Rec[l].r = x /\ PostOk(l + 1) /\ ModEval(ChoiceOf(Rec[l + 1].t), StepTo(l + 2)) /\ Adv(2)
TRet ==
    /\ pc = "done" /\ Line("ret")
    /\ LET R == Rec[l] IN
          /\ R.status = status
          /\ R.nfev = nOde /\ R.njev = nJac /\ R.nlu = nLu
          /\ R.nstep = total /\ R.naccpt = acc /\ R.nrejct = rej
    \* back to the canonical idle state
    /\ pc' = "idle"
    /\ P' = [x0 |-> 0, xe |-> 0, slo |-> 0, shi |-> 0, nmax |-> 0, hmax |-> 0]
    /\ x' = 0 /\ xold' = 0 /\ h' = 0 /\ xph' = 0 /\ first' = TRUE /\ reject' = FALSE /\ last' = FALSE
    /\ callJac' = TRUE /\ callDecomp' = TRUE /\ sing' = 0 /\ theta' = "init" /\ it' = 0 /\ status' = "None"
    /\ nJac' = 0 /\ nLu' = 0 /\ nOde' = 0 /\ total' = 0 /\ acc' = 0 /\ rej' = 0 /\ ncb' = 0 /\ jacAt' = -1 /\ evalMax' = 0
    /\ l' = l + 1 /\ cid' = 0 /\ api' = ""

TraceNext == TCall \/ TF0 \/ TCb0 \/ TEv \/ TCb0S \/ TCbS \/ TMod0 \/ TJac \/ TFd \/ TSing \/ TBegin \/ TNewton \/ TExh \/ TErr \/ TRefine \/ TAccept \/ TCb \/ TMod \/ TRet
TraceSpec == TraceInit /\ [][TraceNext]_tvars

\* furthest line reached by any behaviour (register 1), and coverage of the model's branches (register 2..)
Track == TLCSet(1, IF TLCGet(1) < l THEN l ELSE TLCGet(1))
ASSUME TLCSet(1, 0)
Accepted ==
    IF TLCGet(1) = N + 1 THEN PrintT(<<"RADAU-TRACE", "accepted", N>>)
    ELSE PrintT(<<"RADAU-TRACE", "rejected", TLCGet(1)>>)

\* the model's invariants hold along every explanation of the recorded runs
TraceInv == pc # "idle" => (R_Span /\ R_Budget /\ R_JacFresh /\ R_DecompAfterFailure)
=============================================================================

----------------------------- MODULE Trace_Bdf -----------------------------
(***************************************************************************)
(* Trace validation of recorded BDF runs (low-level and through solve_ivp) *)
(* against Bdf.tla.  Lines: call, ode (plain / inside the finite-          *)
(* difference Jacobian shim), jac, ev, cb, hk (decision points reported    *)
(* through ivp::verif_trace: bdf_hmax, bdf_hmin, bdf_beyond, bdf_arrive,   *)
(* bdf_lu, bdf_lu_sing, bdf_conv, bdf_noconv, bdf_acc, bdf_rej,            *)
(* bdf_order), ret.  Keeping a current factorisation, the success test and *)
(* a step without order selection leave no line and are silent steps.      *)
(* The step attempted next is bound by look-ahead to the next Newton       *)
(* evaluation (ranks keep order, not distance).                            *)
(***************************************************************************)
EXTENDS Bdf, Json, IOUtils, TLCExt

Rec == ndJsonDeserialize(IOEnv.TRACE)
N == Len(Rec)

VARIABLES l, cid, api
tvars == <<bvars, l, cid, api>>

Plain(i) == i <= N /\ Rec[i].e = "ode" /\ ~Rec[i].j
Hk(i, tag) == i <= N /\ Rec[i].e = "hk" /\ Rec[i].t = tag
IsRet(i) == i <= N /\ Rec[i].e = "ret"

\* rank of the next Newton evaluation at or after line i (0: none before the run ends / the next callback)
RECURSIVE NextEval(_)
NextEval(i) == IF i > N THEN 0
               ELSE IF Rec[i].e \in {"jac", "hk"} \/ (Rec[i].e = "ode" /\ Rec[i].j) THEN NextEval(i + 1)
               ELSE IF Plain(i) THEN Rec[i].r ELSE 0
StepTo(i) == LET e == NextEval(i) IN IF e = 0 THEN 0 ELSE e - x
Idle == /\ pc = "idle"
CanonIdle ==
    /\ pc' = "idle"
    /\ P' = [x0 |-> 0, xe |-> 0, slo |-> 0, shi |-> 0, nmax |-> 0, hasFs |-> FALSE, hasMin |-> FALSE, hmax |-> 0]
    /\ x' = 0 /\ xnew' = 0 /\ h' = 0 /\ order' = 1 /\ nEq' = 0 /\ luCur' = FALSE /\ it' = 0 /\ status' = "None"
    /\ nJac' = 0 /\ nLu' = 0 /\ nOde' = 0 /\ total' = 0 /\ acc' = 0 /\ rej' = 0 /\ ncb' = 0
    /\ jacAt' = -1 /\ evalMax' = 0 /\ ordHist' = 0

TraceInit ==
    /\ l = 1 /\ cid = 0 /\ api = ""
    /\ pc = "idle"
    /\ P = [x0 |-> 0, xe |-> 0, slo |-> 0, shi |-> 0, nmax |-> 0, hasFs |-> FALSE, hasMin |-> FALSE, hmax |-> 0]
    /\ x = 0 /\ xnew = 0 /\ h = 0 /\ order = 1 /\ nEq = 0 /\ luCur = FALSE /\ it = 0 /\ status = "None"
    /\ nJac = 0 /\ nLu = 0 /\ nOde = 0 /\ total = 0 /\ acc = 0 /\ rej = 0 /\ ncb = 0
    /\ jacAt = -1 /\ evalMax = 0 /\ ordHist = 0

Line(e) == l <= N /\ Rec[l].e = e
Adv(k) == l' = l + k /\ UNCHANGED <<cid, api>>
Stay == UNCHANGED <<l, cid, api>>

TCall ==
    /\ pc = "idle" /\ Line("call")
    /\ LET c == Rec[l] IN
          /\ cid' = c.id /\ api' = (IF c.nocb THEN "solve_ivp" ELSE c.api)
          /\ P' = [x0 |-> c.x0.r, xe |-> c.xend.r, slo |-> c.m.xend_lo, shi |-> c.m.xend_hi,
                   nmax |-> IF c.maxsteps < 0 THEN (IF c.api = "low" THEN 100000 ELSE 0) ELSE c.maxsteps,
                   hasFs |-> c.hasFs, hasMin |-> c.hasMin, hmax |-> 0]
          /\ x' = c.x0.r /\ xnew' = c.x0.r /\ h' = 0
          /\ order' = 1 /\ nEq' = 0 /\ luCur' = FALSE /\ it' = 0 /\ pc' = "f0" /\ status' = "None"
          /\ nJac' = 0 /\ nLu' = 0 /\ nOde' = 0 /\ total' = 0 /\ acc' = 0 /\ rej' = 0 /\ ncb' = 0
          /\ jacAt' = -1 /\ evalMax' = c.x0.r /\ ordHist' = 0
    /\ l' = l + 1

\* a failure followed at once by the end of the run: the lower step bound was hit (min_step given), or the next pass
\* of the loop ended it (budget, step-size guard)
MinExits(i) == {FALSE} \cup (IF IsRet(i) /\ P.hasMin THEN {TRUE} ELSE {})
Flag(r) == IF r \in {"Interrupt", "Modified"} THEN r ELSE "Continue"

TF0 == Plain(l) /\ Rec[l].r = x /\ F0Eval /\ Adv(1)
TJac0 == Line("jac") /\ Rec[l].r = x /\ Jac0 /\ Adv(1)
TFd == Line("ode") /\ Rec[l].j /\ UNCHANGED bvars /\ Adv(1)
THinit == Plain(l) /\ HinitProbe(Rec[l].r) /\ Adv(1)
TCb0 == Line("cb") /\ api = "low" /\ Rec[l].k = 0 /\ InitialCallback(Flag(Rec[l].ret)) /\ Adv(1)
TEv == Line("ev") /\ pc \in {"cb0", "cb"} /\ api = "solve_ivp" /\ UNCHANGED bvars /\ Adv(1)
TCb0S == /\ api = "solve_ivp" /\ l <= N /\ Rec[l].e # "ev"
         /\ InitialCallback(IF IsRet(l) THEN "Interrupt" ELSE "Continue") /\ Stay
TModA == Plain(l) /\ Rec[l].r = x /\ ModEvalA /\ Adv(1)
TModB == Line("jac") /\ Rec[l].r = x /\ ModEvalB /\ Adv(1)

\* loop top: the clamps and the landing test that fired are reported in this order
TAttempt ==
    /\ pc = "top"
    /\ LET cm == Hk(l, "bdf_hmax")            l1 == IF cm THEN l + 1 ELSE l
           cn == Hk(l1, "bdf_hmin")           l2 == IF cn THEN l1 + 1 ELSE l1
           by == Hk(l2, "bdf_beyond")         l3 == IF by THEN l2 + 1 ELSE l2
           ar == by /\ Hk(l3, "bdf_arrive")   l4 == IF ar THEN l3 + 1 ELSE l3
       IN /\ \E under \in BOOLEAN :
                /\ (under => IsRet(l4))
                /\ Attempt(cm, cn, by, ar, under, StepTo(l4))
          /\ l' = l4 /\ UNCHANGED <<cid, api>>

TFactor ==
    IF Hk(l, "bdf_lu")
    THEN IF Hk(l + 1, "bdf_lu_sing")
         THEN (\E me \in MinExits(l + 2) : Factor("sing", StepTo(l + 2), me)) /\ Adv(2)
         ELSE Factor("ok", 0, FALSE) /\ Adv(1)
    ELSE Factor("keep", 0, FALSE) /\ Stay
TNewtonEval == Plain(l) /\ Rec[l].r = xnew /\ NewtonEval /\ Adv(1)
TNewtonEnd ==
    \/ Hk(l, "bdf_conv") /\ NewtonEnd(TRUE, Rec[l].n, 0, FALSE) /\ Adv(1)
    \/ /\ Hk(l, "bdf_noconv")
       /\ IF IsRet(l + 1)
          THEN NewtonEnd(FALSE, Rec[l].n, 0, TRUE) /\ Adv(1)
          ELSE /\ l + 1 <= N /\ Rec[l + 1].e = "jac" /\ Rec[l + 1].r = xnew      \* the Jacobian at the predicted point
               /\ NewtonEnd(FALSE, Rec[l].n, StepTo(l + 2), FALSE) /\ Adv(2)
TErr ==
    \/ Hk(l, "bdf_acc") /\ Rec[l].n = order /\ ErrTest(TRUE, 0, FALSE) /\ Adv(1)
    \/ Hk(l, "bdf_rej") /\ Rec[l].n = order /\ (\E me \in MinExits(l + 1) : ErrTest(FALSE, StepTo(l + 1), me)) /\ Adv(1)
TCb == /\ Line("cb") /\ api = "low" /\ Rec[l].k = ncb
       /\ (Flag(Rec[l].ret) # "Modified" => Rec[l].x.r = x)      \* (after ModifiedSolution the line carries x as the callback left it)
       /\ (Rec[l].hasip => Rec[l].ip.ord = order)               \* the order marker of the dense coefficients
       /\ Callback(Flag(Rec[l].ret), IF Flag(Rec[l].ret) = "Modified" THEN Rec[l].x.r ELSE x) /\ Adv(1)
TCbS == /\ api = "solve_ivp" /\ l <= N /\ Rec[l].e # "ev"
        /\ \/ IsRet(l) /\ Callback("Interrupt", x) /\ Stay
           \/ Callback("Continue", x) /\ Stay
TPost ==
    IF Hk(l, "bdf_order") THEN Post(Rec[l].n, StepTo(l + 1)) /\ Adv(1)
    ELSE Post(0, 0) /\ Stay
TJacOrd == Line("jac") /\ Rec[l].r = x /\ JacOrd /\ Adv(1)
TRet ==
    /\ pc = "done" /\ Line("ret")
    /\ LET R == Rec[l] IN
          /\ R.status = status
          /\ R.nfev = nOde /\ R.njev = nJac /\ R.nlu = nLu
          /\ R.nstep = total /\ R.naccpt = acc /\ R.nrejct = rej
    /\ CanonIdle
    /\ l' = l + 1 /\ cid' = 0 /\ api' = ""

TraceNext == TCall \/ TF0 \/ TJac0 \/ TFd \/ THinit \/ TCb0 \/ TEv \/ TCb0S \/ TModA \/ TModB \/ TAttempt \/ TFactor
             \/ TNewtonEval \/ TNewtonEnd \/ TErr \/ TCb \/ TCbS \/ TPost \/ TJacOrd \/ TRet
TraceSpec == TraceInit /\ [][TraceNext]_tvars

Track == TLCSet(1, IF TLCGet(1) < l THEN l ELSE TLCGet(1))
ASSUME TLCSet(1, 0)
Accepted ==
    IF TLCGet(1) = N + 1 THEN PrintT(<<"BDF-TRACE", "accepted", N>>)
    ELSE PrintT(<<"BDF-TRACE", "rejected", TLCGet(1)>>)

TraceInv == pc # "idle" => (B_Span /\ B_Budget /\ B_Order /\ B_LuFresh /\ B_OrderNeedsRun)
=============================================================================

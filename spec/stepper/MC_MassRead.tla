----------------------------- MODULE MC_MassRead -----------------------------
(***************************************************************************)
(* "The matrix the solver reads is the matrix the user means" at the mass  *)
(* matrix use site of Radau (src/methods/radau.rs: `Matrix::from_storage`, *)
(* `f.mass(&mut mass)`, then `mass[(r, c)]` in E1/E2 and the products),    *)
(* over the data-layout model of spec/matrix/Matrix.tla.                   *)
(* User intent: no mass matrix (trait default), identity, or diag(d).      *)
(* Variant "default_fills" is IVP::mass as repaired (writes the identity   *)
(* into writable storages); "default_noop" is the body before the repair   *)
(* (builds an identity and drops it): TLC refutes the contract for         *)
(* Full/Banded storage.                                                    *)
(***************************************************************************)
EXTENDS Matrix

CONSTANTS MaxN, DefaultVariant

VARIABLES n, st, ml, mu, intent, m, pc
vars == <<n, st, ml, mu, intent, m, pc>>

Intents == {"none", "identity", "diag"}
DiagVal(j) == j + 2                                  \* distinguishable diagonal entries

Init == /\ n \in 1..MaxN
        /\ st \in {"I", "F", "B"}
        /\ ml \in 0..(MaxN - 1) /\ mu \in 0..(MaxN - 1)
        /\ (st # "B" => ml = 0 /\ mu = 0)
        /\ intent \in Intents
        /\ (intent = "diag" => st # "I")              \* a non-trivial mass needs a writable storage
        /\ m = NoMat /\ pc = "alloc"

Alloc == /\ pc = "alloc"
         /\ m' = FromStorage(n, st, ml, mu)
         /\ pc' = "mass" /\ UNCHANGED <<n, st, ml, mu, intent>>

RECURSIVE SetDiag(_, _, _)
SetDiag(mat, j, f) == IF j >= mat.n THEN mat ELSE SetDiag(Write(mat, j, j, f[j]).mat, j + 1, f)

\* f.mass(&mut mass)
CallMass ==
    /\ pc = "mass"
    /\ m' = CASE intent = "none" ->
                    IF DefaultVariant = "default_noop" \/ m.kind = "I" THEN m
                    ELSE SetDiag(Fill(m, 0), 0, [j \in 0..(n - 1) |-> 1])
              [] intent = "identity" -> IF m.kind = "I" THEN m ELSE SetDiag(m, 0, [j \in 0..(n - 1) |-> 1])
              [] intent = "diag" -> SetDiag(m, 0, [j \in 0..(n - 1) |-> DiagVal(j)])
    /\ pc' = "read" /\ UNCHANGED <<n, st, ml, mu, intent>>

Next == Alloc \/ CallMass \/ (pc = "read" /\ UNCHANGED vars)
Spec == Init /\ [][Next]_vars

Meant(r, c) == IF r # c THEN 0 ELSE IF intent = "diag" THEN DiagVal(r) ELSE 1
ReadsWhatIsMeant == pc = "read" => \A r \in 0..(n - 1), c \in 0..(n - 1) : Read(m, r, c).val = Meant(r, c) /\ ~Read(m, r, c).panic
=============================================================================

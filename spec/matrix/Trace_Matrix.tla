---------------------------- MODULE Trace_Matrix ----------------------------
(***************************************************************************)
(* Trace specification for C17.  The trace (NDJSON, one line per scenario  *)
(* step, written by harness/src/bin/replay_matrix.rs from the REAL         *)
(* ivp::matrix::Matrix) is read with ndJsonDeserialize.  For each line     *)
(*   * the corresponding Level-B action is applied to the model state      *)
(*     (A, B) -- a mismatch with what the code reported is DRIFT;          *)
(*   * the Level-A clause of the step is evaluated ON THE VALUES THE CODE  *)
(*     RETURNED (oA, oB = dense meanings observed before the step, and the *)
(*     entries read back after it) -- a failure is a VIOL line; the run    *)
(*     continues so that one TLC run reports all of them.                  *)
(* A line is matched only if it is the step the scenario's control flow    *)
(* expects next; acceptance is by POSTCONDITION on the diameter.           *)
(***************************************************************************)
EXTENDS MatrixScenario, TLC, TLCExt, Json, IOUtils

\* The trace file is parsed once (in Init, into TLC register 1): a plain definition would be re-evaluated,
\* i.e. the file re-parsed, at every use.
Rec == TLCGet(1)
NLines == Len(Rec)

VARIABLES l,        \* next line to match
          pc,       \* step expected next
          sc,       \* current scenario
          A, B, C,  \* Level-B model state (operands)
          R,        \* Level-B result of the first operation
          oA, oB, oC,   \* dense meanings as observed from the code
          oR,       \* dense meaning of the first result as observed
          stR       \* storage (kind, ml, mu) the code reported for the first result

vars == <<l, pc, sc, A, B, C, R, oA, oB, oC, oR, stR>>

NoSc == [n |-> 0, ctor |-> "zeros", ml |-> 0, mu |-> 0, pat |-> "zero", op |-> "read", i |-> 0, j |-> 0, s |-> 0,
         bkind |-> "F", bml |-> 0, bmu |-> 0, bpat |-> "zero",
         op2 |-> "none", i2 |-> 0, j2 |-> 0, s2 |-> 0, ckind |-> "F", cml |-> 0, cmu |-> 0, cpat |-> "zero", pf |-> 0]
NoSt == [kind |-> "F", ml |-> 0, mu |-> 0]

Init == TLCSet(1, ndJsonDeserialize(IOEnv.TRACE)) /\ l = 1 /\ pc = "ctorA" /\ sc = NoSc /\ A = NoMat /\ B = NoMat /\ C = NoMat /\ R = NoMat
        /\ oA = <<>> /\ oB = <<>> /\ oC = <<>> /\ oR = <<>> /\ stR = NoSt

Viol(clause, r, detail) == PrintT(<<"VIOL", "C17", clause, r.sid, detail>>)
Drift(r, detail) == PrintT(<<"DRIFT", "C17", r.act, r.sid, detail>>)

\* Level-B comparison: storage kind, band, data length and raw data, entries, panic flag
SameAsModel(r, mPanic, m) ==
  IF mPanic THEN r.panic
  ELSE /\ ~r.panic
       /\ r.kind = m.kind /\ r.ml = m.ml /\ r.mu = m.mu
       /\ r.len = Len(m.data) /\ r.data = m.data
       /\ r.entries = ReadAll(m)

CheckDrift(r, mPanic, m, clauseOk) ==
  IF clauseOk /\ ~SameAsModel(r, mPanic, m)
  THEN Drift(r, [model |-> [panic |-> mPanic, kind |-> m.kind, ml |-> m.ml, mu |-> m.mu, data |-> m.data],
                 code |-> [panic |-> r.panic, kind |-> r.kind, ml |-> r.ml, mu |-> r.mu, len |-> r.len, data |-> r.data]])
  ELSE TRUE

\* the observation carried forward: what the code returned if it is a well-formed n x n array, else the model's view
Obs(r, n, m) == IF IsDense(r.entries, n) THEN r.entries ELSE ReadAll(m)

WellFormedSc(s) ==
  /\ s.n \in 1..8 /\ s.ctor \in Ctors /\ s.pat \in Pats /\ s.bpat \in Pats /\ s.op \in Ops
  /\ s.bkind \in {"I", "F", "B"} /\ s.ckind \in {"I", "F", "B"} /\ s.op2 \in Ops2
  /\ (HasOp2(s) => s.op \in BinOps \cup ScalarOps)

Step ==
  /\ l <= NLines
  /\ LET r == Rec[l] IN
     /\ r.act = pc
     /\ \/ /\ pc = "ctorA"
           /\ WellFormedSc(r.sc)
           /\ LET s == r.sc
                  m == StepCtorA(s)
                  ok == ClauseCtorA(s, r.panic, r.entries)
              IN /\ (IF ok THEN TRUE ELSE Viol("constructor", r, [ctor |-> s.ctor, n |-> s.n, ml |-> s.ml, mu |-> s.mu, panic |-> r.panic,
                                                   got |-> r.entries, want |-> ExpectA0(s)]))
                 /\ CheckDrift(r, m.panic, m.mat, ok)
                 /\ sc' = s /\ A' = m.mat /\ oA' = Obs(r, s.n, m.mat)
                 /\ pc' = (IF HasPf(s) THEN "prefillA" ELSE "fillA") /\ UNCHANGED <<B, C, R, oB, oC, oR, stR>>
        \* Matrix::fill(pf) on the whole buffer: clause C17_Fill (the writable entries read pf, nothing else changes).
        \* What the code shows afterwards is the "before" of the write clause of the next step.
        \/ /\ pc = "prefillA"
           /\ LET m == StepPrefillA(sc, A)
                  ok == ClausePrefillA(sc, oA, r.panic, r.entries)
              IN /\ (IF ok THEN TRUE ELSE Viol("fill", r, [step |-> "prefillA", kind |-> StA(sc).kind, ctor |-> sc.ctor, ml |-> sc.ml, mu |-> sc.mu,
                                                     v |-> sc.pf, panic |-> r.panic, before |-> oA, got |-> r.entries]))
                 /\ CheckDrift(r, m.panic, m.mat, ok)
                 /\ A' = m.mat /\ oA' = Obs(r, sc.n, m.mat)
                 /\ pc' = "fillA" /\ UNCHANGED <<sc, B, C, R, oB, oC, oR, stR>>
        \/ /\ pc = "prefillB"
           /\ LET m == StepPrefillB(sc, B)
                  ok == ClausePrefillB(sc, oB, r.panic, r.entries)
              IN /\ (IF ok THEN TRUE ELSE Viol("fill", r, [step |-> "prefillB", kind |-> sc.bkind, ctor |-> BCtor(sc.bkind), ml |-> sc.bml, mu |-> sc.bmu,
                                                     v |-> sc.pf, panic |-> r.panic, before |-> oB, got |-> r.entries]))
                 /\ CheckDrift(r, m.panic, m.mat, ok)
                 /\ B' = m.mat /\ oB' = Obs(r, sc.n, m.mat)
                 /\ pc' = "fillB" /\ UNCHANGED <<sc, A, C, R, oA, oC, oR, stR>>
        \/ /\ pc = "fillA"
           /\ LET m == StepFillA(sc, A)
                  ok == ClauseFillA(sc, oA, r.panic, r.entries)
              IN /\ (IF ok THEN TRUE ELSE Viol("write_in_band", r, [ctor |-> sc.ctor, ml |-> sc.ml, mu |-> sc.mu, writes |-> WsA(sc),
                                                     panic |-> r.panic, before |-> oA, got |-> r.entries]))
                 /\ CheckDrift(r, m.panic, m.mat, ok)
                 /\ A' = m.mat /\ oA' = Obs(r, sc.n, m.mat)
                 /\ pc' = (IF IsBin(sc) THEN "ctorB" ELSE "op") /\ UNCHANGED <<sc, B, C, R, oB, oC, oR, stR>>
        \/ /\ pc = "ctorB"
           /\ LET m == StepCtorB(sc)
                  ok == ClauseCtorB(sc, r.panic, r.entries)
              IN /\ (IF ok THEN TRUE ELSE Viol("constructor", r, [ctor |-> BCtor(sc.bkind), n |-> sc.n, ml |-> sc.bml, mu |-> sc.bmu,
                                                   panic |-> r.panic, got |-> r.entries]))
                 /\ CheckDrift(r, m.panic, m.mat, ok)
                 /\ B' = m.mat /\ oB' = Obs(r, sc.n, m.mat)
                 /\ pc' = (IF HasPfB(sc) THEN "prefillB" ELSE "fillB") /\ UNCHANGED <<sc, A, C, R, oA, oC, oR, stR>>
        \/ /\ pc = "fillB"
           /\ LET m == StepFillB(sc, B)
                  ok == ClauseFillB(sc, oB, r.panic, r.entries)
              IN /\ (IF ok THEN TRUE ELSE Viol("write_in_band", r, [ctor |-> BCtor(sc.bkind), ml |-> sc.bml, mu |-> sc.bmu, writes |-> WsB(sc),
                                                     panic |-> r.panic, before |-> oB, got |-> r.entries]))
                 /\ CheckDrift(r, m.panic, m.mat, ok)
                 /\ B' = m.mat /\ oB' = Obs(r, sc.n, m.mat)
                 /\ pc' = "op" /\ UNCHANGED <<sc, A, C, R, oA, oC, oR, stR>>
        \/ /\ pc = "op"
           /\ LET m == StepOp(sc, A, B)
                  ok == ClauseOp(sc, oA, oB, r.panic, r.entries, r.val)
              IN /\ (IF ok THEN TRUE ELSE Viol(ClauseName(sc), r, [op |-> sc.op, panic |-> r.panic, a |-> oA,
                                                    b |-> (IF IsBin(sc) THEN oB ELSE <<>>), i |-> sc.i, j |-> sc.j, s |-> sc.s,
                                                    got |-> r.entries, val |-> r.val]))
                 /\ CheckDrift(r, m.panic, m.mat, ok)
                 /\ (IF sc.op = "is_identity" /\ ok /\ ~m.panic /\ r.val # m.val
                     THEN Drift(r, [model_val |-> m.val, code_val |-> r.val]) ELSE TRUE)
                 /\ R' = m.mat /\ oR' = Obs(r, sc.n, m.mat) /\ stR' = [kind |-> r.kind, ml |-> r.ml, mu |-> r.mu]
                 /\ pc' = (IF ~HasOp2(sc) THEN "ctorA" ELSE IF IsBin2(sc) THEN "ctorC" ELSE "op2")
                 /\ UNCHANGED <<sc, A, B, C, oA, oB, oC>>
        \/ /\ pc = "ctorC"
           /\ LET m == StepCtorC(sc)
                  ok == ClauseCtorC(sc, r.panic, r.entries)
              IN /\ (IF ok THEN TRUE ELSE Viol("constructor", r, [ctor |-> BCtor(sc.ckind), n |-> sc.n, ml |-> sc.cml, mu |-> sc.cmu,
                                                   panic |-> r.panic, got |-> r.entries]))
                 /\ CheckDrift(r, m.panic, m.mat, ok)
                 /\ C' = m.mat /\ oC' = Obs(r, sc.n, m.mat)
                 /\ pc' = "fillC" /\ UNCHANGED <<sc, A, B, R, oA, oB, oR, stR>>
        \/ /\ pc = "fillC"
           /\ LET m == StepFillC(sc, C)
                  ok == ClauseFillC(sc, oC, r.panic, r.entries)
              IN /\ (IF ok THEN TRUE ELSE Viol("write_in_band", r, [ctor |-> BCtor(sc.ckind), ml |-> sc.cml, mu |-> sc.cmu, writes |-> WsC(sc),
                                                     panic |-> r.panic, before |-> oC, got |-> r.entries]))
                 /\ CheckDrift(r, m.panic, m.mat, ok)
                 /\ C' = m.mat /\ oC' = Obs(r, sc.n, m.mat)
                 /\ pc' = "op2" /\ UNCHANGED <<sc, A, B, R, oA, oB, oR, stR>>
        \/ /\ pc = "op2"
           \* the clause is evaluated on the dense meaning the code showed for the first result (oR) and on the
           \* storage it advertised for it (stR); the Level-B model continues from its own first result R
           /\ LET m == StepOp2(sc, R, C)
                  ok == ClauseOp2(sc, oR, oC, stR, r.panic, r.entries, r.val)
              IN /\ (IF ok THEN TRUE ELSE Viol(ClauseName2(sc, stR), r, [op |-> sc.op, op2 |-> sc.op2, panic |-> r.panic,
                                                    first_result |-> oR, first_result_storage |-> stR,
                                                    c |-> (IF IsBin2(sc) THEN oC ELSE <<>>), i2 |-> sc.i2, j2 |-> sc.j2, s2 |-> sc.s2,
                                                    got |-> r.entries, val |-> r.val]))
                 /\ CheckDrift(r, m.panic, m.mat, ok)
                 /\ (IF sc.op2 = "is_identity" /\ ok /\ ~m.panic /\ r.val # m.val
                     THEN Drift(r, [model_val |-> m.val, code_val |-> r.val]) ELSE TRUE)
                 /\ pc' = "ctorA" /\ UNCHANGED <<sc, A, B, C, R, oA, oB, oC, oR, stR>>
  /\ l' = l + 1

Next == Step
Spec == Init /\ [][Next]_vars

\* every line matched <=> the (single) behaviour has NLines + 1 states
Accepted ==
  LET d == TLCGet("stats").diameter IN
  LET all == ndJsonDeserialize(IOEnv.TRACE) IN
  IF d = Len(all) + 1 THEN TRUE
  ELSE /\ PrintT(<<"UNMATCHED", d, IF d <= Len(all) THEN ToJson(all[d]) ELSE "none">>)
       /\ FALSE
=============================================================================

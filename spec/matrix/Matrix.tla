------------------------------- MODULE Matrix -------------------------------
(***************************************************************************)
(* Level B: data-layout model of ivp::matrix::Matrix exactly as coded in   *)
(* /repo/src/matrix/{base,index,add,sub,mul}.rs.                           *)
(*                                                                         *)
(* A matrix is a record [n, kind, ml, mu, data]:                           *)
(*   n     size (only square matrices are modelled; m = n)                 *)
(*   kind  "I" (Identity), "F" (Full), "B" (Banded{ml,mu})                 *)
(*   data  the backing Vec<Float> as a 1-based sequence of graded numbers  *)
(*         (Graded.tla: small integers, and m * 2^(80e) carried as integer *)
(*         codes; arithmetic is GAdd / GSub / GMul = exact IEEE results)   *)
(*         (code index idx0 is data[idx0+1])                               *)
(* Rust indices (i,j) are 0-based and kept 0-based here.                   *)
(* Every operator that can panic in the code returns [panic, ...].         *)
(***************************************************************************)
EXTENDS Integers, Sequences, Graded

Zeros(k) == [x \in 1..k |-> 0]
Const(k, v) == [x \in 1..k |-> v]

Mat(n, kind, ml, mu, data) == [n |-> n, kind |-> kind, ml |-> ml, mu |-> mu, data |-> data]

NoMat == Mat(0, "F", 0, 0, <<>>)

Max(a, b) == IF a >= b THEN a ELSE b
SatSub1(n) == IF n = 0 THEN 0 ELSE n - 1

(* ------------------------------ constructors (base.rs) ------------------ *)
Identity(n) == Mat(n, "I", 0, 0, <<1, 0>>)
\* from_vec asserts data.len() == n*m
FromVec(n, data) == IF Len(data) = n * n THEN [panic |-> FALSE, mat |-> Mat(n, "F", 0, 0, data)]
                                        ELSE [panic |-> TRUE, mat |-> NoMat]
FromStorage(n, kind, ml, mu) ==
  CASE kind = "I" -> Mat(n, "I", 0, 0, <<1, 0>>)
    [] kind = "F" -> Mat(n, "F", 0, 0, Zeros(n * n))
    [] kind = "B" -> Mat(n, "B", ml, mu, Zeros((ml + mu + 1) * n))
FullZ(n)   == Mat(n, "F", 0, 0, Zeros(n * n))      \* Matrix::full(n, n)
Square(n)  == Mat(n, "F", 0, 0, Zeros(n * n))      \* Matrix::square(n)  (vec![0.0; n*n] at the pinned commit)
ZerosM(n)  == Mat(n, "F", 0, 0, Zeros(n * n))      \* Matrix::zeros(n, n)
Banded(n, ml, mu) == Mat(n, "B", ml, mu, Zeros((ml + mu + 1) * n))
Diagonal(diag) == Mat(Len(diag), "B", 0, 0, diag)
LowerTriangular(n) == Banded(n, SatSub1(n), 0)
UpperTriangular(n) == Banded(n, 0, SatSub1(n))

Ctors == {"identity", "from_vec", "from_storage_I", "from_storage_F", "from_storage_B", "full", "square",
          "zeros", "banded", "diagonal", "lower_triangular", "upper_triangular"}

\* init = the data / diag vector handed to from_vec / diagonal (ignored by the others)
DoCtor(ctor, n, ml, mu, init) ==
  CASE ctor = "identity"         -> [panic |-> FALSE, mat |-> Identity(n)]
    [] ctor = "from_vec"         -> FromVec(n, init)
    [] ctor = "from_storage_I"   -> [panic |-> FALSE, mat |-> FromStorage(n, "I", 0, 0)]
    [] ctor = "from_storage_F"   -> [panic |-> FALSE, mat |-> FromStorage(n, "F", 0, 0)]
    [] ctor = "from_storage_B"   -> [panic |-> FALSE, mat |-> FromStorage(n, "B", ml, mu)]
    [] ctor = "full"             -> [panic |-> FALSE, mat |-> FullZ(n)]
    [] ctor = "square"           -> [panic |-> FALSE, mat |-> Square(n)]
    [] ctor = "zeros"            -> [panic |-> FALSE, mat |-> ZerosM(n)]
    [] ctor = "banded"           -> [panic |-> FALSE, mat |-> Banded(n, ml, mu)]
    [] ctor = "diagonal"         -> [panic |-> FALSE, mat |-> Diagonal(init)]
    [] ctor = "lower_triangular" -> [panic |-> FALSE, mat |-> LowerTriangular(n)]
    [] ctor = "upper_triangular" -> [panic |-> FALSE, mat |-> UpperTriangular(n)]

(* ------------------------------ Index / IndexMut (index.rs) ------------- *)
InRange(mat, i, j) == i >= 0 /\ i < mat.n /\ j >= 0 /\ j < mat.n
\* Vec indexing: out of range panics
DataAt(mat, idx0) == IF idx0 + 1 \in DOMAIN mat.data THEN [panic |-> FALSE, val |-> mat.data[idx0 + 1]]
                                                    ELSE [panic |-> TRUE, val |-> 0]
InBand(ml, mu, i, j) == ~((i - j) < -mu \/ (i - j) > ml)

Read(mat, i, j) ==
  IF ~InRange(mat, i, j) THEN [panic |-> TRUE, val |-> 0]
  ELSE CASE mat.kind = "I" -> DataAt(mat, IF i = j THEN 0 ELSE 1)
         [] mat.kind = "F" -> DataAt(mat, i * mat.n + j)
         [] mat.kind = "B" -> IF ~InBand(mat.ml, mat.mu, i, j) THEN [panic |-> FALSE, val |-> 0]   \* &0.0
                              ELSE DataAt(mat, ((i - j) + mat.mu) * mat.n + j)

SetData(mat, idx0, v) ==
  IF idx0 + 1 \in DOMAIN mat.data THEN [panic |-> FALSE, mat |-> [mat EXCEPT !.data[idx0 + 1] = v]]
                                  ELSE [panic |-> TRUE, mat |-> mat]

Write(mat, i, j, v) ==
  IF ~InRange(mat, i, j) THEN [panic |-> TRUE, mat |-> mat]
  ELSE CASE mat.kind = "F" -> SetData(mat, i * mat.n + j, v)
         [] mat.kind = "I" -> [panic |-> TRUE, mat |-> mat]
         [] mat.kind = "B" -> IF InBand(mat.ml, mat.mu, i, j) THEN SetData(mat, ((i - j) + mat.mu) * mat.n + j, v)
                              ELSE [panic |-> TRUE, mat |-> mat]

\* a sequence of writes <<i, j, v>>, stopping at the first panic (as a Rust caller would)
RECURSIVE WriteSeq(_, _, _)
WriteSeq(mat, ws, k) ==
  IF k > Len(ws) THEN [panic |-> FALSE, mat |-> mat]
  ELSE LET r == Write(mat, ws[k][1], ws[k][2], ws[k][3])
       IN IF r.panic THEN r ELSE WriteSeq(r.mat, ws, k + 1)
DoWrites(mat, ws) == WriteSeq(mat, ws, 1)

(* ------------------------------ band gather helpers --------------------- *)
\* The loops "for j in 0..n for r in 0..(ml+mu+1) { k = r-mu; i = j+k; if 0<=i<n {...} }" visit every
\* stored slot (r,j) whose logical row i is inside the matrix exactly once.
\* Value that loop contributes to logical entry (i,j):
BandEntry(n, ml, mu, data, i, j) ==
  LET r == (i - j) + mu IN IF r >= 0 /\ r < ml + mu + 1 THEN data[r * n + j + 1] ELSE 0

\* to_full closure of add.rs / sub.rs
ToFull(mat) ==
  LET n == mat.n IN
  CASE mat.kind = "F" -> mat.data
    [] mat.kind = "I" -> [x \in 1..(n * n) |-> IF (x - 1) \div n = (x - 1) % n THEN 1 ELSE 0]
    [] mat.kind = "B" -> [x \in 1..(n * n) |-> BandEntry(n, mat.ml, mat.mu, mat.data, (x - 1) \div n, (x - 1) % n)]

\* slot idx0 of a banded output with (ml_out, mu_out): contribution of banded input (ml,mu,data)
BandSlot(n, ml, mu, data, mlo, muo, idx0) ==
  LET ro == idx0 \div n
      j  == idx0 % n
      k  == ro - muo
      i  == j + k
  IN IF i >= 0 /\ i < n THEN BandEntry(n, ml, mu, data, i, j) ELSE 0

\* iterator zip: length of the shorter
Zip2(a, b, Op(_, _)) == [x \in 1..(IF Len(a) <= Len(b) THEN Len(a) ELSE Len(b)) |-> Op(a[x], b[x])]
Plus(x, y) == GAdd(x, y)
Minus(x, y) == GSub(x, y)

(* ------------------------------ Add / Sub (add.rs, sub.rs) -------------- *)
\* sign = 1 for Add, -1 for Sub.  Both assert equal n first (assert_eq! -> panic).
AddSub(a, b, sign) ==
  IF a.n # b.n THEN [panic |-> TRUE, mat |-> NoMat]
  ELSE LET n == a.n IN
    CASE a.kind = "I" /\ b.kind = "I" ->
           [panic |-> FALSE,
            mat |-> Mat(n, "F", 0, 0, [x \in 1..(n * n) |->
                        IF sign = 1 THEN (IF (x - 1) \div n = (x - 1) % n THEN 1 + 1 ELSE 0) ELSE 0])]
      [] a.kind = "F" /\ b.kind = "F" ->
           [panic |-> FALSE,
            mat |-> Mat(n, "F", 0, 0, IF sign = 1 THEN Zip2(a.data, b.data, Plus)
                                      ELSE [x \in 1..Len(a.data) |-> IF x <= Len(b.data) THEN GSub(a.data[x], b.data[x]) ELSE a.data[x]])]
      [] a.kind = "B" /\ b.kind = "B" ->
           LET mlo == Max(a.ml, b.ml)
               muo == Max(a.mu, b.mu)
           IN [panic |-> FALSE,
               mat |-> Mat(n, "B", mlo, muo, [x \in 1..((mlo + muo + 1) * n) |->
                          \* out = 0.0; out += a-slot; out (+|-)= b-slot
                          LET sa == BandSlot(n, a.ml, a.mu, a.data, mlo, muo, x - 1)
                              sb == BandSlot(n, b.ml, b.mu, b.data, mlo, muo, x - 1)
                          IN IF sign = 1 THEN GAdd(sa, sb) ELSE GSub(sa, sb)])]
      [] OTHER ->
           [panic |-> FALSE,
            mat |-> Mat(n, "F", 0, 0, IF sign = 1 THEN Zip2(ToFull(a), ToFull(b), Plus)
                                                  ELSE Zip2(ToFull(a), ToFull(b), Minus))]

Add(a, b) == AddSub(a, b, 1)
Sub(a, b) == AddSub(a, b, -1)
\* AddAssign / SubAssign / SubAssign<&Matrix>: *self = replace(self, zeros) (+|-) rhs
BinOps == {"add", "sub", "add_assign", "sub_assign", "sub_assign_ref"}
DoBin(op, a, b) == IF op \in {"add", "add_assign"} THEN Add(a, b) ELSE Sub(a, b)

(* ------------------------------ scalar ops (add.rs, sub.rs, mul.rs) ----- *)
ComponentAddSub(a, s, sign) ==
  LET n == a.n IN
  CASE a.kind = "I" -> Mat(n, "F", 0, 0, [x \in 1..(n * n) |->
                             IF (x - 1) \div n = (x - 1) % n
                             THEN (IF sign = 1 THEN GAdd(s, 1) ELSE GSub(1, s))
                             ELSE (IF sign = 1 THEN s ELSE GSub(0, s))])
    [] a.kind = "F" -> [a EXCEPT !.data = [x \in DOMAIN a.data |->
                             IF sign = 1 THEN GAdd(a.data[x], s) ELSE GSub(a.data[x], s)]]
    [] a.kind = "B" -> IF s = 0 THEN a              \* `rhs == 0.0`: exact comparison, TINY is not zero
                       ELSE Mat(n, "F", 0, 0, [x \in 1..(n * n) |->
                              LET i == (x - 1) \div n
                                  j == (x - 1) % n
                                  r == (i - j) + a.mu
                              IN IF r >= 0 /\ r < a.ml + a.mu + 1
                                 THEN (IF sign = 1 THEN GAdd(a.data[r * n + j + 1], s) ELSE GSub(a.data[r * n + j + 1], s))
                                 ELSE (IF sign = 1 THEN s ELSE GSub(0, s))])

ComponentMul(a, s) ==
  CASE a.kind = "I" -> Diagonal(Const(a.n, s))
    [] a.kind = "F" -> [a EXCEPT !.data = [x \in DOMAIN a.data |-> GMul(a.data[x], s)]]
    [] a.kind = "B" -> Mat(a.n, "B", a.ml, a.mu, [x \in DOMAIN a.data |-> GMul(a.data[x], s)])

ComponentMulMut(a, s) ==
  CASE a.kind = "I" -> Mat(a.n, "B", 0, 0, Const(a.n, s))
    [] a.kind = "F" -> [a EXCEPT !.data = [x \in DOMAIN a.data |-> GMul(a.data[x], s)]]
    [] a.kind = "B" -> [a EXCEPT !.data = [x \in DOMAIN a.data |-> GMul(a.data[x], s)]]

ScalarOps == {"component_add", "component_sub", "component_mul", "component_mul_mut"}
DoScalar(op, a, s) ==
  [panic |-> FALSE,
   mat |-> CASE op = "component_add" -> ComponentAddSub(a, s, 1)
             [] op = "component_sub" -> ComponentAddSub(a, s, -1)
             [] op = "component_mul" -> ComponentMul(a, s)
             [] op = "component_mul_mut" -> ComponentMulMut(a, s)]

(* ------------------------------ is_identity / swap_rows / fill (base.rs) -- *)
IsIdentity(a) ==
  IF a.kind = "I" THEN [panic |-> FALSE, val |-> TRUE]
  ELSE LET cells == {<<i, j>> \in (0..a.n - 1) \X (0..a.n - 1) : TRUE}
       IN IF \E c \in cells : Read(a, c[1], c[2]).panic
          THEN [panic |-> TRUE, val |-> FALSE]    \* (the code would panic at the first unreadable cell it reaches)
          ELSE [panic |-> FALSE,
                val |-> \A c \in cells : Read(a, c[1], c[2]).val = (IF c[1] = c[2] THEN 1 ELSE 0)]

SwapRows(a, r1, r2) ==
  IF ~(r1 < a.n /\ r2 < a.n) THEN [panic |-> TRUE, mat |-> a]
  ELSE IF r1 = r2 THEN [panic |-> FALSE, mat |-> a]
  ELSE LET n == a.n IN
    CASE a.kind = "F" ->
           [panic |-> FALSE,
            mat |-> [a EXCEPT !.data = [x \in DOMAIN a.data |->
                       LET i == (x - 1) \div n
                           j == (x - 1) % n
                       IN IF i = r1 THEN a.data[r2 * n + j + 1]
                          ELSE IF i = r2 THEN a.data[r1 * n + j + 1] ELSE a.data[x]]]]
      [] a.kind = "I" -> [panic |-> FALSE, mat |-> a]
      [] a.kind = "B" ->
           \* per column j: both in band -> swap the two slots; exactly one in band -> that slot := 0
           [panic |-> FALSE,
            mat |-> [a EXCEPT !.data = [x \in DOMAIN a.data |->
                       LET row == (x - 1) \div n
                           j   == (x - 1) % n
                           k   == row - a.mu                 \* i - j of this slot
                           i   == j + k
                           in1 == InBand(a.ml, a.mu, r1, j)
                           in2 == InBand(a.ml, a.mu, r2, j)
                       IN IF i = r1 /\ in1
                          THEN (IF in2 THEN a.data[((r2 - j) + a.mu) * n + j + 1] ELSE 0)
                          ELSE IF i = r2 /\ in2
                          THEN (IF in1 THEN a.data[((r1 - j) + a.mu) * n + j + 1] ELSE 0)
                          ELSE a.data[x]]]]

\* fill: Identity storage is left as it is (its two backing cells [1, 0] are not entries); otherwise the WHOLE buffer is set
Fill(a, v) == IF a.kind = "I" THEN a ELSE [a EXCEPT !.data = [x \in DOMAIN a.data |-> v]]

(* ------------------------------ observation ----------------------------- *)
READPANIC == 999999      \* integer sentinels (TLC cannot compare strings with integers)
NOTINT    == 888888

\* what a caller sees when reading every (i,j): n x n sequence of sequences
ReadAll(mat) ==
  [i \in 1..mat.n |-> [j \in 1..mat.n |->
      LET r == Read(mat, i - 1, j - 1) IN IF r.panic THEN READPANIC ELSE r.val]]

Shape(mat) == [kind |-> mat.kind, ml |-> mat.ml, mu |-> mat.mu]
=============================================================================

------------------------------ MODULE MC_Matrix ------------------------------
(***************************************************************************)
(* Exhaustive bounded model for C17.  The scenario is chosen in Init; the  *)
(* Next actions execute it step by step on the Level-B model (Matrix.tla); *)
(* after every step the Level-A clause of that step (MatrixContract.tla)   *)
(* is evaluated on what the Level-B model produced: `cok` must stay TRUE   *)
(* (invariant Contract: Level B => contract).  Every finished scenario     *)
(* prints one REPLAY line that is executed on the real code.               *)
(***************************************************************************)
EXTENDS MatrixScenario, TLC, Json

CONSTANTS MaxN,        \* sizes 1..MaxN
          AllPats,     \* patterns for read / is_identity
          ScalarPats,  \* patterns of A for scalar ops
          BinAPats,    \* patterns of A for binary ops
          BinBPats,    \* patterns of B for binary ops
          Scalars      \* scalar values

MC_Scalars == {-1, 0, 1, 2}
MC_AllPats == {"zero", "dist", "eye", "eyex", "eyel", "eyeu"}
MC_QuickScalarPats == {"zero", "dist", "eye"}
MC_QuickBinAPats == {"dist"}
MC_QuickBinBPats == {"zero", "sq"}
MC_ThoroughScalarPats == {"zero", "dist", "eye", "eyel", "eyeu"}
MC_ThoroughBinAPats == {"zero", "dist", "eye"}
MC_ThoroughBinBPats == {"zero", "sq", "eye"}

VARIABLES sc, pc, A, B, R, dA, dB, cok

vars == <<sc, pc, A, B, R, dA, dB, cok>>

CtorCfgs(n) ==
  {[ctor |-> c, ml |-> 0, mu |-> 0] : c \in Ctors \ {"from_storage_B", "banded"}}
  \cup {[ctor |-> c, ml |-> a, mu |-> b] : c \in {"from_storage_B", "banded"}, a \in 0..n, b \in 0..n}

BShapes(n) ==
  {[kind |-> "I", ml |-> 0, mu |-> 0], [kind |-> "F", ml |-> 0, mu |-> 0]}
  \cup {[kind |-> "B", ml |-> a, mu |-> b] : a \in 0..n, b \in 0..n}

\* Identity storage accepts no writes: only the empty pattern
PatsFor(cfg, n, P) == IF CtorStorage(cfg.ctor, n, cfg.ml, cfg.mu).kind = "I" THEN {"zero"} ELSE P

Sc(n, cfg, pat, op, i, j, s, b, bpat) ==
  [n |-> n, ctor |-> cfg.ctor, ml |-> cfg.ml, mu |-> cfg.mu, pat |-> pat, op |-> op, i |-> i, j |-> j, s |-> s,
   bkind |-> b.kind, bml |-> b.ml, bmu |-> b.mu, bpat |-> bpat]
NoB == [kind |-> "F", ml |-> 0, mu |-> 0]

InitScenario ==
  \E n \in 1..MaxN : \E cfg \in CtorCfgs(n) :
    \/ \E pat \in PatsFor(cfg, n, AllPats) : \E op \in {"read", "is_identity"} :
         sc = Sc(n, cfg, pat, op, 0, 0, 0, NoB, "zero")
    \/ \E pat \in PatsFor(cfg, n, {"dist"}) : \E i \in 0..n - 1 : \E j \in 0..n - 1 : \E op \in {"write", "swap_rows"} :
         sc = Sc(n, cfg, pat, op, i, j, 0, NoB, "zero")
    \/ \E pat \in PatsFor(cfg, n, {"dist"}) : \E s \in {0, 2} :
         sc = Sc(n, cfg, pat, "fill", 0, 0, s, NoB, "zero")
    \/ \E pat \in PatsFor(cfg, n, ScalarPats) : \E op \in ScalarOps : \E s \in Scalars :
         sc = Sc(n, cfg, pat, op, 0, 0, s, NoB, "zero")
    \/ \E pat \in PatsFor(cfg, n, BinAPats) : \E op \in BinOps : \E b \in BShapes(n) :
       \E bpat \in (IF b.kind = "I" THEN {"zero"} ELSE BinBPats) :
         sc = Sc(n, cfg, pat, op, 0, 0, 0, b, bpat)

Init ==
  /\ InitScenario
  /\ pc = "ctorA"
  /\ A = NoMat /\ B = NoMat /\ R = [panic |-> FALSE, mat |-> NoMat, val |-> FALSE]
  /\ dA = <<>> /\ dB = <<>>
  /\ cok = TRUE

CtorA ==
  /\ pc = "ctorA"
  /\ LET r == StepCtorA(sc) IN
       /\ A' = r.mat
       /\ dA' = ExpectA0(sc)
       /\ cok' = (cok /\ ClauseCtorA(sc, r.panic, ReadAll(r.mat)) /\ Shape(r.mat) = StA(sc))
  /\ pc' = "fillA"
  /\ UNCHANGED <<sc, B, R, dB>>

FillA ==
  /\ pc = "fillA"
  /\ LET r == StepFillA(sc, A) IN
       /\ A' = r.mat
       /\ dA' = WritesMeaning(dA, WsA(sc), 1)
       /\ cok' = (cok /\ ClauseFillA(sc, dA, r.panic, ReadAll(r.mat)))
  /\ pc' = IF IsBin(sc) THEN "ctorB" ELSE "op"
  /\ UNCHANGED <<sc, B, R, dB>>

CtorB ==
  /\ pc = "ctorB"
  /\ LET r == StepCtorB(sc) IN
       /\ B' = r.mat
       /\ dB' = CtorMeaning(BCtor(sc.bkind), sc.n, <<>>)
       /\ cok' = (cok /\ ClauseCtorB(sc, r.panic, ReadAll(r.mat)) /\ Shape(r.mat) = StB(sc))
  /\ pc' = "fillB"
  /\ UNCHANGED <<sc, A, R, dA>>

FillB ==
  /\ pc = "fillB"
  /\ LET r == StepFillB(sc, B) IN
       /\ B' = r.mat
       /\ dB' = WritesMeaning(dB, WsB(sc), 1)
       /\ cok' = (cok /\ ClauseFillB(sc, dB, r.panic, ReadAll(r.mat)))
  /\ pc' = "op"
  /\ UNCHANGED <<sc, A, R, dA>>

Op ==
  /\ pc = "op"
  /\ LET r == StepOp(sc, A, B) IN
       /\ R' = r
       /\ cok' = (cok /\ ClauseOp(sc, dA, dB, r.panic, ReadAll(r.mat), r.val)
                      /\ r.panic = ExpectPanic(sc)
                      /\ (sc.op \notin {"swap_rows", "fill"} => ReadAll(r.mat) = ExpectRes(sc))
                      /\ (sc.op = "is_identity" => r.val = ExpectIsId(sc)))
  /\ pc' = "done"
  /\ UNCHANGED <<sc, A, B, dA, dB>>

Next == CtorA \/ FillA \/ CtorB \/ FillB \/ Op

Spec == Init /\ [][Next]_vars

(* Level B => contract, for every scenario and every step *)
Contract == cok

(* dense meaning tracked by the contract = what the Level-B model reads back *)
Abstraction ==
  /\ pc \in {"fillA", "ctorB", "fillB", "op"} => ReadAll(A) = dA
  /\ pc \in {"fillB", "op"} /\ IsBin(sc) => ReadAll(B) = dB

TypeOK ==
  /\ pc \in {"ctorA", "fillA", "ctorB", "fillB", "op", "done"}
  /\ sc.op \in Ops /\ sc.ctor \in Ctors /\ sc.pat \in Pats /\ sc.bpat \in Pats

(* one REPLAY line per finished scenario: the scenario and what the contract expects *)
Emit ==
  pc = "done" =>
    PrintT(<<"REPLAY", ToJson([sc |-> sc,
                               initA |-> InitA(sc), wsA |-> WsA(sc),
                               wsB |-> IF IsBin(sc) THEN WsB(sc) ELSE <<>>,
                               expect |-> [A0 |-> ExpectA0(sc), A1 |-> ExpectA1(sc),
                                           B1 |-> IF IsBin(sc) THEN ExpectB1(sc) ELSE <<>>,
                                           res |-> ExpectRes(sc), panic |-> ExpectPanic(sc),
                                           is_identity |-> ExpectIsId(sc),
                                           specified |-> sc.op \notin {"swap_rows", "fill"}]])>>)
=============================================================================

------------------------------ MODULE MC_Matrix ------------------------------
(***************************************************************************)
(* Exhaustive bounded model for C17.  The scenario is chosen in Init; the  *)
(* Next actions execute it step by step on the Level-B model (Matrix.tla); *)
(* after every step the Level-A clause of that step (MatrixContract.tla)   *)
(* is evaluated on what the Level-B model produced: `cok` must stay TRUE   *)
(* (invariant Contract: Level B => contract).  Every finished scenario     *)
(* prints one REPLAY line that is executed on the real code.               *)
(***************************************************************************)
EXTENDS MatrixScenario, TLC, Json

CONSTANTS MaxN,        \* sizes 1..MaxN
          AllPats,     \* patterns for read / is_identity
          ScalarPats,  \* patterns of A for scalar ops
          BinAPats,    \* patterns of A for binary ops
          BinBPats,    \* patterns of B for binary ops
          Scalars,     \* scalar values
          TinyBMaxN,   \* binary ops: the second operand also takes the "tiny" pattern (entries k * 2^-80) for sizes 1..TinyBMaxN
          TwoFull      \* two-operation sequences: FALSE = quick slice (n = 1..2 reduced shapes + a slice of n = 3),
                       \* TRUE = every storage shape of all three operands for n = 1..3

MC_Scalars == {-1, 0, 1, 2, TINY, NTINY, HUGE}      \* Graded.tla: 2^-80, -2^-80, 2^80
MC_AllPats == {"zero", "dist", "eye", "eyex", "eyel", "eyeu", "eyet", "tiny"}
MC_QuickScalarPats == {"zero", "dist", "eye", "tiny"}
MC_QuickBinAPats == {"dist"}
MC_QuickBinBPats == {"zero", "sq"}
MC_ThoroughScalarPats == {"zero", "dist", "eye", "eyel", "eyeu", "tiny", "eyet"}
MC_ThoroughBinAPats == {"zero", "dist", "eye"}
MC_ThoroughBinBPats == {"zero", "sq", "eye"}

VARIABLES sc, pc, A, B, C, R, R2, dA, dB, dC, dR, cok

vars == <<sc, pc, A, B, C, R, R2, dA, dB, dC, dR, cok>>

CtorCfgs(n) ==
  {[ctor |-> c, ml |-> 0, mu |-> 0] : c \in Ctors \ {"from_storage_B", "banded"}}
  \cup {[ctor |-> c, ml |-> a, mu |-> b] : c \in {"from_storage_B", "banded"}, a \in 0..n, b \in 0..n}

BShapes(n) ==
  {[kind |-> "I", ml |-> 0, mu |-> 0], [kind |-> "F", ml |-> 0, mu |-> 0]}
  \cup {[kind |-> "B", ml |-> a, mu |-> b] : a \in 0..n, b \in 0..n}

\* Identity storage accepts no writes: only the empty pattern
PatsFor(cfg, n, P) == IF CtorStorage(cfg.ctor, n, cfg.ml, cfg.mu).kind = "I" THEN {"zero"} ELSE P

Sc(n, cfg, pat, op, i, j, s, b, bpat) ==
  [n |-> n, ctor |-> cfg.ctor, ml |-> cfg.ml, mu |-> cfg.mu, pat |-> pat, op |-> op, i |-> i, j |-> j, s |-> s,
   bkind |-> b.kind, bml |-> b.ml, bmu |-> b.mu, bpat |-> bpat,
   op2 |-> "none", i2 |-> 0, j2 |-> 0, s2 |-> 0, ckind |-> "F", cml |-> 0, cmu |-> 0, cpat |-> "zero", pf |-> 0]
Pf(base, v) == [base EXCEPT !.pf = v]
NoB == [kind |-> "F", ml |-> 0, mu |-> 0]

(* ---- two-operation sequences: A --op--> R --op2--> R2 --------------------- *)
Band(a, b) == [kind |-> "B", ml |-> a, mu |-> b]
IdS == [kind |-> "I", ml |-> 0, mu |-> 0]
FuS == [kind |-> "F", ml |-> 0, mu |-> 0]
\* storage shapes of A and of the first-op operand B
TwoShapes(n) ==
  IF TwoFull \/ n = 1 THEN BShapes(n)
  ELSE IF n = 2 THEN {IdS, FuS, Band(0, 0), Band(1, 0), Band(0, 1), Band(1, 1), Band(2, 2)}
  ELSE {IdS, FuS, Band(1, 2)}
TwoBShapes(n) == IF TwoFull \/ n < 3 THEN TwoShapes(n) ELSE {IdS, FuS, Band(2, 1)}
\* the fresh operand C of a binary second op
TwoCShapes(n) ==
  IF TwoFull THEN BShapes(n)
  ELSE IF n = 1 THEN {IdS, FuS, Band(0, 0)} ELSE {IdS, FuS, Band(0, 1), Band(1, 0)}
TwoBin1(n) == IF TwoFull \/ n < 3 THEN BinOps ELSE {"add", "sub_assign"}
TwoBin2 == IF TwoFull THEN {"add", "sub", "sub_assign_ref"} ELSE {"add", "sub"}
TwoScal2 == IF TwoFull THEN Scalars ELSE {0, 2, TINY}
TwoSizes == 1..(IF MaxN < 3 THEN MaxN ELSE 3)
ShapeCfg(sh) == [ctor |-> BCtor(sh.kind), ml |-> sh.ml, mu |-> sh.mu]

Sc2(base, op2, i2, j2, s2, c, cpat) ==
  [base EXCEPT !.op2 = op2, !.i2 = i2, !.j2 = j2, !.s2 = s2, !.ckind = c.kind, !.cml = c.ml, !.cmu = c.mu, !.cpat = cpat]

\* the second operation of a sequence whose first part is `base`
Seconds(n, base) ==
  \/ sc = Sc2(base, "is_identity", 0, 0, 0, NoB, "zero")
  \/ \E i2 \in 0..n - 1 : \E j2 \in 0..n - 1 : sc = Sc2(base, "write", i2, j2, 0, NoB, "zero")
  \/ \E op2 \in ScalarOps : \E s2 \in TwoScal2 : sc = Sc2(base, op2, 0, 0, s2, NoB, "zero")
  \/ \E op2 \in TwoBin2 : \E c \in TwoCShapes(n) :
       sc = Sc2(base, op2, 0, 0, 0, c, IF c.kind = "I" THEN "zero" ELSE "sq")

InitTwo ==
  \E n \in TwoSizes : \E ash \in TwoShapes(n) :
    LET cfg == ShapeCfg(ash)
        pat == IF ash.kind = "I" THEN "zero" ELSE "dist"
        Firsts == {Sc(n, cfg, pat, op, 0, 0, s, NoB, "zero") : op \in ScalarOps, s \in Scalars}
                  \cup {Sc(n, cfg, pat, op, 0, 0, 0, b, IF b.kind = "I" THEN "zero" ELSE "sq") :
                          op \in TwoBin1(n), b \in TwoBShapes(n)}
    IN \E base \in Firsts : Seconds(n, base)

(* ---- prefilled operands: fill(pf) on the whole buffer, then every writable entry written ---------------- *)
\* observers of a prefilled A (every constructor; an Identity takes no writes, so only the empty pattern): read-all /
\* is_identity for every full pattern, one more write at every (i,j), every scalar op, every binary op with every
\* storage of a (prefilled) second operand
PfVals == {5, TINY}
PfScalars == {0, 2, TINY}
InitPrefilled ==
  \E n \in 1..MaxN : \E cfg \in CtorCfgs(n) :
    /\ \/ \E pat \in PatsFor(cfg, n, {"zero", "eye", "dist"}) : \E op \in {"read", "is_identity"} : \E v \in PfVals :
            sc = Pf(Sc(n, cfg, pat, op, 0, 0, 0, NoB, "zero"), v)
       \/ \E pat \in PatsFor(cfg, n, {"dist"}) : \E i \in 0..n - 1 : \E j \in 0..n - 1 :
            sc = Pf(Sc(n, cfg, pat, "write", i, j, 0, NoB, "zero"), 5)
       \/ \E pat \in PatsFor(cfg, n, {"eye", "dist"}) : \E op \in ScalarOps : \E s \in PfScalars :
            sc = Pf(Sc(n, cfg, pat, op, 0, 0, s, NoB, "zero"), 5)
       \/ \E pat \in PatsFor(cfg, n, {"eye"}) : \E op \in BinOps : \E b \in BShapes(n) :
            sc = Pf(Sc(n, cfg, pat, op, 0, 0, 0, b, IF b.kind = "I" THEN "zero" ELSE "sq"), 5)
\* two-operation sequences on a prefilled Banded identity pattern (the first result keeps the band buffer, corner cells
\* scaled) and on a prefilled Identity: the second operation observes the result
InitTwoPrefilled ==
  \E n \in TwoSizes : \E ash \in {sh \in TwoShapes(n) : sh.kind \in {"B", "I"}} :
    \E op \in {"component_mul", "component_mul_mut"} : \E s \in {1, 2} :
      Seconds(n, Pf(Sc(n, ShapeCfg(ash), IF ash.kind = "I" THEN "zero" ELSE "eye", op, 0, 0, s, NoB, "zero"), 5))

InitScenario ==
  \E n \in 1..MaxN : \E cfg \in CtorCfgs(n) :
    \/ \E pat \in PatsFor(cfg, n, AllPats) : \E op \in {"read", "is_identity"} :
         sc = Sc(n, cfg, pat, op, 0, 0, 0, NoB, "zero")
    \/ \E pat \in PatsFor(cfg, n, {"dist"}) : \E i \in 0..n - 1 : \E j \in 0..n - 1 : \E op \in {"write", "swap_rows"} :
         sc = Sc(n, cfg, pat, op, i, j, 0, NoB, "zero")
    \/ \E pat \in PatsFor(cfg, n, {"dist"}) : \E s \in {0, 2} :
         sc = Sc(n, cfg, pat, "fill", 0, 0, s, NoB, "zero")
    \/ \E pat \in PatsFor(cfg, n, ScalarPats) : \E op \in ScalarOps : \E s \in Scalars :
         sc = Sc(n, cfg, pat, op, 0, 0, s, NoB, "zero")
    \/ \E pat \in PatsFor(cfg, n, BinAPats) : \E op \in BinOps : \E b \in BShapes(n) :
       \E bpat \in (IF b.kind = "I" THEN {"zero"} ELSE BinBPats \cup (IF n <= TinyBMaxN THEN {"tiny"} ELSE {})) :
         sc = Sc(n, cfg, pat, op, 0, 0, 0, b, bpat)

NoRes == [panic |-> FALSE, mat |-> NoMat, val |-> FALSE]
Init ==
  /\ (InitScenario \/ InitTwo \/ InitPrefilled \/ InitTwoPrefilled)
  /\ pc = "ctorA"
  /\ A = NoMat /\ B = NoMat /\ C = NoMat /\ R = NoRes /\ R2 = NoRes
  /\ dA = <<>> /\ dB = <<>> /\ dC = <<>> /\ dR = <<>>
  /\ cok = TRUE

CtorA ==
  /\ pc = "ctorA"
  /\ LET r == StepCtorA(sc) IN
       /\ A' = r.mat
       /\ dA' = ExpectA0(sc)
       /\ cok' = (cok /\ ClauseCtorA(sc, r.panic, ReadAll(r.mat)) /\ Shape(r.mat) = StA(sc))
  /\ pc' = IF HasPf(sc) THEN "prefillA" ELSE "fillA"
  /\ UNCHANGED <<sc, B, C, R, R2, dB, dC, dR>>

\* fill(pf): clause C17_Fill
PrefillA ==
  /\ pc = "prefillA"
  /\ LET r == StepPrefillA(sc, A) IN
       /\ A' = r.mat
       /\ dA' = FillMeaning(StA(sc), dA, sc.pf)
       /\ cok' = (cok /\ ClausePrefillA(sc, dA, r.panic, ReadAll(r.mat)))
  /\ pc' = "fillA"
  /\ UNCHANGED <<sc, B, C, R, R2, dB, dC, dR>>

FillA ==
  /\ pc = "fillA"
  /\ LET r == StepFillA(sc, A) IN
       /\ A' = r.mat
       /\ dA' = WritesMeaning(dA, WsA(sc), 1)
       /\ cok' = (cok /\ ClauseFillA(sc, dA, r.panic, ReadAll(r.mat)))
  /\ pc' = IF IsBin(sc) THEN "ctorB" ELSE "op"
  /\ UNCHANGED <<sc, B, C, R, R2, dB, dC, dR>>

CtorB ==
  /\ pc = "ctorB"
  /\ LET r == StepCtorB(sc) IN
       /\ B' = r.mat
       /\ dB' = CtorMeaning(BCtor(sc.bkind), sc.n, <<>>)
       /\ cok' = (cok /\ ClauseCtorB(sc, r.panic, ReadAll(r.mat)) /\ Shape(r.mat) = StB(sc))
  /\ pc' = IF HasPfB(sc) THEN "prefillB" ELSE "fillB"
  /\ UNCHANGED <<sc, A, C, R, R2, dA, dC, dR>>

PrefillB ==
  /\ pc = "prefillB"
  /\ LET r == StepPrefillB(sc, B) IN
       /\ B' = r.mat
       /\ dB' = FillMeaning(StB(sc), dB, sc.pf)
       /\ cok' = (cok /\ ClausePrefillB(sc, dB, r.panic, ReadAll(r.mat)))
  /\ pc' = "fillB"
  /\ UNCHANGED <<sc, A, C, R, R2, dA, dC, dR>>

FillB ==
  /\ pc = "fillB"
  /\ LET r == StepFillB(sc, B) IN
       /\ B' = r.mat
       /\ dB' = WritesMeaning(dB, WsB(sc), 1)
       /\ cok' = (cok /\ ClauseFillB(sc, dB, r.panic, ReadAll(r.mat)))
  /\ pc' = "op"
  /\ UNCHANGED <<sc, A, C, R, R2, dA, dC, dR>>

Op ==
  /\ pc = "op"
  /\ LET r == StepOp(sc, A, B) IN
       /\ R' = r
       /\ cok' = (cok /\ ClauseOp(sc, dA, dB, r.panic, ReadAll(r.mat), r.val)
                      /\ r.panic = ExpectPanic(sc)
                      /\ (sc.op # "swap_rows" => ReadAll(r.mat) = ExpectRes(sc))
                      /\ (sc.op = "is_identity" => r.val = ExpectIsId(sc)))
  /\ dR' = ExpectRes(sc)
  /\ pc' = IF ~HasOp2(sc) THEN "done" ELSE IF IsBin2(sc) THEN "ctorC" ELSE "op2"
  /\ UNCHANGED <<sc, A, B, C, R2, dA, dB, dC>>

CtorC ==
  /\ pc = "ctorC"
  /\ LET r == StepCtorC(sc) IN
       /\ C' = r.mat
       /\ dC' = CtorMeaning(BCtor(sc.ckind), sc.n, <<>>)
       /\ cok' = (cok /\ ClauseCtorC(sc, r.panic, ReadAll(r.mat)) /\ Shape(r.mat) = StC(sc))
  /\ pc' = "fillC"
  /\ UNCHANGED <<sc, A, B, R, R2, dA, dB, dR>>

FillC ==
  /\ pc = "fillC"
  /\ LET r == StepFillC(sc, C) IN
       /\ C' = r.mat
       /\ dC' = WritesMeaning(dC, WsC(sc), 1)
       /\ cok' = (cok /\ ClauseFillC(sc, dC, r.panic, ReadAll(r.mat)))
  /\ pc' = "op2"
  /\ UNCHANGED <<sc, A, B, R, R2, dA, dB, dR>>

\* the second operation acts on the Level-B result of the first; the contract on its dense meaning dR
Op2 ==
  /\ pc = "op2"
  /\ LET r == StepOp2(sc, R.mat, C)
         stR == Shape(R.mat)
     IN /\ R2' = r
        /\ cok' = (cok /\ ClauseOp2(sc, dR, dC, stR, r.panic, ReadAll(r.mat), r.val)
                       /\ r.panic = ExpectPanic2(sc, stR)
                       /\ ReadAll(r.mat) = ExpectRes2(sc, stR)
                       /\ (sc.op2 = "is_identity" => r.val = ExpectIsId2(sc)))
  /\ pc' = "done"
  /\ UNCHANGED <<sc, A, B, C, R, dA, dB, dC, dR>>

Next == CtorA \/ PrefillA \/ FillA \/ CtorB \/ PrefillB \/ FillB \/ Op \/ CtorC \/ FillC \/ Op2

Spec == Init /\ [][Next]_vars

(* Level B => contract, for every scenario and every step *)
Contract == cok

(* dense meaning tracked by the contract = what the Level-B model reads back *)
Abstraction ==
  /\ pc \in {"prefillA", "fillA", "ctorB", "prefillB", "fillB", "op"} => ReadAll(A) = dA
  /\ pc \in {"prefillB", "fillB", "op"} /\ IsBin(sc) => ReadAll(B) = dB
  /\ pc \in {"ctorC", "fillC", "op2"} => ReadAll(R.mat) = dR
  /\ pc = "op2" /\ IsBin2(sc) => ReadAll(C) = dC

TypeOK ==
  /\ pc \in {"ctorA", "prefillA", "fillA", "ctorB", "prefillB", "fillB", "op", "ctorC", "fillC", "op2", "done"}
  /\ sc.op \in Ops /\ sc.ctor \in Ctors /\ sc.pat \in Pats /\ sc.bpat \in Pats
  /\ sc.op2 \in Ops2 /\ sc.cpat \in Pats /\ (HasOp2(sc) => sc.op \in BinOps \cup ScalarOps)

(* one REPLAY line per finished scenario: the scenario and what the contract expects *)
Emit ==
  pc = "done" =>
    PrintT(<<"REPLAY", ToJson([sc |-> sc,
                               initA |-> InitA(sc), wsA |-> WsA(sc),
                               wsB |-> IF IsBin(sc) THEN WsB(sc) ELSE <<>>,
                               wsC |-> IF IsBin2(sc) THEN WsC(sc) ELSE <<>>,
                               expect |-> [A0 |-> ExpectA0(sc), A1 |-> ExpectA1(sc),
                                           B1 |-> IF IsBin(sc) THEN ExpectB1(sc) ELSE <<>>,
                                           res |-> ExpectRes(sc), panic |-> ExpectPanic(sc),
                                           is_identity |-> ExpectIsId(sc),
                                           specified |-> sc.op # "swap_rows",
                                           res2 |-> IF HasOp2(sc) THEN ExpectRes2(sc, Shape(R.mat)) ELSE <<>>,
                                           panic2 |-> HasOp2(sc) /\ ExpectPanic2(sc, Shape(R.mat)),
                                           is_identity2 |-> HasOp2(sc) /\ ExpectIsId2(sc)]])>>)
=============================================================================

\* C17 quick: sizes 1..3
SPECIFICATION Spec
CONSTANTS
  MaxN = 3
  AllPats <- MC_AllPats
  ScalarPats <- MC_QuickScalarPats
  BinAPats <- MC_QuickBinAPats
  BinBPats <- MC_QuickBinBPats
  Scalars <- MC_Scalars
  TinyBMaxN = 2
  TwoFull = FALSE
INVARIANTS TypeOK Contract Abstraction Emit

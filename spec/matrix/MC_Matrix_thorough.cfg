\* C17 thorough: sizes 1..4, more patterns
SPECIFICATION Spec
CONSTANTS
  MaxN = 4
  AllPats <- MC_AllPats
  ScalarPats <- MC_ThoroughScalarPats
  BinAPats <- MC_ThoroughBinAPats
  BinBPats <- MC_ThoroughBinBPats
  Scalars <- MC_Scalars
  TinyBMaxN = 4
  TwoFull = TRUE
INVARIANTS TypeOK Contract Abstraction Emit

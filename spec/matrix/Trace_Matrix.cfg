\* C17 trace validation: TRACE=<file> in the environment
SPECIFICATION Spec
POSTCONDITION Accepted
CHECK_DEADLOCK FALSE

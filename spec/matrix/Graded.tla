------------------------------- MODULE Graded -------------------------------
(***************************************************************************)
(* The numbers of the matrix model: "graded" binary floating-point values  *)
(*                                                                         *)
(*        m * 2^(80*e)      m an integer, |m| < GHALF,  e a small integer  *)
(*                                                                         *)
(* (the level e = 0 holds the ordinary small integers, e = -1 the "tiny"   *)
(* numbers m * 2^-80, e = 1 the "huge" numbers m * 2^80, ...).  Such a     *)
(* number is carried as ONE integer, its code                              *)
(*                                                                         *)
(*        G(m, e) = m + e * GSTRIDE        (zero is always G(0,0) = 0)     *)
(*                                                                         *)
(* so that a small integer is its own code and everything that is written  *)
(* to / read from JSON stays an integer (TLC cannot read floats).          *)
(*                                                                         *)
(* GAdd / GSub / GMul are the IEEE-754 binary64 operations (round to       *)
(* nearest) on these numbers, and they are EXACT descriptions of what the  *)
(* hardware does as long as |m| < 2^26 and the levels stay within -12..12: *)
(*   * product: (m1*m2) * 2^(80(e1+e2)) is representable (|m1*m2| < 2^53), *)
(*     no rounding;                                                        *)
(*   * sum on one level: (m1+m2) * 2^(80e) is representable, no rounding;  *)
(*   * sum across levels e1 > e2, both operands non-zero:                  *)
(*     |m2 * 2^(80 e2)| < 2^(26-80) * 2^(80 e1) <= 2^-54 * |m1 * 2^(80 e1)|*)
(*     which is less than half the distance from x = m1*2^(80 e1) to       *)
(*     either of its floating-point neighbours (that distance is at least  *)
(*     2^-53 |x|; the minimum is the step from a power of two towards 0),  *)
(*     so round-to-nearest returns the operand of the higher level: the    *)
(*     lower one is absorbed;                                              *)
(*   * a zero operand: x + 0 = x, x * 0 = 0 (the sign of a zero is not     *)
(*     observable through ==, and is not modelled).                        *)
(* The scenarios keep |m| below 10^5 and use the levels -2..2 only.        *)
(***************************************************************************)
EXTENDS Integers

GSTRIDE == 2000000
GHALF   == 1000000

\* level and mantissa of a code (\div is floor division: correct for negative codes)
GExp(x)  == (x + GHALF) \div GSTRIDE
GMant(x) == x - GExp(x) * GSTRIDE

G(m, e) == IF m = 0 THEN 0 ELSE m + e * GSTRIDE

GNeg(x) == G(0 - GMant(x), GExp(x))

GAdd(x, y) ==
  IF x = 0 THEN y
  ELSE IF y = 0 THEN x
  ELSE LET ex == GExp(x)
           ey == GExp(y)
       IN IF ex = ey THEN G(GMant(x) + GMant(y), ex)
          ELSE IF ex > ey THEN x ELSE y          \* the lower level is absorbed

GSub(x, y) == GAdd(x, GNeg(y))

GMul(x, y) == G(GMant(x) * GMant(y), GExp(x) + GExp(y))

\* the scalars / entries used by the scenarios besides the small integers
TINY  == G(1, -1)        \*  2^-80 : non-zero, far below f64::EPSILON, and k + TINY = k for every integer k # 0
NTINY == G(-1, -1)       \* -2^-80
HUGE  == G(1, 1)         \*  2^80  : k + HUGE = HUGE for every small integer k
=============================================================================

--------------------------- MODULE MatrixScenario ---------------------------
(***************************************************************************)
(* What a C17 scenario is and how its parameters determine the concrete    *)
(* calls.  Shared by the exhaustive model (MC_Matrix) and the trace        *)
(* specification (Trace_Matrix), so that both execute the same Level-B     *)
(* actions and evaluate the same Level-A clauses.                          *)
(*                                                                         *)
(* Scenario record sc:                                                     *)
(*   n, ctor, ml, mu     matrix A = ctor(n [, ml, mu] [, init data])       *)
(*   pat                 fill pattern written into A through IndexMut      *)
(*   op                  "read" | "write" | BinOps | ScalarOps |           *)
(*                       "is_identity" | "swap_rows" | "fill"              *)
(*   i, j                write position / rows to swap                     *)
(*   s                   scalar / fill value (a graded number, Graded.tla: *)
(*                       a small integer, or TINY / NTINY / HUGE)          *)
(*   bkind, bml, bmu     storage of the second operand B (binary ops)      *)
(*   bpat                fill pattern of B                                 *)
(*   op2                 "none", or a SECOND operation applied to the      *)
(*                       result R of op: "is_identity" | "write" |         *)
(*                       BinOps (R op2 C) | ScalarOps (scalar s2)          *)
(*   i2, j2, s2          write position / scalar of op2                    *)
(*   ckind, cml, cmu, cpat   the fresh operand C of a binary op2           *)
(*   pf                  0, or a "prefill" value: A (and B) is first       *)
(*                       handed to the public                              *)
(*                       Matrix::fill(pf), which sets the WHOLE backing    *)
(*                       buffer - for Banded storage also the corner cells *)
(*                       of the band buffer that belong to no entry - and  *)
(*                       the pattern is then written into EVERY writable   *)
(*                       entry (zeros where the pattern has none).         *)
(*                       Level A (C17_Fill): the writable entries read pf  *)
(*                       afterwards, the others are unchanged - an         *)
(*                       Identity operand stays the identity; the meaning  *)
(*                       after the writes is fixed by the readable entries *)
(*                       alone, while the Level-B model carries the        *)
(*                       unaddressable cells.                              *)
(* Steps of a scenario: ctorA, [prefillA,] fillA,                          *)
(*                      [ctorB, [prefillB,] fillB,] op,                    *)
(*                      [[ctorC, fillC,] op2].                             *)
(***************************************************************************)
EXTENDS Matrix, MatrixContract

NOWRITE == -1000
WRITEVAL == 77            \* value used by the single extra write

Pats == {"zero", "dist", "eye", "eyex", "eyel", "eyeu", "sq", "tiny", "eyet"}

\* value written at (i,j) by pattern pat (0-based), or NOWRITE
PatVal(pat, n, i, j) ==
  CASE pat = "zero" -> NOWRITE
    [] pat = "dist" -> 1 + i * n + j                                   \* all entries distinct
    [] pat = "sq"   -> (1 + i * n + j) * (1 + i * n + j)               \* distinct, and distinct sums/differences with "dist"
    [] pat = "eye"  -> IF i = j THEN 1 ELSE NOWRITE
    [] pat = "eyex" -> IF i = j THEN (IF i = n - 1 THEN 2 ELSE 1) ELSE NOWRITE
    [] pat = "eyel" -> IF i = j THEN 1 ELSE IF i = n - 1 /\ j = n - 2 THEN 3 ELSE NOWRITE
    [] pat = "eyeu" -> IF i = j THEN 1 ELSE IF i = 0 /\ j = 1 THEN 3 ELSE NOWRITE
    [] pat = "tiny" -> G(1 + i * n + j, -1)                            \* all entries distinct, non-zero, below 2^-75
    [] pat = "eyet" -> IF i = j THEN 1 ELSE IF i = n - 1 /\ j = n - 2 THEN TINY ELSE NOWRITE   \* identity up to 2^-80: NOT an identity

\* the writes of a pattern into a matrix with storage st: row-major over the writable cells;
\* all = TRUE: every writable cell is written (0 where the pattern has no value)
FillWritesX(pat, st, n, all) ==
  LET cells == [x \in 1..(n * n) |-> <<(x - 1) \div n, (x - 1) % n>>]
      Sel(c) == Writable(st, c[1], c[2]) /\ (all \/ PatVal(pat, n, c[1], c[2]) # NOWRITE)
      chosen == SelectSeq(cells, Sel)
      Val(c) == LET v == PatVal(pat, n, c[1], c[2]) IN IF v = NOWRITE THEN 0 ELSE v
  IN [k \in 1..Len(chosen) |-> <<chosen[k][1], chosen[k][2], Val(chosen[k])>>]
FillWrites(pat, st, n) == FillWritesX(pat, st, n, FALSE)

\* data handed to from_vec / diagonal: a ramp (so the constructor alone is distinguishable) for the patterns
\* that keep or overwrite everything, zeros for the identity-like patterns
InitData(ctor, pat, n) ==
  LET len == IF ctor = "from_vec" THEN n * n ELSE IF ctor = "diagonal" THEN n ELSE 0
  IN IF pat \in {"zero", "dist", "sq", "tiny"} THEN [x \in 1..len |-> 40 + x] ELSE [x \in 1..len |-> 0]

\* second operand: canonical constructor of each storage kind
BCtor(bkind) == CASE bkind = "I" -> "identity" [] bkind = "F" -> "zeros" [] bkind = "B" -> "banded"

StA(sc) == CtorStorage(sc.ctor, sc.n, sc.ml, sc.mu)
StB(sc) == CtorStorage(BCtor(sc.bkind), sc.n, sc.bml, sc.bmu)
InitA(sc) == InitData(sc.ctor, sc.pat, sc.n)
HasPf(sc)  == sc.pf # 0
HasPfB(sc) == sc.pf # 0
WsA(sc) == FillWritesX(sc.pat, StA(sc), sc.n, HasPf(sc))
WsB(sc) == FillWritesX(sc.bpat, StB(sc), sc.n, HasPfB(sc))

StC(sc) == CtorStorage(BCtor(sc.ckind), sc.n, sc.cml, sc.cmu)
WsC(sc) == FillWrites(sc.cpat, StC(sc), sc.n)
HasOp2(sc) == sc.op2 # "none"
IsBin2(sc) == sc.op2 \in BinOps
Ops2 == {"none", "is_identity", "write"} \cup BinOps \cup ScalarOps

IsBin(sc) == sc.op \in BinOps
IsScalar(sc) == sc.op \in ScalarOps
Ops == {"read", "write", "is_identity", "swap_rows", "fill"} \cup BinOps \cup ScalarOps

(* ---- Level-B execution of the steps (pure operators on model state) ---- *)
StepCtorA(sc) == DoCtor(sc.ctor, sc.n, sc.ml, sc.mu, InitA(sc))
StepPrefillA(sc, A) == [panic |-> FALSE, mat |-> Fill(A, sc.pf)]
StepPrefillB(sc, B) == [panic |-> FALSE, mat |-> Fill(B, sc.pf)]
StepFillA(sc, A) == DoWrites(A, WsA(sc))
StepCtorB(sc) == DoCtor(BCtor(sc.bkind), sc.n, sc.bml, sc.bmu, <<>>)
StepFillB(sc, B) == DoWrites(B, WsB(sc))
\* result of the op step: [panic, mat (result / target matrix), val (is_identity)]
StepOp(sc, A, B) ==
  CASE sc.op = "read" -> [panic |-> FALSE, mat |-> A, val |-> FALSE]
    [] sc.op = "write" -> LET r == Write(A, sc.i, sc.j, WRITEVAL) IN [panic |-> r.panic, mat |-> r.mat, val |-> FALSE]
    [] sc.op \in BinOps -> LET r == DoBin(sc.op, A, B) IN [panic |-> r.panic, mat |-> r.mat, val |-> FALSE]
    [] sc.op \in ScalarOps -> LET r == DoScalar(sc.op, A, sc.s) IN [panic |-> r.panic, mat |-> r.mat, val |-> FALSE]
    [] sc.op = "is_identity" -> LET r == IsIdentity(A) IN [panic |-> r.panic, mat |-> A, val |-> r.val]
    [] sc.op = "swap_rows" -> LET r == SwapRows(A, sc.i, sc.j) IN [panic |-> r.panic, mat |-> r.mat, val |-> FALSE]
    [] sc.op = "fill" -> [panic |-> FALSE, mat |-> Fill(A, sc.s), val |-> FALSE]

StepCtorC(sc) == DoCtor(BCtor(sc.ckind), sc.n, sc.cml, sc.cmu, <<>>)
StepFillC(sc, C) == DoWrites(C, WsC(sc))
\* second operation, on the result R of the first one
StepOp2(sc, R, C) ==
  CASE sc.op2 = "write" -> LET r == Write(R, sc.i2, sc.j2, WRITEVAL) IN [panic |-> r.panic, mat |-> r.mat, val |-> FALSE]
    [] sc.op2 \in BinOps -> LET r == DoBin(sc.op2, R, C) IN [panic |-> r.panic, mat |-> r.mat, val |-> FALSE]
    [] sc.op2 \in ScalarOps -> LET r == DoScalar(sc.op2, R, sc.s2) IN [panic |-> r.panic, mat |-> r.mat, val |-> FALSE]
    [] sc.op2 = "is_identity" -> LET r == IsIdentity(R) IN [panic |-> r.panic, mat |-> R, val |-> r.val]

(* ---- Level-A: the clause of each step, on observed values -------------- *)
ClauseCtorC(sc, obsPanic, obs) == C17_Ctor(BCtor(sc.ckind), sc.n, <<>>, obsPanic, obs)
ClauseFillC(sc, dC, obsPanic, obs) == C17_Writes(StC(sc), dC, WsC(sc), obsPanic, obs)
\* dR: dense meaning of the first result as observed; stR: the storage (kind, ml, mu) that result advertises
ClauseOp2(sc, dR, dC, stR, obsPanic, obs, obsVal) ==
  CASE sc.op2 = "write" -> C17_Write(stR, dR, sc.i2, sc.j2, WRITEVAL, obsPanic, obs)
    [] sc.op2 \in BinOps -> C17_Bin(sc.op2, dR, dC, obsPanic, obs)
    [] sc.op2 \in ScalarOps -> C17_Scalar(sc.op2, dR, sc.s2, obsPanic, obs)
    [] sc.op2 = "is_identity" -> C17_IsIdentity(dR, obsPanic, obsVal)
    [] OTHER -> TRUE
ClauseName2(sc, stR) ==
  CASE sc.op2 = "write" -> IF Writable(stR, sc.i2, sc.j2) THEN "write_in_band_after_op" ELSE "write_out_of_band_after_op"
    [] sc.op2 \in BinOps -> "binop_after_op"
    [] sc.op2 \in ScalarOps -> "scalar_after_op"
    [] sc.op2 = "is_identity" -> "is_identity_after_op"
    [] OTHER -> "none"

\* dA, dB: dense meanings before the step (as observed); obs*: what came back
ClauseCtorA(sc, obsPanic, obs) == C17_Ctor(sc.ctor, sc.n, InitA(sc), obsPanic, obs)
ClauseFillA(sc, dA, obsPanic, obs) == C17_Writes(StA(sc), dA, WsA(sc), obsPanic, obs)
ClauseCtorB(sc, obsPanic, obs) == C17_Ctor(BCtor(sc.bkind), sc.n, <<>>, obsPanic, obs)
ClauseFillB(sc, dB, obsPanic, obs) == C17_Writes(StB(sc), dB, WsB(sc), obsPanic, obs)
ClausePrefillA(sc, dA, obsPanic, obs) == C17_Fill(StA(sc), dA, sc.pf, obsPanic, obs)
ClausePrefillB(sc, dB, obsPanic, obs) == C17_Fill(StB(sc), dB, sc.pf, obsPanic, obs)
\* swap_rows is not part of C17's statement: no clause (Level-B comparison only, reported as drift)
ClauseOp(sc, dA, dB, obsPanic, obs, obsVal) ==
  CASE sc.op = "read" -> ~obsPanic /\ C17_Read(dA, obs)
    [] sc.op = "write" -> C17_Write(StA(sc), dA, sc.i, sc.j, WRITEVAL, obsPanic, obs)
    [] sc.op \in BinOps -> C17_Bin(sc.op, dA, dB, obsPanic, obs)
    [] sc.op \in ScalarOps -> C17_Scalar(sc.op, dA, sc.s, obsPanic, obs)
    [] sc.op = "is_identity" -> C17_IsIdentity(dA, obsPanic, obsVal)
    [] sc.op = "fill" -> C17_Fill(StA(sc), dA, sc.s, obsPanic, obs)
    [] OTHER -> TRUE

ClauseName(sc) ==
  CASE sc.op = "read" -> "read"
    [] sc.op = "write" -> IF Writable(StA(sc), sc.i, sc.j) THEN "write_in_band" ELSE "write_out_of_band"
    [] sc.op \in BinOps -> "binop"
    [] sc.op \in ScalarOps -> "scalar"
    [] sc.op = "is_identity" -> "is_identity"
    [] sc.op = "fill" -> "fill"
    [] OTHER -> "none"

(* ---- expected results of a scenario by the contract (for the REPLAY record) ---- *)
ExpectA0(sc) == CtorMeaning(sc.ctor, sc.n, InitA(sc))
ExpectAf(sc) == IF HasPf(sc) THEN FillMeaning(StA(sc), ExpectA0(sc), sc.pf) ELSE ExpectA0(sc)
ExpectA1(sc) == WritesMeaning(ExpectAf(sc), WsA(sc), 1)
ExpectB0(sc) == CtorMeaning(BCtor(sc.bkind), sc.n, <<>>)
ExpectBf(sc) == IF HasPfB(sc) THEN FillMeaning(StB(sc), ExpectB0(sc), sc.pf) ELSE ExpectB0(sc)
ExpectB1(sc) == WritesMeaning(ExpectBf(sc), WsB(sc), 1)
ExpectPanic(sc) == sc.op = "write" /\ ~Writable(StA(sc), sc.i, sc.j)
ExpectRes(sc) ==
  CASE sc.op = "write" -> IF ExpectPanic(sc) THEN ExpectA1(sc) ELSE WriteMeaning(ExpectA1(sc), sc.i, sc.j, WRITEVAL)
    [] sc.op \in BinOps -> BinMeaning(sc.op, ExpectA1(sc), ExpectB1(sc))
    [] sc.op \in ScalarOps -> ScalarMeaning(sc.op, ExpectA1(sc), sc.s)
    [] sc.op = "fill" -> FillMeaning(StA(sc), ExpectA1(sc), sc.s)
    [] OTHER -> ExpectA1(sc)          \* read / is_identity; swap_rows: not specified by C17 (A before the op)
ExpectIsId(sc) == ExpectA1(sc) = EyeD(sc.n)
ExpectC1(sc) == WritesMeaning(CtorMeaning(BCtor(sc.ckind), sc.n, <<>>), WsC(sc), 1)
\* second step; stR = storage of the first result (an implementation choice, taken from the Level-B model / the code)
ExpectPanic2(sc, stR) == sc.op2 = "write" /\ ~Writable(stR, sc.i2, sc.j2)
ExpectRes2(sc, stR) ==
  CASE sc.op2 = "write" -> IF ExpectPanic2(sc, stR) THEN ExpectRes(sc) ELSE WriteMeaning(ExpectRes(sc), sc.i2, sc.j2, WRITEVAL)
    [] sc.op2 \in BinOps -> BinMeaning(sc.op2, ExpectRes(sc), ExpectC1(sc))
    [] sc.op2 \in ScalarOps -> ScalarMeaning(sc.op2, ExpectRes(sc), sc.s2)
    [] OTHER -> ExpectRes(sc)
ExpectIsId2(sc) == ExpectRes(sc) = EyeD(sc.n)
=============================================================================

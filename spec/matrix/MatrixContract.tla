--------------------------- MODULE MatrixContract ---------------------------
(***************************************************************************)
(* Level A (contract) for property C17: the storage-independent meaning    *)
(* of a square Matrix is a dense function (i,j) -> number, represented as  *)
(* an n x n sequence of sequences (1-based: d[i+1][j+1] is entry (i,j)).   *)
(* The numbers are the graded floating-point values of Graded.tla (small   *)
(* integers, and m * 2^(80e): tiny and huge values, carried as integer     *)
(* codes); "the same operation on the dense equivalents" is the entrywise  *)
(* IEEE operation, which GAdd / GSub / GMul give exactly.  In particular   *)
(* a scalar counts as zero only if it IS zero: 0 + TINY = TINY.            *)
(*                                                                         *)
(* Nothing in this module mentions `data`, the band index map or the       *)
(* [1,0] backing of Identity.  The only storage facts used are the ones    *)
(* the public API documents: which constructor yields which storage kind   *)
(* and band (needed to say which writes are "inside the band").            *)
(*                                                                         *)
(* The C17_* operators are evaluated (a) by TLC on the Level-B model       *)
(* (MC_Matrix: Level B => contract) and (b) by TLC on the values the real  *)
(* code returned (Trace_Matrix); only (b) can produce a VIOLATION.         *)
(***************************************************************************)
EXTENDS Integers, Sequences, Graded

DenseOf(n, F(_, _)) == [i \in 1..n |-> [j \in 1..n |-> F(i - 1, j - 1)]]
ZeroD(n) == [i \in 1..n |-> [j \in 1..n |-> 0]]
EyeD(n)  == [i \in 1..n |-> [j \in 1..n |-> IF i = j THEN 1 ELSE 0]]
Dim(d) == Len(d)

IsDense(d, n) == /\ DOMAIN d = 1..n
                 /\ \A i \in 1..n : DOMAIN d[i] = 1..n

(* ---- constructors: meaning and documented storage ---------------------- *)
\* init: the vector handed to from_vec (row-major) / diagonal
CtorMeaning(ctor, n, init) ==
  CASE ctor \in {"identity", "from_storage_I"} -> EyeD(n)
    [] ctor = "from_vec" -> [i \in 1..n |-> [j \in 1..n |-> init[(i - 1) * n + j]]]
    [] ctor = "diagonal" -> [i \in 1..n |-> [j \in 1..n |-> IF i = j THEN init[i] ELSE 0]]
    [] OTHER -> ZeroD(n)

\* storage kind and band as documented for each constructor ("I" / "F" / "B" with ml, mu)
CtorStorage(ctor, n, ml, mu) ==
  CASE ctor \in {"identity", "from_storage_I"} -> [kind |-> "I", ml |-> 0, mu |-> 0]
    [] ctor \in {"from_vec", "from_storage_F", "full", "square", "zeros"} -> [kind |-> "F", ml |-> 0, mu |-> 0]
    [] ctor \in {"from_storage_B", "banded"} -> [kind |-> "B", ml |-> ml, mu |-> mu]
    [] ctor = "diagonal" -> [kind |-> "B", ml |-> 0, mu |-> 0]
    [] ctor = "lower_triangular" -> [kind |-> "B", ml |-> (IF n = 0 THEN 0 ELSE n - 1), mu |-> 0]
    [] ctor = "upper_triangular" -> [kind |-> "B", ml |-> 0, mu |-> (IF n = 0 THEN 0 ELSE n - 1)]

\* may entry (i,j) (0-based) of a matrix with that storage be written?
Writable(st, i, j) ==
  \/ st.kind = "F"
  \/ st.kind = "B" /\ (i - j) >= -st.mu /\ (i - j) <= st.ml

(* ---- meanings of the operations ---------------------------------------- *)
WriteMeaning(d, i, j, v) == [d EXCEPT ![i + 1][j + 1] = v]

RECURSIVE WritesMeaning(_, _, _)
WritesMeaning(d, ws, k) == IF k > Len(ws) THEN d
                           ELSE WritesMeaning(WriteMeaning(d, ws[k][1], ws[k][2], ws[k][3]), ws, k + 1)

\* fill(v) is a bulk write: every writable entry becomes v, every other entry is unchanged (nothing at all for Identity)
FillMeaning(st, d, v) == [i \in 1..Len(d) |-> [j \in 1..Len(d) |-> IF Writable(st, i - 1, j - 1) THEN v ELSE d[i][j]]]

BinMeaning(op, da, db) ==
  [i \in 1..Len(da) |-> [j \in 1..Len(da) |->
     IF op \in {"add", "add_assign"} THEN GAdd(da[i][j], db[i][j]) ELSE GSub(da[i][j], db[i][j])]]

ScalarMeaning(op, d, s) ==
  [i \in 1..Len(d) |-> [j \in 1..Len(d) |->
     CASE op = "component_add" -> GAdd(d[i][j], s)
       [] op = "component_sub" -> GSub(d[i][j], s)
       [] op \in {"component_mul", "component_mul_mut"} -> GMul(d[i][j], s)]]

(* ---- C17 clauses (obs* = what an implementation returned) -------------- *)
\* every public constructor yields a matrix all of whose entries can be read, with the constructor's meaning
C17_Ctor(ctor, n, init, obsPanic, obs) == ~obsPanic /\ obs = CtorMeaning(ctor, n, init)

\* reading any (i,j) gives the dense meaning
C17_Read(d, obs) == obs = d

\* a sequence of writes, all inside the band of a matrix with storage st, updates exactly the addressed entries
C17_Writes(st, dPre, ws, obsPanic, obsPost) ==
  (\A k \in 1..Len(ws) : Writable(st, ws[k][1], ws[k][2]))
     => (~obsPanic /\ obsPost = WritesMeaning(dPre, ws, 1))

\* a single write: inside the band exactly the addressed entry changes; outside the band, or into an
\* Identity matrix: panic and the matrix is unchanged
C17_Write(st, dPre, i, j, v, obsPanic, obsPost) ==
  IF Writable(st, i, j) THEN ~obsPanic /\ obsPost = WriteMeaning(dPre, i, j, v)
                        ELSE obsPanic /\ obsPost = dPre

\* fill(v) on a matrix with storage st: exactly the writable entries read v afterwards; in particular an Identity
\* matrix still denotes the identity (and must still say so: C17_IsIdentity / C17_Bin / C17_Scalar on what it reads as)
C17_Fill(st, dPre, v, obsPanic, obsPost) == ~obsPanic /\ obsPost = FillMeaning(st, dPre, v)

\* a (+|-) b of any storage mix is entrywise on the dense meanings
C17_Bin(op, da, db, obsPanic, obsRes) == ~obsPanic /\ obsRes = BinMeaning(op, da, db)

\* a (+|-|*) scalar is entrywise on the dense meaning
C17_Scalar(op, d, s, obsPanic, obsRes) == ~obsPanic /\ obsRes = ScalarMeaning(op, d, s)

\* is_identity agrees with the dense definition
C17_IsIdentity(d, obsPanic, obsVal) == ~obsPanic /\ (obsVal <=> d = EyeD(Len(d)))
=============================================================================

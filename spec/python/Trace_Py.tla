------------------------------ MODULE Trace_Py ------------------------------
(***************************************************************************)
(* C20 -- trace specification over pairs (Rust record, Python record).     *)
(*                                                                         *)
(* One NDJSON line per case (written by checks/c20.py from the outputs of  *)
(* harness/src/bin/py_ref.rs and harness/py/c20_driver.py):                *)
(*   [id, c |-> case description, r |-> what ivp::solve::solve_ivp did,    *)
(*        p |-> what ivp.solve_ivp (the extension module) returned]        *)
(* Floats are 16-hex-digit tokens of the raw bits; equality of tokens is   *)
(* bit identity.  Every Level-A clause of C20 is evaluated here, by TLC,   *)
(* on what the real code returned; a failing clause prints a VIOL line and *)
(* the run goes on (one TLC run reports everything).  Level-B expectations *)
(* (PyLayer: njev = 0 for a constant Jacobian, message = Debug name of the *)
(* status, greedy grouping, call count njev*(ngroups+1)) that fail while   *)
(* Level A holds print DRIFT lines.  Acceptance of the whole trace is by   *)
(* POSTCONDITION on the diameter.                                          *)
(***************************************************************************)
EXTENDS Integers, Sequences, FiniteSets, TLC, TLCExt, Json, IOUtils

CONSTANT StrictEmpty     \* TRUE = the statement read literally: shape (n, 0) for m = 0 and sol([]) of shape (n, 0)
                         \* (PyLayer: contract operators with strict = TRUE; the code's departure there is a known finding)

\* The file is parsed ONCE (in Init) and kept in TLC register 1 of the single worker: a definition `Rec == ndJson...`
\* would be re-evaluated (the whole file re-parsed) at every use.
Load == ndJsonDeserialize(IOEnv.TRACE)
Rec == TLCGet(1)
NLines == TLCGet(2)

VARIABLE l
vars == <<l>>

Viol(clause, x, detail) == PrintT(<<"VIOL", "C20", clause, x.id, detail>>)
Drift(what, x, detail) == PrintT(<<"DRIFT", "C20", what, x.id, detail>>)
Note(what, x) == PrintT(<<"COVER", "C20", what, x.id>>)

(***************************************************************************)
(* Level A helpers                                                         *)
(***************************************************************************)
StatusInt(s) == CASE s = "Success" -> 0 [] s = "UserInterrupt" -> 1 [] OTHER -> -1

IsGrid(v, rows, cols) == Len(v) = rows /\ \A k \in 1..rows : Len(v[k]) = cols

\* y : shape (n, m) and Y[j][i] = y[i][j]
YShapeOk(n, m, p) == (m >= 1 \/ StrictEmpty) => p.y.shape = <<n, m>>
YOk(n, m, r, p) ==
  m >= 1 => /\ IsGrid(p.y.v, n, m)
            /\ \A j \in 1..n : \A i \in 1..m : p.y.v[j][i] = r.y[i][j]

FirstBad(n, m, r, p) ==
  IF ~IsGrid(p.y.v, n, m) THEN <<"not an n x m grid">>
  ELSE LET bad == {b \in (1..n) \X (1..m) : p.y.v[b[1]][b[2]] # r.y[b[2]][b[1]]}
       IN IF bad = {} THEN <<>> ELSE LET b == CHOOSE b \in bad : TRUE IN <<b[1], b[2], p.y.v[b[1]][b[2]], r.y[b[2]][b[1]]>>

TOk(m, r, p) == p.t.shape = <<m>> /\ p.t.v = r.t

\* events: per event a (k,) array of times and a (k, n) array of states
EvOk(c, n, r, p) ==
  IF c.nevents = 0 THEN ~p.has_events
  ELSE /\ p.has_events
       /\ Len(p.t_events) = c.nevents /\ Len(p.y_events) = c.nevents
       /\ Len(r.t_events) = c.nevents
       /\ \A e \in 1..c.nevents :
            LET k == Len(r.t_events[e]) IN
            /\ p.t_events[e].shape = <<k>>
            /\ p.t_events[e].v = r.t_events[e]
            /\ IF k = 0 THEN p.y_events[e].shape[1] = 0
               ELSE /\ p.y_events[e].shape = <<k, n>>
                    /\ IsGrid(p.y_events[e].v, k, n)
                    /\ \A i \in 1..k : \A j \in 1..n : p.y_events[e].v[i][j] = r.y_events[e][i][j]

StatusOk(r, p) ==
  /\ p.status = StatusInt(r.status)
  /\ (p.success <=> p.status >= 0)
  /\ Len(p.message) > 0
  /\ p.getitem_ok

\* counters: nfev / nlu always; njev unless the Jacobian is a constant matrix (then 0, as SciPy, or the solver's count)
CountersOk(c, r, p) ==
  /\ p.nfev = r.nfev /\ p.nlu = r.nlu
  /\ IF c.jac = "const" THEN p.njev \in {0, r.njev} ELSE p.njev = r.njev

\* without a sparsity pattern the user's functions are called exactly as often as by the Rust API; a pattern may change the
\* number of right-hand-side evaluations only when it is USED, i.e. when no jac is given (PyLayer JacSourceContract: with
\* jac given the pattern is not used at all, so nothing changes)
CallsOk(c, r, p) ==
  /\ ((~c.has_sparsity \/ c.jac # "none") => p.calls = r.calls)
  /\ (c.jac = "callable" => p.jcalls = r.jcalls)
  /\ p.ecalls = r.ecalls * c.nevents        \* the Rust trait evaluates all events in one call

\* a callable jac IS called whenever the solver asked for a Jacobian (with or without a jac_sparsity pattern next to it)
JacCalledOk(c, r, p) == (c.jac = "callable" /\ r.jcalls > 0) => p.jcalls > 0

\* sol: present iff requested; (n,) per scalar probe; equal to Solution::sol inside the covered span; never raises outside
NProbes(c) == Len(c.probes) + Len(c.probes_out)
SolPresenceOk(c, p) == p.has_sol <=> c.dense
SolScalarOk(c, n, r, p) ==
  c.dense =>
    /\ Len(p.sol) = NProbes(c) /\ Len(r.sol) = NProbes(c)
    /\ \A q \in 1..NProbes(c) :
         /\ p.sol[q].raised = ""
         /\ p.sol[q].shape = <<n>>
         /\ (r.sol[q].inside => p.sol[q].v = r.sol[q].v)
SolArrayOk(c, n, p, a) ==
  (c.dense /\ NProbes(c) >= 1) =>
    /\ a.raised = ""
    /\ a.shape = <<n, NProbes(c)>>
    /\ IsGrid(a.v, n, NProbes(c))
    /\ \A j \in 1..n : \A q \in 1..NProbes(c) :
         (p.sol[q].raised = "" /\ Len(p.sol[q].v) = n) => a.v[j][q] = p.sol[q].v[j]

\* sol AT the reported times (PyLayer SolSegContract: at an accepted step end the step the Rust Solution::sol uses answers):
\* scalar calls sol(t[q]) and one array call sol(t), token for token equal to Solution::sol(t[q]) wherever the Rust API answers
SolStepsScalarOk(c, n, m, r, p) ==
  (c.dense /\ c.probe_steps) =>
    /\ Len(p.sol_steps) = m /\ Len(r.sol_steps) = m
    /\ \A q \in 1..m :
         /\ p.sol_steps[q].raised = ""
         /\ p.sol_steps[q].shape = <<n>>
         /\ (r.sol_steps[q].inside => p.sol_steps[q].v = r.sol_steps[q].v)
SolStepsArrayOk(c, n, m, r, p) ==
  (c.dense /\ c.probe_steps /\ m >= 1) =>
    /\ p.sol_steps_nd.raised = ""
    /\ p.sol_steps_nd.shape = <<n, m>>
    /\ IsGrid(p.sol_steps_nd.v, n, m)
    /\ \A q \in 1..m : r.sol_steps[q].inside => \A j \in 1..n : p.sol_steps_nd.v[j][q] = r.sol_steps[q].v[j]
StepsBad(c, n, m, r, p) ==
  IF Len(p.sol_steps) # m \/ Len(r.sol_steps) # m THEN <<"lengths", Len(p.sol_steps), Len(r.sol_steps), m>>
  ELSE LET bad == {q \in 1..m : p.sol_steps[q].raised # "" \/ (r.sol_steps[q].inside /\ p.sol_steps[q].v # r.sol_steps[q].v)}
       IN IF bad = {} THEN <<"array call", p.sol_steps_nd.shape, p.sol_steps_nd.raised>>
          ELSE LET q == CHOOSE q \in bad : \A z \in bad : q <= z
               IN <<"scalar call", Cardinality(bad), m, q, p.sol_steps[q].t, p.sol_steps[q].v, r.sol_steps[q].v>>

\* args reach fun, events and jac: each saw exactly the tuple that was passed
ArgsOk(c, p) ==
  c.use_args =>
    /\ p.fun_args = <<c.params>>
    /\ (p.ecalls > 0 => p.ev_args = <<c.params>>)
    /\ (p.jcalls > 0 => p.jac_args = <<c.params>>)

\* sparsity: columns perturbed together never share a declared row; every column that has declared rows is perturbed exactly once
PatRows(pat, col) == {row \in 1..pat.n : pat.rows[row][col] = 1}
GroupsOk(pat, seen) ==
  /\ \A g \in 1..Len(seen) : \A a \in 1..Len(seen[g]) : \A b \in 1..Len(seen[g]) :
        a # b => PatRows(pat, seen[g][a]) \cap PatRows(pat, seen[g][b]) = {}
  /\ \A col \in 1..pat.n : PatRows(pat, col) # {} =>
        Cardinality({g \in 1..Len(seen) : \E a \in 1..Len(seen[g]) : seen[g][a] = col}) = 1

\* event LISTS (PyLayer machine evlist; cases of class ev-list2 / ev-list3): the Rust run is configured PER EVENT from what
\* EvListContract demands for that event function's own attributes, so the clauses "events" / "status" / "t" / "y" above state
\* that every event function got its own configuration.  Scenario adequacy, measured by py_ref on the Rust API (r.census[e] =
\* <<rising, falling>> crossings of event function e when no event is terminal): every event function is crossed in both
\* directions inside the span -- otherwise a wrong direction or terminal flag on it could go unnoticed.  An inadequate
\* scenario is a problem of the check (tool error), never a verdict about the code.
Adequate(r) == \A e \in 1..Len(r.census) : r.census[e][1] >= 1 /\ r.census[e][2] >= 1

\* Level B: the greedy grouping of PyLayer (groups numbered from 0, perturbed in order)
ModelGroups(pat) == [g \in 1..pat.ngroups |-> {col \in 1..pat.n : pat.groups[col] = g - 1}]
SeenSets(seen) == [g \in 1..Len(seen) |-> {seen[g][a] : a \in 1..Len(seen[g])}]

(***************************************************************************)
(* One line                                                                *)
(***************************************************************************)
Clauses(x) ==
  LET c == x.c  r == x.r  p == x.p  n == c.n  m == r.m IN
  << <<"t", TOk(m, r, p), [m |-> m, got_shape |-> p.t.shape]>>,
     <<"yshape", YShapeOk(n, m, p), [want |-> <<n, m>>, got |-> p.y.shape]>>,
     <<"y", YShapeOk(n, m, p) => YOk(n, m, r, p), [n |-> n, m |-> m, first_mismatch_j_i |-> FirstBad(n, m, r, p)]>>,
     <<"dtype", p.y_dtype = "float64", p.y_dtype>>,
     <<"events", EvOk(c, n, r, p), [has_events |-> p.has_events, rust_t |-> r.t_events, py_t |-> p.t_events, py_y_shapes |-> [e \in 1..Len(p.y_events) |-> p.y_events[e].shape]]>>,
     <<"status", StatusOk(r, p), [rust |-> r.status, status |-> p.status, success |-> p.success, message |-> p.message]>>,
     <<"counters", CountersOk(c, r, p), [rust |-> <<r.nfev, r.njev, r.nlu>>, py |-> <<p.nfev, p.njev, p.nlu>>]>>,
     <<"calls", CallsOk(c, r, p), [rust |-> <<r.calls, r.jcalls, r.ecalls>>, py |-> <<p.calls, p.jcalls, p.ecalls>>]>>,
     <<"jac-called", JacCalledOk(c, r, p), [rust_jcalls |-> r.jcalls, py_jcalls |-> p.jcalls, has_sparsity |-> c.has_sparsity]>>,
     <<"sol-presence", SolPresenceOk(c, p), [dense |-> c.dense, has_sol |-> p.has_sol]>>,
     <<"sol", SolPresenceOk(c, p) => SolScalarOk(c, n, r, p), [rust |-> r.sol, py |-> p.sol]>>,
     <<"solshape", (SolPresenceOk(c, p) /\ SolScalarOk(c, n, r, p)) => (SolArrayOk(c, n, p, p.sol_list) /\ SolArrayOk(c, n, p, p.sol_nd)),
       [want |-> <<n, NProbes(c)>>, list_shape |-> p.sol_list.shape, nd_shape |-> p.sol_nd.shape, list_raised |-> p.sol_list.raised]>>,
     <<"sol-steps", SolPresenceOk(c, p) => (SolStepsScalarOk(c, n, m, r, p) /\ SolStepsArrayOk(c, n, m, r, p)),
       [mismatching_of_m_first |-> StepsBad(c, n, m, r, p)]>>,
     <<"solshape-k0", (c.probe_empty /\ p.has_sol /\ StrictEmpty) => (p.sol_empty.raised = "" /\ p.sol_empty.shape = <<n, 0>>),
       [want |-> <<n, 0>>, got |-> p.sol_empty]>>,
     <<"args", ArgsOk(c, p), [want |-> c.params, fun |-> p.fun_args, ev |-> p.ev_args, jac |-> p.jac_args]>> >>

CheckBoth(x) ==
  LET c == x.c  r == x.r  p == x.p
      cl == Clauses(x)
      allok == \A k \in 1..Len(cl) : cl[k][2]
  IN /\ IF c.doc
        THEN \A k \in 1..Len(cl) : cl[k][2] \/ Viol(cl[k][1], x, cl[k][3])
        ELSE allok \/ Drift("undocumented-option", x, [method |-> c.method, class |-> c.class,
                                                       failing |-> {cl[k][1] : k \in {kk \in 1..Len(cl) : ~cl[kk][2]}}])
     \* sparsity clauses
     /\ (c.kind = "grp" =>
           LET seen == p.groups_seen
               ok == GroupsOk(c.pat, seen)
           IN /\ ok \/ Viol("groups", x, [pattern |-> c.pat.rows, perturbed_together |-> seen])
              /\ (ok /\ SeenSets(seen) # ModelGroups(c.pat)) => Drift("grouping", x, [model |-> c.pat.groups, seen |-> seen]))
     \* Level B drift
     /\ (allok /\ c.jac = "const" /\ p.njev # 0) => Drift("njev-const", x, p.njev)
     /\ (allok /\ p.message # r.status) => Drift("message", x, p.message)
     /\ (allok /\ c.has_sparsity /\ c.jac = "none" /\ p.calls # r.calls - r.njev * (c.n + 1) + r.njev * (c.pat.ngroups + 1))
           => Drift("sparse-calls", x, [py |-> p.calls, rust |-> r.calls, njev |-> r.njev, ngroups |-> c.pat.ngroups])
     /\ (~StrictEmpty /\ r.m = 0 /\ p.y.shape # <<c.n, 0>>) => Drift("empty-shape", x, p.y.shape)
     \* coverage notes (which contract antecedents the real traces exercised)
     /\ ((c.dense /\ c.probe_steps /\ r.m >= 3 /\ ~c.has_t_eval) => Note("sol-at-step-ends", x))
     /\ ((c.has_sparsity /\ c.jac # "none") => Note("jac-with-pattern", x))
     /\ ((c.has_sparsity /\ c.jac = "none" /\ p.calls # r.calls) => Note("pattern-changed-evaluation-count", x))
     /\ (r.status # "Success" => Note(r.status, x))
     /\ ((\E e \in 1..Len(r.t_events) : Len(r.t_events[e]) > 0) => Note("event-found", x))

CheckPair(x) ==
  LET r == x.r  p == x.p IN
  IF r.ok /\ p.ok THEN CheckBoth(x)
  ELSE IF ~r.ok /\ ~p.ok THEN Note("both-fail", x)           \* Rust Err / panic  <=>  Python exception
  ELSE IF x.c.doc THEN Viol("raises", x, [rust_ok |-> r.ok, rust |-> r.msg, py_ok |-> p.ok, py_exc |-> p.exc, py_msg |-> p.msg])
  ELSE Drift("undocumented-option", x, [rust_ok |-> r.ok, py_ok |-> p.ok, py_exc |-> p.exc])

\* scenario adequacy of the jac-return-container cases: the sparse containers the callable jac returned stored at least two
\* different patterns during the run (otherwise entries left over from an earlier call could not show)
PatternChangeSeen(x) == (x.c.want_pattern_change /\ x.p.ok) => x.p.jac_patterns >= 2

CheckLine(x) ==
  /\ PatternChangeSeen(x) \/ PrintT(<<"INADEQUATE", "C20", x.id, "jac stored pattern never changed", x.p.jac_patterns>>)
  /\ (x.c.want_pattern_change /\ x.p.ok) => Note("jac-sparse-return-pattern-changed", x)
  /\ IF Adequate(x.r) THEN (Len(x.r.census) = 0 \/ Note("evlist-both-directions", x))
                      ELSE PrintT(<<"INADEQUATE", "C20", x.id, x.r.census>>)
  /\ CheckPair(x)

Init == /\ LET all == Load IN TLCSet(1, all) /\ TLCSet(2, Len(all))
        /\ l = 1
\* `CheckLine(..) = TRUE` makes TLC evaluate the whole check as ONE state-level expression: written as a bare conjunct,
\* every `ok \/ Viol(..)` inside would be an action-level disjunction, i.e. a nondeterministic branch that TLC explores
\* (printing the VIOL line although ok holds, and doubling the work at every clause).
Step == l <= NLines /\ (CheckLine(Rec[l]) = TRUE) /\ l' = l + 1
Next == Step
Spec == Init /\ [][Next]_vars

Accepted ==
  LET d == TLCGet("stats").diameter
      all == Load
  IN IF d = Len(all) + 1 THEN TRUE
     ELSE /\ PrintT(<<"UNMATCHED", d, IF d <= Len(all) THEN all[d].id ELSE "none">>)
          /\ FALSE
=============================================================================

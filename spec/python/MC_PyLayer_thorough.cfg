\* C20 thorough: every 0/1 pattern up to n = 4
SPECIFICATION Spec
CONSTANTS
  MaxN = 4
  MaxM = 4
  PatNs <- MC_PatNs
  PatCodes <- MC_CodesAll
  PatBlocks = 256
INVARIANTS TypeOK Contract Deviations Emit
CHECK_DEADLOCK FALSE

\* C20 quick
SPECIFICATION Spec
CONSTANTS
  MaxN = 4
  MaxM = 4
  PatNs <- MC_PatNs
  PatCodes <- MC_CodesQuick
  PatBlocks = 256
INVARIANTS TypeOK Contract Deviations Emit
CHECK_DEADLOCK FALSE

\* C20 trace validation: TRACE=<file> in the environment
SPECIFICATION Spec
CONSTANTS
  StrictEmpty = TRUE
POSTCONDITION Accepted
CHECK_DEADLOCK FALSE

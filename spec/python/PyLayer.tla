------------------------------ MODULE PyLayer ------------------------------
(***************************************************************************)
(* C20 -- the Python binding of `ivp` (src/python/*.rs).                   *)
(*                                                                         *)
(* Level B ("as coded"): the pure index / option logic of the binding,     *)
(* transcribed action by action:                                           *)
(*   transpose   solve.rs  build_result   y (m x n rows) -> ndarray (n, m) *)
(*   evflat      solve.rs  build_result   y_events[e] (k x n) -> (k, n)    *)
(*   sol         solution.rs __call__ / evaluate_array  -> (n,) / (n, k)   *)
(*   status      solve.rs  build_result   Status -> int, success, message  *)
(*   method      solve.rs  parse_method + options.rs  Method::from(&str)   *)
(*   tol, step   solve.rs  parse_options                                   *)
(*   evattr      solve.rs  parse_events  (terminal / direction attributes) *)
(*   evlist      solve.rs  parse_events  loop over SEVERAL event functions *)
(*   jac         solve.rs / ivp_wrapper.rs  constant | callable | FD       *)
(*   solseg      cont.rs find_segment_extrapolate (OdeSolution.__call__):  *)
(*               which accepted step answers sol(t), step ends included    *)
(*   jacret      ivp_wrapper.rs parse_matrix: container of the matrix a     *)
(*               callable jac returns, written into the REUSED buffer      *)
(*   jacsrc      solve.rs + ivp_wrapper.rs PythonIVP::jac / jac_fd: which     *)
(*               Jacobian source is used when jac and jac_sparsity combine  *)
(*   jacread     ivp_wrapper.rs parse_matrix: strided element reads         *)
(*   spform      sparsity.rs from_python: tocsc() first, else own indices   *)
(*   group       sparsity.rs group_columns + sparse_jacobian_fd            *)
(* Level A (contract, from the statement of C20): the operators named      *)
(* *Contract below.  TLC checks  LevelB => Contract  for every input of    *)
(* the bounded model (the input is chosen in Init, every machine is        *)
(* deterministic afterwards) and prints one REPLAY record per input; the   *)
(* records are replayed into the real extension module / Rust API and the  *)
(* outcome is validated by Trace_Py.tla.                                   *)
(*                                                                         *)
(* Inputs on which the code knowingly departs from SciPy's option          *)
(* semantics (int-valued `terminal`, fractional `direction`, undocumented  *)
(* method names) are part of the Level-B tables with doc = FALSE: the      *)
(* contract is silent about them, the REPLAY record says what the code     *)
(* does.                                                                   *)
(***************************************************************************)
EXTENDS Integers, Sequences, FiniteSets, TLC, Json

CONSTANTS MaxN,              \* state dimension bound of the shape machines (0..MaxN)
          MaxM,              \* number of samples / events / probe times (0..MaxM)
          PatNs,             \* dimensions of the sparsity patterns explored
          PatCodes(_),       \* n -> set of pattern codes explored (code = sum of bit(r,c) * 2^((r-1)*n + c-1))
          PatBlocks          \* the pattern codes are picked in two steps (block = code % PatBlocks, then the code) so
                             \* that TLC has few initial states and the workers share the enumeration

VARIABLES mach, pc, inp, st, out
vars == <<mach, pc, inp, st, out>>

Nothing == [none |-> TRUE]

(***************************************************************************)
(* Inputs                                                                  *)
(***************************************************************************)
Statuses == {"Success", "UserInterrupt", "NeedLargerNMax", "StepSizeTooSmall", "ProbablyStiff",
             "SingularMatrix", "PoorConvergence"}

\* <<spelling, upper-case of the spelling, documented in the binding's docstring>>
MethodNames ==
  { <<"RK45", "RK45", TRUE>>, <<"rk45", "RK45", FALSE>>, <<"Rk45", "RK45", FALSE>>,
    <<"DOPRI5", "DOPRI5", TRUE>>, <<"dopri5", "DOPRI5", FALSE>>,
    <<"RK23", "RK23", TRUE>>, <<"rk23", "RK23", FALSE>>,
    <<"DOP853", "DOP853", TRUE>>, <<"dop853", "DOP853", FALSE>>,
    <<"Radau", "RADAU", TRUE>>, <<"RADAU", "RADAU", FALSE>>, <<"radau", "RADAU", FALSE>>,
    <<"Radau5", "RADAU5", FALSE>>, <<"RADAU5", "RADAU5", FALSE>>,
    <<"BDF", "BDF", TRUE>>, <<"bdf", "BDF", FALSE>>, <<"BDF15", "BDF15", FALSE>>,
    <<"RK4", "RK4", TRUE>>, <<"rk4", "RK4", FALSE>>,
    <<"LSODA", "LSODA", FALSE>>, <<"foo", "FOO", FALSE>>, <<"", "", FALSE>> }

MethodInputs ==
  {[form |-> "str", name |-> x[1], upper |-> x[2], doc |-> x[3]] : x \in MethodNames}
  \cup {[form |-> "none", name |-> "", upper |-> "", doc |-> TRUE],      \* method=None  -> default
        [form |-> "absent", name |-> "", upper |-> "", doc |-> TRUE],    \* not passed   -> default
        [form |-> "nonstr", name |-> "", upper |-> "", doc |-> FALSE]}   \* e.g. method=5

TolForms  == {"absent", "float", "npfloat", "zerod", "list", "tuple", "ndarray"}
StepForms == {"absent", "none", "float", "int", "inf"}
TermForms == {"absent", "false", "true", "int1", "int2"}
\* direction attribute: spelling -> numeric value in halves (so that +-0.5 is representable)
DirForms  == {"absent", "m1", "z", "p1", "m1f", "zf", "p1f", "phalf", "mhalf", "p2"}
DirHalves(d) == CASE d = "absent" -> 0 [] d = "m1" -> -2 [] d = "z" -> 0 [] d = "p1" -> 2 [] d = "m1f" -> -2
                  [] d = "zf" -> 0 [] d = "p1f" -> 2 [] d = "phalf" -> 1 [] d = "mhalf" -> -1 [] d = "p2" -> 4
\* the event-LIST machine (parse_events over a list / tuple of 2..MaxEvents event functions): every function carries its own
\* `terminal` / `direction` attributes or lacks them; forms per function: terminal in {absent, False, True, 1}, direction in
\* {absent, -1, 0, 1, 2}.  (`terminal = 1` and `direction = 2` are outside the docstring: Level B only, as in the evattr table.)
LTermForms == {"absent", "false", "true", "int1"}
LDirForms  == {"absent", "m1", "z", "p1", "p2"}
EvAttrs    == [terminal : LTermForms, direction : LDirForms]
MaxEvents  == 3
\* delivery forms of a Jacobian matrix (constant `jac`, or the value returned by a callable `jac`):
\* C-ordered / Fortran-ordered float64, transposed view of a C array, strided view, integer dtypes
JacMatrixForms == {"ndarray", "fortran", "tview", "strided", "intarray", "intfortran", "int32"}
JacForms  == {"none", "callable"} \cup JacMatrixForms
\* containers of a jac_sparsity pattern: does the object offer tocsc(), and in which compressed layout are its OWN
\* indices / indptr attributes (if any).  scipy's csr / bsr matrices carry indices / indptr too -- in ROW layout.
SpForms ==
  { [form |-> "csc",       tocsc |-> FALSE, own |-> "csc"],     \* duck-typed: shape, indices, indptr (lists)
    [form |-> "csc_np",    tocsc |-> FALSE, own |-> "csc"],     \* the same with int32 ndarrays
    [form |-> "tocsc",     tocsc |-> TRUE,  own |-> "none"],    \* only shape + tocsc()
    [form |-> "coo_tocsc", tocsc |-> TRUE,  own |-> "none"],    \* COO-like: row, col, shape, tocsc()
    [form |-> "csr_tocsc", tocsc |-> TRUE,  own |-> "csr"],     \* CSR-like: indices / indptr in row layout + tocsc()
    [form |-> "sp_csc",    tocsc |-> TRUE,  own |-> "csc"],     \* scipy.sparse matrices (when importable)
    [form |-> "sp_csr",    tocsc |-> TRUE,  own |-> "csr"],
    [form |-> "sp_coo",    tocsc |-> TRUE,  own |-> "none"],
    [form |-> "sp_lil",    tocsc |-> TRUE,  own |-> "none"] }
\* the Jacobian-SOURCE machine: every combination of `jac` (absent, callable, constant array in C / Fortran order) with
\* `jac_sparsity` (absent, or any container of SpForms)
JSrcJacForms == {"none", "callable", "ndarray", "fortran"}
JSrcSpForms  == {"none"} \cup {f.form : f \in SpForms}
\* memory layout of a delivery form: <<offset of element (r, c) in the buffer (0-based r, c), buffer length>>
JacLayouts == {"ndarray", "fortran", "tview", "strided"}
LayoutOffset(layout, n, r, c) ==
  CASE layout = "ndarray" -> r * n + c               \* C order
    [] layout = "fortran" -> c * n + r               \* np.asfortranarray(J)
    [] layout = "tview"   -> c * n + r               \* np.array(J.T, order='C').T : a C buffer holding J^T, viewed transposed
    [] layout = "strided" -> (2 * r) * (2 * n) + 2 * c   \* K[::2, ::2] of a (2n, 2n) C array

PatOf(n, code) == [r \in 1..n |-> [c \in 1..n |-> (code \div (2 ^ ((r - 1) * n + (c - 1)))) % 2]]
BlockInputs == UNION { {[n |-> n, blk |-> b] : b \in {code % PatBlocks : code \in PatCodes(n)}} : n \in PatNs }

(***************************************************************************)
(* Level A -- contract                                                     *)
(***************************************************************************)
\* the Rust solution cell y[i][j] (0-based sample i, component j) is represented by its identity <<i, j>>
Src(i, j) == <<i, j>>

\* `strict` = TRUE is the statement of C20 read literally: shape (n, m) also for m = 0 (and (n, k) for k = 0 below).
\* The code returns (0, 0) resp. (0,) there (known finding); Contract is checked with strict = FALSE and the invariant
\* Deviations states that the strict reading fails on exactly those inputs.
TransposeContract(n, m, o, strict) ==
  (m >= 1 \/ strict) =>
     /\ o.shape = <<n, m>>
     /\ \A j \in 1..n : \A i \in 1..m : o.Y[j][i] = Src(i - 1, j - 1)

EvFlatContract(n, k, o) ==
  IF k = 0 THEN o.len = 0
  ELSE /\ o.shape = <<k, n>>
       /\ \A i \in 1..k : \A j \in 1..n : o.E[i][j] = Src(i - 1, j - 1)

SolContract(n, k, scalar, o, strict) ==
  IF scalar THEN /\ o.shape = <<n>>
                 /\ \A j \in 1..n : o.S[j] = Src(0, j - 1)
  ELSE (k >= 1 \/ strict) =>
         /\ o.shape = <<n, k>>
         /\ \A j \in 1..n : \A i \in 1..k : o.S[j][i] = Src(i - 1, j - 1)

StatusContract(s, o) ==
  /\ (s = "Success" => o.status = 0)
  /\ (s = "UserInterrupt" => o.status = 1)          \* a terminal event stopped the run
  /\ (s \notin {"Success", "UserInterrupt"} => o.status = -1)
  /\ (o.success <=> o.status >= 0)
  /\ Len(o.message) > 0

\* documented names (docstring of solve_ivp_py); None / absent = default RK45 = DOPRI5
MethodContract(i, o) ==
  i.doc =>
    CASE i.form \in {"none", "absent"} -> o = "DOPRI5"
      [] i.name \in {"RK45", "DOPRI5"} -> o = "DOPRI5"
      [] i.name = "RK23" -> o = "RK23"
      [] i.name = "DOP853" -> o = "DOP853"
      [] i.name = "Radau" -> o = "RADAU"
      [] i.name = "BDF" -> o = "BDF"
      [] i.name = "RK4" -> o = "RK4"

\* rtol / atol : float or array_like (SciPy); absent = default
TolContract(form, o) ==
  /\ (form = "absent" => o = "Default")
  /\ (form \in {"float", "npfloat", "zerod"} => o = "Scalar")
  /\ (form \in {"list", "tuple", "ndarray"} => o = "Vector")

StepContract(form, o) ==
  /\ (form \in {"absent", "none"} => o = "None")     \* None = let the solver choose / unbounded
  /\ (form \in {"float", "int", "inf"} => o = "Some")

Sign(x) == IF x > 0 THEN 1 ELSE IF x < 0 THEN -1 ELSE 0
DocTerm(t) == t \in {"absent", "false", "true"}                       \* docstring: "terminal: bool"
DocDir(d)  == d \in {"absent", "m1", "z", "p1", "m1f", "zf", "p1f"}   \* docstring: +1, -1, 0
EvAttrContract(t, d, o) ==
  /\ DocTerm(t) => (o.rterm = (IF t = "true" THEN 1 ELSE 0))
  /\ DocDir(d)  => (o.rdir = Sign(DirHalves(d)))

\* several event functions: the configuration of event i is determined by the attributes of event function i ALONE (an absent
\* attribute means the default -- non-terminal, both directions -- whatever the other functions of the list carry, in any order)
EvListContract(evs, o) ==
  /\ Len(o.cfgs) = Len(evs)
  /\ \A i \in 1..Len(evs) : EvAttrContract(evs[i].terminal, evs[i].direction, o.cfgs[i])

\* a constant or callable Jacobian is honoured; njev of a constant Jacobian is not constrained (SciPy reports 0)
JacContract(form, o) ==
  /\ (form = "none" => o.source = "fd")
  /\ (form \in JacMatrixForms \cup {"callable"} => o.source = "user")

\* sol(t): k accepted steps in integration order, step i covering [X(i), X(i) + H] (ticks; H = 2 * dir).  Inside the covered
\* span the Python sol(t) must use the step the Rust Solution::sol (cont.rs find_segment) uses: the EARLIEST accepted step
\* whose closed interval holds t -- at an interior step end t_i that is the step ENDING there (theta = 1), not the one starting
\* there.  Outside the span the Rust API answers Err and C20 only demands that some step answers (no exception).
SegX(dir, i) == dir * 2 * (i - 1)
SegH(dir) == dir * 2
MinI(a, b) == IF a <= b THEN a ELSE b
MaxI(a, b) == IF a >= b THEN a ELSE b
SegHolds(dir, i, t) == t >= MinI(SegX(dir, i), SegX(dir, i) + SegH(dir)) /\ t <= MaxI(SegX(dir, i), SegX(dir, i) + SegH(dir))
SolSegContract(i, o) ==
  LET t == i.dir * i.s
      inside == i.s >= 0 /\ i.s <= 2 * i.k
  IN /\ o.seg \in 1..i.k
     /\ inside => (SegHolds(i.dir, o.seg, t) /\ \A j \in 1..(o.seg - 1) : ~SegHolds(i.dir, j, t))

\* the matrix a callable jac returns, whatever its container (dense ndarray, or a sparse container that stores only some
\* entries): after parse_matrix the solver's Jacobian buffer holds the logical matrix -- the stored value where one is stored
\* and ZERO everywhere else; nothing of the buffer's previous content (the matrix of the previous call: Radau and BDF reuse
\* one buffer) survives
JacReturnContract(i, o) ==
  \A r \in 1..i.n : \A c \in 1..i.n : o.J[r][c] = (IF <<r, c>> \in i.nz THEN Src(r - 1, c - 1) ELSE <<"zero">>)

\* which Jacobian the solver gets when `jac` and `jac_sparsity` combine (SciPy: jac_sparsity matters only for the finite-
\* difference approximation, it is ignored when jac is given):  jac if given (a callable IS called at every Jacobian
\* request, a constant array is read) and then the pattern is not used at all;  else finite differences grouped by the
\* pattern;  else dense finite differences.  A pattern may change evaluation counts, never the source.
JacSourceContract(i, o) ==
  /\ (i.jac = "callable" => o.source = "callable" /\ o.jcalled)
  /\ (i.jac \in JacMatrixForms => o.source = "const" /\ ~o.jcalled)
  /\ (i.jac # "none" => ~o.pattern_used)
  /\ (i.jac = "none" /\ i.sp # "none" => o.source = "fd-grouped" /\ o.pattern_used)
  /\ (i.jac = "none" /\ i.sp = "none" => o.source = "fd-dense" /\ ~o.pattern_used)

\* the pattern the binding works with is the declared one (element (r, c) of the container), never its transpose
SparsityFormContract(i, o) == o.read = "csc"

\* whatever the memory layout of the delivered array, the solver must see J[r][c] = d f_r / d y_c (the logical element)
JacReadContract(n, o) == \A r \in 1..n : \A c \in 1..n : o.J[r][c] = Src(r - 1, c - 1)

\* column grouping: columns are 1..n, groups 0..ngroups-1
ColRows(n, R, c) == {r \in 1..n : R[r][c] = 1}
GroupsContract(n, R, o) ==
  /\ \A c \in 1..n : o.groups[c] \in 0..(o.ngroups - 1)
  /\ \A g \in 0..(o.ngroups - 1) : \E c \in 1..n : o.groups[c] = g                 \* no empty group
  /\ \A c1 \in 1..n : \A c2 \in 1..n :
        (c1 # c2 /\ o.groups[c1] = o.groups[c2]) => ColRows(n, R, c1) \cap ColRows(n, R, c2) = {}

\* the linear test problem f(y) = A y used by the replay (same formula in py_ref.rs lin_from_pattern)
AEntry(n, R, r, c) ==
  IF R[r][c] = 0 THEN 0
  ELSE LET v == (((r - 1) * n + (c - 1)) % 5) + 1 IN IF r = c THEN -v ELSE v
\* grouped finite differences recover every declared entry exactly
FDContract(n, R, o) == \A r \in 1..n : \A c \in 1..n : R[r][c] = 1 => o.J[r][c] = AEntry(n, R, r, c)

(***************************************************************************)
(* Level B -- the code, action by action                                   *)
(***************************************************************************)
Zero == <<"zero">>      \* vec![0.0; len]

\* ---- transpose (solve.rs build_result) ----
TAlloc ==
  /\ mach = "transpose" /\ pc = "alloc"
  /\ LET nsteps == inp.m
         nstates == IF nsteps > 0 THEN inp.n ELSE 0            \* `if n_steps > 0 { sol.y[0].len() } else { 0 }`
     IN st' = [nsteps |-> nsteps, nstates |-> nstates, flat |-> [x \in 1..(nsteps * nstates) |-> Zero], i |-> 0, j |-> 0]
  /\ pc' = "loop" /\ UNCHANGED <<mach, inp, out>>

TWrite ==
  /\ mach = "transpose" /\ pc = "loop" /\ st.i < st.nsteps /\ st.j < st.nstates
  /\ st' = [st EXCEPT !.flat[st.j * st.nsteps + st.i + 1] = Src(st.i, st.j),    \* y_transposed[j * n_steps + i] = *val
                      !.j = IF st.j + 1 < st.nstates THEN st.j + 1 ELSE 0,
                      !.i = IF st.j + 1 < st.nstates THEN st.i ELSE st.i + 1]
  /\ UNCHANGED <<mach, pc, inp, out>>

TEmptyRow ==   \* inner loop over an empty row
  /\ mach = "transpose" /\ pc = "loop" /\ st.i < st.nsteps /\ st.nstates = 0
  /\ st' = [st EXCEPT !.i = st.i + 1]
  /\ UNCHANGED <<mach, pc, inp, out>>

TReshape ==    \* PyArray1::from_vec(flat).reshape((n_states, n_steps)) -- C order
  /\ mach = "transpose" /\ pc = "loop" /\ st.i = st.nsteps
  /\ out' = [shape |-> <<st.nstates, st.nsteps>>,
             Y |-> [r \in 1..st.nstates |-> [c \in 1..st.nsteps |-> st.flat[(r - 1) * st.nsteps + (c - 1) + 1]]]]
  /\ pc' = "done" /\ UNCHANGED <<mach, inp, st>>

\* ---- y_events (solve.rs build_result) ----
EStart ==
  /\ mach = "evflat" /\ pc = "alloc"
  /\ IF inp.k = 0                                    \* `if ye.is_empty() { PyList::empty }`
     THEN out' = [len |-> 0, shape |-> <<>>, E |-> <<>>] /\ pc' = "done" /\ UNCHANGED st
     ELSE st' = [nev |-> inp.k, nst |-> inp.n, flat |-> <<>>, i |-> 0] /\ pc' = "loop" /\ UNCHANGED out
  /\ UNCHANGED <<mach, inp>>

EExtend ==     \* flat.extend(state)
  /\ mach = "evflat" /\ pc = "loop" /\ st.i < st.nev
  /\ st' = [st EXCEPT !.flat = st.flat \o [j \in 1..st.nst |-> Src(st.i, j - 1)], !.i = st.i + 1]
  /\ UNCHANGED <<mach, pc, inp, out>>

EReshape ==    \* reshape((n_ev, n_st))
  /\ mach = "evflat" /\ pc = "loop" /\ st.i = st.nev
  /\ out' = [len |-> st.nev, shape |-> <<st.nev, st.nst>>,
             E |-> [r \in 1..st.nev |-> [c \in 1..st.nst |-> st.flat[(r - 1) * st.nst + (c - 1) + 1]]]]
  /\ pc' = "done" /\ UNCHANGED <<mach, inp, st>>

\* ---- sol(t) (solution.rs) ----
SScalar ==
  /\ mach = "sol" /\ pc = "alloc" /\ inp.scalar
  /\ out' = [shape |-> <<inp.n>>, S |-> [j \in 1..inp.n |-> Src(0, j - 1)]]
  /\ pc' = "done" /\ UNCHANGED <<mach, inp, st>>

SStart ==
  /\ mach = "sol" /\ pc = "alloc" /\ ~inp.scalar
  /\ IF inp.k = 0                                    \* `if t_slice.is_empty() { return 1-D empty array }`
     THEN out' = [shape |-> <<0>>, S |-> <<>>] /\ pc' = "done" /\ UNCHANGED st
     ELSE st' = [npts |-> inp.k, nst |-> 0, flat |-> <<>>, tr |-> <<>>, i |-> 0, j |-> 0] /\ pc' = "eval" /\ UNCHANGED out
  /\ UNCHANGED <<mach, inp>>

SEval ==       \* flat_results.extend(yi); n_states taken from the first result
  /\ mach = "sol" /\ pc = "eval" /\ st.i < st.npts
  /\ st' = [st EXCEPT !.flat = st.flat \o [j \in 1..inp.n |-> Src(st.i, j - 1)],
                      !.nst = IF st.i = 0 THEN inp.n ELSE st.nst, !.i = st.i + 1]
  /\ UNCHANGED <<mach, pc, inp, out>>

SEvalDone ==
  /\ mach = "sol" /\ pc = "eval" /\ st.i = st.npts
  /\ IF st.nst = 0                                   \* `if n_states == 0 { reshape((0, len)) }`
     THEN out' = [shape |-> <<0, st.npts>>, S |-> <<>>] /\ pc' = "done" /\ UNCHANGED st
     ELSE st' = [st EXCEPT !.tr = [x \in 1..(st.npts * st.nst) |-> Zero], !.i = 0, !.j = 0] /\ pc' = "tr" /\ UNCHANGED out
  /\ UNCHANGED <<mach, inp>>

STranspose ==  \* transposed[j * n_points + i] = flat_results[i * n_states + j]
  /\ mach = "sol" /\ pc = "tr" /\ st.i < st.npts
  /\ st' = [st EXCEPT !.tr[st.j * st.npts + st.i + 1] = st.flat[st.i * st.nst + st.j + 1],
                      !.j = IF st.j + 1 < st.nst THEN st.j + 1 ELSE 0,
                      !.i = IF st.j + 1 < st.nst THEN st.i ELSE st.i + 1]
  /\ UNCHANGED <<mach, pc, inp, out>>

SReshape ==
  /\ mach = "sol" /\ pc = "tr" /\ st.i = st.npts
  /\ out' = [shape |-> <<st.nst, st.npts>>,
             S |-> [r \in 1..st.nst |-> [c \in 1..st.npts |-> st.tr[(r - 1) * st.npts + (c - 1) + 1]]]]
  /\ pc' = "done" /\ UNCHANGED <<mach, inp, st>>

\* ---- status map ----
StatusMap ==
  /\ mach = "status" /\ pc = "alloc"
  /\ LET code == CASE inp = "Success" -> 0 [] inp = "UserInterrupt" -> 1 [] OTHER -> -1
     IN out' = [status |-> code, success |-> (code >= 0), message |-> inp]      \* format!("{:?}", sol.status)
  /\ pc' = "done" /\ UNCHANGED <<mach, inp, st>>

\* ---- option table ----
MethodFromStr(upper) ==       \* options.rs  impl From<&str> for Method (after to_uppercase)
  CASE upper = "RK23" -> "RK23"
    [] upper \in {"DOPRI5", "RK45"} -> "DOPRI5"
    [] upper = "DOP853" -> "DOP853"
    [] upper = "RK4" -> "RK4"
    [] upper \in {"RADAU", "RADAU5"} -> "RADAU"
    [] upper \in {"BDF", "BDF15"} -> "BDF"
    [] OTHER -> "DOPRI5"

ParseMethod ==                \* solve.rs parse_method: extract::<String>() else default
  /\ mach = "method" /\ pc = "alloc"
  /\ out' = IF inp.form = "str" THEN MethodFromStr(inp.upper) ELSE "DOPRI5"
  /\ pc' = "done" /\ UNCHANGED <<mach, inp, st>>

ParseTol ==                   \* extract::<Float>() first, then extract::<Vec<Float>>(), else keep the default
  /\ mach = "tol" /\ pc = "alloc"
  /\ out' = CASE inp = "absent" -> "Default"
              [] inp \in {"float", "npfloat", "zerod"} -> "Scalar"     \* anything with __float__
              [] inp \in {"list", "tuple", "ndarray"} -> "Vector"      \* any sequence of floats
  /\ pc' = "done" /\ UNCHANGED <<mach, inp, st>>

ParseStep ==                  \* get_item + extract::<Float>(); None fails the extraction and stays None
  /\ mach = "step" /\ pc = "alloc"
  /\ out' = IF inp \in {"float", "int", "inf"} THEN "Some" ELSE "None"
  /\ pc' = "done" /\ UNCHANGED <<mach, inp, st>>

TruncHalves(h) == IF h >= 0 THEN h \div 2 ELSE -((-h) \div 2)     \* `d as i32` truncates toward zero
NewConfig == [rterm |-> 0, rdir |-> 0]                             \* EventConfig::new(): non-terminal, Direction::All
\* `if let Ok(term) = ef.getattr("terminal") { if let Ok(is_term) = term.extract::<bool>() { if is_term { config.terminal() } } }`:
\* the config is written only for a bool True (extract::<bool>() is strict: ints are not bools); otherwise it is left as it is
ApplyTerminal(cfg, t) == IF t = "true" THEN [cfg EXCEPT !.rterm = 1] ELSE cfg
\* `if let Ok(dir) = ef.getattr("direction") { if let Ok(d) = dir.extract::<f64>() { config.direction(Direction::from(d as i32)) } }`:
\* an absent attribute leaves the config as it is
ApplyDirection(cfg, d) == IF d = "absent" THEN cfg ELSE [cfg EXCEPT !.rdir = Sign(TruncHalves(DirHalves(d)))]
ParseEvAttr ==
  /\ mach = "evattr" /\ pc = "alloc"
  /\ out' = ApplyDirection(ApplyTerminal(NewConfig, inp.terminal), inp.direction)
  /\ pc' = "done" /\ UNCHANGED <<mach, inp, st>>

\* ---- parse_events over a list of event functions: `for ef in &event_funs { let mut config = EventConfig::new(); ..; push(config) }` ----
ELPick ==      \* choose the attributes of the remaining event functions (the first one was chosen in Init)
  /\ mach = "evlist" /\ pc = "pick"
  /\ \E rest \in [2..inp.len -> EvAttrs] : inp' = [evs |-> [i \in 1..inp.len |-> IF i = 1 THEN inp.first ELSE rest[i]]]
  /\ pc' = "alloc" /\ UNCHANGED <<mach, st, out>>

ELStart ==     \* event_configs = Vec::new()
  /\ mach = "evlist" /\ pc = "alloc"
  /\ st' = [i |-> 1, cfgs |-> <<>>]
  /\ pc' = "loop" /\ UNCHANGED <<mach, inp, out>>

ELIter ==      \* one loop iteration: a FRESH config per event function, the function's own attributes applied, pushed
  /\ mach = "evlist" /\ pc = "loop" /\ st.i <= Len(inp.evs)
  /\ LET ef == inp.evs[st.i]
         config == ApplyDirection(ApplyTerminal(NewConfig, ef.terminal), ef.direction)
     IN st' = [st EXCEPT !.cfgs = Append(st.cfgs, config), !.i = st.i + 1]
  /\ UNCHANGED <<mach, pc, inp, out>>

ELDone ==
  /\ mach = "evlist" /\ pc = "loop" /\ st.i = Len(inp.evs) + 1
  /\ out' = [cfgs |-> st.cfgs]
  /\ pc' = "done" /\ UNCHANGED <<mach, inp, st>>

ParseJac ==
  /\ mach = "jac" /\ pc = "alloc"
  /\ out' = [source |-> IF inp = "none" THEN "fd" ELSE "user",
             njev |-> IF inp \in JacMatrixForms THEN "zero" ELSE "solver"]   \* is_constant_jac => njev = 0
  /\ pc' = "done" /\ UNCHANGED <<mach, inp, st>>

\* ---- cont.rs find_segment_extrapolate (tolerance 1e-12 is far below the tick resolution and not modelled) ----
SGStart ==
  /\ mach = "solseg" /\ pc = "alloc"
  /\ st' = [i |-> 1] /\ pc' = "loop" /\ UNCHANGED <<mach, inp, out>>

SGScan ==      \* `for seg in &self.segs { if t >= left - tol && t <= right + tol { return Some(seg) } }`: first match in integration order
  /\ mach = "solseg" /\ pc = "loop" /\ st.i <= inp.k
  /\ IF SegHolds(inp.dir, st.i, inp.dir * inp.s)
     THEN out' = [seg |-> st.i, how |-> "interpolate"] /\ pc' = "done" /\ UNCHANGED st
     ELSE st' = [st EXCEPT !.i = st.i + 1] /\ UNCHANGED <<pc, out>>
  /\ UNCHANGED <<mach, inp>>

SGExtrapolate ==   \* no step holds t: `if t < first_left { first } else if t > last_right { last } else { None }`
                   \* (first_left = min end of the FIRST step, last_right = max end of the LAST step -- as coded, for both directions)
  /\ mach = "solseg" /\ pc = "loop" /\ st.i = inp.k + 1
  /\ LET t == inp.dir * inp.s
         first_left == MinI(SegX(inp.dir, 1), SegX(inp.dir, 1) + SegH(inp.dir))
         last_right == MaxI(SegX(inp.dir, inp.k), SegX(inp.dir, inp.k) + SegH(inp.dir))
     IN out' = IF t < first_left THEN [seg |-> 1, how |-> "extrapolate"]
               ELSE IF t > last_right THEN [seg |-> inp.k, how |-> "extrapolate"]
               ELSE [seg |-> 0, how |-> "none"]
  /\ pc' = "done" /\ UNCHANGED <<mach, inp, st>>

\* ---- parse_matrix on the value a callable jac returned; `j` is the solver's buffer, still holding the previous call's matrix ----
Stale == <<"stale">>
JRStart ==
  /\ mach = "jacret" /\ pc = "alloc"
  /\ st' = [J |-> [r \in 1..inp.n |-> [c \in 1..inp.n |-> Stale]], arr |-> Nothing]
  /\ pc' = (IF inp.form = "dense" THEN "loop" ELSE "eval") /\ UNCHANGED <<mach, inp, out>>

JRToArray ==   \* not an ndarray: `result.getattr("toarray")` .call0() -- densify (zero where nothing is stored), then parse recursively
  /\ mach = "jacret" /\ pc = "eval"
  /\ pc' = "loop" /\ UNCHANGED <<mach, inp, st, out>>

JRCopy ==      \* `for row in 0..dim { for col in 0..dim { j[(row, col)] = res_arr.get([row, col]) } }`: EVERY element is written
  /\ mach = "jacret" /\ pc = "loop"
  /\ LET arr == [r \in 1..inp.n |-> [c \in 1..inp.n |-> IF <<r, c>> \in inp.nz THEN Src(r - 1, c - 1) ELSE Zero]]
     IN out' = [J |-> [r \in 1..inp.n |-> [c \in 1..inp.n |-> arr[r][c]]], via |-> IF inp.form = "dense" THEN "ndarray" ELSE "toarray"]
  /\ pc' = "done" /\ UNCHANGED <<mach, inp, st>>

\* ---- Jacobian source: solve.rs (what is handed to PythonIVP::new) and ivp_wrapper.rs (PythonIVP::jac, jac_fd) ----
JSParse ==         \* solve_ivp_py: `sparsity_structure = match jac_sparsity { Some(sp) => Some(from_python(sp)), None => None }`,
                   \*               `is_constant_jac = jac.map_or(false, |j| !j.is_callable())`
  /\ mach = "jacsrc" /\ pc = "alloc"
  /\ st' = [jac |-> inp.jac, has_sp |-> inp.sp # "none", is_const |-> inp.jac \notin {"none", "callable"}]
  /\ pc' = "loop" /\ UNCHANGED <<mach, inp, out>>

JSDispatch ==      \* PythonIVP::jac: `if let Some(jac_fn) = &self.jac { if jac_fn.is_callable() {call} else {parse_matrix} } else { jac_fd }`;
                   \* jac_fd: `if let Some(sparsity) = &self.jac_sparsity { sparse_jacobian_fd; return }` else the dense loop
  /\ mach = "jacsrc" /\ pc = "loop"
  /\ LET src == IF st.jac # "none"
                THEN (IF st.jac = "callable" THEN "callable" ELSE "const")
                ELSE (IF st.has_sp THEN "fd-grouped" ELSE "fd-dense")
     IN out' = [source |-> src, jcalled |-> src = "callable", pattern_used |-> src = "fd-grouped",
                njev |-> IF st.is_const THEN "zero" ELSE "solver"]           \* build_result: is_constant_jac => njev = 0
  /\ pc' = "done" /\ UNCHANGED <<mach, inp, st>>

ParseSparsity ==   \* sparsity.rs from_python: `tocsc()` first when the object has it, else the object's own indices / indptr as CSC
  /\ mach = "spform" /\ pc = "alloc"
  /\ out' = [via |-> IF inp.tocsc THEN "tocsc" ELSE "own", read |-> IF inp.tocsc THEN "csc" ELSE inp.own]
  /\ pc' = "done" /\ UNCHANGED <<mach, inp, st>>

\* ---- parse_matrix (ivp_wrapper.rs): element-wise read through the array's strides ----
JBuffer ==     \* the numpy buffer of the delivered array: logical element (r, c) stored at LayoutOffset
  /\ mach = "jacread" /\ pc = "alloc"
  /\ LET n == inp.n
         len == IF inp.layout = "strided" THEN 4 * n * n ELSE n * n
         cell(k) == LET hits == {rc \in (0..(n - 1)) \X (0..(n - 1)) : LayoutOffset(inp.layout, n, rc[1], rc[2]) = k}
                    IN IF hits = {} THEN Zero ELSE LET rc == CHOOSE x \in hits : TRUE IN Src(rc[1], rc[2])
     IN st' = [buf |-> [k \in 1..len |-> cell(k - 1)], row |-> 0, col |-> 0, J |-> [r \in 1..n |-> [c \in 1..n |-> Zero]]]
  /\ pc' = "loop" /\ UNCHANGED <<mach, inp, out>>

JRead ==       \* j[(row, col)] = res_arr.get([row, col])   (get applies the strides)
  /\ mach = "jacread" /\ pc = "loop" /\ st.row < inp.n
  /\ st' = [st EXCEPT !.J[st.row + 1][st.col + 1] = st.buf[LayoutOffset(inp.layout, inp.n, st.row, st.col) + 1],
                      !.col = IF st.col + 1 < inp.n THEN st.col + 1 ELSE 0,
                      !.row = IF st.col + 1 < inp.n THEN st.row ELSE st.row + 1]
  /\ UNCHANGED <<mach, pc, inp, out>>

JDone ==
  /\ mach = "jacread" /\ pc = "loop" /\ st.row = inp.n
  /\ out' = [J |-> st.J]
  /\ pc' = "done" /\ UNCHANGED <<mach, inp, st>>

\* ---- group_columns (sparsity.rs) ----
GPick ==      \* choose the pattern (the input of the machine)
  /\ mach = "group" /\ pc = "pick"
  /\ \E code \in {k \in PatCodes(inp.n) : k % PatBlocks = inp.blk} : inp' = [n |-> inp.n, rows |-> PatOf(inp.n, code)]
  /\ pc' = "alloc" /\ UNCHANGED <<mach, st, out>>

GStart ==
  /\ mach = "group" /\ pc = "alloc"
  /\ st' = [col |-> 1, groups |-> [c \in 1..inp.n |-> -1], ngroups |-> 0, used |-> <<>>]   \* groups = usize::MAX
  /\ pc' = "cols" /\ UNCHANGED <<mach, inp, out>>

CanUse(g, c) == \A r \in ColRows(inp.n, inp.rows, c) : ~st.used[g + 1][r]
Fits(c) == {g \in 0..(st.ngroups - 1) : CanUse(g, c)}
MinOf(S) == CHOOSE x \in S : \A y \in S : x <= y

GAssign ==     \* first group whose used rows are disjoint from the column's rows
  /\ mach = "group" /\ pc = "cols" /\ st.col <= inp.n /\ Fits(st.col) # {}
  /\ LET g == MinOf(Fits(st.col)) IN
     st' = [st EXCEPT !.groups[st.col] = g,
                      !.used[g + 1] = [r \in 1..inp.n |-> st.used[g + 1][r] \/ r \in ColRows(inp.n, inp.rows, st.col)],
                      !.col = st.col + 1]
  /\ UNCHANGED <<mach, pc, inp, out>>

GNew ==        \* no group fits: open a new one
  /\ mach = "group" /\ pc = "cols" /\ st.col <= inp.n /\ Fits(st.col) = {}
  /\ st' = [st EXCEPT !.groups[st.col] = st.ngroups,
                      !.ngroups = st.ngroups + 1,
                      !.used = Append(st.used, [r \in 1..inp.n |-> r \in ColRows(inp.n, inp.rows, st.col)]),
                      !.col = st.col + 1]
  /\ UNCHANGED <<mach, pc, inp, out>>

\* sparse_jacobian_fd on f(y) = A y over the integers: y[c] = c, perturbation h[c] = 2^(c-1) (distinct per column)
Yv(c) == c
Hv(c) == 2 ^ (c - 1)
RECURSIVE SumTo(_, _)
SumTo(F, k) == IF k = 0 THEN 0 ELSE F[k] + SumTo(F, k - 1)
FVal(n, R, y) == [r \in 1..n |-> SumTo([c \in 1..n |-> AEntry(n, R, r, c) * y[c]], n)]

GFdStart ==
  /\ mach = "group" /\ pc = "cols" /\ st.col = inp.n + 1
  /\ st' = [groups |-> st.groups, ngroups |-> st.ngroups, g |-> 0,
            J |-> [r \in 1..inp.n |-> [c \in 1..inp.n |-> 0]]]            \* entries outside the pattern are never written
  /\ pc' = "fd" /\ UNCHANGED <<mach, inp, out>>

GFdGroup ==    \* one perturbed evaluation per group, then one column extraction per member
  /\ mach = "group" /\ pc = "fd" /\ st.g < st.ngroups
  /\ LET n == inp.n
         cols == {c \in 1..n : st.groups[c] = st.g}
         y0 == [c \in 1..n |-> Yv(c)]
         yp == [c \in 1..n |-> IF c \in cols THEN Yv(c) + Hv(c) ELSE Yv(c)]
         f0 == FVal(n, inp.rows, y0)
         fp == FVal(n, inp.rows, yp)
     IN st' = [st EXCEPT !.J = [r \in 1..n |-> [c \in 1..n |->
                                   IF c \in cols /\ inp.rows[r][c] = 1 THEN (fp[r] - f0[r]) \div Hv(c) ELSE st.J[r][c]]],
                         !.g = st.g + 1]
  /\ UNCHANGED <<mach, pc, inp, out>>

GDone ==
  /\ mach = "group" /\ pc = "fd" /\ st.g = st.ngroups
  /\ out' = [groups |-> st.groups, ngroups |-> st.ngroups, J |-> st.J]
  /\ pc' = "done" /\ UNCHANGED <<mach, inp, st>>

(***************************************************************************)
(* Composition                                                             *)
(***************************************************************************)
Init ==
  /\ \/ mach = "transpose" /\ inp \in [n : 0..MaxN, m : 0..MaxM]
     \/ mach = "evflat" /\ inp \in [n : 1..MaxN, k : 0..MaxM]
     \/ mach = "sol" /\ inp \in [n : 0..MaxN, k : 0..MaxM, scalar : BOOLEAN]
     \/ mach = "status" /\ inp \in Statuses
     \/ mach = "method" /\ inp \in MethodInputs
     \/ mach = "tol" /\ inp \in TolForms
     \/ mach = "step" /\ inp \in StepForms
     \/ mach = "evattr" /\ inp \in [terminal : TermForms, direction : DirForms]
     \/ mach = "evlist" /\ inp \in [len : 2..MaxEvents, first : EvAttrs]
     \/ mach = "jac" /\ inp \in JacForms
     \/ mach = "spform" /\ inp \in SpForms
     \/ mach = "jacsrc" /\ inp \in [jac : JSrcJacForms, sp : JSrcSpForms]
     \/ mach = "solseg" /\ inp \in {x \in [k : 1..MaxM, dir : {-1, 1}, s : -1..(2 * MaxM + 1)] : x.s <= 2 * x.k + 1}
     \/ mach = "jacret" /\ inp \in [n : {2}, form : {"dense", "sparse"}, nz : SUBSET ((1..2) \X (1..2))]
     \/ mach = "jacread" /\ inp \in [n : 1..3, layout : JacLayouts]
     \/ mach = "group" /\ inp \in BlockInputs
  /\ pc = (IF mach \in {"group", "evlist"} THEN "pick" ELSE "alloc") /\ st = Nothing /\ out = Nothing

Next ==
  \/ TAlloc \/ TWrite \/ TEmptyRow \/ TReshape
  \/ EStart \/ EExtend \/ EReshape
  \/ SScalar \/ SStart \/ SEval \/ SEvalDone \/ STranspose \/ SReshape
  \/ JBuffer \/ JRead \/ JDone \/ ParseSparsity
  \/ StatusMap \/ ParseMethod \/ ParseTol \/ ParseStep \/ ParseEvAttr \/ ParseJac
  \/ ELPick \/ ELStart \/ ELIter \/ ELDone
  \/ JSParse \/ JSDispatch
  \/ SGStart \/ SGScan \/ SGExtrapolate \/ JRStart \/ JRToArray \/ JRCopy
  \/ GPick \/ GStart \/ GAssign \/ GNew \/ GFdStart \/ GFdGroup \/ GDone

Spec == Init /\ [][Next]_vars

(***************************************************************************)
(* LevelB => Contract, checked at the terminal state of every input        *)
(***************************************************************************)
Contract ==
  pc = "done" =>
    CASE mach = "transpose" -> TransposeContract(inp.n, inp.m, out, FALSE)
      [] mach = "evflat" -> EvFlatContract(inp.n, inp.k, out)
      [] mach = "sol" -> SolContract(inp.n, inp.k, inp.scalar, out, FALSE)
      [] mach = "status" -> StatusContract(inp, out)
      [] mach = "method" -> MethodContract(inp, out)
      [] mach = "tol" -> TolContract(inp, out)
      [] mach = "step" -> StepContract(inp, out)
      [] mach = "evattr" -> EvAttrContract(inp.terminal, inp.direction, out)
      [] mach = "evlist" -> EvListContract(inp.evs, out)
      [] mach = "jac" -> JacContract(inp, out)
      [] mach = "jacsrc" -> JacSourceContract(inp, out)
      [] mach = "solseg" -> SolSegContract(inp, out)
      [] mach = "jacret" -> JacReturnContract(inp, out)
      [] mach = "jacread" -> JacReadContract(inp.n, out)
      [] mach = "spform" -> SparsityFormContract(inp, out)
      [] mach = "group" -> GroupsContract(inp.n, inp.rows, out) /\ FDContract(inp.n, inp.rows, out)

\* where Level B departs from the literal statement: exactly the empty shapes (m = 0 with n >= 1; sol of an empty array)
StrictOk ==
  CASE mach = "transpose" -> TransposeContract(inp.n, inp.m, out, TRUE)
    [] mach = "sol" -> SolContract(inp.n, inp.k, inp.scalar, out, TRUE)
    [] OTHER -> TRUE
Deviations ==
  pc = "done" =>
    (~StrictOk <=> \/ (mach = "transpose" /\ inp.m = 0 /\ inp.n >= 1)
                   \/ (mach = "sol" /\ ~inp.scalar /\ inp.k = 0))

\* scenarios for the replay into the real code (one line per input)
Scenario ==
  CASE mach = "transpose" -> [kind |-> "shape", n |-> inp.n, m |-> inp.m, shape |-> out.shape, strict_ok |-> StrictOk]
    [] mach = "evflat" -> [kind |-> "evshape", n |-> inp.n, k |-> inp.k, shape |-> out.shape]
    [] mach = "sol" -> [kind |-> "solshape", n |-> inp.n, k |-> inp.k, scalar |-> inp.scalar, shape |-> out.shape, strict_ok |-> StrictOk]
    [] mach = "status" -> [kind |-> "status", name |-> inp, status |-> out.status, success |-> out.success, message |-> out.message]
    [] mach = "method" -> [kind |-> "method", form |-> inp.form, name |-> inp.name, expect |-> out, doc |-> inp.doc]
    [] mach = "tol" -> [kind |-> "tol", form |-> inp, expect |-> out]
    [] mach = "step" -> [kind |-> "step", form |-> inp, expect |-> out]
    [] mach = "evattr" -> [kind |-> "evattr", terminal |-> inp.terminal, direction |-> inp.direction,
                           rterm |-> out.rterm, rdir |-> out.rdir, doc |-> (DocTerm(inp.terminal) /\ DocDir(inp.direction))]
    [] mach = "evlist" -> [kind |-> "evlist", len |-> Len(inp.evs),
                           evs |-> [i \in 1..Len(inp.evs) |->
                                     [terminal |-> inp.evs[i].terminal, direction |-> inp.evs[i].direction,
                                      rterm |-> out.cfgs[i].rterm, rdir |-> out.cfgs[i].rdir,
                                      doc |-> (DocTerm(inp.evs[i].terminal) /\ DocDir(inp.evs[i].direction))]],
                           doc |-> \A i \in 1..Len(inp.evs) : DocTerm(inp.evs[i].terminal) /\ DocDir(inp.evs[i].direction)]
    [] mach = "jac" -> [kind |-> "jac", form |-> inp, source |-> out.source, njev |-> out.njev]
    [] mach = "solseg" -> [kind |-> "solseg", k |-> inp.k, dir |-> inp.dir, s |-> inp.s, seg |-> out.seg, how |-> out.how,
                           where |-> IF inp.s < 0 THEN "before" ELSE IF inp.s > 2 * inp.k THEN "after"
                                     ELSE IF inp.s = 0 THEN "start" ELSE IF inp.s = 2 * inp.k THEN "end"
                                     ELSE IF inp.s % 2 = 0 THEN "step-end" ELSE "interior",
                           \* Level B only: does the extrapolating step lie at the near end of the span?  (as coded: not for dir = -1, k >= 2)
                           nearest |-> (inp.s < 0 => out.seg = 1) /\ (inp.s > 2 * inp.k => out.seg = inp.k)]
    [] mach = "jacret" -> [kind |-> "jacret", form |-> inp.form, via |-> out.via, stored |-> Cardinality(inp.nz)]
    [] mach = "jacsrc" -> [kind |-> "jacsrc", jac |-> inp.jac, sp |-> inp.sp, source |-> out.source, njev |-> out.njev,
                           pattern_used |-> out.pattern_used]
    [] mach = "spform" -> [kind |-> "spform", form |-> inp.form, via |-> out.via, own |-> inp.own]
    [] mach = "jacread" -> [kind |-> "jaclayout", n |-> inp.n, form |-> inp.layout]
    [] mach = "group" -> [kind |-> "pattern", n |-> inp.n, rows |-> inp.rows, groups |-> out.groups, ngroups |-> out.ngroups]

Emit == pc = "done" => PrintT(<<"REPLAY", ToJson(Scenario)>>)

TypeOK ==
  /\ mach \in {"transpose", "evflat", "sol", "status", "method", "tol", "step", "evattr", "evlist", "jac", "jacsrc", "solseg", "jacret", "jacread", "spform", "group"}
  /\ pc \in {"pick", "alloc", "loop", "eval", "tr", "cols", "fd", "done"}
=============================================================================

---------------------------- MODULE MC_PyLayer ----------------------------
(* Bounded instances of PyLayer for C20.                                   *)
(*   quick   : shapes n, m <= 4; all patterns n <= 3 (530) + every 64th    *)
(*             pattern of n = 4 (offset C20_OFFSET from the environment,   *)
(*             derived from VERIF_SEED by checks/c20.py)                   *)
(*   thorough: all 65 536 patterns of n = 4 as well                        *)
EXTENDS PyLayer, IOUtils

MC_Offset == IF "C20_OFFSET" \in DOMAIN IOEnv THEN atoi(IOEnv.C20_OFFSET) ELSE 0
MC_Stride == 64
MC_All(n) == 0..((2 ^ (n * n)) - 1)
MC_CodesQuick(n) == IF n < 4 THEN MC_All(n) ELSE {MC_Stride * k + (MC_Offset % MC_Stride) : k \in 0..((65536 \div MC_Stride) - 1)}
MC_CodesAll(n) == MC_All(n)
MC_PatNs == 1..4
=============================================================================

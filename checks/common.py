"""Common tail of every check: report violations, write evidence, return the exit code."""
import time
import vlib


def finish(prop, tier, seed, level, violations, coverage, assumptions, t0):
    n_new, n_known = vlib.report(prop, violations)
    coverage = dict(coverage)
    coverage["known_finding_cases"] = n_known
    vlib.write_evidence(prop, tier, seed, level, coverage, assumptions, time.time() - t0, n_new)
    return 1 if n_new else 0

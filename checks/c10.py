"""C10 - see DESIGN.md section 5 (C10). Part 1: handler scenarios (spec -> code). Part 2: recorded solve_ivp runs (code -> spec)."""
import json
import time

import vlib
from checks import common, handler_common as hc

PROP = "C10"
FAMILIES = "events2,termteval".split(",")


def run(tier, seed, replay, keep):
    t0 = time.time()
    work = vlib.workdir(PROP + "-" + tier)
    try:
        only = None
        fams = FAMILIES
        if replay:
            rp = json.load(open(replay))
            sc = rp["scenario"]
            if sc.get("kind") == "handler":
                only = [sc["scenario"]]
                fams = [sc["family"]]
            else:
                from checks import solver_common as scx
                return scx.replay(PROP, rp, tier, seed, work)
        res = hc.run_families(fams, tier, work, only_scenarios=only)
        viol = hc.to_violations(res, PROP)
        cov = {"states": res.states, "transitions": res.transitions,
               "traces_validated_against_impl": res.runs, "samples": res.samples[:4],
               "handler_scenarios": res.scenarios, "trace_lines": res.trace_lines, "per_family": res.per_family,
               "drift": res.drift, "drift_samples": res.drift_samples,
               "contract_failures_of_other_properties_seen": hc.other_props(res, PROP),
               "exhaustive": True,
               "rule": "every scenario of the bounded handler model (all placements of requested times / roots / stops "
                       "relative to the step grid within the constants of the cfg) is executed on the real handler"}
        assumptions = list(hc.HANDLER_ASSUMPTIONS)
        try:
            from checks import solver_common as scx
        except ImportError:
            scx = None
        if scx is not None and not replay:
            sv, scov, sass = scx.run_for(PROP, tier, seed, work)
            viol += sv
            cov["solver_traces"] = scov
            cov["traces_validated_against_impl"] += scov.get("runs", 0)
            cov["states"] += scov.get("states", 0)
            cov["transitions"] += scov.get("transitions", 0)
            assumptions += sass
        return common.finish(PROP, tier, seed, "model_checking", viol, cov, assumptions, t0)
    finally:
        if not keep:
            vlib.cleanup(work)

"""Spec -> code binding for the output handler (DefaultSolOut):
TLC enumerates scenarios on MC_Handler (Level B => contract), the scenarios are replayed into the
real handler (harness bin replay_handler), and the recorded behaviour is validated by TLC against
Trace_Handler (Level B conformance = drift; Level A contract = violations)."""
import json
import os
import time
from collections import Counter

import vlib

HSPEC = os.path.join(vlib.SPEC, "handler")

# family -> (quick cfg, thorough cfg)
FAMILIES = {
    "teval": ("MC_Handler_teval_q.cfg", "MC_Handler_teval_t.cfg"),
    "events": ("MC_Handler_events_q.cfg", "MC_Handler_events_t.cfg"),
    "events2": ("MC_Handler_events2_q.cfg", "MC_Handler_events2_t.cfg"),
    "termteval": ("MC_Handler_termteval_q.cfg", "MC_Handler_termteval_t.cfg"),
    "fstep": ("MC_Handler_fstep_q.cfg", "MC_Handler_fstep_t.cfg"),
}


def scenario_tags(sc, K, ret):
    tags = []
    tags.append("teval" if sc["hasT"] else "steps")
    if sc["evs"]:
        tags.append("ev%d" % len(sc["evs"]))
        if any(e["term"] > 0 for e in sc["evs"]):
            tags.append("terminal")
    if sc["hasFs"]:
        tags.append("first_step" + ("" if sc["fsMatch"] else "_wrongsign"))
    if ret is not None:
        tags.append("intr" if ret.get("intr") else ("full" if K == len(sc["grid"]) - 1 else "budget"))
    return "+".join(tags)


class HandlerRun:
    def __init__(self):
        self.states = 0
        self.transitions = 0
        self.scenarios = 0
        self.runs = 0
        self.trace_lines = 0
        self.viol = []          # (prop, clause, family, call record, ret record)
        self.drift = 0
        self.drift_samples = []
        self.samples = []
        self.per_family = {}
        self.clause_evals = Counter()
        self.wall = 0.0


def run_families(families, tier, work, mutate=0, only_scenarios=None):
    """Run the MC -> replay -> trace pipeline for the given families. Returns HandlerRun."""
    res = HandlerRun()
    t0 = time.time()
    for fam in families:
        cfg = FAMILIES[fam][0 if tier == "quick" else 1]
        if only_scenarios is None:
            r = vlib.tlc("MC_Handler", cfg, cwd=HSPEC, workers=8, timeout=3000, xmx="8g")
            if not r.ok:
                vlib.log(r.out[-3000:])
                raise vlib.ToolError(f"MC_Handler/{cfg}: the Level-B model does not satisfy the contract or TLC failed "
                                     f"(invariant={r.invariant}, error={r.error}) - this is a defect of the specification")
            scs = [json.loads(vlib.parse_tla(l)[1]) for l in r.lines("REPLAY")]
            res.states += r.distinct
            res.transitions += r.generated
        else:
            scs = only_scenarios
        scp = os.path.join(work, f"sc_{fam}.ndjson")
        trp = os.path.join(work, f"trace_{fam}.ndjson")
        with open(scp, "w") as f:
            for s in scs:
                f.write(json.dumps(s) + "\n")
        args = [scp, trp, "--concs", "basic" if tier == "quick" else "all"]
        if mutate:
            args += ["--mutate", str(mutate)]
        rc, _, err = vlib.run_bin("replay_handler", args, timeout=3000)
        if rc != 0:
            raise vlib.ToolError("replay_handler failed: " + err[-500:])
        t = vlib.tlc("Trace_Handler", "Trace_Handler.cfg", cwd=HSPEC, workers=1, deque=True, xss=True, xmx="8g",
                     env={"TRACE": trp}, timeout=3000)
        if not t.ok:
            vlib.log(t.out[-3000:])
            raise vlib.ToolError(f"Trace_Handler rejected the trace of family {fam}: {t.error or t.invariant}")
        # index the trace: id -> (call, ret)
        calls, rets = {}, {}
        nl = 0
        with open(trp) as f:
            for line in f:
                nl += 1
                if '"e":"call"' in line or '"e":"ret"' in line:
                    o = json.loads(line)
                    (calls if o["e"] == "call" else rets)[o["id"]] = o
        res.trace_lines += nl
        res.states += t.distinct
        res.transitions += t.generated
        res.scenarios += len(scs)
        res.runs += len(calls)
        nv = 0
        for l in t.printed:
            if l.startswith('<<"VIOL"'):
                p = vlib.parse_tla(l)
                res.viol.append((p[1], p[2], fam, calls.get(p[3]), rets.get(p[3])))
                nv += 1
            elif l.startswith('<<"DRIFT"'):
                res.drift += 1
                if len(res.drift_samples) < 3:
                    res.drift_samples.append(l[:200])
        res.per_family[fam] = {"scenarios": len(scs), "runs": len(calls), "trace_lines": nl, "contract_failures": nv}
        # a couple of literal samples
        for i in sorted(calls)[:1] + sorted(calls)[len(calls) // 2: len(calls) // 2 + 1]:
            c, rr = calls[i], rets.get(i, {})
            res.samples.append({"family": fam, "scenario": c["sc"], "K": c["K"], "dir": c["dir"],
                                "reported_t": [o["t"] for o in rr.get("out", [])],
                                "events_t": [[e["t"] for e in v] for v in rr.get("tev", [])],
                                "interrupted": rr.get("intr")})
        if only_scenarios is not None:
            break
    res.wall = time.time() - t0
    return res


def to_violations(res, prop):
    out = []
    for (p, clause, fam, call, ret) in res.viol:
        if p != prop:
            continue
        sc = call["sc"] if call else {}
        tags = scenario_tags(sc, call["K"], ret) if call else "?"
        sig = f"{prop}/{clause}/handler/{tags}"
        detail = f"family={fam} K={call['K'] if call else '?'} dir={call['dir'] if call else '?'} reported={[o['t'] for o in (ret or {}).get('out', [])]}"
        out.append(vlib.Violation(prop, sig, detail, {"kind": "handler", "family": fam, "scenario": {"sc": sc, "K": call["K"]} if call else None}))
    return out


def other_props(res, prop):
    c = Counter(p for (p, _, _, _, _) in res.viol if p != prop)
    return dict(c)


HANDLER_ASSUMPTIONS = [
    "abstract time: 1 tick = 2^-40 s, handler tol 1e-12 = 1 tick, Brent XTOL 2e-12 = 2 ticks (exact: 2^-40 <= 1e-12 < 2*2^-40)",
    "accepted steps are longer than 1e-12 (2 ticks or more); step grids of <= 3 steps; event functions are polynomials sgn*PROD(t-c) with tick-valued roots",
    "the harness concretises each scenario for (x0,dir) in {(0,+),(1,-)} (quick) plus {(-3,+),(0,-)} (thorough); the synthetic interpolant returns (evaluation time, step index)",
    "contract allows RootT = 4 ticks (3.6e-12) between a reported event time and the root, and 1 tick of slack at the stopping point",
    "trusted: TLC, Json/IOUtils community modules, replay_handler's float->sub-unit conversion (exactness flag `ex`)",
]

"""C04 - see DESIGN.md section 5 (C04): bounded TLC model of the specification + trace validation of recorded runs."""
import json
import time

import vlib
from checks import common, solver_common as scx, model_common as mc

PROP = "C04"


def run(tier, seed, replay, keep):
    t0 = time.time()
    work = vlib.workdir(PROP + "-" + tier)
    try:
        if replay:
            rp = json.load(open(replay))
            if rp["scenario"].get("kind") == "handler":
                from checks import handler_common as hc
                res = hc.run_families([rp["scenario"]["family"]], tier, work, only_scenarios=[rp["scenario"]["scenario"]])
                n_new, _ = vlib.report(PROP, hc.to_violations(res, PROP))
                return 1 if n_new else 0
            return scx.replay(PROP, rp, tier, seed, work)
        mcov = mc.run_models(PROP, tier, work)
        viol, cov, assumptions = scx.run_for(PROP, tier, seed, work)
        hviol, hcov = mc.handler_part(PROP, tier, work)
        viol += hviol
        coverage = {"states": cov.get("states", 0) + mcov.get("states", 0) + hcov.get("states", 0),
                    "transitions": cov.get("transitions", 0) + mcov.get("transitions", 0) + hcov.get("transitions", 0),
                    "traces_validated_against_impl": cov.get("runs", 0) + hcov.get("runs", 0),
                    "samples": cov.get("samples", [])[:4] + hcov.get("samples", [])[:2],
                    "model": mcov, "solver_traces": cov, "handler_replay": hcov,
                    "rule": "bounded TLC model of the specification (model) + every recorded run of the real code validated by TLC "
                            "against the Level-A contract (solver_traces) + TLC-generated handler scenarios replayed into the real handler (handler_replay)"}
        return common.finish(PROP, tier, seed, "model_checking", viol, coverage, assumptions + mcov.get("assumptions", []), t0)
    finally:
        if not keep:
            vlib.cleanup(work)

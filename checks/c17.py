"""C17 -- Matrix values do not depend on the storage scheme.

Pipeline (model-based, TLA+ decides):
  1. TLC explores spec/matrix/MC_Matrix exhaustively: every scenario (size, constructor + band, fill pattern,
     operation) is executed on the Level-B data-layout model (Matrix.tla) and the Level-A clauses of
     MatrixContract.tla are checked on it (invariant Contract: Level B => contract).  A violated invariant here is a
     tool-level problem (model or contract wrong), never a verdict.
  2. every finished scenario is emitted as a REPLAY line and executed on the REAL ivp::matrix::Matrix by
     harness/src/bin/replay_matrix.rs, which records what the code returned (all entries after every step).
  3. TLC validates that trace against spec/matrix/Trace_Matrix: the Level-A clauses evaluated on the values the code
     returned give VIOL lines (-> VIOLATION), Level-B mismatches that keep the contract give DRIFT lines.
"""
import collections
import concurrent.futures
import json
import os
import subprocess
import time

import vlib

PROP = "C17"
SPEC_DIR = os.path.join(vlib.SPEC, "matrix")
BIN_OPS = ("add", "sub", "add_assign", "sub_assign", "sub_assign_ref")
SC2_DEFAULTS = {"op2": "none", "i2": 0, "j2": 0, "s2": 0, "ckind": "F", "cml": 0, "cmu": 0, "cpat": "zero", "pf": 0}
CHUNK = 3000           # scenarios per trace-validation TLC run
PARALLEL = 6

ASSUMPTIONS = [
    "entries, scalars and results are graded numbers m * 2^(80 e) (spec/matrix/Graded.tla: small integers at e = 0, tiny values at e < 0 such as "
    "2^-80, huge ones at e > 0; |m| < 10^5, |e| <= 2, carried as integer codes m + e * 2000000): products, sums on one level and sums across "
    "levels (the lower level is absorbed by a non-zero higher one) are exact in f64, so the contract's arithmetic is the IEEE arithmetic and "
    "equality in the trace spec is equality of the floats (the sign of a zero is not distinguished)",
    "only square matrices (m = n) of size 1..3 (thorough: 1..4); band widths 0..n; the second operand of a binary op is built with identity / zeros / banded",
    "two-operation sequences: sizes 1..3; quick uses all storage shapes for n=1, 7 shapes for n=2 and a 3-shape slice for n=3, thorough all shapes; "
    "'inside the band' for a write into an operation's result refers to the storage (kind, ml, mu) the code itself reports for that result",
    "fill patterns instead of all entry assignments: 'dist' (all entries distinct), 'sq' (squares; sums and differences with 'dist' are distinct), "
    "'tiny' (all entries distinct multiples of 2^-80), identity-like patterns for is_identity (including 'eyet': an identity with one off-diagonal 2^-80)",
    "the harness (replay_matrix.rs) only calls the public API, catches panics and converts f64 -> code of the graded number it equals exactly "
    "(any other value becomes a sentinel that fails the contract)",
    "swap_rows is modelled at Level B only (not part of C17's statement): mismatches there are counted as drift",
    "fill(c) is read as a bulk write (clause C17_Fill): every writable entry (all of Full, the in-band ones of Banded, none of Identity) reads c "
    "afterwards and every other entry is unchanged, so an Identity matrix stays the identity",
    "prefilled scenarios (sc.pf != 0): every operand (Identity, Full, Banded; A and B) is first handed to the public Matrix::fill(pf), which for "
    "Banded also sets the cells of the band buffer that belong to no entry, and then EVERY writable entry is written; the dense meaning after "
    "the writes is what the code's readable entries show (write clause), and every observer is judged against it",
    "TLC and the CommunityModules Json/IOUtils modules are trusted",
]


def _replay_payload(line):
    """<<"REPLAY", "{...escaped json...}">>  ->  python object."""
    try:
        a = line.index(', "') + 2
        b = line.rindex('">>') + 1
        return json.loads(json.loads(line[a:b]))
    except Exception:
        return json.loads(vlib.parse_tla(line)[1])


def printed_values(out, tag):
    """All values printed by PrintT(<<"tag", ...>>) in a TLC output, as text with the line breaks of TLC's
    pretty printer removed (TLC wraps long values over several lines, which TlcResult.lines() does not see)."""
    vals, cur, depth = [], None, 0
    for line in out.splitlines():
        if cur is None:
            st = line.lstrip()
            if not (line.startswith("<<") and st[2:].lstrip().startswith('"%s"' % tag)):
                continue
            cur, depth = [], 0
        cur.append(line.strip())
        # bracket balance outside string literals
        instr, k = False, 0
        while k < len(line):
            c = line[k]
            if instr:
                if c == "\\":
                    k += 1
                elif c == '"':
                    instr = False
            elif c == '"':
                instr = True
            elif line.startswith("<<", k):
                depth += 1
                k += 1
            elif line.startswith(">>", k):
                depth -= 1
                k += 1
            k += 1
        if depth <= 0:
            vals.append(" ".join(cur))
            cur = None
    return vals


GSTRIDE, GHALF = 2000000, 1000000


def _num(code):
    """Integer code of a graded number (spec/matrix/Graded.tla) -> readable text."""
    e = (code + GHALF) // GSTRIDE
    m = code - e * GSTRIDE
    return str(m) if e == 0 else f"{m}*2^{80 * e}"


def _storage_tag(sc):
    kind = {"identity": "I", "from_storage_I": "I", "from_storage_B": "B", "banded": "B", "diagonal": "B",
            "lower_triangular": "B", "upper_triangular": "B"}.get(sc["ctor"], "F")
    return kind


def _signature(clause, sc, detail=None):
    """Scenarios whose operands went through Matrix::fill before their writes (sc.pf != 0) end in /prefilled."""
    sig = _signature0(clause, sc, detail)
    return sig + "/prefilled" if sc.get("pf", 0) != 0 else sig


def _signature0(clause, sc, detail=None):
    if clause == "fill" and isinstance(detail, dict) and "step" in detail:
        # the prefill step itself: storage kind of the operand handed to fill, and which operand
        return f"{PROP}/fill/{detail['kind']}/{detail['step']}"
    if clause in ("constructor", "write_in_band") and isinstance(detail, dict) and "ctor" in detail:
        # failed while building an operand: name the constructor; the scenario's final op is irrelevant
        return f"{PROP}/{clause}/{detail['ctor']}/build"
    if clause.endswith("_after_op"):
        # two-operation sequence: storage of A, first op, second op
        first = sc["op"] + ("(" + sc["bkind"] + ")" if sc["op"] in BIN_OPS else "")
        second = sc["op2"] + ("(" + sc["ckind"] + ")" if sc["op2"] in BIN_OPS else "")
        return f"{PROP}/{clause}/{_storage_tag(sc)}/{first}>{second}"
    if sc["op"] in BIN_OPS:
        who = _storage_tag(sc) + sc["bkind"]
    else:
        who = sc["ctor"]
    return f"{PROP}/{clause}/{who}/{sc['op']}"


def run_harness_bin(name, args, timeout=3600):
    """Run a harness binary from the directory the harness was actually built into (honours VERIF_REPO)."""
    vlib.ensure_harness()
    bindir = os.path.join(vlib._target_dir(), "release") if hasattr(vlib, "_target_dir") \
        else os.path.join(vlib.HARNESS, "target", "release")
    try:
        p = subprocess.run([os.path.join(bindir, name)] + list(args), stdout=subprocess.PIPE, stderr=subprocess.PIPE,
                           text=True, timeout=timeout)
    except subprocess.TimeoutExpired:
        raise vlib.ToolError(f"{name} timed out after {timeout}s")
    return p.returncode, p.stdout, p.stderr


def _validate(work, scen, tag, mutate=None):
    """Replay the scenarios on the real code and validate the trace with TLC.
    Returns (viol_lines, drift_lines, n_trace_lines, wall_replay, wall_tlc)."""
    chunks = [scen[k:k + CHUNK] for k in range(0, len(scen), CHUNK)] or [[]]
    jobs = []
    t0 = time.time()
    nlines = 0
    for k, ch in enumerate(chunks):
        sfile = os.path.join(work, f"scen-{tag}-{k}.ndjson")
        tfile = os.path.join(work, f"trace-{tag}-{k}.ndjson")
        with open(sfile, "w") as f:
            for s in ch:
                f.write(json.dumps(s) + "\n")
        args = [sfile, tfile] + (["--mutate", str(mutate)] if mutate else [])
        rc, out, err = run_harness_bin("replay_matrix", args)
        if rc != 0:
            raise vlib.ToolError(f"replay_matrix failed (rc={rc}): {err[-2000:]}")
        with open(tfile) as f:
            nl = sum(1 for _ in f)
        nlines += nl
        jobs.append((k, tfile, nl))
    t_replay = time.time() - t0

    def one(job):
        k, tfile, nl = job
        r = vlib.tlc("Trace_Matrix", "Trace_Matrix.cfg", cwd=SPEC_DIR, workers=1, deque=True, xss=True, xmx="4g",
                     env={"TRACE": tfile}, metadir=os.path.join(work, f"tlc-{tag}-{k}", "states"), timeout=3000)
        return k, nl, r

    t0 = time.time()
    viol, drift = [], []
    with concurrent.futures.ThreadPoolExecutor(max_workers=PARALLEL) as ex:
        for k, nl, r in ex.map(one, jobs):
            if not r.ok:
                vlib.log(r.out[-4000:])
                un = r.lines("UNMATCHED")
                raise vlib.ToolError(f"trace validation did not accept the trace (chunk {k}): "
                                     f"{r.error or r.invariant}; {un[:1]}")
            if r.depth != nl + 1:
                raise vlib.ToolError(f"trace chunk {k}: depth {r.depth} != lines+1 {nl + 1}")
            viol += printed_values(r.out, "VIOL")
            drift += printed_values(r.out, "DRIFT")
    return viol, drift, nlines, t_replay, time.time() - t0


def _violations(viol_lines, by_sid):
    out = []
    for line in viol_lines:
        v = vlib.parse_tla(line)          # ["VIOL","C17",clause,sid,detail]
        clause, sid, detail = v[2], v[3], v[4]
        s = by_sid[sid]
        out.append(vlib.Violation(PROP, _signature(clause, s["sc"], detail),
                                  f"clause={clause} scalars(s,s2)=({_num(s['sc']['s'])},{_num(s['sc'].get('s2', 0))}) "
                                  f"scenario={json.dumps(s['sc'], sort_keys=True)} observed={json.dumps(detail, sort_keys=True)} "
                                  "[numbers are codes m+e*2000000 of m*2^(80e)]",
                                  {"sc": s["sc"], "initA": s["initA"], "wsA": s["wsA"], "wsB": s["wsB"],
                                   "wsC": s.get("wsC", []), "expect": s.get("expect")}))
    return out


def run(tier, seed, replay, keep, mutate=None):
    t_start = time.time()
    # development aid (binding self-test): VERIF_MUTATE=<k> makes replay_matrix falsify the recorded outcome
    mutate = mutate or os.environ.get("VERIF_MUTATE") or None
    vlib.ensure_harness()
    work = vlib.workdir(f"c17-{os.getpid()}")
    try:
        if replay:
            blob = json.load(open(replay))
            s = dict(blob["scenario"])
            s["sid"] = 1
            s.setdefault("wsC", [])
            for k, v in SC2_DEFAULTS.items():      # replay files written before two-operation scenarios existed
                s["sc"].setdefault(k, v)
            viol, drift, nlines, _, _ = _validate(work, [s], "replay", mutate)
            vs = _violations(viol, {1: s})
            n_new, _ = vlib.report(PROP, vs)
            vlib.log(f"[C17] replayed 1 scenario: {len(viol)} contract failure(s), {len(drift)} drift line(s)")
            return 1 if n_new else 0

        cfg = "MC_Matrix.cfg" if tier == "quick" else "MC_Matrix_thorough.cfg"
        r = vlib.tlc("MC_Matrix", cfg, cwd=SPEC_DIR, workers=8, xmx="8g", timeout=3000,
                     metadir=os.path.join(work, "tlc-mc", "states"))
        if not r.ok:
            vlib.log(r.out[-6000:])
            if r.invariant:
                raise vlib.ToolError(f"MODEL PROBLEM: the exhaustive Level-B model violates {r.invariant} "
                                     "(Level B does not imply the contract): fix Matrix.tla / MatrixContract.tla, or "
                                     "re-read the code -- this is not a verdict about /repo")
            raise vlib.ToolError(f"TLC failed on MC_Matrix: {r.error}")
        scen = []
        for k, line in enumerate(r.lines("REPLAY")):
            s = _replay_payload(line)
            s["sid"] = k + 1
            scen.append(s)
        if not scen:
            raise vlib.ToolError("MC_Matrix produced no REPLAY lines")
        # deterministic order independent of TLC worker scheduling
        scen.sort(key=lambda s: json.dumps(s["sc"], sort_keys=True))
        for k, s in enumerate(scen):
            s["sid"] = k + 1
        vlib.log(f"[C17] model: {r.distinct} states, {r.generated} transitions, {len(scen)} scenarios in {r.wall:.1f}s")

        viol, drift, nlines, t_rep, t_tlc = _validate(work, scen, "all", mutate)
        vlib.log(f"[C17] replayed {len(scen)} scenarios ({nlines} trace lines) in {t_rep:.1f}s; trace validation {t_tlc:.1f}s; "
                 f"{len(viol)} VIOL, {len(drift)} DRIFT")
        by_sid = {s["sid"]: s for s in scen}
        vs = _violations(viol, by_sid)
        n_new, n_known = vlib.report(PROP, vs)

        per_op = collections.Counter(s["sc"]["op"] for s in scen)
        per_ctor = collections.Counter(s["sc"]["ctor"] for s in scen)
        per_pair = collections.Counter(_storage_tag(s["sc"]) + s["sc"]["bkind"] for s in scen if s["sc"]["op"] in BIN_OPS)
        per_op2 = collections.Counter(s["sc"]["op"] + ">" + s["sc"]["op2"] for s in scen if s["sc"]["op2"] != "none")
        per_n = collections.Counter(str(s["sc"]["n"]) for s in scen)
        per_pf = collections.Counter(s["sc"]["op"] + (">" + s["sc"]["op2"] if s["sc"]["op2"] != "none" else "")
                                     for s in scen if s["sc"].get("pf", 0) != 0)
        panics = sum(1 for s in scen if s["expect"]["panic"])
        pick = [scen[(seed * 7919 + k * len(scen) // 3) % len(scen)] for k in range(3)]
        samples = [{"scenario": p["sc"], "writes_A": p["wsA"], "writes_B": p["wsB"], "expected_dense_result": p["expect"]["res"],
                    "expected_panic": p["expect"]["panic"]} for p in pick]
        drift_samples = [vlib.parse_tla(d) for d in drift[:3]]
        cov = {
            "states": r.distinct, "transitions": r.generated,
            "traces_validated_against_impl": len(scen), "trace_lines": nlines,
            "samples": samples, "drift": len(drift), "drift_samples": drift_samples,
            "per_action": dict(per_op), "per_constructor": dict(per_ctor), "per_storage_pair": dict(per_pair),
            "two_operation_sequences": sum(per_op2.values()), "per_two_operation_sequence": dict(per_op2),
            "per_size": dict(per_n), "scenarios_expecting_panic": panics,
            "prefilled_scenarios": sum(per_pf.values()), "per_prefilled_observer": dict(per_pf),
            "contract_failures_on_impl": len(viol), "known_findings_matched": n_known,
            "exhaustive": True,
            "rule": "TLC enumerates every scenario of MC_Matrix (" + cfg + "): size x constructor x (ml,mu) in 0..n x fill pattern x "
                    "operation (read-all / one extra write at every (i,j) / binary op with every storage of the second operand, whose entries are "
                    "zeros, squares or (small sizes) multiples of 2^-80 / "
                    "scalar op with scalars -1,0,1,2,2^-80,-2^-80,2^80 / is_identity / swap_rows / fill), plus two-operation sequences (first: every scalar "
                    "op x scalar or binary op; second, on the result: is_identity / write at every (i,j) + read-all / scalar op / "
                    "binary op with a fresh Identity, Full or Banded operand), plus prefilled scenarios (Matrix::fill(5 or 2^-80) on "
                    "every operand incl. Identity, all writable entries then written with the zero / identity / distinct pattern, observed by "
                    "read-all, is_identity, a further write, every scalar op, every binary op x storage of a prefilled second operand, and "
                    "component_mul[_mut] followed by every second operation), the contract being evaluated after EACH step; each scenario is one behaviour of the "
                    "model, is replayed on the real Matrix API and its recorded trace is validated by TLC against Trace_Matrix",
        }
        vlib.write_evidence(PROP, tier, seed, "model_checking", cov, ASSUMPTIONS, time.time() - t_start, n_new)
        return 1 if n_new else 0
    finally:
        if not keep:
            vlib.cleanup(work)

"""C02 -- Each method attains its advertised order (explicit tableaux; proof level, restricted scope).

Pipeline (model-based; the TLA+ specification decides):
  1. checks/tableaux_gen.py (single source of the exact rationals) (re)writes spec/tableaux/Tableaux<M>.tla:
     the tableau as integer numerators over common denominators and one operator per order condition
     (Ob_C02_...: must hold, Neg_C02_...: an identity of order p+1 that must FAIL, so the order is exactly p).
  2. Apalache discharges All_C02 of every module (one run per method; Apalache splits the conjunction and
     reports every conjunct separately, which is what is counted as `discharged`) and REFUTES a canary
     (a false identity) -- anti-vacuity.  A failed obligation here means the spec's table is wrong: tool error.
  3. Binding = tableau extraction.  harness/src/bin/probe_tableau.rs runs ONE step of the real solver
     (low-level `solve` and `solve_ivp`, h = +1 and h = -1) on an impulse probe whose k-th `ode` call returns e_k:
     the (t, y) arguments of the successive calls are c_i and a_ij, the state after the step is b_j.
     A scalar probe with tight tolerance makes |sum_k w_k e_k| visible through the returned next step size
     (error-estimator weights, incl. relative signs).  Independently every `const X: Float = ...;` of
     src/methods/<m>.rs is parsed and evaluated as rustc does (IEEE double division).
  4. Every extracted number is compared with the specification's rational: the driver converts the double
     exactly to a rational and computes an integer distance; TLC (spec/tableaux/Trace_Tableau.tla) evaluates the
     contract `dist <= bound` on every record and prints VIOL lines -> VIOLATION property=C02.
     Landing-step probes: two steps (first_step = max_step = 1, span 1.3) so that the second step is shortened by the landing logic; c_i
     relative to the ACTUAL step, a_ij, b_j of that step, and the call that provides its k1 = f(x_1, y_1), with the low-level builders'
     dense_output(true) and dense_output(false) (identical stage arguments required).  DOP853's dense-only stages 14-16 are left to C07.  RADAU also has the flag but is implicit: not probed.
     Rejection probes (RK23, DOPRI5, DOP853; first step and after one accepted step): a per-component atol forces the first attempt of a step to
     be rejected; the accepted retry must apply the tableau with k_1 = f(x_n, y_n) at the accepted state.
     RADAU: spec/tableaux/TableauxRADAU.tla brackets the nodes c_1 < c_2 (roots of 10c^2 - 8c + 1) to 1e-30; every Newton iteration's three
     evaluation times (time-dependent problems y_k' = t^k and t^k - y_k, three steps, both directions) must be x_n + c_i h; y' = t^k, k <= 4,
     must be integrated exactly (numeric allowance).  A run whose call pattern cannot be interpreted is skipped and counted as drift.
     RADAU Pade clause: adaptive runs (low-level and solve_ivp) on y' = lambda y with the exact Jacobian, lambda in {-1, -5, 2 (backward), 1, -1
     (backward)} and seed-dependent values, rtol 1e-3..1e-8, atol = rtol and rtol/1000: for EVERY accepted step y_new/y_old must equal
     R(h lambda) = (1 + 2z/5 + z^2/20)/(1 - 3z/5 + 3z^2/20 - z^3/60) (proved to be the (2,3) Pade approximant of exp in TableauxRADAU.tla) to
     1.2e-10 relative; the runs must contain steps of unchanged length (kept Jacobian/factorisation), otherwise the probe reports itself as not exercised.
  thorough adds: every canary, every negative fact once more as an invariant of its own, estimator sums over all stage pairs.
"""
import concurrent.futures
import json
import math
import os
import re
import struct
import time
from fractions import Fraction as F

import vlib
from checks import tableaux_gen as tg

PROP = "C02"
SPEC_DIR = os.path.join(vlib.SPEC, "tableaux")
CAP = 2_000_000_000          # TLC has 32-bit integers
EST_BOUND = 128              # error-estimator sums: relative distance in units of 2^-52
SAFETY = {"RK23": (F(0.9), 3), "DOPRI5": (F(0.9), 5), "DOP853": (F(0.9), 8)}   # safety factor, 1/exponent of the controller

ASSUMPTIONS = [
    "division of labour: TLC has neither 53-bit mantissas nor big integers, so the driver converts every extracted double EXACTLY "
    "to a rational (python fractions) and computes the integer distance to the specification's rational (ulps, capped at 2e9); "
    "TLC only evaluates the contract dist <= bound per record (spec/tableaux/Trace_Tableau.tla)",
    "the rationals in the generated .tla modules and the rationals the extraction is compared with come from the same table "
    "(checks/tableaux_gen.py); the .tla files are regenerated on every run and are what Apalache checks",
    "the expansion of each rooted tree's order condition into an integer identity (tree enumeration, gamma, elementary weights) is done "
    "by the generator; Apalache decides the resulting identities, it does not check the expansion against Butcher's theory",
    "DOP853: the tableau is irrational; its 30-digit decimals are read as exact rationals and only row sums and quadrature "
    "conditions (bushy trees) are decided, to 1e-25; the other ~190 tree conditions of order <= 8 are not",
    "impulse probing identifies coefficients because one step of an explicit RK method is linear in the returned derivative values; "
    "x0 = 0, y0 = 0, |h| = 1 make every product exact, so the extracted a_ij must equal the code's constant exactly (bound: 1 ulp)",
    "error-estimator weights are observed only through the next step size proposed by the controller; the assumed controller law "
    "hnew = h * 0.9 * err^(-1/k), k = 3, 5, 8 (safety factor, clamps and beta pinned through the builders) is first calibrated per method and "
    "direction on the stage sets {1} and {last stage} (weights bound by the source route) at three magnitudes each; if neither follows the law the route is skipped and "
    "counted as coverage.controller_model_mismatch (drift), never a violation; allowance 128 * 2^-52 relative on |sum_k w_k e_k|",
    "source-level extraction assumes `const NAME: Float = <literal> [/ <literal>];` and that rustc evaluates it in IEEE double arithmetic",
    "RADAU: only the abscissae c_1, c_2, c_3 of the stage evaluations are bound (nodes bracketed to 1e-30 by Apalache) plus a numeric sanity probe "
    "(y' = t^k, k <= 4, exact to 16 ulp); the call pattern (evaluations at x_n, then triples, f(x_n + h) after acceptance) is read from the code and a run that "
    "does not fit it is skipped as drift",
    "rejection probes: the accepted attempt is taken to be the last n calls before the callback that follows it; a run that does not decompose into "
    "accepted steps and rejected attempts of the known lengths is skipped as drift",
    "RADAU Pade clause: decided on linear scalar problems y' = lambda y with the exact Jacobian only (Newton is then exact); h is taken as the difference of "
    "the accepted abscissae; allowance 2^19 * 2^-52 = 1.2e-10 relative; 'fast path exercised' is inferred from accepted steps of unchanged length",
    "NOT decided: Radau's order conditions for general right-hand sides, 'accepted steps grow like tol^(-1/q)' (numeric); BDF is not covered",
]

TRUSTED = [
    "Apalache 0.58 (TLA+ preprocessing incl. constant simplification with big integers, SMT encoding) and Z3",
    "checks/tableaux_gen.py: expansion of the rooted-tree order conditions into integer identities; single source of the rationals",
    "python fractions/int arithmetic for exact double->rational conversion and ulp distances",
    "TLC + CommunityModules (Json, IOUtils) for the per-record contract evaluation",
    "IEEE-754: rustc's and CPython's decimal->double conversion and double division are correctly rounded",
]


# ------------------------------------------------------------------ doubles
def tok(x):
    return "%016x" % struct.unpack("<Q", struct.pack("<d", float(x)))[0]


def untok(s):
    return struct.unpack("<d", struct.pack("<Q", int(s, 16)))[0]


def _ordinal(x):
    b = struct.unpack("<q", struct.pack("<d", x))[0]
    return b if b >= 0 else -(b & 0x7FFFFFFFFFFFFFFF)


def ulp_dist(x, q):
    """number of doubles between the double x and the correctly rounded rational q (capped)."""
    if x != x or x in (float("inf"), float("-inf")):
        return CAP
    if q == 0:
        return 0 if x == 0 else CAP
    r = q.numerator / q.denominator      # correctly rounded (CPython int/int true division)
    return min(CAP, abs(_ordinal(x) - _ordinal(r)))


def ulp_of(m):
    """ulp of the binade of the positive rational m, as a Fraction."""
    e = m.numerator.bit_length() - m.denominator.bit_length()
    while F(2) ** e > m:
        e -= 1
    while F(2) ** (e + 1) <= m:
        e += 1
    return F(2) ** (e - 52)


def abs_dist(x, q, scale):
    """ceil(|x - q| / ulp(scale)) for the double x and rationals q, scale (scale = 0: x must be exactly q)."""
    if x != x or x in (float("inf"), float("-inf")):
        return CAP
    d = abs(F(x) - q)
    if d == 0:
        return 0
    if scale == 0:
        return CAP
    return min(CAP, math.ceil(d / ulp_of(scale)))


# ------------------------------------------------------------------ temp files of the JVM tools
def use_private_tmp(work):
    """apalache-mc creates ./tmp in its cwd when TMPDIR is unset and SANY/TLC unpack their standard modules into the temp dir:
    point both into the check's work directory, which is removed at the end."""
    tmp = os.path.join(work, "tmp")
    os.makedirs(tmp, exist_ok=True)
    os.environ["TMPDIR"] = tmp
    return tmp


# ------------------------------------------------------------------ Apalache
def run_apalache(modules_invs, canaries, parallel=3):
    """modules_invs: [(method, module path, [invariant names], [expected conjunct names])].
    Returns dict with obligations, discharged, walls, cmds.  Raises ToolError on a failed obligation."""
    res = {"obligations": 0, "discharged": 0, "runs": [], "canaries_refuted": 0, "canaries": 0}

    def one(item):
        method, path, invs, names = item
        rc, out, wall = vlib.apalache(os.path.basename(path), ["--length=0", "--inv=" + ",".join(invs)], cwd=SPEC_DIR, timeout=600)
        return method, path, invs, names, rc, out, wall

    with concurrent.futures.ThreadPoolExecutor(max_workers=parallel) as ex:
        outs = list(ex.map(one, modules_invs))
    for method, path, invs, names, rc, out, wall in outs:
        m = re.search(r"Checking (\d+) state invariants", out)
        nchk = int(m.group(1)) if m else 0
        holds = len(re.findall(r"State 0: state invariant \d+ holds", out))
        ok = rc == 0 and "The outcome is: NoError" in out
        res["runs"].append({"method": method, "module": os.path.basename(path), "inv": ",".join(invs), "conjuncts": len(names),
                            "checked_by_apalache": nchk, "holds": holds, "wall_s": round(wall, 1), "ok": ok})
        res["obligations"] += len(names)
        if ok and nchk == len(names) and holds == len(names):
            res["discharged"] += holds
            continue
        if rc == 124:
            raise vlib.ToolError(f"Apalache timed out on {os.path.basename(path)}")
        if "state invariant" in out and "violated" in out:
            # pinpoint the failing obligation(s): one run each (failure path only)
            bad = []
            for n in names:
                rc1, out1, _ = vlib.apalache(os.path.basename(path), ["--length=0", "--inv=" + n], cwd=SPEC_DIR, timeout=300)
                if not (rc1 == 0 and "The outcome is: NoError" in out1):
                    bad.append(n)
            raise vlib.ToolError(f"specification table wrong: obligation(s) {bad} of {os.path.basename(path)} refuted by Apalache "
                                 "(the published tableaux satisfy them, so this is an error of the spec/generator, not a verdict)")
        vlib.log(out[-3000:])
        raise vlib.ToolError(f"Apalache failed on {os.path.basename(path)} (rc={rc}, {nchk} conjuncts seen, {holds} hold)")
    for path, name in canaries:
        rc, out, wall = vlib.apalache(os.path.basename(path), ["--length=0", "--inv=" + name], cwd=SPEC_DIR, timeout=300)
        res["canaries"] += 1
        if rc == 12 and "violated" in out and "The outcome is: Error" in out:
            res["canaries_refuted"] += 1
        else:
            vlib.log(out[-2000:])
            raise vlib.ToolError(f"anti-vacuity: Apalache did not refute the false identity {name} of {os.path.basename(path)} (rc={rc})")
        res["runs"].append({"module": os.path.basename(path), "inv": name, "canary": True, "refuted": True, "wall_s": round(wall, 1)})
    return res


# ------------------------------------------------------------------ probe jobs
DIRS = (("fwd", 1), ("bwd", -1))


def unit_jobs(methods, thetas):
    jobs = []
    for m in methods:
        t = tg.tab(m)
        for dn, d in DIRS:
            for api in ("lowlevel", "solve_ivp"):
                jobs.append({"id": f"unit/{m}/{api}/{dn}", "kind": "unit", "api": api, "method": m, "dir": d, "dirname": dn,
                             "dim": t.ncalls, "resp": "unit", "atol": [tok(1e300)], "rtol": tok(0.0),
                             "thetas": [tok(x) for x in thetas]})
    return jobs


def est_weights(m):
    """(label, {stage: Fraction}) of the error-estimator sums the code forms, per stage."""
    t = tg.tab(m)
    if m == "DOP853":
        e5 = dict(t.er)
        e3 = {j: t.b.get(j, F(0)) - t.bhh.get(j, F(0)) for j in set(t.b) | set(t.bhh)}
        return e5, e3, 12
    return dict(t.est[0][1]), None, t.s


def est_prediction(m, w, atol):
    """exact rational the controller's err (RK23, DOPRI5) resp. err^2 (DOP853) must equal for responses w (dim 1, |h| = 1)."""
    e5, e3, _ = est_weights(m)
    s5 = sum(w.get(j, 0) * e5.get(j, F(0)) for j in w)
    if m == "DOP853":
        s3 = sum(w.get(j, 0) * e3.get(j, F(0)) for j in w)
        den = s5 * s5 + F(1, 100) * s3 * s3
        if den == 0:
            return F(0)
        return s5 ** 4 / (atol * atol * den)
    return abs(s5) / atol


def est_jobs(methods, tier="quick"):
    jobs = []
    for m in methods:
        if m == "RK4":
            continue
        e5, e3, ns = est_weights(m)
        t = tg.tab(m)
        combos = [{j: 1} for j in range(1, ns + 1)] + [{1: 1, j: 1} for j in range(2, ns + 1)]
        if tier == "thorough":
            combos += [{j: 1, k: 1} for j in range(2, ns + 1) for k in range(j + 1, ns + 1)]
        # calibration of the assumed controller law (kind "cal"): stage sets {1} and {last stage}, whose weights are bound by the source
        # route, each at three magnitudes err, err/2, err/4 that bracket the range (0.25, 0.5] used by the comparisons below
        for w, kind, shifts in [({1: 1}, "cal", (0, 1, 2)), ({ns: 1}, "cal", (0, 1, 2))] + [(w, "est", (0,)) for w in combos]:
            p1 = est_prediction(m, w, F(1))
            if p1 == 0:
                continue          # nothing visible (err = 0); the pair {1, j} still shows that stage j has weight 0
            val = math.sqrt(p1) if m == "DOP853" else float(p1)
            k0 = math.ceil(math.log2(val / 0.5))          # err in (0.25, 0.5]
            for sh in shifts:
                k = k0 + sh
                atol = F(2) ** k
                for dn, d in DIRS:
                    resp = [[tok(float(w.get(c, 0)))] for c in range(1, t.ncalls + 1)]
                    name = "+".join(str(j) for j in sorted(w)) + ("" if kind == "est" else "@%d" % sh)
                    jobs.append({"id": f"{kind}/{m}/{dn}/{name}", "kind": kind, "api": "lowlevel", "method": m,
                                 "dir": d, "dirname": dn, "dim": 1, "resp": resp, "atol": [tok(float(atol))], "rtol": tok(0.0), "thetas": [],
                                 "beta0": True, "max_step": tok(1024.0), "w": {str(j): 1 for j in w}, "atol_log2": k})
    return jobs


def run_probe(jobs, work, tag):
    jf = os.path.join(work, f"jobs-{tag}.ndjson")
    with open(jf, "w") as f:
        for j in jobs:
            f.write(json.dumps(j) + "\n")
    rc, out, err = vlib.run_bin("probe_tableau", [], stdin=open(jf).read(), timeout=600)
    if rc != 0:
        raise vlib.ToolError(f"probe_tableau failed (rc={rc}): {err[-2000:]}")
    recs = {}
    for line in out.splitlines():
        if line.strip():
            r = json.loads(line)
            recs[r["id"]] = r
    if len(recs) != len(jobs):
        raise vlib.ToolError(f"probe_tableau returned {len(recs)} records for {len(jobs)} jobs")
    with open(os.path.join(work, f"probe-{tag}.ndjson"), "w") as f:
        f.write(out)
    return recs


# ------------------------------------------------------------------ facts
class Facts:
    def __init__(self, prop):
        self.prop = prop
        self.rows = []          # what TLC sees
        self.info = []          # same index: extra python-side info for messages / replay

    def add(self, method, coef, dirname, via, dist, bound, **info):
        self.rows.append({"prop": self.prop, "method": method, "coef": coef, "dir": dirname, "via": via,
                          "dist": int(min(CAP, dist)), "bound": int(bound)})
        self.info.append(info)

    def write(self, path):
        with open(path, "w") as f:
            for r in self.rows:
                f.write(json.dumps(r) + "\n")


def main_stages(m):
    """number of evaluations that determine the step itself (incl. f(x_new, y_new)); DOP853's stages 14-16 serve only the dense
    output and are attributed to C07."""
    return STRUCT[m][1] + 1


def facts_from_unit_run(facts, job, rec, max_stage=None):
    """c_i, a_ij, b_j of one impulse-probe run (stages above max_stage are left to the other check)."""
    m, dn, d, via = job["method"], job["dirname"], job["dir"], job["api"]
    t = tg.tab(m)
    if rec.get("panic") or rec.get("error"):
        facts.add(m, "run", dn, via, CAP, 0, got="panic/error: %s" % (rec.get("panic") or rec.get("error")), want="a completed step")
        return
    calls = rec["calls"]
    facts.add(m, "ncalls", dn, via, abs(len(calls) - t.ncalls), 0, got=len(calls), want=t.ncalls)
    for i in range(1, (max_stage or t.ncalls) + 1):
        if i > len(calls):
            facts.add(m, "c_%d" % i, dn, via, CAP, 1, got="missing ode call", want=str(t.c[i]))
            continue
        c = calls[i - 1]
        x = untok(c["t"])
        facts.add(m, "c_%d" % i, dn, via, ulp_dist(x, d * t.c[i]), 1, got=x, want=str(d * t.c[i]))
        ys = [untok(v) for v in c["y"]]
        for j in range(1, t.ncalls + 1):
            q = d * t.a(i, j)
            facts.add(m, "a_%d_%d" % (i, j), dn, via, ulp_dist(ys[j - 1], q), 1, got=ys[j - 1], want=str(q))
    # state after the step
    if via == "lowlevel":
        evs = [e for e in rec.get("solout", []) if e["has_interp"] or untok(e["x"]) != 0.0]
        if len(evs) != 1:
            facts.add(m, "steps", dn, via, CAP, 0, got="%d step callbacks" % len(evs), want=1)
            return
        ynew, xnew = [untok(v) for v in evs[0]["y"]], untok(evs[0]["x"])
    else:
        sol = rec["sol"]
        ts = [untok(v) for v in sol["t"]]
        ynew, xnew = [untok(v) for v in sol["y"][-1]], ts[-1]
    facts.add(m, "x_new", dn, via, ulp_dist(xnew, F(d)), 0, got=xnew, want=d)
    for j in range(1, t.ncalls + 1):
        q = d * t.b.get(j, F(0))
        if via == "lowlevel":
            facts.add(m, "b_%d" % j, dn, via, ulp_dist(ynew[j - 1], q), 1, got=ynew[j - 1], want=str(q))
        else:
            # with Options::first_step set, solve_ivp's first sample is the step interpolant evaluated at x0 + first_step, not the
            # solver's state: allow the rounding of that evaluation (16 ulp of the largest monomial of b_j(theta) at theta = 1)
            _, scale = t.bth(j, F(1))
            facts.add(m, "b_%d" % j, dn, via, abs_dist(ynew[j - 1], q, scale), 16, got=ynew[j - 1], want=str(q),
                      note="first sample of solve_ivp = interpolant at theta=1")


def est_observe(job, rec):
    """(dist in 2^-52 relative units, got, want, extra) of one scalar error-weight probe against the assumed controller law
    hnew = h * 0.9 * err^(-1/k) (err = |sum_k w_k e_k| |h| / atol; DOP853: its two-estimator formula)."""
    m, d = job["method"], job["dir"]
    w = {int(k): v for k, v in job["w"].items()}
    atol = F(2) ** job["atol_log2"]
    want = est_prediction(m, w, atol)
    res = rec.get("result")
    if not res:
        return CAP, "panic/error: %s" % (rec.get("panic") or rec.get("error")), float(want), {}
    hnew = untok(res["h"])
    if res["naccpt"] != 1 or res["nrejct"] != 0 or not (hnew == hnew) or hnew == 0 or abs(hnew) == float("inf"):
        return CAP, "accepted=%s rejected=%s hnew=%r" % (res["naccpt"], res["nrejct"], hnew), "one accepted step, err=%g" % float(want), {}
    sf, k = SAFETY[m]
    ratio = sf * F(d) / F(hnew)
    got = ratio ** (2 * k if m == "DOP853" else k)        # err (RK23, DOPRI5), err^2 (DOP853)
    rel = abs(got - want) / want
    return min(CAP, math.ceil(rel * 2 ** 52)), float(got), float(want), {"hnew": hnew}


def facts_from_est_run(facts, job, rec):
    w = {int(k): v for k, v in job["w"].items()}
    name = "est_sum_" + "+".join(str(j) for j in sorted(w))
    dist, got, want, extra = est_observe(job, rec)
    facts.add(job["method"], name, job["dirname"], "stepsize", dist, EST_BOUND, got=got, want=want, **extra)


def calibrate(jobs, recs):
    """{(method, dirname): None | reason}: does the returned step size follow the assumed controller law on the calibration probes?
    The law is accepted if at least one calibration stage set follows it at all three magnitudes (a change of the controller breaks
    every set; a wrong weight breaks only the sets containing its stage, and is then reported by the comparison proper).
    A mismatch means the step-size controller differs from the model this route relies on (not a C02 matter): the route is skipped."""
    per = {}
    for j in jobs:
        if j["kind"] != "cal":
            continue
        key = (j["method"], j["dirname"])
        wset = "+".join(sorted(j["w"]))
        dist, got, want, _ = est_observe(j, recs[j["id"]])
        why = None
        if dist > EST_BOUND:
            why = "calibration probe %s: observed %r, controller model predicts %r (distance %s > %d)" % (
                j["id"], got, want, ">= 2e9" if dist >= CAP else dist, EST_BOUND)
        per.setdefault(key, {}).setdefault(wset, [])
        if why:
            per[key][wset].append(why)
    out = {}
    for key, sets in per.items():
        if any(not fails for fails in sets.values()):
            out[key] = None
        else:
            out[key] = "; ".join(f[0] for f in sets.values())
    return out


_CONST = re.compile(r"^\s*(?:pub\s+)?const\s+([A-Z][A-Z0-9_]*)\s*:\s*Float\s*=\s*([^;]+);", re.M)


def _lit(s):
    s = s.strip().replace("_", "")
    if not re.fullmatch(r"[-+]?(\d+\.?\d*|\.\d+)([eE][-+]?\d+)?", s):
        raise ValueError(s)
    return float(s)


def facts_from_source(facts, m, drift, want=lambda coef: True):
    path = os.path.join(vlib.repo_dir(), "src", "methods", m.lower() + ".rs")
    text = open(path).read()
    spec = tg.tab(m).coeffs()
    seen = set()
    for name, rhs in _CONST.findall(text):
        coef = tg.source_name_to_coef(m, name)
        try:
            parts = rhs.split("/")
            val = _lit(parts[0]) if len(parts) == 1 else _lit(parts[0]) / _lit(parts[1])
            if len(parts) > 2:
                raise ValueError(rhs)
        except (ValueError, ZeroDivisionError):
            drift.append(f"{m}: cannot evaluate `const {name} = {rhs.strip()}`")
            continue
        if coef is None or coef not in spec:
            drift.append(f"{m}: source constant {name} has no counterpart in the specification table")
            continue
        if not want(coef):
            continue
        seen.add(coef)
        facts.add(m, coef, "src", "source", ulp_dist(val, spec[coef]), 1, got=val, want=str(spec[coef]), const=name)
    return seen


# ------------------------------------------------------------------ landing-step probes (two steps, the second one shortened)
LAND_SPAN = 1.3
# (ode calls per step after k1 is available, without the dense-only stages; position among them of the call that provides the next k1)
STRUCT = {"RK4": (4, 4), "RK23": (3, 3), "DOPRI5": (6, 6), "DOP853": (12, 12)}


def n_step(m, dense):
    return STRUCT[m][0] + (3 if (m == "DOP853" and dense) else 0)


def k1_call(m):
    """1-based index of the ode call of step 1 whose result is k1 of step 2: f(x_1, y_1)."""
    return 1 + STRUCT[m][1]


def comp(m, dense, j):
    """1-based index of the ode call (= probe component) whose derivative is k_j of step 2
    (dense: whether step 1 computed the dense-only stages, which shifts the calls of step 2)."""
    return k1_call(m) if j == 1 else 1 + n_step(m, dense) + 1 + (j - 2)


def last_stage(m, dense):
    return tg.tab(m).ncalls if (dense or m != "DOP853") else 13


def landing_jobs(methods, thetas=(), apis=("lowlevel", "nodense")):
    """Two steps: first_step = 1 = max_step on a span of 1.3, so the second step is shortened to 0.3 by the landing logic.
    apis: lowlevel (builder default, dense on), nodense (low-level builder with dense_output(false)), solve_ivp."""
    jobs = []
    for m in methods:
        for dn, d in DIRS:
            for api in apis:
                dense = api != "nodense"
                x1, x2 = d * 1.0, d * LAND_SPAN
                job = {"id": f"land/{m}/{api}/{dn}", "kind": "land", "api": "solve_ivp" if api == "solve_ivp" else "lowlevel", "route": api,
                       "method": m, "dir": d, "dirname": dn, "dim": 1 + 2 * n_step(m, dense), "resp": "unit", "atol": [tok(1e300)],
                       "rtol": tok(0.0), "span": tok(LAND_SPAN), "max_step": tok(1.0), "dense": dense,
                       "thetas": [tok(x) for x in thetas] if api == "lowlevel" else [],
                       "xis": [tok(x1 + th * (x2 - x1)) for th in thetas] if api == "solve_ivp" else []}
                jobs.append(job)
    return jobs


def _finite(xs):
    return all(x == x and abs(x) != float("inf") for x in xs)


def landing_geometry(job, rec):
    """(x1, y1, x2, y2) of the two steps, or a string saying why not.  Low-level routes: from the SolOut callbacks;
    solve_ivp: from the arguments of the two f(x_new, y_new) calls."""
    m, d, dense = job["method"], job["dir"], job["dense"]
    if rec.get("panic") or rec.get("error"):
        return "panic/error: %s" % (rec.get("panic") or rec.get("error"))
    if job["api"] == "lowlevel":
        evs = [e for e in rec.get("solout", []) if untok(e["x"]) != 0.0]
        if len(evs) != 2:
            return "%d step callbacks instead of 2" % len(evs)
        g = (untok(evs[0]["x"]), [untok(v) for v in evs[0]["y"]], untok(evs[1]["x"]), [untok(v) for v in evs[1]["y"]])
    else:
        calls = rec["calls"]
        a, b = k1_call(m), comp(m, dense, STRUCT[m][1] + 1)
        if len(calls) < b:
            return "%d ode calls, expected at least %d" % (len(calls), b)
        g = (untok(calls[a - 1]["t"]), [untok(v) for v in calls[a - 1]["y"]], untok(calls[b - 1]["t"]), [untok(v) for v in calls[b - 1]["y"]])
    if not _finite([g[0], g[2]] + g[1] + g[3]) or g[0] == g[2]:
        return "non-finite or degenerate step data"
    return g


def _rel_dist(got, want):
    """distance of the rational got from the rational want in ulps of want (want = 0: must be equal)."""
    if got == want:
        return 0
    if want == 0:
        return CAP
    return min(CAP, math.ceil(abs(got - want) / ulp_of(abs(want))))


def facts_from_landing_run(facts, job, rec, max_stage=None):
    """c_i, a_ij, b_j of the SECOND (shortened) step, relative to its actual start and length; which call provides its k1;
    for the dense-only stages also the abscissae of the FIRST step."""
    m, dn, d, dense = job["method"], job["dirname"], job["dir"], job["dense"]
    via = "land/solve_ivp" if job["api"] == "solve_ivp" else ("land" if dense else "land/nodense")
    t = tg.tab(m)
    g = landing_geometry(job, rec)
    if isinstance(g, str):
        facts.add(m, "land_run", dn, via, CAP, 0, got=g, want="two completed steps")
        return
    x1, y1, x2, y2 = g
    calls = rec["calls"]
    exp = 1 + 2 * n_step(m, dense)
    facts.add(m, "land_ncalls", dn, via, abs(len(calls) - exp), 0, got=len(calls), want=exp)
    facts.add(m, "land_x1", dn, via, ulp_dist(x1, F(d * 1.0)), 0, got=x1, want=d * 1.0)
    facts.add(m, "land_x2", dn, via, ulp_dist(x2, F(d * LAND_SPAN)), 0, got=x2, want=d * LAND_SPAN)
    h2 = F(x2) - F(x1)
    xscale = max(abs(F(x1)), abs(F(x2)))
    dim = len(y1)
    kc = k1_call(m)
    ok = len(calls) >= kc and untok(calls[kc - 1]["t"]) == x1 and [untok(v) for v in calls[kc - 1]["y"]] == y1
    facts.add(m, "land_k1src", dn, via, 0 if ok else CAP, 0,
              got=("ode call %d at t=%r" % (kc, untok(calls[kc - 1]["t"]))) if len(calls) >= kc else "no such call",
              want="ode call %d evaluated exactly at (x_1, y_1) = (%r, state after step 1): the first-stage derivative of step 2" % (kc, x1))
    top = min(last_stage(m, dense), max_stage or 10 ** 6)
    for i in range(main_stages(m) + 1, top + 1):
        # dense-only stages of the FIRST step (the main stages of a first step are covered by the single-step probes)
        if i <= len(calls):
            tt = untok(calls[i - 1]["t"])
            facts.add(m, "land1_c_%d" % i, dn, via, abs_dist(tt, t.c[i] * F(x1), abs(F(x1))) if _finite([tt]) else CAP, 2,
                      got="t=%r in the step [0, %r]" % (tt, x1), want="c_%d = %s" % (i, t.c[i]))
    step_weight_facts(facts, m, dn, via, "land", (x1, y1, x2, y2), calls, lambda j: comp(m, dense, j), top, "step 2")


def step_weight_facts(facts, m, dn, via, prefix, g, calls, compf, top, what, h_exact=True):
    """c_i (relative to the start and the ACTUAL length of the step), a_ij, b_j of one accepted step of an impulse-probe run.
    g = (x_n, y_n, x_{n+1}, y_{n+1}); compf(j) = 1-based index of the ode call whose result is k_j of this step."""
    t = tg.tab(m)
    x1, y1, x2, y2 = g
    h2 = F(x2) - F(x1)
    xscale = max(abs(F(x1)), abs(F(x2)))
    dim = len(y1)
    # allowance for a_ij, b_j in ulps of the coefficient: 4, plus -- when the step length is only known as x_{n+1} - x_n of the callbacks
    # (the solver's own h may differ from it by the rounding of x_n + h) -- that relative uncertainty
    wbound = 4 if h_exact else 4 + math.ceil(ulp_of(xscale) / abs(h2) * 2 ** 53)
    for i in range(2, top + 1):
        ci = compf(i)
        if ci > len(calls):
            facts.add(m, "%s_c_%d" % (prefix, i), dn, via, CAP, 2, got="missing ode call %d" % ci, want=str(t.c[i]))
            continue
        tt = untok(calls[ci - 1]["t"])
        ys = [untok(v) for v in calls[ci - 1]["y"]]
        if not _finite([tt] + ys) or len(ys) != dim:
            facts.add(m, "%s_c_%d" % (prefix, i), dn, via, CAP, 2, got="non-finite stage arguments", want=str(t.c[i]))
            continue
        facts.add(m, "%s_c_%d" % (prefix, i), dn, via, abs_dist(tt, F(x1) + t.c[i] * h2, xscale), 2,
                  got="t=%r, i.e. c=%.17g of the actual step" % (tt, float((F(tt) - F(x1)) / h2)), want="c_%d = %s" % (i, t.c[i]))
        used = set()
        for j in range(1, i):
            q = compf(j)
            used.add(q)
            got = (F(ys[q - 1]) - F(y1[q - 1])) / h2
            facts.add(m, "%s_a_%d_%d" % (prefix, i, j), dn, via, _rel_dist(got, t.a(i, j)), wbound, got=float(got), want=str(t.a(i, j)))
        stale = [q for q in range(1, dim + 1) if q not in used and ys[q - 1] != y1[q - 1]]
        facts.add(m, "%s_other_%d" % (prefix, i), dn, via, CAP if stale else 0, 0,
                  got="stage %d of %s moved components %s (derivatives of other ode calls)" % (i, what, stale[:6]),
                  want="only k_1..k_%d of %s enter, k_1 = result of ode call %d" % (i - 1, what, compf(1)))
    used = set()
    for j in range(1, top + 1):
        q = compf(j)
        used.add(q)
        got = (F(y2[q - 1]) - F(y1[q - 1])) / h2
        facts.add(m, "%s_b_%d" % (prefix, j), dn, via, _rel_dist(got, t.b.get(j, F(0))), wbound, got=float(got), want=str(t.b.get(j, F(0))))
    stale = [q for q in range(1, dim + 1) if q not in used and y2[q - 1] != y1[q - 1]]
    facts.add(m, "%s_other_b" % prefix, dn, via, CAP if stale else 0, 0, got="the update of %s moved components %s" % (what, stale[:6]),
              want="only k_j of %s enter" % what)


# ------------------------------------------------------------------ rejected-and-retried steps
REJ_CALLS = {"RK23": 3, "DOPRI5": 6, "DOP853": 11}        # ode calls of one rejected attempt


def reject_jobs(methods):
    """Impulse probe with a per-component atol that is tiny exactly on the components fed by the FIRST attempt of a step, so that this
    attempt is rejected whatever it computes and the retry (whose components have a huge atol) is accepted; variants: rejection on the
    very first step / on the step after one accepted step.  The run is interrupted from the callback of the accepted retry."""
    jobs = []
    for m in methods:
        if m not in REJ_CALLS:
            continue
        ns, nr = n_step(m, True), REJ_CALLS[m]
        for variant in ("first", "later"):
            base = 1 if variant == "first" else 1 + ns
            dim = base + nr + ns + 2 * (nr + ns)           # room for further attempts
            atol = [1e300] * dim
            for c in range(base + 1, base + nr + 1):
                atol[c - 1] = 2.0 ** -20
            for dn, d in DIRS:
                jobs.append({"id": f"rej/{m}/{variant}/{dn}", "kind": "rej", "api": "lowlevel", "method": m, "dir": d, "dirname": dn,
                             "dim": dim, "resp": "unit", "atol": [tok(a) for a in atol], "rtol": tok(0.0), "thetas": [], "span": tok(4.0),
                             "max_step": tok(1.0), "dense": True, "stop_after": 1 if variant == "first" else 2, "variant": variant})
    return jobs


def facts_from_reject_run(facts, job, rec, notes):
    """The accepted retry after rejected attempt(s): its stage arguments must be y_n + h' sum_j a_ij k_j with k_1 = f(x_n, y_n) taken at the
    ACCEPTED state (ode call 1 resp. the f(x_1, y_1) call of step 1), h' the retried step length.  Returns the number of rejections seen
    (None: the structure of the run could not be interpreted -> skipped, drift)."""
    m, dn, variant = job["method"], job["dirname"], job["variant"]
    via = "reject/" + variant
    if rec.get("panic") or rec.get("error"):
        facts.add(m, "rej_run", dn, via, CAP, 0, got="panic/error: %s" % (rec.get("panic") or rec.get("error")), want="a completed run")
        return 0
    ns, nr = n_step(m, True), REJ_CALLS[m]
    calls = rec["calls"]
    evs = [e for e in rec.get("solout", []) if untok(e["x"]) != 0.0]
    base = 1 if variant == "first" else 1 + ns
    extra = len(calls) - base - ns
    if len(evs) != (1 if variant == "first" else 2) or extra < 0 or extra % nr != 0:
        notes.append(f"{m}/{variant}/{dn}: {len(calls)} ode calls and {len(evs)} step callbacks do not decompose into accepted steps of {ns} "
                     f"and rejected attempts of {nr} calls")
        return None
    nrej = extra // nr
    if variant == "first":
        x1, y1 = 0.0, [0.0] * job["dim"]
        k1c = 1
    else:
        x1, y1 = untok(evs[0]["x"]), [untok(v) for v in evs[0]["y"]]
        k1c = k1_call(m)
    x2, y2 = untok(evs[-1]["x"]), [untok(v) for v in evs[-1]["y"]]
    if not _finite([x1, x2] + y1 + y2) or x1 == x2:
        facts.add(m, "rej_run", dn, via, CAP, 0, got="non-finite or degenerate step data", want="an accepted retry")
        return nrej
    start = len(calls) - ns + 1                     # the accepted attempt is made of the last ns calls
    step_weight_facts(facts, m, dn, via, "rej", (x1, y1, x2, y2), calls, lambda j: k1c if j == 1 else start + (j - 2), main_stages(m),
                      "the accepted retry (after %d rejected attempt(s))" % nrej, h_exact=(x1 == 0.0))
    return nrej


# ------------------------------------------------------------------ Radau IIA: abscissae of every Newton iteration; polynomial sanity
RADAU_T_BOUND = 3            # ulps of max(|x_n|, |x_n + h|)
RADAU_POLY_BOUND = 16        # ulps of |xend|^(k+1)


def radau_jobs():
    jobs = []
    for resp, dim in (("poly", 5), ("polydecay", 3)):
        for dn, d in DIRS:
            jobs.append({"id": f"radau/{resp}/{dn}", "kind": "radau", "api": "lowlevel", "method": "RADAU", "dir": d, "dirname": dn, "dim": dim,
                         "resp": resp, "atol": [tok(1e3 if resp == "poly" else 1e-6)], "rtol": tok(1e-3 if resp == "poly" else 1e-6), "thetas": [],
                         "span": tok(LAND_SPAN), "h0": tok(0.5), "max_step": tok(0.5), "dense": True})
    return jobs


# ---- adaptive runs on y' = lambda y with the exact Jacobian: every accepted step multiplies y by R(h lambda)
PADE_BOUND = 2 ** 19         # units of 2^-52 relative, i.e. 1.2e-10 (largest deviation seen on the intended code: 9e-13)
PADE_CASES = [(-1.0, 0.0, 10.0), (-5.0, 0.0, 4.0), (2.0, 5.0, 0.0), (1.0, 0.0, 3.0), (-1.0, 0.0, -3.0)]     # lambda, x0, xend
PADE_RTOLS = (1e-3, 1e-5, 1e-6, 1e-7, 1e-8)


def pade_jobs(seed):
    cases = [(lam, x0, x1, rtol, atol) for lam, x0, x1 in PADE_CASES for rtol in PADE_RTOLS for atol in (rtol, rtol * 1e-3)]
    x = (seed * 0x9E3779B97F4A7C15 + 0xC02) & (2 ** 64 - 1)
    for _ in range(6):                                   # seed-dependent extra cases
        x = (x * 6364136223846793005 + 1442695040888963407) & (2 ** 64 - 1)
        lam, x0, x1 = PADE_CASES[(x >> 60) % len(PADE_CASES)]
        u, v = ((x >> 11) & 0xFFFFF) / 2 ** 20, ((x >> 31) & 0xFFFFF) / 2 ** 20
        rtol = 10.0 ** (-3 - 5 * u)
        cases.append((lam * (0.5 + v), x0, x1, rtol, rtol * 10.0 ** (-3 * v)))
    jobs = []
    for lam, x0, x1, rtol, atol in cases:
        for api in ("lowlevel", "solve_ivp"):
            jobs.append({"id": "pade/%r/%r/%r/%r/%s" % (lam, x1, rtol, atol, api), "kind": "pade", "resp": "lin", "api": api, "method": "RADAU",
                         "dirname": "fwd" if x1 > x0 else "bwd", "lam": tok(lam), "x0": tok(x0), "xend": tok(x1), "rtol": tok(rtol), "atol": [tok(atol)],
                         "case": "lambda=%r [%r,%r] rtol=%.3g atol=%.3g" % (lam, x0, x1, rtol, atol)})
    return jobs


def facts_from_pade(facts, job, rec):
    """One record per run: the worst accepted step.  Returns (steps, steps of the same length as their predecessor)."""
    m, dn, via = "RADAU", job["dirname"], "pade/" + job["api"]
    if rec.get("panic") or rec.get("error") or (rec.get("result") or {}).get("status") != "Success":
        facts.add(m, "pade_run", dn, via, CAP, 0, got="%s: %s" % (job["case"], rec.get("panic") or rec.get("error") or (rec.get("result") or {}).get("status")),
                  want="status Success")
        return 0, 0
    ts, ys = [untok(v) for v in rec["t"]], [untok(v) for v in rec["y"]]
    lam = F(untok(job["lam"]))
    if not _finite(ts + ys) or any(y == 0 for y in ys):
        facts.add(m, "pade_run", dn, via, CAP, 0, got="%s: non-finite or vanishing solution values" % job["case"], want="finite non-zero values")
        return 0, 0
    worst, where, hs = 0, None, []
    xs = max(abs(F(t)) for t in ts)
    for i in range(1, len(ts)):
        if ts[i] == ts[i - 1]:
            continue
        h = F(ts[i]) - F(ts[i - 1])
        hs.append(h)
        got, want = F(ys[i]) / F(ys[i - 1]), tg.radau_stability(lam * h)
        rel = abs(got - want) / abs(want)
        dist = min(CAP, math.ceil(rel * 2 ** 52))
        if dist >= worst:
            worst, where = dist, "step %d of %d (x=%r, h=%.6g, h*lambda=%.6g): y_new/y_old = %.17g, R(h lambda) = %.17g, relative deviation %.3g" % (
                i, len(ts) - 1, ts[i - 1], float(h), float(lam * h), float(got), float(want), float(rel))
    same = sum(1 for a, b in zip(hs, hs[1:]) if abs(a - b) <= 2 * ulp_of(xs))
    facts.add(m, "pade_ratio", dn, via, worst, PADE_BOUND, got="%s: %s" % (job["case"], where),
              want="every accepted step multiplies y by the (2,3) Pade approximant R(h lambda)")
    return len(hs), same


def facts_from_radau(facts, job, rec, notes):
    """Every Newton iteration of RADAU evaluates f at x_n + c_1 h, x_n + c_2 h, x_n + h: the three abscissae must be the Radau IIA nodes
    (spec/tableaux/TableauxRADAU.tla).  Other evaluations (f0, finite-difference Jacobian, error estimate) happen at x_n; f(x_n + h, .)
    after a triple marks acceptance.  poly: y_k' = t^k is integrated exactly by the order-5 method for k <= 4."""
    m, dn, d, via = "RADAU", job["dirname"], job["dir"], "radau/" + job["resp"]
    if rec.get("panic") or rec.get("error"):
        facts.add(m, "radau_run", dn, via, CAP, 0, got="panic/error: %s" % (rec.get("panic") or rec.get("error")), want="a completed run")
        return 0
    c1, c2, _ = tg.radau_nodes()
    ts = [untok(c["t"]) for c in rec["calls"]]
    if not _finite(ts):
        facts.add(m, "radau_run", dn, via, CAP, 0, got="non-finite abscissa handed to f", want="finite times")
        return 0
    x_left, last3, i, triples, step = 0.0, None, 0, [], 1
    while i < len(ts):
        t = ts[i]
        if last3 is not None and t == last3 and t != x_left:
            x_left, last3, step = t, None, step + 1          # f at the new point: the attempt was accepted
            i += 1
        elif t == x_left:
            i += 1
        elif i + 2 < len(ts):
            triples.append((step, x_left, ts[i], ts[i + 1], ts[i + 2]))
            last3 = ts[i + 2]
            i += 3
        else:
            notes.append(f"RADAU/{job['resp']}/{dn}: ode calls {i + 1}.. do not form a stage triple")
            return None
    accepted = [untok(e["x"]) for e in rec.get("solout", []) if untok(e["x"]) != 0.0]
    ends = {tr[4] for tr in triples}
    if not triples or any(x not in ends for x in accepted):
        notes.append(f"RADAU/{job['resp']}/{dn}: the accepted step ends are not the third abscissa of a stage triple (evaluation order changed?)")
        return None
    for n, (step, xl, t1, t2, t3) in enumerate(triples, 1):
        h = F(t3) - F(xl)
        scale = max(abs(F(xl)), abs(F(t3)))
        if h == 0 or (h > 0) != (d > 0):
            facts.add(m, "radau_h@%d" % n, dn, via, CAP, 0, got="triple %d: x_n=%r, third abscissa %r" % (n, xl, t3), want="x_n + h in the direction of integration")
            continue
        for name, tt, c in (("c1", t1, c1), ("c2", t2, c2)):
            facts.add(m, "radau_%s@%d" % (name, n), dn, via, abs_dist(tt, F(xl) + c * h, scale), RADAU_T_BOUND,
                      got="t=%r, i.e. c=%.17g of the step [%r, %r] (step %d%s)" % (tt, float((F(tt) - F(xl)) / h), xl, t3, step, ", first" if step == 1 else ""),
                      want="%s = %.17g" % (name, float(c)))
    if job["resp"] == "poly":
        xend = F(d * LAND_SPAN)
        for e in rec["solout"]:
            x = untok(e["x"])
            if x == 0.0:
                continue
            for k in range(job["dim"]):
                want = F(x) ** (k + 1) / (k + 1)
                facts.add(m, "radau_poly_t%d@%r" % (k, abs(x)), dn, via, abs_dist(untok(e["y"][k]), want, abs(xend) ** (k + 1)), RADAU_POLY_BOUND,
                          got=untok(e["y"][k]), want="y' = t^%d integrated exactly: y(%r) = %.17g" % (k, x, float(want)))
    return len(triples)


def facts_dense_invariance(facts, m, dn, rec_on, rec_off):
    """the main stages of step 2 see bit-identical arguments with dense_output(true) and dense_output(false)."""
    via = "land/nodense"
    con, coff = rec_on.get("calls", []), rec_off.get("calls", [])
    smain = STRUCT[m][1] + 1

    def qmap(q_on):            # component of the dense-on run -> component of the dense-off run (None: dense-only call)
        if q_on <= 1 + STRUCT[m][0]:
            return q_on
        for j in range(2, smain + 1):
            if comp(m, True, j) == q_on:
                return comp(m, False, j)
        return None
    for i in range(2, smain + 1):
        a, b = comp(m, True, i), comp(m, False, i)
        if a > len(con) or b > len(coff):
            facts.add(m, "land_dense_invariance_%d" % i, dn, via, CAP, 0, got="missing ode call", want="same stage arguments")
            continue
        same = con[a - 1]["t"] == coff[b - 1]["t"]
        yon, yoff = con[a - 1]["y"], coff[b - 1]["y"]
        for q in range(1, len(yon) + 1):
            r = qmap(q)
            if r is not None and r <= len(yoff) and untok(yon[q - 1]) != untok(yoff[r - 1]):
                same = False
        facts.add(m, "land_dense_invariance_%d" % i, dn, via, 0 if same else CAP, 0,
                  got="stage %d of step 2 differs between dense_output(true) and dense_output(false)" % i, want="identical (t, y) arguments")


# ------------------------------------------------------------------ TLC on the facts
def tlc_validate(facts, work, prop):
    path = os.path.join(work, f"facts-{prop}.ndjson")
    facts.write(path)
    r = vlib.tlc("Trace_Tableau", "Trace_Tableau.cfg", cwd=SPEC_DIR, workers=1, deque=True, xss=True, env={"TRACE": path, "JAVA_TOOL_OPTIONS": "-Djava.io.tmpdir=" + os.environ.get("TMPDIR", "/tmp")}, timeout=600)
    if not r.ok:
        vlib.log(r.out[-4000:])
        raise vlib.ToolError(f"TLC did not accept the fact trace: {r.error or r.invariant}")
    if r.distinct != len(facts.rows) + 1:
        raise vlib.ToolError(f"TLC visited {r.distinct} states for {len(facts.rows)} records")
    bad = []
    for line in r.lines("VIOL"):
        _, p, method, recno, dist = vlib.parse_tla(line)
        row = facts.rows[recno - 1]
        if (row["prop"], row["method"], row["dist"]) != (p, method, dist):
            raise vlib.ToolError(f"TLC's VIOL line {line} does not match record {recno} of the trace")
        bad.append((method, row["coef"], row["dir"], row["via"], dist, row["bound"], facts.info[recno - 1]))
    # cross-check: TLC's verdicts are exactly the records with dist > bound
    expect = sum(1 for row in facts.rows if row["dist"] > row["bound"])
    if expect != len(bad):
        raise vlib.ToolError(f"TLC reported {len(bad)} non-conforming records, the trace has {expect}")
    return r, bad


def make_violations(prop, bad):
    out = []
    for method, coef, dn, via, dist, bound, info in bad:
        sig = f"{prop}/{method}/{coef.split('@')[0]}/{dn}"
        unit = "2^-52 relative units" if via == "stepsize" else "ulp"
        detail = (f"{method} {coef} ({dn}, via {via}): extracted {info.get('got')!r}, specification {info.get('want')}; "
                  f"distance {'>= 2e9' if dist >= CAP else dist} {unit} > allowance {bound}")
        if info.get("const"):
            detail += f" [const {info['const']} in src/methods/{method.lower()}.rs]"
        if info.get("note"):
            detail += " -- " + info["note"]
        out.append(vlib.Violation(prop, sig, detail, {"method": method, "coef": coef, "dir": dn, "via": via, "dist": dist,
                                                       "bound": bound, "got": repr(info.get("got")), "want": str(info.get("want"))}))
    return out


def methods_for(replay):
    if replay:
        sc = json.load(open(replay)).get("scenario", {})
        if sc.get("method") in tg.METHODS:
            return [sc["method"]]
    return list(tg.METHODS)


# ------------------------------------------------------------------ entry point
def run(tier, seed, replay=None, keep=False):
    t0 = time.time()
    work = vlib.workdir("c02-%d" % os.getpid())
    try:
        if replay and json.load(open(replay)).get("scenario", {}).get("kind") == "solver":
            from checks import solver_common as scx
            return scx.replay(PROP, json.load(open(replay)), tier, seed, work)
        methods = methods_for(replay)
        radau = len(methods) == len(tg.METHODS)          # not when a replay file restricts the run to one explicit method
        use_private_tmp(work)
        # 1-2. specification and its proof obligations
        gen = tg.generate(methods=tg.METHODS + ["RADAU"])
        items, canaries = [], []
        for m in methods + (["RADAU"] if radau else []):
            em = gen[m]
            names = tg.count_obligations(em.path, PROP)
            items.append((m, em.path, ["All_" + PROP], names))
        can_methods = (methods + (["RADAU"] if radau else [])) if tier == "thorough" else [m for m in methods if m in ("DOPRI5",)] or methods[:1]
        for m in can_methods:
            canaries += [(gen[m].path, n) for n, p in gen[m].canaries if p == PROP]
        ap = run_apalache(items, canaries)
        neg_alone = 0
        if tier == "thorough":
            # every negative fact once more as an invariant of its own (not added to `discharged`: already counted in All_C02)
            for m in methods:
                for o in gen[m].obs:
                    if o["prop"] == PROP and o["kind"] == "neg":
                        one = run_apalache([(m, gen[m].path, [o["name"]], [o["name"]])], [])
                        neg_alone += one["discharged"]
        vlib.log(f"[C02] Apalache: {ap['discharged']}/{ap['obligations']} obligations discharged, "
                 f"{ap['canaries_refuted']}/{ap['canaries']} false identities refuted ({time.time()-t0:.1f}s)")
        # 3. extraction from the real code
        # the harness is (re)built against the working tree by vlib.run_bin -> ensure_harness() inside run_probe
        jobs = unit_jobs(methods, []) + est_jobs(methods, tier) + landing_jobs(methods) + reject_jobs(methods) + (radau_jobs() + pade_jobs(seed) if radau else [])
        recs = run_probe(jobs, work, "c02")
        facts = Facts(PROP)
        drift = []
        probe_notes, probes_skipped, rejections_seen, radau_triples, pade_steps, pade_same = [], 0, 0, 0, 0, 0
        cal = calibrate(jobs, recs)
        for (m, dn), why in sorted(cal.items()):
            if why:
                vlib.log(f"[C02] DRIFT controller_model_mismatch {m}/{dn}: {why}; the error-weight comparison through the step size is "
                         "skipped for this method and direction (source-level constants and the c/A/b probes remain)")
        est_skipped = 0
        for j in jobs:
            if j["kind"] == "unit":
                facts_from_unit_run(facts, j, recs[j["id"]], max_stage=main_stages(j["method"]))
            elif j["kind"] == "est":
                if cal.get((j["method"], j["dirname"])) is None:
                    facts_from_est_run(facts, j, recs[j["id"]])
                else:
                    est_skipped += 1
            elif j["kind"] == "land":
                facts_from_landing_run(facts, j, recs[j["id"]], max_stage=main_stages(j["method"]))
            elif j["kind"] == "rej":
                nrej = facts_from_reject_run(facts, j, recs[j["id"]], probe_notes)
                if nrej is None:
                    probes_skipped += 1
                else:
                    rejections_seen += nrej
                    if nrej == 0:
                        probe_notes.append(f"{j['id']}: no rejection was provoked (the accepted step was still checked)")
            elif j["kind"] == "pade":
                ns_, same_ = facts_from_pade(facts, j, recs[j["id"]])
                pade_steps += ns_
                pade_same += same_
            elif j["kind"] == "radau":
                ntr = facts_from_radau(facts, j, recs[j["id"]], probe_notes)
                if ntr is None:
                    probes_skipped += 1
                else:
                    radau_triples += ntr
        for m in methods:
            for dn, _d in DIRS:
                facts_dense_invariance(facts, m, dn, recs[f"land/{m}/lowlevel/{dn}"], recs[f"land/{m}/nodense/{dn}"])
        src_seen = {}
        for m in methods:
            # the dense-output constants d_* belong to C07 (checks/c07.py compares them); everything else is compared here
            src_seen[m] = facts_from_source(facts, m, drift, want=lambda coef: not coef.startswith("d_"))
        # 4. contract evaluation by TLC
        r, bad = tlc_validate(facts, work, PROP)
        viols = make_violations(PROP, bad)
        # recorded low-level runs (Trace_Stepper relation C02/equal_low): the solver called without a callback takes the
        # same steps as with a passive one (a first stage that is only refreshed inside the callback handling is order 1)
        lowcov = {}
        if not replay:
            from checks import solver_common as scx
            sviol, scov, _a = scx.run_for(PROP, tier, seed, work)
            viols += sviol
            lowcov = {"runs": scov.get("runs"), "pairs": scov.get("pairs"), "per_family": scov.get("per_family")}
        n_new, n_known = vlib.report(PROP, viols)
        for d in drift:
            vlib.log("[C02] drift: " + d)
        if radau and pade_same == 0:
            probe_notes.append("RADAU Pade probe: no accepted step had the same length as its predecessor, i.e. the path that keeps the Jacobian and the "
                               "factorisation (step ratio in (1, 1.2)) was NOT exercised by these runs")
        for d in probe_notes:
            vlib.log("[C02] DRIFT probe not interpretable / not exercised: " + d)
        # evidence
        nontriv = {(row["method"], row["coef"]) for row, info in zip(facts.rows, facts.info)
                   if row["via"] != "source" and info.get("want") not in ("0", 0, None)}
        ob_samples = []
        for m in methods:
            obs = [o for o in gen[m].obs if o["prop"] == PROP]
            ob_samples += [{"obligation": o["name"], "module": o["module"], "kind": o["kind"], "states": o["desc"]} for o in (obs[len(obs) // 2], obs[-1])]
        pick = [k for k, row in enumerate(facts.rows) if row["coef"] in ("a_5_3", "b_3", "est_sum_1+3", "e_3", "er_6")][:6]
        fact_samples = [dict(facts.rows[k], got=repr(facts.info[k].get("got")), want=str(facts.info[k].get("want"))) for k in pick]
        cov = {
            "obligations": ap["obligations"], "discharged": ap["discharged"],
            "checker_cmd": "apalache-mc check --length=0 --inv=All_C02 spec/tableaux/Tableaux{%s}.tla  (+ --inv=Canary_C02_<M>, expected to be refuted)" % ",".join(methods),
            "trusted_base": TRUSTED,
            "apalache_runs": ap["runs"], "false_identities_refuted": ap["canaries_refuted"],
            "negative_facts_rechecked_alone": neg_alone,
            "obligations_by_method": {r_["method"]: r_["conjuncts"] for r_ in ap["runs"] if "method" in r_},
            "evaluations": len(facts.rows), "distinct_nontrivial": len(nontriv),
            "rule": "one record per (method, coefficient, direction, route): every c_i, every entry a_ij of the s x s matrix incl. structural zeros, "
                    "every b_j (routes: low-level solve, solve_ivp; land = second, shortened step of a two-step run, land/nodense = the same with dense_output(false)), every error-estimator sum over a stage set {j} or {1,j} (route: step size), "
                    "every constant of src/methods/<m>.rs except the dense-output constants, which C07 compares (route: source); non-trivial = the specification's value is non-zero and the route is behavioural; "
                    "distinct = distinct (method, coefficient)",
            "samples": ob_samples[:4] + fact_samples,
            "states": r.distinct, "transitions": r.generated, "traces_validated_against_impl": len(jobs),
            "probe_runs": len(jobs), "source_constants_compared": sum(len(s) for s in src_seen.values()),
            "rejected_attempts_observed": rejections_seen, "radau_stage_triples_checked": radau_triples,
            "radau_pade_steps_checked": pade_steps, "radau_pade_steps_with_unchanged_length": pade_same,
            "radau_fast_path_exercised": bool(pade_same),
            "probes_skipped_uninterpretable": probes_skipped, "probe_notes": probe_notes[:10],
            "controller_calibrations": len(cal), "controller_model_mismatch": sum(1 for v in cal.values() if v),
            "controller_model_mismatch_notes": [f"{m}/{dn}: {why}" for (m, dn), why in sorted(cal.items()) if why],
            "error_weight_probes_skipped": est_skipped,
            "non_conforming_records": len(bad), "drift": len(drift) + sum(1 for v in cal.values() if v) + probes_skipped, "drift_notes": drift[:10],
            "methods": methods, "exhaustive": True,
        }
        vlib.write_evidence(PROP, tier, seed, "proof", cov, ASSUMPTIONS, time.time() - t0, n_new)
        vlib.log(f"[C02] {len(facts.rows)} records ({len(jobs)} probe runs, {cov['source_constants_compared']} source constants), "
                 f"{len(bad)} non-conforming, known={n_known}")
        return 1 if n_new else 0
    finally:
        if not keep:
            vlib.cleanup(work)

"""Code -> spec binding for the steppers and solve_ivp: the harness bin `record` runs families of
cases on the real code with an instrumented problem / recording SolOut and writes NDJSON traces;
TLC validates them against spec/stepper/Trace_Stepper.tla (Level A contract StepperContract.tla)."""
import json
import os
import subprocess
import time
from collections import Counter

import vlib

SSPEC = os.path.join(vlib.SPEC, "stepper")

# which recorded families decide which property
FAMILIES_FOR = {
    "C02": ["lowlevel"],
    "C03": ["core", "adversarial"],
    "C04": ["adversarial", "core"],
    "C05": ["teval"],
    "C06": ["core", "lowlevel", "teval"],
    "C07": ["lowlevel"],
    "C08": ["events", "terminal"],
    "C09": ["events"],
    "C10": ["terminal", "teval"],
    "C11": ["core", "budget"],
    "C12": ["observer", "teval", "lowlevel"],
    "C13": ["symmetry"],
    "C15": ["storage"],
    "C18": ["core", "lowlevel", "adversarial"],
    "C19": ["lowlevel"],
}

CASE_TIMEOUT = {"quick": 25.0, "thorough": 60.0}


def record_family(fam, tier, seed, out_path, only=None, extra=()):
    """Run `record` under a per-case wall-clock watchdog. Returns (n_watchdog_cases, stderr_tail)."""
    bindir = vlib.ensure_harness()
    skip = []
    errp = out_path + ".stderr"
    for attempt in range(12):
        env = dict(os.environ)
        if skip:
            env["VERIF_SKIP"] = ",".join(str(i) for i in skip)
        args = [os.path.join(bindir, "record"), fam, tier, str(seed), out_path]
        if only:
            args += ["--only", only] + list(extra)
        with open(errp, "w") as ef:
            p = subprocess.Popen(args, stdout=subprocess.DEVNULL, stderr=ef, env=env)
            last_size, last_change = -1, time.time()
            hung = None
            while p.poll() is None:
                time.sleep(0.2)
                sz = os.path.getsize(errp)
                if sz != last_size:
                    last_size, last_change = sz, time.time()
                elif time.time() - last_change > CASE_TIMEOUT[tier]:
                    p.kill()
                    p.wait()
                    hung = True
                    break
        if not hung:
            if p.returncode != 0:
                raise vlib.ToolError(f"record {fam} failed (rc={p.returncode}): " + open(errp).read()[-400:])
            tail = open(errp).read()[-200:]
            os.remove(errp)
            return len(skip), tail
        # find the last announced case
        last_id = None
        with open(errp) as f:
            for line in f:
                if line.startswith("START "):
                    last_id = int(line.split()[1])
        if last_id is None or last_id in skip:
            raise vlib.ToolError(f"record {fam}: watchdog fired but no progress can be made")
        vlib.log(f"[watchdog] case {last_id} of family {fam} exceeded {CASE_TIMEOUT[tier]}s: recorded as abort{{watchdog}}")
        skip.append(last_id)
    raise vlib.ToolError(f"record {fam}: too many hanging cases")


class SolverRun:
    def __init__(self):
        self.states = 0
        self.transitions = 0
        self.runs = 0
        self.lines = 0
        self.pairs = 0
        self.viol = []   # (prop, clause, family, call, ret, pair)
        self.samples = []
        self.per_family = {}
        self.status = Counter()
        self.methods = Counter()
        self.tags = Counter()
        self.watchdog = 0
        self.drift = 0
        self.drift_samples = []
        self.levelb = Counter()   # accepted / rejected attempts of the explicit solvers seen by the Level-B parse


def validate(fam, path, res):
    t = vlib.tlc("Trace_Stepper", "Trace_Stepper.cfg", cwd=SSPEC, workers=1, deque=True, xss=True, xmx="8g",
                 env={"TRACE": path}, timeout=3000)
    if not t.ok:
        vlib.log(t.out[-3000:])
        raise vlib.ToolError(f"Trace_Stepper rejected the trace of family {fam}: {t.error or t.invariant}")
    calls, rets, pairs_by_b, facts = {}, {}, {}, {}
    nl = 0
    with open(path) as f:
        for line in f:
            nl += 1
            if line.startswith('{"d":') or '"e":"jac"' in line[:30] or '"e":"ev"' in line[:30] or '"e":"gap"' in line[:30] or '"e":"hk"' in line[:30]:
                continue  # ode / jac / ev / gap events
            if '"e":"cb"' in line[:80]:
                continue
            if True:
                try:
                    o = json.loads(line)
                except ValueError:
                    continue
                if o["e"] == "call":
                    calls[o["id"]] = o
                elif o["e"] in ("ret", "abort"):
                    rets[o["id"]] = o
                elif o["e"] == "pair":
                    pairs_by_b.setdefault(o["b"], []).append(o)
                elif o["e"] == "fact":
                    facts[o["id"]] = o
    res.lines += nl
    res.states += t.distinct
    res.transitions += t.generated
    res.runs += len(calls)
    npairs = sum(len(v) for v in pairs_by_b.values())
    res.pairs += npairs
    nv = 0
    for l in t.printed:
        if l.startswith('<<"VIOL"'):
            p = vlib.parse_tla(l)
            prop, clause, cid = p[1], p[2], p[3]
            pr = None
            if clause.startswith("pair_"):
                cand = [q for q in pairs_by_b.get(cid, []) if "pair_" + q["mode"] == clause and q["prop"] == prop]
                pr = cand[0] if cand else None
            call = calls.get(cid)
            if call is None and cid in facts:
                fo = facts[cid]
                call = {"method": fo["method"], "api": fo["api"], "problem": fo["problem"], "tags": fo["tags"], "fact": True,
                        "case_json": json.dumps({"fact": fo["note"]})}
            res.viol.append((prop, clause, fam, call, rets.get(cid), pr, calls))
            nv += 1
    for l in t.printed:
        if l.startswith('<<"DRIFT"'):
            res.drift += 1
            if len(res.drift_samples) < 3:
                res.drift_samples.append(l[:200])
        elif l.startswith('<<"COVER"'):
            q = vlib.parse_tla(l)
            res.levelb[q[1] + ":accepted_attempts"] += q[2]
            res.levelb[q[1] + ":rejected_attempts"] += q[3]
    for c in calls.values():
        res.methods[c["method"]] += 1
        for tg in c.get("tags", []):
            res.tags[tg.split("=")[0]] += 1
    for r in rets.values():
        res.status[r.get("status", "abort:" + r.get("why", "?"))] += 1
    res.per_family[fam] = {"runs": len(calls), "trace_lines": nl, "pairs": npairs, "contract_failures": nv}
    ids = sorted(calls)
    for i in ids[:1] + ids[len(ids) // 2: len(ids) // 2 + 1]:
        c, r = calls[i], rets.get(i, {})
        res.samples.append({"family": fam, "method": c["method"], "api": c["api"], "problem": c["problem"], "tags": c["tags"],
                            "status": r.get("status", r.get("why")), "n_samples": len(r.get("t", [])),
                            "counters": {k: r.get(k) for k in ("nfev", "njev", "nstep", "naccpt", "nrejct") if k in r}})


def loop_conformance(fam, path, res, method="RADAU", module="Trace_Radau", banner="RADAU-TRACE", cfg=None):
    """Level B: every recorded run of every method (low-level and through solve_ivp) is a behaviour of
    Radau.tla / Bdf.tla / Dopri.tla (DOPRI5, DOP853, RK23, RK4)
    (trace validation with the solver's decision points logged through the hook ivp::verif_trace).
    Rejections are specification drift, never violations."""
    runs, cur, meta = [], None, None
    with open(path) as f:
        for line in f:
            if line.startswith('{"api"'):
                meta = json.loads(line)
                cur = [line] if meta.get("method") == method else None
                continue
            if cur is None:
                continue
            cur.append(line)
            if '"e":"ret"' in line or '"e":"abort"' in line:
                ok = '"e":"ret"' in line and '"kind":"err"' not in line and not any(x.startswith('{"e":"gap"') for x in cur) \
                    and any(x.startswith('{"d":') for x in cur)      # the solver was actually entered
                if ok:
                    runs.append((meta["id"], cur))
                cur = None
    if not runs:
        return
    tags = Counter()
    for _id, r in runs:
        for x in r:
            if x.startswith('{"e":"hk"'):
                tags[json.loads(x)["t"]] += 1
    rejected = []
    for attempt in range(8):
        sel = path + "." + method.lower()
        with open(sel, "w") as f:
            for _id, r in runs:
                f.writelines(r)
        t = vlib.tlc(module, cfg or (module + ".cfg"), cwd=SSPEC, workers=1, deque=True, xss=True, xmx="6g",
                     env={"TRACE": sel}, timeout=1500)
        os.remove(sel)
        verdict = [l for l in t.printed if l.startswith('<<"' + banner + '"')]
        if not t.ok or not verdict:
            if t.invariant:
                res.drift += 1
                res.drift_samples.append(f"{module}: invariant {t.invariant} of the loop model fails on an explanation of family {fam}")
                break
            vlib.log(t.out[-2000:])
            raise vlib.ToolError(f"{module} failed on family {fam}: {t.error}")
        v = vlib.parse_tla(verdict[-1])
        res.states += t.distinct
        res.transitions += t.generated
        if v[1] == "accepted":
            break
        # find the run that contains the first unmatched line, report it as drift, drop it and validate the rest
        at, acc_lines = v[2], 0
        for i, (rid, r) in enumerate(runs):
            if acc_lines + len(r) >= at:
                rejected.append(rid)
                res.drift += 1
                if len(res.drift_samples) < 6:
                    res.drift_samples.append(f"{module}: run {rid} of family {fam} is not a behaviour of the loop model (line {at - acc_lines} of the run: {r[min(at - acc_lines, len(r)) - 1][:120].strip()})")
                del runs[i]
                break
            acc_lines += len(r)
    res.levelb[method + "_loop:runs_accepted"] += len(runs)
    res.levelb[method + "_loop:runs_rejected"] += len(rejected)
    res.levelb[method + "_loop:trace_lines"] += sum(len(r) for _i, r in runs)
    for k, n in tags.items():
        res.levelb[method + "_loop:" + k] += n


# thorough: every family is recorded for several derived seeds (the random sweeps differ, the corner sweeps repeat)
THOROUGH_SUBSEEDS = 6


def run_families(fams, tier, seed, work):
    res = SolverRun()
    for fam in fams:
        subs = [seed] if tier == "quick" else [seed + 7919 * i for i in range(THOROUGH_SUBSEEDS)]
        for si, sd in enumerate(subs):
            p = os.path.join(work, f"rec_{fam}_{si}.ndjson")
            nwd, _ = record_family(fam, tier, sd, p)
            res.watchdog += nwd
            validate(fam if si == 0 else f"{fam}#{si}", p, res)
            loop_conformance(fam if si == 0 else f"{fam}#{si}", p, res, "RADAU", "Trace_Radau", "RADAU-TRACE")
            loop_conformance(fam if si == 0 else f"{fam}#{si}", p, res, "BDF", "Trace_Bdf", "BDF-TRACE")
            loop_conformance(fam if si == 0 else f"{fam}#{si}", p, res, "DOPRI5", "Trace_Dopri", "DOPRI-TRACE", "Trace_Dopri5.cfg")
            loop_conformance(fam if si == 0 else f"{fam}#{si}", p, res, "DOP853", "Trace_Dopri", "DOPRI-TRACE", "Trace_Dop853.cfg")
            loop_conformance(fam if si == 0 else f"{fam}#{si}", p, res, "RK23", "Trace_Dopri", "DOPRI-TRACE", "Trace_Rk23.cfg")
            loop_conformance(fam if si == 0 else f"{fam}#{si}", p, res, "RK4", "Trace_Dopri", "DOPRI-TRACE", "Trace_Rk4.cfg")
            if tier != "quick":
                os.remove(p)
    return res


def signature(prop, clause, call, ret):
    if call is None:
        return f"{prop}/{clause}/?"
    tags = "+".join(call.get("tags", []))
    extra = ""
    if ret is not None and ret.get("tiny"):
        extra = "+tinysteps"
    if call.get("tinyspan"):
        extra += "+tinyspan"
    st = (ret or {}).get("status", (ret or {}).get("why", ""))
    if st and st != "Success":
        extra += "@" + str(st)
    return f"{prop}/{clause}/{call['method']}/{call['api']}/{call['problem']}/{tags}{extra}"


def to_violations(res, prop):
    out = []
    for (p, clause, fam, call, ret, pair, calls) in res.viol:
        if p != prop:
            continue
        sig = signature(prop, clause, call, ret)
        cases = []
        scen = {"kind": "solver", "family": fam}
        if pair is not None:
            ca = calls.get(pair["a"])
            cases = [json.loads(ca["case_json"]) if ca else None, json.loads(call["case_json"])]
            scen.update({"mode": pair["mode"], "prop": pair["prop"]})
        elif call is not None and call.get("fact"):
            cases = []                       # a family-level fact: the replay re-records the family
            scen["fact"] = json.loads(call["case_json"])["fact"]
        elif call is not None:
            cases = [json.loads(call["case_json"])]
        scen["cases"] = cases
        detail = f"family={fam} status={(ret or {}).get('status', (ret or {}).get('why'))}"
        out.append(vlib.Violation(prop, sig, detail, scen))
    return out


ASSUMPTIONS = [
    "recorded runs: times enter TLC as ranks in integration order plus hex tokens of the raw bits; states as FNV-1a digests of the raw bits (collisions neglected)",
    "marks computed by the recorder: x0 - 8ulp, xend +- 8ulp, span end + 1.5e-12; facts computed by the recorder: finiteness, interpolant endpoint equality (64 eps on values + 64 ulp(x)/|h| of the step's change; BDF 1e-7 relative), |g(te,ye)| <= 1e-6*scale, sol(t_i) vs y_i (1e-9 relative; BDF 1e-7), max_step (8 eps + 4 ulp), first-trial time (4 ulp)",
    "bounded work = eval budget (2e6 rhs evaluations; 3e5 in the quick adversarial family) and a per-case wall-clock watchdog of 25 s (quick) / 60 s (thorough)",
    "problems: const1, decay, sho, logistic, lin2, lin3, vdp, robertson, cube, y^2, 1+y^2, NaN/inf after t*, NaN always, sign(t-c), lambda=-1e6; deterministic corner sweep + VERIF_SEED-driven random sweep",
]


def run_for(prop, tier, seed, work):
    fams = FAMILIES_FOR.get(prop, [])
    if not fams:
        return [], {}, []
    res = run_families(fams, tier, seed, work)
    viol = to_violations(res, prop)
    other = Counter(p for (p, *_r) in res.viol if p != prop)
    cov = {"runs": res.runs, "pairs": res.pairs, "trace_lines": res.lines, "states": res.states, "transitions": res.transitions,
           "per_family": res.per_family, "statuses": dict(res.status), "methods": dict(res.methods), "tags": dict(res.tags),
           "watchdog_cases": res.watchdog, "samples": res.samples[:4],
           "drift": res.drift, "drift_samples": res.drift_samples, "level_b_attempts_seen": dict(res.levelb),
           "contract_failures_of_other_properties_seen": dict(other)}
    return viol, cov, list(ASSUMPTIONS)


def replay(prop, rp, tier, seed, work):
    """Re-run exactly the recorded case(s) of a replay file against the current tree."""
    sc = rp["scenario"]
    cases = [c for c in sc.get("cases", []) if c is not None]
    cp = os.path.join(work, "replay_cases.json")
    json.dump(cases, open(cp, "w"))
    p = os.path.join(work, "replay.ndjson")
    extra = [sc["mode"], sc["prop"]] if "mode" in sc and len(cases) == 2 else []
    if not cases and sc.get("fact"):
        record_family(sc.get("family", "core").split("#")[0], tier, seed, p)       # family-level fact: re-record the family
    else:
        record_family(sc.get("family", "core"), tier, seed, p, only=cp, extra=extra)
    res = SolverRun()
    validate("replay", p, res)
    viol = to_violations(res, prop)
    n_new, n_known = vlib.report(prop, viol)
    return 1 if n_new else 0

"""Single source of the exact rational Butcher tableaux used by checks C02 and C07.

This module holds the published tableaux of RK4, RK23 (Bogacki-Shampine 3(2)), DOPRI5 (Dormand-Prince
5(4) as in Hairer's dopri5.f, incl. Shampine's dense output) and DOP853 (Hairer's dop853.f; 30-digit
decimals read as exact rationals) as python Fractions and *generates* the Apalache-typed TLA+ modules
spec/tableaux/Tableaux<METHOD>.tla in which every Runge-Kutta order condition is an explicit integer
identity (one operator Ob_... per identity, Neg_... for facts that must fail, All_<ID>_<METHOD> for
their conjunction).  Apalache checks the generated .tla files; nothing is decided in python.  The
drivers checks/c02.py and checks/c07.py also use the tables below to compare the coefficients
extracted from the real code with the specification.

Nothing here is read from /repo: the DOP853 decimals were transcribed from the table redistributed
with SciPy 1.17.1 (scipy/integrate/_ivp/dop853_coefficients.py, i.e. Hairer's dop853.f), not from the crate.
"""
import os
import re
from fractions import Fraction as F
from math import lcm

HERE = os.path.dirname(os.path.abspath(__file__))
SPEC_DIR = os.path.join(os.path.dirname(HERE), "spec", "tableaux")


# ------------------------------------------------------------------ rooted trees
# A rooted tree is the sorted tuple of its children; () is the single node.
def _key(t):
    return (rho(t), bracket(t))


def rho(t):
    return 1 + sum(rho(c) for c in t)


def gamma(t):
    g = rho(t)
    for c in t:
        g *= gamma(c)
    return g


def bracket(t):
    return "." if t == () else "[" + "".join(bracket(c) for c in t) + "]"


_TREES = {}


def trees(n):
    """All rooted trees with n nodes (canonical form), in a fixed order."""
    if n in _TREES:
        return _TREES[n]
    if n == 1:
        res = [()]
    else:
        def forests(total):
            if total == 0:
                return {()}
            out = set()
            for k in range(1, total + 1):
                for t in trees(k):
                    for rest in forests(total - k):
                        out.add(tuple(sorted((t,) + rest, key=_key)))
            return out
        res = sorted(forests(n - 1), key=lambda f: bracket(f))
    _TREES[n] = res
    return res


def tname(t):
    n = rho(t)
    return "t%d_%d" % (n, trees(n).index(t) + 1)


def bushy(n):
    return tuple(() for _ in range(n - 1))


assert [len(trees(n)) for n in range(1, 7)] == [1, 1, 2, 4, 9, 20]


# ------------------------------------------------------------------ tiny polynomial helper (coefficients low -> high)
def padd(p, q):
    n = max(len(p), len(q))
    return [(p[i] if i < len(p) else 0) + (q[i] if i < len(q) else 0) for i in range(n)]


def pmul(p, q):
    out = [F(0)] * (len(p) + len(q) - 1)
    for i, a in enumerate(p):
        for j, b in enumerate(q):
            out[i + j] += a * b
    return out


def pconst(a):
    return [F(a)]


TH = [F(0), F(1)]       # theta
TH1 = [F(1), F(-1)]     # 1 - theta


def peval(p, x):
    r = F(0)
    for a in reversed(p):
        r = r * x + a
    return r


# ------------------------------------------------------------------ tableaux
class Tab:
    def __init__(self, name, s, p, c, A, b):
        self.name = name
        self.s = s                  # number of derivative evaluations per step that the formulas use (incl. FSAL stage)
        self.p = p                  # advertised order
        self.c = c                  # {i: F}
        self.A = A                  # {(i, j): F}, strictly lower triangular, zeros omitted
        self.b = b                  # {j: F}, zeros omitted
        self.est = []               # (label, {j: F}, q): weights annihilate all trees of order <= q-1, not the bushy one of order q
        self.extra = {}             # other named constants of the code (dense D's ...): coefname -> F
        self.dense = None           # {j: [beta_j0 .. beta_jd]}  continuous weights
        self.nested = None          # {j: [c0, c1, ...]} coefficients of the nested evaluation form of `interpolate`, if it has one
        self.qd = None              # dense order
        self.ncalls = None          # ode calls of one accepted first step with dense output (incl. the initial one)

    def coeffs(self):
        """coefname -> Fraction for everything the code holds as a constant or applies as a stage weight."""
        out = {}
        for i in range(1, self.s + 1):
            out["c_%d" % i] = self.c.get(i, F(0))
        for (i, j), v in self.A.items():
            out["a_%d_%d" % (i, j)] = v
        for j, v in self.b.items():
            out["b_%d" % j] = v
        for lab, w, _q in self.est:
            for j, v in w.items():
                out["%s_%d" % (lab, j)] = v
        out.update(self.extra)
        return out

    def a(self, i, j):
        return self.A.get((i, j), F(0))

    def bth(self, j, theta):
        """exact b_j(theta) and the magnitude that the rounding allowance of the code's evaluation is measured in:
        the largest |monomial| for the monomial forms (RK4, RK23); for the nested forms of DOPRI5 / DOP853
        (c0 + m0 (c1 + m1 (c2 + ...)), m alternating theta, 1 - theta) the largest |operand| of any addition,
        weighted by the product of the outer multipliers (b_j - (1 - theta) b_j cancels to theta b_j there)."""
        p = self.dense[j]
        terms = [p[m] * theta ** m for m in range(len(p))]
        exact = sum(terms, F(0))
        if self.nested is None:
            return exact, max([abs(t) for t in terms] + [F(0)])
        cs = self.nested[j]
        mult = [theta if k % 2 == 0 else 1 - theta for k in range(len(cs) - 1)]
        inner = [F(0)] * len(cs)              # inner[k] = c_k + m_k * inner[k+1]
        inner[-1] = cs[-1]
        for k in range(len(cs) - 2, -1, -1):
            inner[k] = cs[k] + mult[k] * inner[k + 1]
        assert inner[0] == exact, (self.name, j)
        scale, outer = F(0), F(1)
        for k in range(len(cs)):
            prod = abs(mult[k] * inner[k + 1]) if k < len(cs) - 1 else F(0)
            scale = max(scale, abs(outer) * max(abs(cs[k]), prod))
            if k < len(cs) - 1:
                outer *= mult[k]
        return exact, scale


def _fr(s):
    return F(s)


def make_rk4():
    c = {1: F(0), 2: F(1, 2), 3: F(1, 2), 4: F(1), 5: F(1)}
    b = {1: F(1, 6), 2: F(1, 3), 3: F(1, 3), 4: F(1, 6)}
    A = {(2, 1): F(1, 2), (3, 2): F(1, 2), (4, 3): F(1)}
    for j, v in b.items():
        A[(5, j)] = v               # 5th evaluation: f(x_{n+1}, y_{n+1}) (k1 of the next step, right slope of the Hermite interpolant)
    t = Tab("RK4", 5, 4, c, A, b)
    # cubic Hermite on (y_n, f_n, y_{n+1}, f_{n+1}):  y(th) = h00 y_n + h10 h f_n + h01 y_{n+1} + h11 h f_{n+1}
    h10 = [F(0), F(1), F(-2), F(1)]
    h01 = [F(0), F(0), F(3), F(-2)]
    h11 = [F(0), F(0), F(-1), F(1)]
    d = {}
    for j in range(1, 6):
        p = pmul(pconst(b.get(j, 0)), h01)
        if j == 1:
            p = padd(p, h10)
        if j == 5:
            p = padd(p, h11)
        d[j] = (p + [F(0)] * 4)[:4]
    t.dense, t.qd = d, 3
    t.ncalls = 5
    return t


def make_rk23():
    c = {1: F(0), 2: F(1, 2), 3: F(3, 4), 4: F(1)}
    b = {1: F(2, 9), 2: F(1, 3), 3: F(4, 9)}
    A = {(2, 1): F(1, 2), (3, 2): F(3, 4)}
    for j, v in b.items():
        A[(4, j)] = v
    t = Tab("RK23", 4, 3, c, A, b)
    e = {1: F(5, 72), 2: F(-1, 12), 3: F(-1, 9), 4: F(1, 8)}
    t.est = [("e", e, 3)]
    D2 = {1: F(-4, 3), 2: F(1), 3: F(4, 3), 4: F(-1)}
    D3 = {1: F(5, 9), 2: F(-2, 3), 3: F(-8, 9), 4: F(1)}
    for j in range(1, 5):
        t.extra["d_2_%d" % j] = D2[j]
        t.extra["d_3_%d" % j] = D3[j]
    # interpolate: y0 + h (k1 th + (D2.k) th^2 + (D3.k) th^3)
    t.dense = {j: [F(0), F(1 if j == 1 else 0), D2[j], D3[j]] for j in range(1, 5)}
    t.qd = 3
    t.ncalls = 4
    return t


def make_dopri5():
    c = {1: F(0), 2: F(1, 5), 3: F(3, 10), 4: F(4, 5), 5: F(8, 9), 6: F(1), 7: F(1)}
    A = {(2, 1): F(1, 5),
         (3, 1): F(3, 40), (3, 2): F(9, 40),
         (4, 1): F(44, 45), (4, 2): F(-56, 15), (4, 3): F(32, 9),
         (5, 1): F(19372, 6561), (5, 2): F(-25360, 2187), (5, 3): F(64448, 6561), (5, 4): F(-212, 729),
         (6, 1): F(9017, 3168), (6, 2): F(-355, 33), (6, 3): F(46732, 5247), (6, 4): F(49, 176), (6, 5): F(-5103, 18656),
         (7, 1): F(35, 384), (7, 3): F(500, 1113), (7, 4): F(125, 192), (7, 5): F(-2187, 6784), (7, 6): F(11, 84)}
    b = {j: A[(7, j)] for j in (1, 3, 4, 5, 6)}
    t = Tab("DOPRI5", 7, 5, c, A, b)
    e = {1: F(71, 57600), 3: F(-71, 16695), 4: F(71, 1920), 5: F(-17253, 339200), 6: F(22, 525), 7: F(-1, 40)}
    t.est = [("e", e, 5)]
    D = {1: F(-12715105075, 11282082432), 3: F(87487479700, 32700410799), 4: F(-10690763975, 1880347072),
         5: F(701980252875, 199316789632), 6: F(-1453857185, 822651844), 7: F(69997945, 29380423)}
    for j, v in D.items():
        t.extra["d_%d" % j] = v
    # Shampine form used by interpolate():  y0 + th (ydiff + th1 (bspl + th (rc3 + th1 rc4)))
    #   ydiff = sum b_j k_j, bspl = k1 - ydiff, rc3 = ydiff - k7 - bspl, rc4 = sum D_j k_j      (h = 1)
    dense, nested = {}, {}
    for j in range(1, 8):
        bj = b.get(j, F(0))
        d1 = F(1 if j == 1 else 0)
        d7 = F(1 if j == 7 else 0)
        ydiff, bspl = bj, d1 - bj
        rc3 = ydiff - d7 - bspl
        rc4 = D.get(j, F(0))
        inner = padd(pconst(rc3), pmul(TH1, pconst(rc4)))
        inner = padd(pconst(bspl), pmul(TH, inner))
        inner = padd(pconst(ydiff), pmul(TH1, inner))
        p = pmul(TH, inner)
        dense[j] = (p + [F(0)] * 5)[:5]
        nested[j] = [F(0), ydiff, bspl, rc3, rc4]
    t.dense, t.qd, t.nested = dense, 4, nested
    t.ncalls = 7
    return t


DOP853_DEC = {
    "c_1": "0.0",
    "c_2": "0.526001519587677318785587544488e-01",
    "c_3": "0.789002279381515978178381316732e-01",
    "c_4": "0.118350341907227396726757197510",
    "c_5": "0.281649658092772603273242802490",
    "c_6": "0.333333333333333333333333333333",
    "c_7": "0.25",
    "c_8": "0.307692307692307692307692307692",
    "c_9": "0.651282051282051282051282051282",
    "c_10": "0.6",
    "c_11": "0.857142857142857142857142857142",
    "c_12": "1.0",
    "c_13": "1.0",
    "c_14": "0.1",
    "c_15": "0.2",
    "c_16": "0.777777777777777777777777777778",
    "a_2_1": "5.26001519587677318785587544488e-2",
    "a_3_1": "1.97250569845378994544595329183e-2",
    "a_3_2": "5.91751709536136983633785987549e-2",
    "a_4_1": "2.95875854768068491816892993775e-2",
    "a_4_3": "8.87627564304205475450678981324e-2",
    "a_5_1": "2.41365134159266685502369798665e-1",
    "a_5_3": "-8.84549479328286085344864962717e-1",
    "a_5_4": "9.24834003261792003115737966543e-1",
    "a_6_1": "3.7037037037037037037037037037e-2",
    "a_6_4": "1.70828608729473871279604482173e-1",
    "a_6_5": "1.25467687566822425016691814123e-1",
    "a_7_1": "3.7109375e-2",
    "a_7_4": "1.70252211019544039314978060272e-1",
    "a_7_5": "6.02165389804559606850219397283e-2",
    "a_7_6": "-1.7578125e-2",
    "a_8_1": "3.70920001185047927108779319836e-2",
    "a_8_4": "1.70383925712239993810214054705e-1",
    "a_8_5": "1.07262030446373284651809199168e-1",
    "a_8_6": "-1.53194377486244017527936158236e-2",
    "a_8_7": "8.27378916381402288758473766002e-3",
    "a_9_1": "6.24110958716075717114429577812e-1",
    "a_9_4": "-3.36089262944694129406857109825",
    "a_9_5": "-8.68219346841726006818189891453e-1",
    "a_9_6": "2.75920996994467083049415600797e1",
    "a_9_7": "2.01540675504778934086186788979e1",
    "a_9_8": "-4.34898841810699588477366255144e1",
    "a_10_1": "4.77662536438264365890433908527e-1",
    "a_10_4": "-2.48811461997166764192642586468",
    "a_10_5": "-5.90290826836842996371446475743e-1",
    "a_10_6": "2.12300514481811942347288949897e1",
    "a_10_7": "1.52792336328824235832596922938e1",
    "a_10_8": "-3.32882109689848629194453265587e1",
    "a_10_9": "-2.03312017085086261358222928593e-2",
    "a_11_1": "-9.3714243008598732571704021658e-1",
    "a_11_4": "5.18637242884406370830023853209",
    "a_11_5": "1.09143734899672957818500254654",
    "a_11_6": "-8.14978701074692612513997267357",
    "a_11_7": "-1.85200656599969598641566180701e1",
    "a_11_8": "2.27394870993505042818970056734e1",
    "a_11_9": "2.49360555267965238987089396762",
    "a_11_10": "-3.0467644718982195003823669022",
    "a_12_1": "2.27331014751653820792359768449",
    "a_12_4": "-1.05344954667372501984066689879e1",
    "a_12_5": "-2.00087205822486249909675718444",
    "a_12_6": "-1.79589318631187989172765950534e1",
    "a_12_7": "2.79488845294199600508499808837e1",
    "a_12_8": "-2.85899827713502369474065508674",
    "a_12_9": "-8.87285693353062954433549289258",
    "a_12_10": "1.23605671757943030647266201528e1",
    "a_12_11": "6.43392746015763530355970484046e-1",
    "b_1": "5.42937341165687622380535766363e-2",
    "b_6": "4.45031289275240888144113950566",
    "b_7": "1.89151789931450038304281599044",
    "b_8": "-5.8012039600105847814672114227",
    "b_9": "3.1116436695781989440891606237e-1",
    "b_10": "-1.52160949662516078556178806805e-1",
    "b_11": "2.01365400804030348374776537501e-1",
    "b_12": "4.47106157277725905176885569043e-2",
    "a_14_1": "5.61675022830479523392909219681e-2",
    "a_14_7": "2.53500210216624811088794765333e-1",
    "a_14_8": "-2.46239037470802489917441475441e-1",
    "a_14_9": "-1.24191423263816360469010140626e-1",
    "a_14_10": "1.5329179827876569731206322685e-1",
    "a_14_11": "8.20105229563468988491666602057e-3",
    "a_14_12": "7.56789766054569976138603589584e-3",
    "a_14_13": "-8.298e-3",
    "a_15_1": "3.18346481635021405060768473261e-2",
    "a_15_6": "2.83009096723667755288322961402e-2",
    "a_15_7": "5.35419883074385676223797384372e-2",
    "a_15_8": "-5.49237485713909884646569340306e-2",
    "a_15_11": "-1.08347328697249322858509316994e-4",
    "a_15_12": "3.82571090835658412954920192323e-4",
    "a_15_13": "-3.40465008687404560802977114492e-4",
    "a_15_14": "1.41312443674632500278074618366e-1",
    "a_16_1": "-4.28896301583791923408573538692e-1",
    "a_16_6": "-4.69762141536116384314449447206",
    "a_16_7": "7.68342119606259904184240953878",
    "a_16_8": "4.06898981839711007970213554331",
    "a_16_9": "3.56727187455281109270669543021e-1",
    "a_16_13": "-1.39902416515901462129418009734e-3",
    "a_16_14": "2.9475147891527723389556272149",
    "a_16_15": "-9.15095847217987001081870187138",
    "bhh_1": "0.244094488188976377952755905512",
    "bhh_9": "0.733846688281611857341361741547",
    "bhh_12": "0.220588235294117647058823529412e-1",
    "er_1": "0.1312004499419488073250102996e-1",
    "er_6": "-0.1225156446376204440720569753e+1",
    "er_7": "-0.4957589496572501915214079952",
    "er_8": "0.1664377182454986536961530415e+1",
    "er_9": "-0.3503288487499736816886487290",
    "er_10": "0.3341791187130174790297318841",
    "er_11": "0.8192320648511571246570742613e-1",
    "er_12": "-0.2235530786388629525884427845e-1",
    "d_4_1": "-0.84289382761090128651353491142e+1",
    "d_4_6": "0.56671495351937776962531783590",
    "d_4_7": "-0.30689499459498916912797304727e+1",
    "d_4_8": "0.23846676565120698287728149680e+1",
    "d_4_9": "0.21170345824450282767155149946e+1",
    "d_4_10": "-0.87139158377797299206789907490",
    "d_4_11": "0.22404374302607882758541771650e+1",
    "d_4_12": "0.63157877876946881815570249290",
    "d_4_13": "-0.88990336451333310820698117400e-1",
    "d_4_14": "0.18148505520854727256656404962e+2",
    "d_4_15": "-0.91946323924783554000451984436e+1",
    "d_4_16": "-0.44360363875948939664310572000e+1",
    "d_5_1": "0.10427508642579134603413151009e+2",
    "d_5_6": "0.24228349177525818288430175319e+3",
    "d_5_7": "0.16520045171727028198505394887e+3",
    "d_5_8": "-0.37454675472269020279518312152e+3",
    "d_5_9": "-0.22113666853125306036270938578e+2",
    "d_5_10": "0.77334326684722638389603898808e+1",
    "d_5_11": "-0.30674084731089398182061213626e+2",
    "d_5_12": "-0.93321305264302278729567221706e+1",
    "d_5_13": "0.15697238121770843886131091075e+2",
    "d_5_14": "-0.31139403219565177677282850411e+2",
    "d_5_15": "-0.93529243588444783865713862664e+1",
    "d_5_16": "0.35816841486394083752465898540e+2",
    "d_6_1": "0.19985053242002433820987653617e+2",
    "d_6_6": "-0.38703730874935176555105901742e+3",
    "d_6_7": "-0.18917813819516756882830838328e+3",
    "d_6_8": "0.52780815920542364900561016686e+3",
    "d_6_9": "-0.11573902539959630126141871134e+2",
    "d_6_10": "0.68812326946963000169666922661e+1",
    "d_6_11": "-0.10006050966910838403183860980e+1",
    "d_6_12": "0.77771377980534432092869265740",
    "d_6_13": "-0.27782057523535084065932004339e+1",
    "d_6_14": "-0.60196695231264120758267380846e+2",
    "d_6_15": "0.84320405506677161018159903784e+2",
    "d_6_16": "0.11992291136182789328035130030e+2",
    "d_7_1": "-0.25693933462703749003312586129e+2",
    "d_7_6": "-0.15418974869023643374053993627e+3",
    "d_7_7": "-0.23152937917604549567536039109e+3",
    "d_7_8": "0.35763911791061412378285349910e+3",
    "d_7_9": "0.93405324183624310003907691704e+2",
    "d_7_10": "-0.37458323136451633156875139351e+2",
    "d_7_11": "0.10409964950896230045147246184e+3",
    "d_7_12": "0.29840293426660503123344363579e+2",
    "d_7_13": "-0.43533456590011143754432175058e+2",
    "d_7_14": "0.96324553959188282948394950600e+2",
    "d_7_15": "-0.39177261675615439165231486172e+2",
    "d_7_16": "-0.14972683625798562581422125276e+3",
}


def make_dop853():
    T = {k: F(v) for k, v in DOP853_DEC.items()}
    c = {i: T["c_%d" % i] for i in range(1, 17)}
    A = {}
    for k, v in T.items():
        m = re.fullmatch(r"a_(\d+)_(\d+)", k)
        if m:
            A[(int(m.group(1)), int(m.group(2)))] = v
    b = {int(k[2:]): v for k, v in T.items() if k.startswith("b_")}
    for j, v in b.items():
        A[(13, j)] = v              # 13th evaluation: f(x_{n+1}, y_{n+1})
    t = Tab("DOP853", 16, 8, c, A, b)
    bhh = {int(k[4:]): v for k, v in T.items() if k.startswith("bhh_")}
    er = {int(k[3:]): v for k, v in T.items() if k.startswith("er_")}
    t.bhh, t.er = bhh, er
    for k, v in T.items():
        if k.startswith(("bhh_", "er_", "d_")):
            t.extra[k] = v
    # dense output (7th order) as coded: cont0..cont3 as in DOPRI5 (with k13 on the right), cont4..7 = sum_j d_{m,j} k_j
    dense, nested = {}, {}
    for j in range(1, 17):
        bj = b.get(j, F(0))
        d1 = F(1 if j == 1 else 0)
        d13 = F(1 if j == 13 else 0)
        ydiff, bspl = bj, d1 - bj
        rc3 = ydiff - d13 - bspl
        d = [T.get("d_%d_%d" % (m, j), F(0)) for m in (4, 5, 6, 7)]
        inner = pconst(d[3])
        inner = padd(pconst(d[2]), pmul(TH, inner))
        inner = padd(pconst(d[1]), pmul(TH1, inner))
        inner = padd(pconst(d[0]), pmul(TH, inner))       # conpar
        inner = padd(pconst(rc3), pmul(TH1, inner))
        inner = padd(pconst(bspl), pmul(TH, inner))
        inner = padd(pconst(ydiff), pmul(TH1, inner))
        p = pmul(TH, inner)
        dense[j] = (p + [F(0)] * 8)[:8]
        nested[j] = [F(0), ydiff, bspl, rc3] + d
    t.dense, t.qd, t.nested = dense, 7, nested
    t.ncalls = 16
    return t


_CACHE = {}


def tab(name):
    if name not in _CACHE:
        _CACHE[name] = {"RK4": make_rk4, "RK23": make_rk23, "DOPRI5": make_dopri5, "DOP853": make_dop853}[name]()
    return _CACHE[name]


METHODS = ["RK4", "RK23", "DOPRI5", "DOP853"]


# ------------------------------------------------------------------ names of the constants in the crate's sources
def source_name_to_coef(method, cname):
    """Map a `const NAME: Float` of src/methods/<method>.rs to the spec's coefficient name (or None)."""
    t = tab(method)
    m = re.fullmatch(r"C(\d+)", cname)
    if m:
        return "c_" + m.group(1)
    m = re.fullmatch(r"A(\d+)", cname)
    if m:
        digits = m.group(1)
        cands = []
        for k in range(1, len(digits)):
            i, j = digits[:k], digits[k:]
            if i[0] == "0" or j[0] == "0":
                continue
            i, j = int(i), int(j)
            if 1 <= j < i <= t.s:
                cands.append((i, j))
        if len(cands) != 1:
            return None
        i, j = cands[0]
        if method == "DOPRI5" and i == 7:
            return "b_%d" % j           # row 7 of the FSAL tableau is b
        return "a_%d_%d" % (i, j)
    m = re.fullmatch(r"B(\d+)", cname)
    if m:
        return "b_" + m.group(1)
    m = re.fullmatch(r"BH(\d+)", cname)
    if m:
        return "bhh_%d" % {1: 1, 2: 9, 3: 12}[int(m.group(1))]
    m = re.fullmatch(r"ER(\d+)", cname)
    if m:
        return "er_" + m.group(1)
    m = re.fullmatch(r"E(\d+)", cname)
    if m:
        return "e_" + m.group(1)
    m = re.fullmatch(r"D(\d+)", cname)
    if m:
        if method == "DOPRI5":
            return "d_" + m.group(1)
        d = m.group(1)
        return "d_%s_%s" % (d[0], d[1:]) if len(d) >= 2 else None
    return None


# ------------------------------------------------------------------ TLA+ generation
class Emit:
    def __init__(self, module, title):
        self.module = module
        self.lines = ["-" * 20 + " MODULE " + module + " " + "-" * 20,
                      "\\* GENERATED by checks/tableaux_gen.py -- do not edit; " + title,
                      "EXTENDS Integers", "",
                      "VARIABLE", "  \\* @type: Int;", "  dummy", "",
                      "Init == dummy = 0", "Next == dummy' = dummy", "",
                      "\\* @type: Int => Int;",
                      "Abs(x) == IF x < 0 THEN -x ELSE x", ""]
        self.obs = []           # dicts: name, prop, kind ('pos' | 'neg'), desc
        self.canaries = []      # (name, prop)

    def comment(self, s):
        self.lines.append("\\* " + s)

    def define(self, name, expr, note=None):
        self.lines.append("%s == %s%s" % (name, expr, ("   \\* " + note) if note else ""))

    def ob(self, name, expr, prop, kind, desc):
        self.lines.append("\\* %s" % desc)
        self.lines.append("%s ==\n    %s" % (name, expr))
        self.obs.append({"name": name, "prop": prop, "kind": kind, "desc": desc, "module": self.module})

    def canary(self, name, expr, prop, desc):
        self.lines.append("\\* CANARY (must be REFUTED by the checker): %s" % desc)
        self.lines.append("%s ==\n    %s" % (name, expr))
        self.canaries.append((name, prop))

    def finish(self):
        for prop in sorted({o["prop"] for o in self.obs}):
            names = [o["name"] for o in self.obs if o["prop"] == prop]
            self.lines.append("")
            self.lines.append("All_%s ==\n%s" % (prop, "\n".join("    /\\ " + n for n in names)))
        self.lines.append("=" * 60)
        return "\n".join(self.lines) + "\n"


def _lit(n):
    return str(n) if n >= 0 else "(%d)" % n


def _pow_name(base, k):
    return "1" if k == 0 else (base if k == 1 else "%s_p%d" % (base, k))


def gen_rk_module(t):
    """Exact-rational module for RK4 / RK23 / DOPRI5: all tree conditions."""
    em = Emit("Tableaux" + t.name, "exact rational tableau of %s and its order conditions as integer identities" % t.name)
    s = t.s
    D = lcm(*[v.denominator for v in list(t.A.values()) + list(t.c.values())])
    DB = lcm(*[v.denominator for v in t.b.values()])
    em.comment("a_i_j and c_i are numerators over D; b_j numerators over DB")
    em.define("D", str(D))
    em.define("DB", str(DB))
    maxpow = max(t.p, max([q for _l, _w, q in t.est] + [0]), t.qd or 0) + 1
    for k in range(2, maxpow + 1):
        em.define(_pow_name("D", k), "%s * D" % _pow_name("D", k - 1))
    for i in range(1, s + 1):
        em.define("c_%d" % i, _lit(int(t.c[i] * D)), "c_%d = %s" % (i, t.c[i]))
    for (i, j) in sorted(t.A):
        em.define("a_%d_%d" % (i, j), _lit(int(t.A[(i, j)] * D)), "a_%d_%d = %s" % (i, j, t.A[(i, j)]))
    for j in sorted(t.b):
        em.define("b_%d" % j, _lit(int(t.b[j] * DB)), "b_%d = %s" % (j, t.b[j]))
    em.lines.append("")
    # elementary weights Phi_i(tree): numerators over D^(rho-1)
    maxorder = max(t.p, max([q - 1 for _l, _w, q in t.est] + [0]), t.qd or 0)
    em.comment("Phi_<tree>_<i>: numerator over D^(rho(tree)-1) of the elementary weight of stage i;")
    em.comment("tree names t<order>_<k>, bracket notation in the comment ('.' = leaf)")
    for n in range(2, maxorder + 1):
        for tr in trees(n):
            em.comment("tree %s = %s   rho=%d gamma=%d" % (tname(tr), bracket(tr), rho(tr), gamma(tr)))
            for i in range(1, s + 1):
                facs = []
                for ch in tr:
                    if ch == ():
                        facs.append("c_%d" % i)
                    else:
                        terms = ["a_%d_%d*Phi_%s_%d" % (i, j, tname(ch), j) for j in range(1, i) if (i, j) in t.A]
                        facs.append("(" + (" + ".join(terms) if terms else "0") + ")")
                em.define("Phi_%s_%d" % (tname(tr), i), " * ".join(facs))
    # bushy trees of higher order (for the negative facts): Phi = c_i^(n-1)
    for n in range(maxorder + 1, maxpow + 1):
        tr = bushy(n)
        em.comment("tree %s = %s (bushy)  rho=%d gamma=%d" % (tname(tr), bracket(tr), rho(tr), gamma(tr)))
        for i in range(1, s + 1):
            em.define("Phi_%s_%d" % (tname(tr), i), " * ".join(["c_%d" % i] * (n - 1)))
    em.lines.append("")

    def wsum(prefix, weights, tr):
        terms = []
        for j in sorted(weights):
            if weights[j] == 0:
                continue
            terms.append("%s_%d" % (prefix, j) if tr == () else "%s_%d*Phi_%s_%d" % (prefix, j, tname(tr), j))
        return "(" + (" + ".join(terms) if terms else "0") + ")"

    M = t.name
    # ---- C02: row sums
    for i in range(1, s + 1):
        terms = ["a_%d_%d" % (i, j) for j in range(1, i) if (i, j) in t.A]
        em.ob("Ob_C02_%s_rowsum_%d" % (M, i), "%s = c_%d" % (" + ".join(terms) if terms else "0", i), "C02", "pos",
              "row sum: sum_j a_%d_j = c_%d" % (i, i))
    # ---- C02: order conditions of the solution weights
    for n in range(1, t.p + 1):
        for tr in trees(n):
            em.ob("Ob_C02_%s_tree_%s" % (M, tname(tr)),
                  "%d * %s = DB * %s" % (gamma(tr), wsum("b", t.b, tr), _pow_name("D", n - 1)), "C02", "pos",
                  "order condition %s: sum_i b_i Phi_i = 1/%d" % (bracket(tr), gamma(tr)))
    tr = bushy(t.p + 1)
    lhs = "%d * %s" % (gamma(tr), wsum("b", t.b, tr))
    rhs = "DB * %s" % _pow_name("D", t.p)
    em.ob("Neg_C02_%s_order%d_%s" % (M, t.p + 1, tname(tr)), "%s # %s" % (lhs, rhs), "C02", "neg",
          "the order is exactly %d: the bushy tree of order %d FAILS, sum_i b_i c_i^%d # 1/%d" % (t.p, t.p + 1, t.p, t.p + 1))
    em.canary("Canary_C02_%s" % M, "%s = %s" % (lhs, rhs), "C02", "false order-%d condition" % (t.p + 1))
    # ---- C02: embedded error estimator
    for lab, w, q in t.est:
        DE = lcm(*[v.denominator for v in w.values()])
        em.define("DE", str(DE), "error weights %s_j are numerators over DE" % lab)
        for j in sorted(w):
            em.define("%s_%d" % (lab, j), _lit(int(w[j] * DE)), "%s_%d = %s" % (lab, j, w[j]))
        for n in range(1, q):
            for tr in trees(n):
                em.ob("Ob_C02_%s_est_%s" % (M, tname(tr)), "%s = 0" % wsum(lab, w, tr), "C02", "pos",
                      "error weights annihilate %s: sum_i e_i Phi_i = 0 (the estimate vanishes where the embedded order-%d formula is exact)"
                      % (bracket(tr), q - 1))
        tr = bushy(q)
        em.ob("Neg_C02_%s_est_%s" % (M, tname(tr)), "%s # 0" % wsum(lab, w, tr), "C02", "neg",
              "error weights do NOT annihilate the bushy tree of order %d: sum_i e_i c_i^%d # 0 (the estimate does not vanish on degree %d)"
              % (q, q - 1, q))
    # ---- C07: continuous weights
    if t.dense:
        deg = len(t.dense[1]) - 1
        DT = lcm(*[v.denominator for p in t.dense.values() for v in p])
        em.lines.append("")
        em.comment("continuous weights b_j(theta) = sum_m bth_j_m theta^m ; bth_j_m numerators over DT")
        em.define("DT", str(DT))
        for j in range(1, s + 1):
            for m in range(deg + 1):
                em.define("bth_%d_%d" % (j, m), _lit(int(t.dense[j][m] * DT)), "coefficient of theta^%d in b_%d(theta) = %s" % (m, j, t.dense[j][m]))
        for j in range(1, s + 1):
            em.ob("Ob_C07_%s_at0_%d" % (M, j), "bth_%d_0 = 0" % j, "C07", "pos", "b_%d(0) = 0" % j)
        for j in range(1, s + 1):
            em.ob("Ob_C07_%s_at1_%d" % (M, j),
                  "DB * (%s) = DT * %s" % (" + ".join("bth_%d_%d" % (j, m) for m in range(deg + 1)), ("b_%d" % j) if t.b.get(j, 0) != 0 else "0"),
                  "C07", "pos", "b_%d(1) = b_%d" % (j, j))
        for n in range(1, t.qd + 1):
            for tr in trees(n):
                for m in range(deg + 1):
                    w = {j: t.dense[j][m] for j in range(1, s + 1)}
                    rhs = ("DT * %s" % _pow_name("D", n - 1)) if m == n else "0"
                    em.ob("Ob_C07_%s_tree_%s_th%d" % (M, tname(tr), m),
                          "%d * %s = %s" % (gamma(tr), wsum_m(w, m, tr), rhs), "C07", "pos",
                          "continuous order condition %s, coefficient of theta^%d: sum_j bth_j_%d Phi_j = %s"
                          % (bracket(tr), m, m, ("1/%d" % gamma(tr)) if m == n else "0"))
        tr = bushy(t.qd + 1)
        w = {j: t.dense[j][deg] for j in range(1, s + 1)}
        em.canary("Canary_C07_%s" % M,
                  "%d * %s = 0" % (gamma(tr), wsum_m(w, deg, tr)) if deg != t.qd + 1 else
                  "%d * %s = DT * %s" % (gamma(tr), wsum_m(w, deg, tr), _pow_name("D", t.qd)),
                  "C07", "false continuous condition of order %d (theta^%d coefficient of the bushy tree)" % (t.qd + 1, deg))
    return em


def wsum_m(weights, m, tr):
    terms = []
    for j in sorted(weights):
        if weights[j] == 0:
            continue
        terms.append("bth_%d_%d" % (j, m) if tr == () else "bth_%d_%d*Phi_%s_%d" % (j, m, tname(tr), j))
    return "(" + (" + ".join(terms) if terms else "0") + ")"


def gen_dop853_module():
    """DOP853: decimals as numerators over SC = 10^S; row sums and quadrature conditions within 10^-25."""
    t = tab("DOP853")
    em = Emit("TableauxDOP853", "DOP853 tableau (30-digit decimals as exact rationals): row sums and quadrature conditions to 1e-25")
    allv = list(t.A.values()) + list(t.c.values()) + list(t.b.values()) + list(t.bhh.values()) + list(t.er.values())
    S = max(len(str(v.denominator)) - 1 for v in allv)
    SC = 10 ** S
    assert all(SC % v.denominator == 0 for v in allv)
    em.comment("every constant is an integer numerator over SC = 10^%d; TOL = 10^-25" % S)
    em.define("SC", "1" + "0" * S)
    for k in range(2, 10):
        em.define(_pow_name("SC", k), "%s * SC" % _pow_name("SC", k - 1))
    em.define("TOLDEN", "1" + "0" * 25, "a quantity X over SC^k is within 1e-25 of zero iff Abs(X) * TOLDEN <= SC^k")
    for i in range(1, 17):
        em.define("c_%d" % i, _lit(int(t.c[i] * SC)))
    for (i, j) in sorted(t.A):
        if i != 13:
            em.define("a_%d_%d" % (i, j), _lit(int(t.A[(i, j)] * SC)))
    for j in sorted(t.b):
        em.define("b_%d" % j, _lit(int(t.b[j] * SC)))
    for j in sorted(t.bhh):
        em.define("bhh_%d" % j, _lit(int(t.bhh[j] * SC)))
    for j in sorted(t.er):
        em.define("er_%d" % j, _lit(int(t.er[j] * SC)))
    for j in range(1, 17):
        for k in range(2, 9):
            em.define(_pow_name("c_%d" % j, k), "%s * c_%d" % (_pow_name("c_%d" % j, k - 1), j))
    em.lines.append("")
    for i in range(2, 17):
        if i == 13:
            terms = ["b_%d" % j for j in sorted(t.b)]
        else:
            terms = ["a_%d_%d" % (i, j) for j in range(1, i) if (i, j) in t.A]
        em.ob("Ob_C02_DOP853_rowsum_%d" % i, "Abs(%s - c_%d) * TOLDEN <= SC" % (" + ".join(terms), i), "C02", "pos",
              "row sum: |sum_j a_%d_j - c_%d| <= 1e-25%s" % (i, i, " (row 13 is b)" if i == 13 else ""))

    def qsum(prefix, w, k):
        return "(" + " + ".join("%s_%d*%s" % (prefix, j, _pow_name("c_%d" % j, k - 1)) if k > 1 else "%s_%d" % (prefix, j)
                                for j in sorted(w)) + ")"
    for k in range(1, 9):
        em.ob("Ob_C02_DOP853_quad_%d" % k, "Abs(%d * %s - %s) * TOLDEN <= %d * %s" % (k, qsum("b", t.b, k), _pow_name("SC", k), k, _pow_name("SC", k)),
              "C02", "pos", "quadrature condition: |sum_i b_i c_i^%d - 1/%d| <= 1e-25" % (k - 1, k))
    em.ob("Neg_C02_DOP853_quad_9", "Abs(9 * %s - %s) * TOLDEN > 9 * %s" % (qsum("b", t.b, 9), _pow_name("SC", 9), _pow_name("SC", 9)),
          "C02", "neg", "the order is not 9: |sum_i b_i c_i^8 - 1/9| > 1e-25")
    em.canary("Canary_C02_DOP853", "Abs(9 * %s - %s) * TOLDEN <= 9 * %s" % (qsum("b", t.b, 9), _pow_name("SC", 9), _pow_name("SC", 9)),
              "C02", "false quadrature condition of order 9")
    for k in range(1, 4):
        em.ob("Ob_C02_DOP853_bhh_quad_%d" % k, "Abs(%d * %s - %s) * TOLDEN <= %d * %s" % (k, qsum("bhh", t.bhh, k), _pow_name("SC", k), k, _pow_name("SC", k)),
              "C02", "pos", "3rd-order embedded formula bhh (err2 = b - bhh): |sum_i bhh_i c_i^%d - 1/%d| <= 1e-25" % (k - 1, k))
    em.ob("Neg_C02_DOP853_bhh_quad_4", "Abs(4 * %s - %s) * TOLDEN > 4 * %s" % (qsum("bhh", t.bhh, 4), _pow_name("SC", 4), _pow_name("SC", 4)),
          "C02", "neg", "bhh is not of order 4: |sum_i bhh_i c_i^3 - 1/4| > 1e-25")
    for k in range(1, 6):
        em.ob("Ob_C02_DOP853_er_quad_%d" % k, "Abs(%s) * TOLDEN <= %s" % (qsum("er", t.er, k), _pow_name("SC", k)),
              "C02", "pos", "5th-order error weights er = b - bhat5: |sum_i er_i c_i^%d| <= 1e-25" % (k - 1))
    em.ob("Neg_C02_DOP853_er_quad_6", "Abs(%s) * TOLDEN > %s" % (qsum("er", t.er, 6), _pow_name("SC", 6)),
          "C02", "neg", "er does not vanish on degree 5: |sum_i er_i c_i^5| > 1e-25")
    # ---- C07 (partial): continuous quadrature conditions of the 7th-order dense output, within 1e-24
    em.lines.append("")
    em.comment("continuous weights b_j(theta) = sum_m bth_j_m theta^m of the dense output as coded (cont0..cont7, three extra stages);")
    em.comment("linear in the constants, hence numerators over SC")
    em.define("TOLDEN24", "1" + "0" * 24)
    deg = 7
    for j in range(1, 17):
        for m in range(deg + 1):
            v = t.dense[j][m] * SC
            assert v.denominator == 1
            em.define("bth_%d_%d" % (j, m), _lit(int(v)))
    for j in range(1, 17):
        em.ob("Ob_C07_DOP853_at0_%d" % j, "bth_%d_0 = 0" % j, "C07", "pos", "b_%d(0) = 0" % j)
    for j in range(1, 17):
        em.ob("Ob_C07_DOP853_at1_%d" % j, "%s = %s" % (" + ".join("bth_%d_%d" % (j, m) for m in range(deg + 1)), ("b_%d" % j) if j in t.b else "0"),
              "C07", "pos", "b_%d(1) = b_%d (exactly)" % (j, j))

    def csum(m, k):
        return "(" + " + ".join(("bth_%d_%d*%s" % (j, m, _pow_name("c_%d" % j, k - 1))) if k > 1 else "bth_%d_%d" % (j, m)
                                for j in range(1, 17) if t.dense[j][m] != 0) + ")"
    for k in range(1, 8):
        for m in range(deg + 1):
            nz = any(t.dense[j][m] != 0 for j in range(1, 17))
            lhs = "%d * %s" % (k, csum(m, k)) if nz else "0"
            if m == k:
                lhs = "%s - %s" % (lhs, _pow_name("SC", k))
            em.ob("Ob_C07_DOP853_cquad_%d_th%d" % (k, m), "Abs(%s) * TOLDEN24 <= %d * %s" % (lhs, k, _pow_name("SC", k)), "C07", "pos",
                  "continuous quadrature condition, coefficient of theta^%d: |sum_j bth_j_%d c_j^%d - %s| <= 1e-24"
                  % (m, m, k - 1, ("1/%d" % k) if m == k else "0"))
    em.ob("Neg_C07_DOP853_cquad_8_th6", "Abs(8 * %s) * TOLDEN24 > 8 * %s" % (csum(6, 8), _pow_name("SC", 8)), "C07", "neg",
          "the dense output is not of order 8: the theta^6 coefficient of sum_j b_j(theta) c_j^7 does not vanish")
    em.canary("Canary_C07_DOP853", "Abs(8 * %s) * TOLDEN24 <= 8 * %s" % (csum(6, 8), _pow_name("SC", 8)), "C07",
              "false continuous quadrature condition of order 8")
    return em


# ------------------------------------------------------------------ Radau IIA (s = 3): abscissae only
RADAU_DIGITS = 30


RADAU_PN = [60, 24, 3]             # numerator of the stability function, times 60
RADAU_QN = [60, -36, 9, -1]        # denominator, times 60


def radau_stability(z):
    """R(z) = (1 + 2z/5 + z^2/20) / (1 - 3z/5 + 3z^2/20 - z^3/60), exactly."""
    return sum(F(c) * z ** k for k, c in enumerate(RADAU_PN)) / sum(F(c) * z ** k for k, c in enumerate(RADAU_QN))


def radau_nodes():
    """(c1, c2, c3) of Radau IIA(5): c1 < c2 roots of 10 c^2 - 8 c + 1 = 0, i.e. (4 -+ sqrt 6)/10, c3 = 1.
    c1, c2 as rationals LO/10^30 with LO = floor(c 10^30): within 1e-30 of the irrational node (the bracket is proved by Apalache)."""
    from math import isqrt
    S = 10 ** RADAU_DIGITS
    r = isqrt(6 * S * S * 100)            # floor(sqrt(6) * 10^31)
    lo1 = (4 * S * 10 - r - 1) // 100     # floor((4 - sqrt 6)/10 * 10^30): sqrt 6 is irrational, so (4 S 10 - sqrt6 S 10) is not an integer
    lo2 = (4 * S * 10 + r) // 100
    return F(lo1, S), F(lo2, S), F(1)


def gen_radau_module():
    em = Emit("TableauxRADAU", "Radau IIA(5) abscissae: c1 < c2 are the roots of 10 c^2 - 8 c + 1, bracketed to 1e-%d; c3 = 1" % RADAU_DIGITS)
    c1, c2, _ = radau_nodes()
    S = 10 ** RADAU_DIGITS
    em.comment("c_i in [C_i_LO / SC, (C_i_LO + 1) / SC];  P(n) = 10 n^2 - 8 n SC + SC^2 is SC^2 times the node polynomial at n / SC")
    em.define("SC", "1" + "0" * RADAU_DIGITS)
    em.define("C1_LO", str(int(c1 * S)))
    em.define("C2_LO", str(int(c2 * S)))
    em.lines += ["\\* @type: Int => Int;", "P(n) == 10 * n * n - 8 * n * SC + SC * SC", ""]
    D = RADAU_DIGITS
    for name, expr, desc in [
        ("c1_lo", "P(C1_LO) > 0", "P > 0 at C1_LO / 10^%d" % D),
        ("c1_hi", "P(C1_LO + 1) < 0", "P < 0 at (C1_LO + 1) / 10^%d: the smaller root of 10c^2 - 8c + 1 lies in between" % D),
        ("c2_lo", "P(C2_LO) < 0", "P < 0 at C2_LO / 10^%d" % D),
        ("c2_hi", "P(C2_LO + 1) > 0", "P > 0 at (C2_LO + 1) / 10^%d: the larger root lies in between" % D),
        ("pos", "0 < C1_LO", "0 < c1"),
        ("c1_left", "5 * (C1_LO + 1) < 2 * SC", "c1 < 2/5 (the vertex of the parabola: exactly one root on each side)"),
        ("c2_right", "2 * SC < 5 * C2_LO", "2/5 < c2"),
        ("c2_lt1", "C2_LO + 1 < SC", "c2 < 1 = c3"),
        ("vieta_sum", "Abs(5 * (C1_LO + C2_LO) - 4 * SC) <= 10", "c1 + c2 = 4/5 within the bracket width"),
        ("vieta_prod", "Abs(10 * C1_LO * C2_LO - SC * SC) <= 20 * SC", "c1 c2 = 1/10 within the bracket width"),
    ]:
        em.ob("Ob_C02_RADAU_" + name, expr, "C02", "pos", desc)
    # stability function R = Pn / Qn (both over 60): the (2,3) Pade approximant of exp, i.e. Qn(z) exp(z) - Pn(z) = O(z^6)
    em.lines.append("")
    em.comment("R(z) = (60 + 24 z + 3 z^2) / (60 - 36 z + 9 z^2 - z^3): coefficient of z^k in Qn(z) exp(z), times 720, is sum_i qn_i 720/(k-i)!")
    for k, v in enumerate(RADAU_PN):
        em.define("pn_%d" % k, _lit(v))
    for k, v in enumerate(RADAU_QN):
        em.define("qn_%d" % k, _lit(v))
    fact = [1, 1, 2, 6, 24, 120, 720]
    for k in range(0, 7):
        lhs = " + ".join("qn_%d * %d" % (i, 720 // fact[k - i]) for i in range(0, min(3, k) + 1))
        rhs = "720 * pn_%d" % k if k < len(RADAU_PN) else "0"
        if k <= 5:
            em.ob("Ob_C02_RADAU_pade_%d" % k, "%s = %s" % (lhs, rhs), "C02", "pos", "R is the (2,3) Pade approximant of exp: the z^%d coefficients of Q(z) exp(z) and P(z) agree" % k)
        else:
            em.ob("Neg_C02_RADAU_pade_6", "%s # %s" % (lhs, rhs), "C02", "neg", "R is not a better approximant: the z^6 coefficients differ (order exactly 5)")
    em.canary("Canary_C02_RADAU", "P(C2_LO + 36000 * 1000000000000000000000) < 0", "C02",
              "a node mistyped in the 5th digit (0.644984... for 0.644948...) is NOT inside the bracket")
    return em


def generate(outdir=SPEC_DIR, methods=METHODS):
    """(Re)write the .tla modules; returns {method: Emit}."""
    os.makedirs(outdir, exist_ok=True)
    out = {}
    for m in methods:
        em = gen_radau_module() if m == "RADAU" else gen_dop853_module() if m == "DOP853" else gen_rk_module(tab(m))
        text = em.finish()
        path = os.path.join(outdir, em.module + ".tla")
        old = open(path).read() if os.path.exists(path) else None
        if old != text:
            tmp = path + ".tmp%d" % os.getpid()
            with open(tmp, "w") as f:
                f.write(text)
            os.replace(tmp, path)
        em.path = path
        out[m] = em
    return out


def count_obligations(path, prop):
    """Count the conjuncts of All_<prop> by parsing the generated module (what Apalache actually checks)."""
    text = open(path).read()
    m = re.search(r"^All_%s ==\n((?:    /\\ \w+\n)+)" % prop, text, re.M)
    if not m:
        return []
    return re.findall(r"/\\ (\w+)", m.group(1))


if __name__ == "__main__":
    for m, em in generate().items():
        print(m, em.path, {p: len(count_obligations(em.path, p)) for p in ("C02", "C07")})

"""C16 -- LU factorisation and triangular solves are correct, real and complex (exact small-integer domain, graded by
powers of two).

Pipeline (model-based, TLA+ decides):
  1. TLC explores spec/lu/MC_LU: every small integer matrix (and Gaussian-integer matrix, and shape / pivot-length
     case), graded versions D_r A D_c of them (power-of-two row / column scalings: all orders of three magnitudes in a
     column, tiny pivots in every position; hash-sampled, the residue class follows the seed) and pseudo-random complex
     3x3 / real 4x4 matrices (seeded) are factorised and solved by the Level-B model (LU.tla: DEC/SOL, DECC/SOLC over
     exact rationals, the scaling enters the pivot search only) stage by stage, and the Level-A clauses of
     LUContract.tla (determinant / Cramer's rule, multiplier bound, partial pivoting) are checked on it (invariant
     Contract).  A violated invariant here is a tool-level problem, never a verdict.
  2. finished scenarios (thorough: a stratified subset) are emitted as REPLAY lines and executed on the REAL
     lu_decomp / lin_solve / lu_decomp_complex / lin_solve_complex by harness/src/bin/replay_lu.rs, on Full and on
     wide Banded storage; the harness records result class, multiplier bound, pivot rows, factor and solution (every
     float exactly, as odd mantissa and binary exponent), untouched a / ip.
  3. TLC validates that trace against spec/lu/Trace_LU: Level-A clauses on what the code returned -> VIOL lines
     (-> VIOLATION); Level-B mismatches that keep the contract -> DRIFT lines.
"""
import collections
import concurrent.futures
import json
import os
import re
import time

import vlib
from checks.c17 import printed_values, run_harness_bin, _replay_payload

PROP = "C16"
SPEC_DIR = os.path.join(vlib.SPEC, "lu")
CHUNK = 2500          # at most this many scenarios per trace-validation TLC run
PARALLEL = 12

ASSUMPTIONS = [
    "exact small-integer domain, graded by powers of two: real 1x1 and 2x2 over -2..2, 3x3 over {-1,0,1} (thorough: 3x3 "
    "over -2..2), complex 1x1 and 2x2 over Gaussian integers with parts in -1..1 -- all of them unscaled; in addition "
    "D_r A D_c for the same matrices (3x3: over {-1,0,1}) with D_r, D_c diagonal powers of two (row scales 1,1/2,1/4 and "
    "1,2^-30,2^-60 in every order, all 2^-60; one column 2^-60 in every position, graded columns; and products of these), "
    "hash-sampled per (matrix, scaling) pair with the residue class chosen by the seed; pseudo-random (LCG, seeded) complex "
    "3x3 matrices with parts in -1..1 and real 4x4 matrices over {-1,0,1}, unscaled and scaled; the backward-stability "
    "bound for general float matrices of size 5..12 is NOT decided here",
    "a rational whose denominator is a power of two (dyadic) with a small numerator is exactly representable in f64, "
    "and IEEE +,-,*,/ are exact when the exact result is representable: on an all-dyadic elimination the code must "
    "reproduce the exact rational result bit for bit; scaling rows and columns by powers of two (|exponent| <= 150, far "
    "from over/underflow) multiplies every intermediate by a power of two, so the same holds for the graded matrices "
    "once the pivot search compares the scaled magnitudes (LU.tla ScLt)",
    "when a non-dyadic intermediate occurs the harness (replay_lu.rs) compares the float solution, component j divided by "
    "its scale 2^-cs[j], with the exact rational carried by the scenario (echoed back and re-checked by TLC against "
    "Cramer's rule) in f64 with tolerance 16*n*eps*max(1,|x|_inf); for an exactly singular matrix on a non-dyadic path "
    "either result class is accepted",
    "multiplier bound: real |l| <= 1; complex re^2+im^2 <= 2 (the code pivots on |re|+|im|, which bounds the modulus by "
    "sqrt 2), computed by the harness in f64 with relative slack 1e-12; the sharper statement is the pivot_max clause: TLC "
    "re-runs the exact elimination along the pivot rows the code reported and requires each to hold a largest entry "
    "(|.|, |re|+|im|; scaled) of its column -- distinct candidates differ by far more than rounding on this domain, "
    "equally large candidates are all accepted",
    "the harness reads the factor back through the public Index API and compares a.data / ip bitwise before and "
    "after the solve; Banded storage uses ml = mu = n-1 so that the fill-in fits",
    "thorough tier: the model covers every unscaled matrix; the replay covers all singular ones and a hash-sampled subset "
    "of the others (fractions reported in coverage.replay_strata); graded and pseudo-random scenarios are all replayed",
    "TLC integers are 32-bit: magnitudes with exponents 20 or more apart are compared by exponent (LU.tla asserts that "
    "the rationals involved are small enough for that to be exact)",
    "TLC and the CommunityModules Json/IOUtils/SequencesExt modules are trusted",
]


def _kind(sc):
    return "complex" if "complex" in sc["kind"] else "real"


def _signature(clause, sc):
    return f"{PROP}/{clause}/{_kind(sc)}/{sc['n']}"


def _validate(work, scen, tag, mutate=None):
    # interleaved chunks: the scenarios are sorted by kind and size, and a complex 3x3 costs five times a real 2x2
    nch = max(-(-len(scen) // CHUNK), min(PARALLEL, -(-len(scen) // 200)), 1)
    chunks = [scen[k::nch] for k in range(nch)]
    jobs = []
    t0 = time.time()
    nlines = 0
    worst = 0.0
    for k, ch in enumerate(chunks):
        sfile = os.path.join(work, f"scen-{tag}-{k}.ndjson")
        tfile = os.path.join(work, f"trace-{tag}-{k}.ndjson")
        with open(sfile, "w") as f:
            for s in ch:
                f.write(json.dumps(s) + "\n")
        args = [sfile, tfile] + (["--mutate", str(mutate)] if mutate else [])
        rc, out, err = run_harness_bin("replay_lu", args)
        if rc != 0:
            raise vlib.ToolError(f"replay_lu failed (rc={rc}): {err[-2000:]}")
        m = re.search(r"= ([0-9.]+)\s*$", out.strip())
        if m:
            worst = max(worst, float(m.group(1)))
        with open(tfile) as f:
            nl = sum(1 for _ in f)
        os.remove(sfile)
        nlines += nl
        jobs.append((k, tfile, nl))
    t_replay = time.time() - t0

    def one(job):
        k, tfile, nl = job
        r = vlib.tlc("Trace_LU", "Trace_LU.cfg", cwd=SPEC_DIR, workers=1, deque=True, xss=True, xmx="3g",
                     env={"TRACE": tfile}, metadir=os.path.join(work, f"tlc-{tag}-{k}", "states"), timeout=3000)
        try:
            os.remove(tfile)
        except OSError:
            pass
        return k, nl, r

    t0 = time.time()
    viol, drift = [], []
    with concurrent.futures.ThreadPoolExecutor(max_workers=PARALLEL) as ex:
        for k, nl, r in ex.map(one, jobs):
            if not r.ok:
                vlib.log(r.out[-4000:])
                un = printed_values(r.out, "UNMATCHED")
                raise vlib.ToolError(f"trace validation did not accept the trace (chunk {k}): "
                                     f"{r.error or r.invariant}; {un[:1]}")
            if r.depth != nl + 1:
                raise vlib.ToolError(f"trace chunk {k}: depth {r.depth} != lines+1 {nl + 1}")
            viol += printed_values(r.out, "VIOL")
            drift += printed_values(r.out, "DRIFT")
    return viol, drift, nlines, t_replay, time.time() - t0, worst


def _violations(viol_lines, by_sid):
    out = []
    for line in viol_lines:
        v = vlib.parse_tla(line)          # ["VIOL","C16",clause,sid,detail]
        clause, sid, detail = v[2], v[3], v[4]
        s = by_sid[sid]
        out.append(vlib.Violation(PROP, _signature(clause, s["sc"]),
                                  f"clause={clause} observed={json.dumps(detail, sort_keys=True)}",
                                  {"sc": s["sc"], "expect": s.get("expect")}))
    return out


def run(tier, seed, replay, keep, mutate=None):
    t_start = time.time()
    mutate = mutate or os.environ.get("VERIF_MUTATE") or None   # development aid: replay_lu --mutate k
    vlib.ensure_harness()
    work = vlib.workdir(f"c16-{os.getpid()}")
    try:
        if replay:
            blob = json.load(open(replay))
            s = dict(blob["scenario"])
            s["sid"] = 1
            viol, drift, nlines, _, _, _ = _validate(work, [s], "replay", mutate)
            vs = _violations(viol, {1: s})
            n_new, _ = vlib.report(PROP, vs)
            vlib.log(f"[C16] replayed 1 scenario: {len(viol)} contract failure(s), {len(drift)} drift line(s)")
            return 1 if n_new else 0

        cfg = "MC_LU.cfg" if tier == "quick" else "MC_LU_thorough.cfg"
        r = vlib.tlc("MC_LU", cfg, cwd=SPEC_DIR, workers=8, xmx="12g", timeout=3000, env={"C16_SEED": int(seed)},
                     metadir=os.path.join(work, "tlc-mc", "states"))
        if not r.ok:
            vlib.log(r.out[-6000:])
            if r.invariant:
                raise vlib.ToolError(f"MODEL PROBLEM: the exhaustive Level-B model violates {r.invariant} "
                                     "(Level B does not imply the contract): fix LU.tla / LUContract.tla, or re-read "
                                     "the code -- this is not a verdict about /repo")
            raise vlib.ToolError(f"TLC failed on MC_LU: {r.error}")
        init_states = 0
        m = re.search(r"Finished computing initial states: (\d+) distinct", r.out)
        if m:
            init_states = int(m.group(1))
        scen = [_replay_payload(line) for line in r.lines("REPLAY")]
        r.printed = []
        if not scen:
            raise vlib.ToolError("MC_LU produced no REPLAY lines")
        scen.sort(key=lambda s: json.dumps(s["sc"], sort_keys=True))
        for k, s in enumerate(scen):
            s["sid"] = k + 1
        vlib.log(f"[C16] model: {init_states} scenarios, {r.distinct} states, {r.generated} transitions in {r.wall:.1f}s; "
                 f"{len(scen)} scenarios selected for replay")

        viol, drift, nlines, t_rep, t_tlc, worst = _validate(work, scen, "all", mutate)
        vlib.log(f"[C16] replayed {len(scen)} scenarios ({nlines} trace lines) in {t_rep:.1f}s; trace validation {t_tlc:.1f}s; "
                 f"{len(viol)} VIOL, {len(drift)} DRIFT; worst solution error {worst:.3f} n*eps")
        by_sid = {s["sid"]: s for s in scen}
        vs = _violations(viol, by_sid)
        n_new, n_known = vlib.report(PROP, vs)

        def stratum(s):
            e = s["expect"]
            if s["sc"]["kind"].startswith("shape"):
                return "shape"
            return ("singular" if e["singular"] else "swap" if e["swap"] else "noswap") + \
                   ("" if e["dec_dyadic"] else "_nondyadic")
        per_kind = collections.Counter(f"{s['sc']['kind']}/{s['sc']['n']}" for s in scen)
        drift_kinds = collections.Counter()
        for dl in drift:
            dv = vlib.parse_tla(dl)[4]
            drift_kinds["shape" if "model_class" not in dv else
                        "class_where_either_is_allowed" if dv["model_class"] != dv["code_class"] else
                        "pivot_row_among_equally_large" if dv["model_ip"] != dv["code_ip"] else "factor_entries"] += 1
        per_fam = collections.Counter(f"{s['sc']['fam']}/{s['sc']['kind']}/{s['sc']['n']}" for s in scen)

        def tiny_pos(s):
            """position (0-based stage) of the model's pivots that are tiny (exponent <= -30) in a factorisable scenario"""
            e = s["expect"]
            if e["cls"] != "ok":
                return []
            lu = e["lu"]
            ex = [(lu[i][i][2] if _kind(s["sc"]) == "real" else lu[i][i][0][2]) for i in range(s["sc"]["n"])]
            return [i for i, v in enumerate(ex) if v <= -30]
        tiny = collections.Counter()
        for s in scen:
            if s["sc"]["kind"] in ("real", "complex"):
                n = s["sc"]["n"]
                for i in tiny_pos(s):
                    tiny["first" if i == 0 else "last" if i == n - 1 else "middle"] += 1
        strata = collections.Counter(stratum(s) for s in scen)
        n_rhs = sum(len(s["sc"]["bs"]) for s in scen if s["expect"]["cls"] == "ok")
        pick = [scen[(seed * 7919 + k * len(scen) // 3 + 17) % len(scen)] for k in range(3)]
        samples = [{"scenario": {k: v for k, v in p["sc"].items() if k in ("fam", "kind", "n", "A", "AI", "bs", "rs", "cs", "rows", "cols", "iplen")},
                    "model_class": p["expect"]["cls"], "exact_solutions": p["expect"]["xe"][:1],
                    "all_dyadic": p["expect"]["dec_dyadic"]} for p in pick]
        cov = {
            "states": r.distinct, "transitions": r.generated,
            "model_scenarios": init_states,
            "traces_validated_against_impl": len(scen), "trace_lines": nlines,
            "linear_systems_solved_by_impl_per_storage": n_rhs,
            "samples": samples, "drift": len(drift), "drift_samples": [vlib.parse_tla(d) for d in drift[:3]],
            "drift_kinds": dict(drift_kinds),
            "per_kind_and_size": dict(per_kind), "per_family_kind_and_size": dict(per_fam), "replay_strata": dict(strata),
            "scenarios_with_tiny_pivot_by_position": dict(tiny),
            "worst_solution_error_in_n_eps": worst,
            "contract_failures_on_impl": len(viol), "known_findings_matched": n_known,
            "exhaustive": True,
            "rule": "TLC enumerates every matrix of MC_LU (" + cfg + ") with its right-hand sides and every shape / pivot-length "
                    "case (family exh), hash-sampled power-of-two gradings of them (family graded) and seeded pseudo-random "
                    "complex 3x3 / real 4x4 matrices with gradings (family lcg); each is one behaviour of the model "
                    "(factorisation stage by stage, then the solves); selected scenarios (quick: all; thorough: all singular "
                    "+ hash-sampled others of family exh, all of the other families) are replayed on the real code on "
                    "Full and Banded storage and the recorded trace is validated by TLC against Trace_LU",
        }
        vlib.write_evidence(PROP, tier, seed, "model_checking", cov, ASSUMPTIONS, time.time() - t_start, n_new)
        return 1 if n_new else 0
    finally:
        if not keep:
            vlib.cleanup(work)

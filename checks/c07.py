"""C07 -- Dense output is accurate to the interpolant's order (RK4, RK23, DOPRI5; DOP853 partially; proof level, restricted scope).

Pipeline (model-based; the TLA+ specification decides) -- shares its machinery with checks/c02.py:
  1. checks/tableaux_gen.py writes spec/tableaux/Tableaux<M>.tla with the continuous weights
     b_j(theta) = sum_m bth_j_m theta^m as exact rationals:
       RK4     cubic Hermite on (y_n, f_n, y_{n+1}, f_{n+1}) expressed through the five evaluations k1..k4, k1'
       RK23    theta k1 + theta^2 (D2.k) + theta^3 (D3.k)
       DOPRI5  Shampine's form of `interpolate` expanded, from b and D1..D7
       DOP853  the 8 cont blocks and three extra stages expanded, from b and d_{4..7,j}
     and one operator per coefficient of theta of every continuous order condition
       sum_j b_j(theta) Phi_j(tree) = theta^rho / gamma      (all trees of order <= q; q = 3, 3, 4)
     plus b_j(0) = 0, b_j(1) = b_j.  DOP853: only the quadrature (bushy-tree) conditions of order <= 7, within 1e-24,
     and the negative fact that order 8 fails.
  2. Apalache discharges All_C07 per module and refutes a canary.
  3. Binding: the step interpolant handed to SolOut and Solution::sol of a single-step run on the impulse probe
     (probe_tableau.rs), evaluated at theta in {0, 1/8, 1/4, 1/2, 3/4, 1} (thorough: k/16 and random doubles), h = +1 and -1:
     component j IS b_j(theta) as the code computes it.
     Landing-step probe: a two-step run (first_step = max_step = 1, span 1.3) whose second step is shortened; its interpolant is evaluated at
     theta in {0, 1/4, 1/2, 1} of the ACTUAL step and must give y_1 + h_2 b_j(theta), and interpolant(x_new) must reproduce the state.
     The same probe binds the (t, y) arguments of every stage of the shortened step incl. the dense-only stages (DOP853 14-16), relative to
     the start of THAT step.  Time-dependent sanity probe: y_k' = t^k on a three-step run (0.5, 0.5, 0.3): interpolant and state must
     reproduce t^(k+1)/(k+1) for k + 1 <= q (numeric allowance 32 ulp of |xend|^(k+1)); catches stale abscissae generally.
     Sparse-output probes: low-level builders with dense_output(false) and a SolOut answering ControlFlag::XOut(x0 +- 1.15 | 0.5) on the same
     two-step run: every interpolant handed out must be the same b_j(theta) polynomial as with dense_output(true).
  4. Each extracted value is compared with the specification's polynomial evaluated exactly at theta (driver: exact rational
     distance in ulps of the evaluation scale; TLC: contract dist <= 16 on every record, spec/tableaux/Trace_Tableau.tla).
"""
import json
import os
import time
from fractions import Fraction as F

import vlib
from checks import c02 as base
from checks import tableaux_gen as tg
from checks.c02 import CAP, Facts, abs_dist, tok, untok

PROP = "C07"
BOUND = 16                   # ulps of the evaluation scale of b_j(theta) (tableaux_gen.Tab.bth); largest distance seen on the intended code: 3
ORDER_METHODS = ("RK4", "RK23", "DOPRI5")        # all tree conditions decided; DOP853: quadrature conditions only

ASSUMPTIONS = [
    "division of labour: the driver converts every extracted double EXACTLY to a rational and computes the integer distance "
    "ceil(|extracted - b_j(theta)| / ulp(scale), scale = largest monomial of b_j at theta (RK4, RK23) resp. largest weighted operand of the nested form of `interpolate` (DOPRI5, DOP853)) in exact arithmetic; TLC only evaluates dist <= 16 per record "
    "(TLC has neither 53-bit mantissas nor big integers)",
    "the continuous weights in the .tla modules are the expansion, done by checks/tableaux_gen.py, of the nested forms of the crate's "
    "`interpolate` functions; the same polynomials are evaluated exactly for the comparison, so a transcription error of the nesting "
    "shows up as a mismatch with the code (not as a false proof), while Apalache proves the order conditions for exactly these polynomials",
    "RK4: the specification is the cubic Hermite interpolant with f(x_n, y_n) as left slope and f(x_{n+1}, y_{n+1}) as right slope "
    "(what the documentation of RK4::interpolate states)",
    "impulse probing: one step is linear in the returned derivatives; x0 = 0, y0 = 0, |h| = 1, so component j of the interpolant at "
    "x0 + theta h is b_j(theta) (times sign(h))",
    "uniformity of the O(h^(q+1)) bound in theta follows from the polynomial identities (the error constant is a polynomial in theta on [0,1]); "
    "'step sizes in the asymptotic range' is inherent in the order notion and not examined",
    "DOP853: only the bushy-tree (quadrature) continuous conditions of order <= 7 are decided, within 1e-24 on decimals read as exact "
    "rationals, plus conformance of the extracted b_j(theta) to the published table; the other continuous tree conditions are not",
    "NOT decided: Radau (collocation polynomial behind a Newton iteration) and BDF ('matches the accuracy of the step') -- numeric",
]


def thetas_for(tier, seed):
    base_t = [0.0, 0.125, 0.25, 0.5, 0.75, 1.0]
    if tier != "thorough":
        return base_t
    ts = sorted(set(base_t + [k / 16 for k in range(17)]))
    x = (seed * 0x9E3779B97F4A7C15 + 0x1234567) & (2 ** 64 - 1)
    for _ in range(24):
        x = (x * 6364136223846793005 + 1442695040888963407) & (2 ** 64 - 1)
        ts.append((x >> 11) / 2 ** 53)
    ts += [2.0 ** -20, 1e-6, 1e-3, 1.0 - 2.0 ** -30, 0.999]        # near the step ends
    return ts


def _thname(th):
    q = F(th)
    return str(q) if q.denominator <= 64 else repr(th)


def facts_from_dense(facts, job, rec):
    m, dn, d, via = job["method"], job["dirname"], job["dir"], job["api"]
    t = tg.tab(m)
    if rec.get("panic") or rec.get("error"):
        facts.add(m, "run", dn, via, CAP, 0, got="panic/error: %s" % (rec.get("panic") or rec.get("error")), want="a completed step")
        return
    if via == "lowlevel":
        evs = [e for e in rec.get("solout", []) if e["has_interp"]]
        if len(evs) != 1:
            facts.add(m, "interpolant", dn, via, CAP, 0, got="%d step callbacks with an interpolant" % len(evs), want=1)
            return
        dense = evs[0]["dense"]
    else:
        dense = rec["sol"]["dense"]
    # diagnosis from the extracted weights themselves: residuals of the continuous quadrature conditions
    worst = {}
    for e in dense:
        if "y" not in e:
            continue
        th = F(untok(e["theta"]))
        ys = [F(untok(v)) * d for v in e["y"]]
        for k in range(1, (t.qd or 1) + 1):
            res = abs(sum(ys[j - 1] * t.c[j] ** (k - 1) for j in range(1, t.ncalls + 1)) - th ** k / k)
            if res > worst.get(k, (F(0), None))[0]:
                worst[k] = (res, th)
    note = None
    for k in sorted(worst):
        if worst[k][0] > F(1, 10 ** 9):
            note = ("the extracted weights themselves violate the continuous quadrature condition of order %d: |sum_j b_j(theta) c_j^%d - theta^%d/%d| = %.6g "
                    "at theta = %s, i.e. the interpolant as coded is only of order %d inside the step"
                    % (k, k - 1, k, k, float(worst[k][0]), worst[k][1], k - 1))
            break
    for e in dense:
        thf = untok(e["theta"])
        th = F(thf)
        if "y" not in e:
            facts.add(m, "sol@%s" % _thname(thf), dn, via, CAP, 0, got=e.get("error") or e.get("panic"), want="a value")
            continue
        ys = [untok(v) for v in e["y"]]
        for j in range(1, t.ncalls + 1):
            exact, scale = t.bth(j, th)
            facts.add(m, "bth_%d@%s" % (j, _thname(thf)), dn, via, abs_dist(ys[j - 1], d * exact, scale), BOUND,
                      got=ys[j - 1], want="%s = %.17g" % (d * exact, float(d * exact)), note=note)


LAND_THETAS = [0.0, 0.25, 0.5, 1.0]
LAND_NAMES = ["0", "1/4", "1/2", "1"]


def facts_from_landing_dense(facts, job, rec):
    """The interpolant of the SECOND, shortened step of a two-step run (callback interpolant / Solution::sol), evaluated at points
    placed on the ACTUAL step [x_1, x_2]: component comp(j) must be y_1 + h_2 b_j(theta), every other component stays y_1, and the
    value at x_2 must reproduce the state."""
    m, dn, dense = job["method"], job["dirname"], job["dense"]
    via = "land" if job["api"] == "lowlevel" else "land/solve_ivp"
    g = base.landing_geometry(job, rec)
    if isinstance(g, str):
        facts.add(m, "land_run", dn, via, CAP, 0, got=g, want="two completed steps")
        return
    if job["api"] == "lowlevel":
        evs = [e for e in rec["solout"] if untok(e["x"]) != 0.0]
        if not evs[1]["has_interp"]:
            facts.add(m, "land_interpolant", dn, via, CAP, 0, got="no interpolant for the second step", want="an interpolant")
            return
        dense_pts, ih = evs[1]["dense"], evs[1].get("interp_h")
    else:
        dense_pts, ih = rec["sol"]["dense"], None
    step2_interp_facts(facts, m, dn, via, "land", dense, dense, g, dense_pts, ih)


def step2_interp_facts(facts, m, dn, via, prefix, dense1, dense2, g, dense_pts, ih):
    """dense1 / dense2: whether step 1 / step 2 computed the dense-only stages (DOP853 14-16)."""
    t = tg.tab(m)
    x1, y1, x2, y2 = g
    h2 = F(x2) - F(x1)
    extra = " [the interpolant was built with h = %r, the step is %r long]" % (untok(ih), float(h2)) if ih and untok(ih) != float(h2) else ""
    if len(dense_pts) != len(LAND_THETAS):
        facts.add(m, prefix + "_points", dn, via, CAP, 0, got="%d evaluation points" % len(dense_pts), want=len(LAND_THETAS))
        return
    stage_of = {base.comp(m, dense1, j): j for j in range(1, base.last_stage(m, dense2) + 1)}
    for e, name in zip(dense_pts, LAND_NAMES):
        xi = untok(e["xi"])
        if "y" not in e:
            facts.add(m, "%s_sol@%s" % (prefix, name), dn, via, CAP, 0, got=e.get("error") or e.get("panic"), want="a value at x=%r" % xi)
            continue
        th = (F(xi) - F(x1)) / h2
        ys = [untok(v) for v in e["y"]]
        carry = 0
        for q in range(1, len(ys) + 1):
            j = stage_of.get(q)
            if j is None:
                carry = max(carry, abs_dist(ys[q - 1], F(y1[q - 1]), abs(F(y1[q - 1]))))
                continue
            exact, scale = t.bth(j, th)
            want = F(y1[q - 1]) + h2 * exact
            facts.add(m, "%s_bth_%d@%s" % (prefix, j, name), dn, via, abs_dist(ys[q - 1], want, max(abs(F(y1[q - 1])), abs(h2) * scale)), BOUND,
                      got=ys[q - 1], want="y_1 + h_2 b_%d(%s) = %.17g" % (j, name, float(want)), note=("at x = %r of the step [%r, %r]" % (xi, x1, x2)) + extra)
        facts.add(m, "%s_carry@%s" % (prefix, name), dn, via, carry, BOUND, got="a component that no stage of step 2 feeds moved by %s ulp" % carry,
                  want="components of step 1 keep the value y_1", note=extra or None)
        if xi == x2:
            end = max(abs_dist(ys[q - 1], F(y2[q - 1]), abs(F(y2[q - 1]))) for q in range(1, len(ys) + 1))
            facts.add(m, prefix + "_end", dn, via, end, BOUND, got="interpolant(x_2) differs from the state by %s ulp" % (">= 2e9" if end >= CAP else end),
                      want="interpolant(x_new) reproduces the state", note=extra or None)


# ---- sparse output: low-level builder with dense_output(false), output points scheduled through ControlFlag::XOut
SPARSE_XOUTS = (1.15, 0.5)        # inside the second resp. the first step of the two-step (1, 0.3) run


def sparse_jobs(methods):
    jobs = []
    for m in methods:
        for dn, d in base.DIRS:
            for xo in SPARSE_XOUTS:
                # room for the dense-only stages in both steps (DOP853 computes them on the steps for which it hands out an interpolant)
                jobs.append({"id": f"sparse/{m}/{dn}/{xo}", "kind": "sparse", "api": "lowlevel", "method": m, "dir": d, "dirname": dn,
                             "dim": 1 + 2 * base.n_step(m, True), "resp": "unit", "atol": [tok(1e300)], "rtol": tok(0.0),
                             "span": tok(base.LAND_SPAN), "max_step": tok(1.0), "dense": False, "xout": tok(d * xo), "xo": xo,
                             "thetas": [tok(x) for x in LAND_THETAS]})
    return jobs


def facts_from_sparse(facts, job, rec):
    """Every interpolant the solver hands out in sparse mode (dense_output(false) + XOut) must be the SAME polynomial as with
    dense_output(true): b_j(theta) of the tableau on the step it belongs to.  Returns the number of interpolants seen."""
    m, dn, d = job["method"], job["dirname"], job["dir"]
    via = "sparse/xout=%s" % job["xo"]
    t = tg.tab(m)
    g = base.landing_geometry(job, rec)
    if isinstance(g, str):
        facts.add(m, "sparse_run", dn, via, CAP, 0, got=g, want="two completed steps")
        return 0
    x1, y1, x2, y2 = g
    evs = [e for e in rec["solout"] if untok(e["x"]) != 0.0]
    d1, d2 = evs[0]["has_interp"], evs[1]["has_interp"]
    n = 0
    if d1:
        n += 1
        pts = evs[0]["dense"]
        for e, name in zip(pts, LAND_NAMES):
            th = F(untok(e["xi"])) / F(x1)
            ys = [untok(v) for v in e["y"]]
            for q in range(1, len(ys) + 1):
                if q <= base.last_stage(m, True):
                    exact, scale = t.bth(q, th)
                else:
                    exact, scale = F(0), F(0)
                if q > base.last_stage(m, True) and ys[q - 1] == 0:
                    continue
                facts.add(m, "sparse1_bth_%d@%s" % (q, name), dn, via, abs_dist(ys[q - 1], F(x1) * exact, abs(F(x1)) * scale), BOUND,
                          got=ys[q - 1], want="h_1 b_%d(%s) = %.17g" % (q, name, float(F(x1) * exact)),
                          note="interpolant of step 1 handed out with dense_output(false) after XOut(%r)" % (d * job["xo"]))
    if d2:
        n += 1
        step2_interp_facts(facts, m, dn, via, "sparse2", d1, True, g, evs[1]["dense"], evs[1].get("interp_h"))
    return n


# ---- time-dependent sanity probe: y_k' = t^k on a three-step run (steps 0.5, 0.5, 0.3)
POLY_H0, POLY_BOUND = 0.5, 32


def poly_jobs(methods):
    jobs = []
    for m in methods:
        qd = tg.tab(m).qd
        for dn, d in base.DIRS:
            xs = [0.0, d * 0.5, d * 1.0, d * base.LAND_SPAN]
            xis = [xa + th * (xb - xa) for xa, xb in zip(xs, xs[1:]) for th in LAND_THETAS]
            for api in ("lowlevel", "solve_ivp"):
                jobs.append({"id": f"poly/{m}/{api}/{dn}", "kind": "poly", "api": api, "method": m, "dir": d, "dirname": dn, "dim": qd,
                             "resp": "poly", "atol": [tok(1e300)], "rtol": tok(0.0), "span": tok(base.LAND_SPAN), "h0": tok(POLY_H0),
                             "max_step": tok(POLY_H0), "dense": True,
                             "thetas": [tok(x) for x in LAND_THETAS] if api == "lowlevel" else [],
                             "xis": [tok(x) for x in xis] if api == "solve_ivp" else []})
    return jobs


def facts_from_poly(facts, job, rec):
    """y_k' = t^k, y(0) = 0: a dense output of order q reproduces t^(k+1)/(k+1) exactly (up to rounding) for k + 1 <= q, in every step of a
    multi-step run -- every abscissa the solver hands to f (stage times, dense-stage times, k1 of the next step) enters."""
    m, dn, via = job["method"], job["dirname"], "poly" if job["api"] == "lowlevel" else "poly/solve_ivp"
    if rec.get("panic") or rec.get("error"):
        facts.add(m, "poly_run", dn, via, CAP, 0, got="panic/error: %s" % (rec.get("panic") or rec.get("error")), want="a completed run")
        return
    if job["api"] == "lowlevel":
        evs = [e for e in rec["solout"] if e["has_interp"]]
        facts.add(m, "poly_steps", dn, via, abs(len(evs) - 3), 0, got="%d steps with an interpolant" % len(evs), want=3)
        pts = [(s + 1, p) for s, e in enumerate(evs) for p in e["dense"]]
        pts += [(s + 1, {"xi": e["x"], "y": e["y"], "state": True}) for s, e in enumerate(evs)]
    else:
        dense = rec["sol"]["dense"]
        pts = [(k // len(LAND_THETAS) + 1, p) for k, p in enumerate(dense)]
    xend = F(job["dir"] * base.LAND_SPAN)
    for k in range(job["dim"]):
        worst, where = 0, None
        for step, p in pts:
            xi = untok(p["xi"])
            if "y" not in p:
                worst, where = CAP, "x=%r: %s" % (xi, p.get("error") or p.get("panic"))
                break
            want = F(xi) ** (k + 1) / (k + 1)
            dd = abs_dist(untok(p["y"][k]), want, abs(xend) ** (k + 1))
            if dd > worst:
                worst, where = dd, "%s x=%r (step %d): got %r, exact %.17g" % ("state at" if p.get("state") else "interpolant at", xi, step,
                                                                               untok(p["y"][k]), float(want))
        facts.add(m, "poly_t%d" % k, dn, via, worst, POLY_BOUND, got=where, want="y' = t^%d is reproduced exactly: y = t^%d/%d" % (k, k + 1, k + 1))


def run(tier, seed, replay=None, keep=False):
    t0 = time.time()
    work = vlib.workdir("c07-%d" % os.getpid())
    try:
        if replay and json.load(open(replay)).get("scenario", {}).get("kind") == "solver":
            from checks import solver_common as scx
            return scx.replay(PROP, json.load(open(replay)), tier, seed, work)
        methods = base.methods_for(replay)
        base.use_private_tmp(work)
        gen = tg.generate(methods=tg.METHODS)
        items, canaries = [], []
        for m in methods:
            names = tg.count_obligations(gen[m].path, PROP)
            items.append((m, gen[m].path, ["All_" + PROP], names))
        can_methods = methods if tier == "thorough" else ([m for m in methods if m == "DOPRI5"] or methods[:1])
        for m in can_methods:
            canaries += [(gen[m].path, n) for n, p in gen[m].canaries if p == PROP]
        ap = base.run_apalache(items, canaries)
        vlib.log(f"[C07] Apalache: {ap['discharged']}/{ap['obligations']} obligations discharged, "
                 f"{ap['canaries_refuted']}/{ap['canaries']} false identities refuted ({time.time()-t0:.1f}s)")
        # the harness is (re)built against the working tree by vlib.run_bin -> ensure_harness() inside run_probe
        thetas = thetas_for(tier, seed)
        if replay:
            coef = str(json.load(open(replay)).get("scenario", {}).get("coef", ""))
            if "@" in coef:
                th = coef.split("@")[1]
                th = float(F(th)) if "/" in th else float(th)
                if th not in thetas:
                    thetas.append(th)
        jobs = (base.unit_jobs(methods, thetas) + base.landing_jobs(methods, LAND_THETAS, apis=("lowlevel", "solve_ivp")) + poly_jobs(methods)
                + sparse_jobs(methods))
        recs = base.run_probe(jobs, work, "c07")
        facts = Facts(PROP)
        sparse_seen = {}
        for j in jobs:
            if j["kind"] == "land":
                # stage abscissae and weights of the shortened step incl. the dense-only stages (DOP853 14-16), then its interpolant
                base.facts_from_landing_run(facts, j, recs[j["id"]])
                facts_from_landing_dense(facts, j, recs[j["id"]])
                continue
            if j["kind"] == "poly":
                facts_from_poly(facts, j, recs[j["id"]])
                continue
            if j["kind"] == "sparse":
                key = (j["method"], j["dirname"])
                sparse_seen[key] = sparse_seen.get(key, 0) + facts_from_sparse(facts, j, recs[j["id"]])
                continue
            # the continuous order conditions are about (c, A, b(theta)) jointly: bind c_i, a_ij, b_j too (same records as C02)
            base.facts_from_unit_run(facts, j, recs[j["id"]])
            facts_from_dense(facts, j, recs[j["id"]])
        for (m, dn), cnt in sorted(sparse_seen.items()):
            # which step gets the interpolant is the callback protocol's business (C19); here: the mode was exercised at all
            facts.add(m, "sparse_interpolants", dn, "sparse", 0 if cnt else CAP, 0, got="%d interpolants handed out over the XOut schedules %s" % (cnt, SPARSE_XOUTS),
                      want="at least one interpolant in sparse-output mode")
        drift = []
        nsrc = 0
        for m in methods:
            nsrc += len(base.facts_from_source(facts, m, drift, want=lambda coef: coef.startswith("d_")))
        r, bad = base.tlc_validate(facts, work, PROP)
        viols = []
        for method, coef, dn, via, dist, bound, info in bad:
            sig = f"{PROP}/{method}/{coef.split('@')[0]}/{dn}"
            detail = (f"{method} {coef} ({dn}, via {via}): extracted {info.get('got')!r}, specification {info.get('want')}; "
                      f"distance {'>= 2e9' if dist >= CAP else dist} ulp > allowance {bound}")
            if info.get("const"):
                detail += f" [const {info['const']} in src/methods/{method.lower()}.rs]"
            if info.get("note"):
                detail += " -- " + info["note"]
            viols.append(vlib.Violation(PROP, sig, detail, {"method": method, "coef": coef, "dir": dn, "via": via, "dist": dist, "bound": bound,
                                                             "got": repr(info.get("got")), "want": str(info.get("want"))}))
        # restart probes on recorded low-level runs (Trace_Stepper clause C07/restart): the interpolant handed out for a step
        # equals the one a freshly built solver constructs for that step - on every step of runs with rejections and of
        # runs longer than 1000 steps (history-dependent buffers)
        restart_cov = {}
        if not replay:
            from checks import solver_common as scx
            sviol, scov, _a = scx.run_for(PROP, tier, seed, work)
            viols += sviol
            restart_cov = {"runs": scov.get("runs"), "trace_lines": scov.get("trace_lines"), "per_family": scov.get("per_family")}
        n_new, n_known = vlib.report(PROP, viols)
        nontriv = {(row["method"], row["coef"]) for row, info in zip(facts.rows, facts.info)
                   if row["via"] != "source" and not str(info.get("want", "0")).startswith("0 =")}
        ob_samples = []
        for m in methods:
            obs = [o for o in gen[m].obs if o["prop"] == PROP]
            if obs:
                ob_samples.append({"obligation": obs[-1]["name"], "module": obs[-1]["module"], "kind": obs[-1]["kind"], "states": obs[-1]["desc"]})
        pick = [k for k, row in enumerate(facts.rows) if row["coef"] in ("bth_1@1/2", "bth_3@1/4")][:6]
        fact_samples = [dict(facts.rows[k], got=repr(facts.info[k].get("got")), want=str(facts.info[k].get("want"))) for k in pick]
        cov = {
            "obligations": ap["obligations"], "discharged": ap["discharged"],
            "checker_cmd": "apalache-mc check --length=0 --inv=All_C07 spec/tableaux/Tableaux{%s}.tla  (+ --inv=Canary_C07_<M>, expected to be refuted)" % ",".join(methods),
            "trusted_base": base.TRUSTED,
            "apalache_runs": ap["runs"], "false_identities_refuted": ap["canaries_refuted"],
            "obligations_by_method": {r_["method"]: r_["conjuncts"] for r_ in ap["runs"] if "method" in r_},
            "all_tree_conditions_for": [m for m in methods if m in ORDER_METHODS],
            "quadrature_conditions_only_for": [m for m in methods if m not in ORDER_METHODS],
            "evaluations": len(facts.rows), "distinct_nontrivial": len(nontriv),
            "rule": "one record per (method, stage j, theta, direction, route): the j-th component of the step interpolant (route lowlevel: the "
                    "StepInterpolant handed to SolOut; route solve_ivp: Solution::sol) of a single impulse-probe step at x0 + theta h, compared with the "
                    "specification's b_j(theta); plus the dense-output constants of the sources (route source); non-trivial = b_j(theta) # 0; "
                    "distinct = distinct (method, j, theta)",
            "samples": ob_samples + fact_samples,
            "thetas": [_thname(x) for x in thetas],
            "states": r.distinct, "transitions": r.generated, "traces_validated_against_impl": len(jobs),
            "probe_runs": len(jobs), "source_constants_compared": nsrc,
            "non_conforming_records": len(bad), "drift": len(drift), "methods": methods, "exhaustive": True,
            "restart_probes": restart_cov,
        }
        vlib.write_evidence(PROP, tier, seed, "proof", cov, ASSUMPTIONS, time.time() - t0, n_new)
        vlib.log(f"[C07] {len(facts.rows)} records ({len(jobs)} probe runs, {len(thetas)} theta points, {nsrc} source constants), "
                 f"{len(bad)} non-conforming, known={n_known}")
        return 1 if n_new else 0
    finally:
        if not keep:
            vlib.cleanup(work)

"""Bounded TLC models of the specification that belong to a property (Level B => contract on the model),
and the handler-replay families whose contract clauses belong to it."""
import os

import vlib
from checks import handler_common as hc

STEPPER = os.path.join(vlib.SPEC, "stepper")

# property -> list of (module, quick cfg, thorough cfg, kind)   kind: "safety" | "liveness"
MODELS = {
    "C03": [("MC_Stepper", "MC_Stepper_q.cfg", "MC_Stepper_t.cfg", "safety"), ("FrontEnd", "FrontEnd.cfg", "FrontEnd.cfg", "safety"),
            ("MC_Radau", "MC_Radau_q.cfg", "MC_Radau_t.cfg", "safety"), ("MC_Bdf", "MC_Bdf_q.cfg", "MC_Bdf_t.cfg", "safety"),
            ("MC_Dopri", "MC_Dopri_q.cfg", "MC_Dopri_t.cfg", "safety"), ("MC_Dopri", "MC_Rk23_q.cfg", "MC_Rk23_q.cfg", "safety"), ("MC_Dopri", "MC_Rk4_q.cfg", "MC_Rk4_q.cfg", "safety")],
    "C06": [("FrontEnd", "FrontEnd.cfg", "FrontEnd.cfg", "safety")],
    "C04": [("MC_Stepper", "MC_StepperLive_q.cfg", "MC_StepperLive_t.cfg", "liveness"),
            ("MC_Radau", "MC_RadauLive.cfg", "MC_RadauLive.cfg", "liveness"), ("MC_Bdf", "MC_BdfLive.cfg", "MC_BdfLive.cfg", "liveness"),
            ("MC_Dopri", "MC_DopriLive.cfg", "MC_DopriLive.cfg", "liveness"), ("MC_Dopri", "MC_Rk23Live.cfg", "MC_Rk23Live.cfg", "liveness"),
            ("MC_Dopri", "MC_Rk4Live.cfg", "MC_Rk4Live.cfg", "liveness")],
    "C11": [("MC_Stepper", "MC_Stepper_q.cfg", "MC_Stepper_t.cfg", "safety"), ("FrontEnd", "FrontEnd.cfg", "FrontEnd.cfg", "safety"), ("MC_Dopri", "MC_Dopri_q.cfg", "MC_Dopri_t.cfg", "safety"), ("MC_Dopri", "MC_Rk23_q.cfg", "MC_Rk23_q.cfg", "safety"), ("MC_Dopri", "MC_Rk4_q.cfg", "MC_Rk4_q.cfg", "safety")],
    "C18": [("MC_Stepper", "MC_Stepper_q.cfg", "MC_Stepper_t.cfg", "safety"), ("FrontEnd", "FrontEnd.cfg", "FrontEnd.cfg", "safety"), ("MC_Dopri", "MC_Dopri_q.cfg", "MC_Dopri_t.cfg", "safety"), ("MC_Dopri", "MC_Rk23_q.cfg", "MC_Rk23_q.cfg", "safety"), ("MC_Dopri", "MC_Rk4_q.cfg", "MC_Rk4_q.cfg", "safety")],
    "C19": [("MC_Stepper", "MC_Stepper_q.cfg", "MC_Stepper_t.cfg", "safety"), ("MC_Radau", "MC_Radau_q.cfg", "MC_Radau_t.cfg", "safety"),
            ("MC_Bdf", "MC_Bdf_q.cfg", "MC_Bdf_t.cfg", "safety")],
    "C12": [("MC_Observer", "MC_Observer.cfg", "MC_Observer.cfg", "safety")],
    "C13": [("MC_Tolerance", "MC_Tolerance.cfg", "MC_Tolerance.cfg", "safety")],
    "C15": [("MC_MassRead", "MC_MassRead.cfg", "MC_MassRead.cfg", "safety")],
}

# property -> handler replay families whose Level-A clauses belong to it
HANDLER_FAMILIES = {
    "C03": ["fstep"],
    "C06": ["teval"],
    "C11": ["fstep"],
    "C18": ["events"],
}


def run_models(prop, tier, work):
    out = {"states": 0, "transitions": 0, "models": [], "assumptions": []}
    for (module, qcfg, tcfg, kind) in MODELS.get(prop, []):
        cfg = qcfg if tier == "quick" else tcfg
        if not os.path.exists(os.path.join(STEPPER, module + ".tla")) or not os.path.exists(os.path.join(STEPPER, cfg)):
            continue
        r = vlib.tlc(module, cfg, cwd=STEPPER, workers=8, timeout=3000, xmx="8g", deadlock=False)
        if not r.ok:
            vlib.log(r.out[-3000:])
            raise vlib.ToolError(f"{module}/{cfg}: the bounded model does not satisfy the property or TLC failed "
                                 f"(invariant={r.invariant}, error={r.error}) - this is a defect of the specification")
        out["states"] += r.distinct
        out["transitions"] += r.generated
        out["models"].append({"module": module, "cfg": cfg, "kind": kind, "distinct_states": r.distinct,
                              "states_generated": r.generated, "depth": r.depth, "wall_s": round(r.wall, 1)})
    return out


def handler_part(prop, tier, work):
    fams = HANDLER_FAMILIES.get(prop, [])
    if not fams:
        return [], {}
    res = hc.run_families(fams, tier, work)
    cov = {"states": res.states, "transitions": res.transitions, "runs": res.runs, "scenarios": res.scenarios,
           "per_family": res.per_family, "drift": res.drift, "samples": res.samples[:2]}
    return hc.to_violations(res, prop), cov

"""C20 -- The Python binding returns the Rust solution in SciPy layout.

Pipeline (model-based, TLA+ decides):
  1. TLC explores spec/python/MC_PyLayer exhaustively: the binding's index / option logic as coded (Level B:
     transposition, y_events flattening, sol(t) layout, status map, option-parsing table, the parse_events loop over lists
     of 2 and 3 event functions each with / without its own terminal / direction attributes, the Jacobian source for every
     combination of jac {absent, callable, constant C / F array} with jac_sparsity {absent, 9 containers}, greedy column grouping and
     grouped finite differences) is checked against the Level-A contract of C20 for every input of the bounded model
     (all shapes n, m <= 4; all 400 + 8 000 attribute lists; all 0/1 sparsity patterns n <= 3 plus a seed-selected 1/64 of
     n = 4 in quick, all 65 536 in thorough).  One REPLAY record per input.  A violated invariant here is a model problem (tool error), not a verdict.
  2. harness/src/bin/py_ref.rs turns the REPLAY records (shapes, patterns with the model's grouping, option table
     with the parse result the specification expects) into a seed-driven case table, runs the Rust API on every case
     and dumps every Solution field as bit tokens.
  3. the extension module is built from the repository under test (cargo build --features python, cached in
     harness/target/pyext) and harness/py/c20_driver.py runs ivp.solve_ivp on the same cases through Python callables
     with bit-identical arithmetic (+, -, * only), dumping every OdeResult field with shapes.
  4. TLC validates the merged pairs against spec/python/Trace_Py: Level-A clauses evaluated on what the real code
     returned give VIOL lines (-> VIOLATION), Level-B mismatches that keep the contract give DRIFT lines.
"""
import collections
import json
import os
import shutil
import subprocess
import time

import vlib

PROP = "C20"
SPEC_DIR = os.path.join(vlib.SPEC, "python")
PY = "/opt/veriftools/pyvenv/bin/python"
PY_RUN = shutil.which("python3-vt") or PY
DRIVER = os.path.join(vlib.HARNESS, "py", "c20_driver.py")
CHUNK = 4000           # merged records per trace-validation TLC run

ASSUMPTIONS = [
    "CPython float / numpy float64 and Rust f64 give bit-identical results for +, -, * on the same operands in the same order; the "
    "right-hand sides, Jacobians and event functions of the five problem families (decay, sho, affine, vdp, lin) are written with "
    "exactly these operations in the same association order in harness/src/bin/py_ref.rs and harness/py/c20_driver.py",
    "the extension module is the dev-profile build of the repository under test (cargo build --features python --offline); the Rust "
    "reference is the harness build (release, opt-level 2, debug assertions on): Rust floating point does not depend on the optimisation level",
    "the Rust reference run is configured from the parse result the TLA+ option table (PyLayer) expects, the Python run from the raw "
    "option form; undocumented forms (doc = FALSE: unknown method names, int-valued terminal, fractional direction) are Level-B only (drift)",
    "sparsity: the declared pattern equals the true pattern of the linear test problem f(y) = A y (integer A derived from the pattern); "
    "the perturbation groups of the first finite-difference Jacobian are decoded from the arguments of the user's function (a call at t0 "
    "whose argument equals y0 except where it equals y0[c] + 2^-26*max(|y0[c]|,1) bit for bit) -- this decoding is part of the trusted base",
    "jac_sparsity containers: duck-typed CSC / CSR-with-tocsc / COO-with-tocsc objects and, when scipy.sparse is importable in python3-vt, real "
    "csc/csr/coo/lil matrices (otherwise the duck-typed object with the same protocol is used; evidence sparsity_containers_used says which)",
    "for m = 0 (t_eval = []) and k = 0 (sol([])) the contract demands the literal (n, 0) shapes (StrictEmpty = TRUE); the code returns "
    "(0, 0) resp. (0,): known findings C20/yshape/.*/shape-m0 and C20/solshape/.*/k0 (exercised by the 4 shape-m0 cases only)",
    "sol(t) is compared with Solution::sol only where the Rust API answers (inside the covered span); outside it only 'does not raise, shape (n,)'",
    "event lists: the Rust reference gives every event its own EventConfig built from the parse result PyLayer's EvListContract demands "
    "for that function's own attributes (absent = non-terminal, both directions); quick replays every pair and a seed-selected 1/4 of the "
    "triples, thorough all of them; lists containing terminal = 1 or direction = 2 (outside the docstring) are Level-B only (drift); the "
    "threshold event functions are crossed in both directions in every case (measured: r.census, clause Adequate of Trace_Py)",
    "Jacobian sources: the Rust reference uses the source PyLayer's JacSourceContract names for the combination (user Jacobian when jac is "
    "given -- whatever pattern is passed next to it, also a deliberately narrower diagonal-only one; else the default finite differences); "
    "a dense 0/1 ndarray as jac_sparsity is not accepted by the binding (AttributeError, see notes) and is not part of the combinations",
    "sol at step ends: in every dense case sol is also evaluated at every reported time res.t[k] (the accepted step ends when there is no "
    "t_eval; scalar calls and one ndarray call) and compared token for token with Solution::sol(t_k) of the Rust run (where it answers)",
    "jac return containers: problem 'switch' (two Jacobian entries +-150 while y[2] > 0.5, exactly 0.0 afterwards; the comparison y[2] > 0.5 "
    "is the only operation besides +, -, *) with the callable jac returning scipy csc / csr / coo matrices built from the dense matrix (zeros "
    "not stored; also csc with eliminate_zeros()) or duck-typed containers (tocoo + toarray, toarray only); Trace_Py demands that at least two "
    "different stored patterns were returned during the run (measured by the driver)",
    "TLC and the CommunityModules Json/IOUtils modules are trusted; scipy is not used",
]


NOTES = [
    "Level B (PyLayer) models the following departures of the binding from SciPy's option semantics as coded; they are replayed "
    "as doc = FALSE cases (drift only) or were established by direct probes while building the check, and are NOT violations of C20's clauses:",
    "event.terminal = 1 / 2 (SciPy >= 1.13: terminate after k occurrences) is ignored: extract::<bool>() fails on ints, the run does not stop",
    "event.direction = 0.5 / -0.5 is truncated by `d as i32` to 0 = both directions (SciPy uses the sign)",
    "unknown method names ('LSODA', 'foo', ''), and a non-string method silently select DOPRI5 (Method::from default arm); names are case-insensitive",
    "jac_sparsity as array_like (ndarray, list of lists -- promised by the docstring) raises AttributeError: only CSC-like objects "
    "(shape / indices / indptr, or anything with .tocsc()) are accepted; jac as a list of lists panics (ndarray works)",
    "y0 / t_eval given as tuples raise ValueError (lists and ndarrays work)",
    "a tolerance vector whose length differs from n panics inside the core (both APIs); a negative rtol is an Err / RuntimeError (both APIs)",
]


def printed_values(out, tag):
    """All values printed by PrintT(<<"tag", ...>>) in a TLC output, with the line breaks of TLC's pretty printer removed."""
    vals, cur, depth = [], None, 0
    for line in out.splitlines():
        if cur is None:
            st = line.lstrip()
            if not (line.startswith("<<") and st[2:].lstrip().startswith('"%s"' % tag)):
                continue
            cur, depth = [], 0
        cur.append(line.strip())
        instr, k = False, 0
        while k < len(line):
            c = line[k]
            if instr:
                if c == "\\":
                    k += 1
                elif c == '"':
                    instr = False
            elif c == '"':
                instr = True
            elif line.startswith("<<", k):
                depth += 1
                k += 1
            elif line.startswith(">>", k):
                depth -= 1
                k += 1
            k += 1
        if depth <= 0:
            vals.append(" ".join(cur))
            cur = None
    return vals


def _replay_payload(line):
    try:
        a = line.index(', "') + 2
        b = line.rindex('">>') + 1
        return json.loads(json.loads(line[a:b]))
    except Exception:
        return json.loads(vlib.parse_tla(line)[1])


# ------------------------------------------------------------------------------------------------ extension build
def build_extension(work):
    """Build the cdylib with the python feature from the repository under test; returns the directory holding ivp.abi3.so."""
    repo = vlib.repo_dir()
    if vlib.repo_override():
        target = os.path.join(vlib.repo_override(), "target-verif-py")
    else:
        target = os.path.join(vlib.HARNESS, "target", "pyext")     # harness/target/ is git-ignored; one cached build
    os.makedirs(target, exist_ok=True)
    env = dict(os.environ)
    env["PYO3_PYTHON"] = PY
    env["CARGO_NET_OFFLINE"] = "true"
    env.pop("RUSTFLAGS", None)
    cmd = ["cargo", "build", "--features", "python", "--offline", "--lib",
           "--manifest-path", os.path.join(repo, "Cargo.toml"), "--target-dir", target]
    t0 = time.time()
    p = subprocess.run(cmd, cwd=target, env=env, stdout=subprocess.PIPE, stderr=subprocess.STDOUT, text=True)
    if p.returncode != 0:
        vlib.log(p.stdout[-4000:])
        raise vlib.ToolError("building the Python extension module failed (cargo build --features python)")
    so = os.path.join(target, "debug", "libivp.so")
    if not os.path.exists(so):
        raise vlib.ToolError("extension build produced no libivp.so")
    moddir = os.path.join(work, "mod")
    os.makedirs(moddir, exist_ok=True)
    shutil.copy2(so, os.path.join(moddir, "ivp.abi3.so"))
    vlib.log(f"[C20] extension module built from {repo} in {time.time() - t0:.1f}s")
    return moddir


# ------------------------------------------------------------------------------------------------ running both sides
def _case_meta(c):
    return {"kind": c["kind"], "class": c["class"], "method": c["method"], "method_form": c["method_form"], "rmethod": c["rmethod"],
            "problem": c["problem"], "n": c["n"], "jac": c["jac"], "has_sparsity": c["has_sparsity"],
            "pat": {"n": c["pat"]["n"], "rows": c["pat"]["rows"], "groups": c["pat"]["groups"], "ngroups": c["pat"]["ngroups"]},
            "dense": c["dense"], "probes": c["probes"], "probes_out": c["probes_out"], "nevents": len(c["events"]),
            "use_args": c["use_args"], "params": c["params"], "doc": c["doc"], "probe_empty": c.get("probe_empty", False),
            "probe_steps": c.get("probe_steps", False), "want_pattern_change": c.get("want_pattern_change", False),
            "has_t_eval": c["has_t_eval"]}


def run_both(work, moddir, cases, tag):
    cfile = os.path.join(work, f"cases-{tag}.json")
    with open(cfile, "w") as f:
        json.dump(cases, f)
    rfile = os.path.join(work, f"rust-{tag}.ndjson")
    t0 = time.time()
    rc, _, err = vlib.run_bin("py_ref", ["--run", cfile], stdout_path=rfile, timeout=1800)
    if rc != 0:
        raise vlib.ToolError(f"py_ref --run failed (rc={rc}): {err[-2000:]}")
    t_rust = time.time() - t0
    pfile = os.path.join(work, f"py-{tag}.ndjson")
    env = dict(os.environ)
    env["RUST_BACKTRACE"] = "0"
    t0 = time.time()
    p = subprocess.run([PY_RUN, DRIVER, moddir, cfile, pfile], env=env, stdout=subprocess.PIPE, stderr=subprocess.PIPE, text=True,
                       timeout=3000)
    if p.returncode != 0:
        vlib.log(p.stderr[-4000:])
        raise vlib.ToolError(f"c20_driver.py failed (rc={p.returncode}); the extension module could not be driven")
    t_py = time.time() - t0
    rr = vlib.read_ndjson(rfile)
    pp = vlib.read_ndjson(pfile)
    if len(rr) != len(cases) or len(pp) != len(cases):
        raise vlib.ToolError(f"record count mismatch: {len(cases)} cases, {len(rr)} rust, {len(pp)} python")
    merged = []
    for c, r, q in zip(cases, rr, pp):
        if r["id"] != c["id"] or q["id"] != c["id"]:
            raise vlib.ToolError("record order mismatch")
        merged.append({"id": c["id"], "c": _case_meta(c), "r": r, "p": q})
    return merged, t_rust, t_py


def validate(work, merged, tag):
    viol, drift, cover = [], [], []
    t0 = time.time()
    for k in range(0, max(len(merged), 1), CHUNK):
        ch = merged[k:k + CHUNK]
        tfile = os.path.join(work, f"trace-{tag}-{k}.ndjson")
        with open(tfile, "w") as f:
            for m in ch:
                f.write(json.dumps(m) + "\n")
        r = vlib.tlc("Trace_Py", "Trace_Py.cfg", cwd=SPEC_DIR, workers=1, deque=True, xss=True, xmx="6g",
                     env={"TRACE": tfile}, metadir=os.path.join(work, f"tlc-{tag}-{k}", "states"), timeout=3000)
        if not r.ok:
            vlib.log(r.out[-5000:])
            raise vlib.ToolError(f"trace validation did not accept the trace (chunk {k}): {r.error or r.invariant}; "
                                 f"{r.lines('UNMATCHED')[:1]}")
        if r.depth != len(ch) + 1:
            raise vlib.ToolError(f"trace chunk {k}: depth {r.depth} != lines+1 {len(ch) + 1}")
        bad = printed_values(r.out, "INADEQUATE")
        if bad:
            raise vlib.ToolError(f"inadequate scenario (event list without crossings in both directions for every event function, or a "
                                 f"sparse jac return whose stored pattern never changed): {bad[:2]}")
        viol += printed_values(r.out, "VIOL")
        drift += printed_values(r.out, "DRIFT")
        cover += printed_values(r.out, "COVER")
    return viol, drift, cover, time.time() - t0


def _signature(clause, c):
    if clause == "solshape-k0":
        return f"{PROP}/solshape/{c['rmethod']}/k0"
    return f"{PROP}/{clause}/{c['rmethod']}/{c['class']}"


def _violations(viol_lines, by_id, merged_by_id):
    out = []
    for line in viol_lines:
        v = vlib.parse_tla(line)          # ["VIOL","C20",clause,id,detail]
        clause, cid, detail = v[2], v[3], v[4]
        c = by_id[cid]
        m = merged_by_id[cid]
        brief = {k: c[k] for k in ("problem", "method", "class", "n", "t0", "tf", "jac", "use_args", "has_sparsity", "dense",
                                   "has_t_eval", "events_form", "y0_form", "ret", "jac_form", "jac_ret", "ev_ret", "tspan_form")}
        out.append(vlib.Violation(PROP, _signature(clause, c),
                                  f"clause={clause} case={json.dumps(brief, sort_keys=True)} observed={json.dumps(detail, sort_keys=True)[:1500]}",
                                  {"case": c, "rust": m["r"], "python": m["p"]}))
    return out


def run(tier, seed, replay, keep):
    t_start = time.time()
    work = vlib.workdir(f"c20-{os.getpid()}")
    try:
        if replay:
            blob = json.load(open(replay))
            cases = [blob["scenario"]["case"]]
            vlib.ensure_harness()
            moddir = build_extension(work)
            merged, _, _ = run_both(work, moddir, cases, "replay")
            viol, drift, _, _ = validate(work, merged, "replay")
            vs = _violations(viol, {c["id"]: c for c in cases}, {m["id"]: m for m in merged})
            n_new, _ = vlib.report(PROP, vs)
            vlib.log(f"[C20] replayed 1 case: {len(viol)} contract failure(s), {len(drift)} drift line(s)")
            return 1 if n_new else 0

        # 1. exhaustive model
        cfg = "MC_PyLayer.cfg" if tier == "quick" else "MC_PyLayer_thorough.cfg"
        r = vlib.tlc("MC_PyLayer", cfg, cwd=SPEC_DIR, workers=8, xmx="8g", timeout=3000, env={"C20_OFFSET": str(seed % 64)},
                     metadir=os.path.join(work, "tlc-mc", "states"))
        if not r.ok:
            vlib.log(r.out[-6000:])
            if r.invariant:
                raise vlib.ToolError(f"MODEL PROBLEM: the exhaustive Level-B model violates {r.invariant} (Level B does not imply "
                                     "the contract): fix PyLayer.tla or re-read the code -- this is not a verdict about the repository")
            raise vlib.ToolError(f"TLC failed on MC_PyLayer: {r.error}")
        scen = [_replay_payload(line) for line in r.lines("REPLAY")]
        kinds = collections.Counter(s["kind"] for s in scen)
        if not scen or not kinds.get("pattern") or not kinds.get("shape") or not kinds.get("method") or not kinds.get("evlist") or not kinds.get("jacsrc") or not kinds.get("solseg") or not kinds.get("jacret"):
            raise vlib.ToolError("MC_PyLayer produced no / incomplete REPLAY lines")
        scen.sort(key=lambda s: json.dumps(s, sort_keys=True))
        sfile = os.path.join(work, "scen.json")
        with open(sfile, "w") as f:
            json.dump(scen, f)
        vlib.log(f"[C20] model: {r.distinct} states, {r.generated} transitions, {len(scen)} scenarios {dict(kinds)} in {r.wall:.1f}s")

        # 2. harness + extension + case table
        vlib.ensure_harness()
        moddir = build_extension(work)
        cfile = os.path.join(work, "cases.json")
        rc, _, err = vlib.run_bin("py_ref", ["--emit-cases", cfile, "--scenarios", sfile, "--seed", str(seed), "--tier", tier])
        if rc != 0:
            raise vlib.ToolError(f"py_ref --emit-cases failed (rc={rc}): {err[-2000:]}")
        cases = json.load(open(cfile))
        os.remove(cfile)

        # 3. both sides, 4. trace validation
        merged, t_rust, t_py = run_both(work, moddir, cases, "all")
        viol, drift, cover, t_tlc = validate(work, merged, "all")
        n_full = sum(1 for c in cases if c["kind"] == "full")
        n_grp = len(cases) - n_full
        vlib.log(f"[C20] {len(cases)} cases ({n_full} full relational, {n_grp} grouping observations): rust {t_rust:.1f}s, "
                 f"python {t_py:.1f}s, trace validation {t_tlc:.1f}s; {len(viol)} VIOL, {len(drift)} DRIFT")
        by_id = {c["id"]: c for c in cases}
        merged_by_id = {m["id"]: m for m in merged}
        vs = _violations(viol, by_id, merged_by_id)
        n_new, n_known = vlib.report(PROP, vs)

        # evidence
        drift_kinds = collections.Counter(vlib.parse_tla(d)[2] for d in drift)
        cover_kinds = collections.Counter(vlib.parse_tla(d)[2] for d in cover)
        both_ok = sum(1 for m in merged if m["r"]["ok"] and m["p"]["ok"])
        classes = collections.Counter(c["class"] for c in cases if c["kind"] == "full")
        methods = collections.Counter(c["rmethod"] for c in cases if c["kind"] == "full")
        grp_seen = collections.Counter(len(m["p"].get("groups_seen", [])) for m in merged if m["c"]["kind"] == "grp" and m["p"]["ok"])
        shapes = sorted({tuple(m["p"]["y"]["shape"]) for m in merged if m["p"]["ok"]})
        sample_case = next((m for m in merged if m["c"]["class"] == "ev-terminal" and m["r"]["ok"]), merged[0])
        sample_grp = next((m for m in merged if m["c"]["kind"] == "grp" and m["c"]["pat"]["n"] == 3 and m["c"]["pat"]["ngroups"] == 2), None)
        samples = [{"case": {k: by_id[sample_case["id"]][k] for k in ("id", "problem", "method", "class", "events", "t0", "tf", "y0")},
                    "rust": {k: sample_case["r"].get(k) for k in ("status", "m", "t_events", "nfev", "njev", "nlu")},
                    "python": {k: sample_case["p"].get(k) for k in ("status", "success", "message", "nfev", "njev", "nlu")},
                    "python_y_shape": sample_case["p"].get("y", {}).get("shape"),
                    "python_t_events": [e["v"] for e in sample_case["p"].get("t_events", [])]}]
        if sample_grp:
            samples.append({"pattern": sample_grp["c"]["pat"]["rows"], "model_groups": sample_grp["c"]["pat"]["groups"],
                            "columns_perturbed_together_by_the_code": sample_grp["p"].get("groups_seen")})
        samples.append({"replay_scenarios": scen[:2] + [s for s in scen if s["kind"] == "method"][:2]})
        coverage = {
            "states": r.distinct, "transitions": r.generated,
            "traces_validated_against_impl": len(merged),
            "samples": samples,
            "exhaustive": tier == "thorough",
            "model_scenarios": dict(kinds),
            "cases_full_relational": n_full, "cases_grouping_observation": n_grp,
            "cases_both_sides_ok": both_ok,
            "cases_both_sides_fail": cover_kinds.get("both-fail", 0),
            "cases_by_class": dict(classes), "cases_by_method": dict(methods),
            "y_shapes_observed": len(shapes), "y_shapes_small": [f"{a}x{b}" for (a, b) in shapes if b <= 4],
            "notes": NOTES,
            "statuses_other_than_success": {k: v for k, v in cover_kinds.items()
                                            if k not in ("both-fail", "event-found", "evlist-both-directions", "jac-with-pattern", "sol-at-step-ends",
                                                         "jac-sparse-return-pattern-changed",
                                                         "pattern-changed-evaluation-count")},
            "cases_with_event_found": cover_kinds.get("event-found", 0),
            "sol_cases_probed_at_step_ends": cover_kinds.get("sol-at-step-ends", 0),
            "sol_values_compared_at_reported_times": sum(len(m["r"].get("sol_steps", [])) for m in merged if m["r"]["ok"] and m["p"]["ok"]),
            "jac_return_container_cases": dict(collections.Counter(m["p"].get("jac_container", "") or "ndarray" for m in merged
                                                                   if m["c"]["class"] == "jac-return-container")),
            "jac_return_cases_with_changing_stored_pattern": cover_kinds.get("jac-sparse-return-pattern-changed", 0),
            "jac_source_cases": {k: v for k, v in classes.items() if k.startswith("jac-source")},
            "jac_source_cases_jac_given_with_pattern": cover_kinds.get("jac-with-pattern", 0),
            "sparsity_cases_where_the_pattern_changed_the_evaluation_count": cover_kinds.get("pattern-changed-evaluation-count", 0),
            "event_list_cases": {k: v for k, v in classes.items() if k.startswith("ev-list")},
            "event_list_cases_documented_forms_only": sum(1 for c in cases if c["class"].startswith("ev-list") and c["doc"]),
            "event_list_cases_with_crossings_in_both_directions_for_every_event": cover_kinds.get("evlist-both-directions", 0),
            "event_list_cases_stopped_by_a_terminal_event": sum(1 for m in merged if m["c"]["class"].startswith("ev-list")
                                                                and m["r"]["ok"] and m["r"]["status"] == "UserInterrupt"),
            "grouping_observations_by_number_of_groups": {str(k): v for k, v in sorted(grp_seen.items())},
            "sparsity_containers_used": dict(collections.Counter(m["p"].get("sparsity_container", "") for m in merged
                                                                 if m["c"]["has_sparsity"])),
            "drift": len(drift), "drift_by_kind": dict(drift_kinds),
            "contract_failures": len(viol), "known": n_known,
            "wall_model_s": round(r.wall, 2), "wall_rust_s": round(t_rust, 2), "wall_python_s": round(t_py, 2),
            "wall_trace_tlc_s": round(t_tlc, 2),
        }
        vlib.write_evidence(PROP, tier, seed, "model_checking", coverage, ASSUMPTIONS, time.time() - t_start, n_new)
        return 1 if n_new else 0
    finally:
        if not keep:
            vlib.cleanup(work)

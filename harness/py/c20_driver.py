"""C20 — Python side of the relational check (run with python3-vt).

    python3-vt c20_driver.py <dir holding ivp.abi3.so> <cases.json> <out.ndjson>

Reads the case table written by `py_ref --emit-cases`, defines the same problems as Python callables
(the arithmetic expressions repeat harness/src/bin/py_ref.rs literally: only +, -, * in the same
association order), calls ivp.solve_ivp with the *raw* option forms of the case and dumps every
OdeResult field as 16-hex-digit tokens of the raw bits plus shapes and ints.  It only records;
every verdict is taken by TLC on spec/python/Trace_Py.tla.
"""
import json
import os
import struct
import sys

os.environ.setdefault("RUST_BACKTRACE", "0")
sys.path.insert(0, sys.argv[1])
import numpy as np  # noqa: E402
import ivp  # noqa: E402


def tok(x):
    return struct.pack('>d', float(x)).hex()


def untok(s):
    return struct.unpack('>d', bytes.fromhex(s))[0]


def toks(xs):
    return [tok(x) for x in xs]


class Csc:
    """Duck-typed CSC pattern (scipy is not needed)."""

    def __init__(self, rows, as_np=False):
        n = len(rows)
        self.shape = (n, n)
        ind, ptr = [], [0]
        for c in range(n):
            for r in range(n):
                if rows[r][c]:
                    ind.append(r)
            ptr.append(len(ind))
        if as_np:
            self.indices = np.array(ind, dtype=np.int32)
            self.indptr = np.array(ptr, dtype=np.int32)
        else:
            self.indices = ind
            self.indptr = ptr


class NeedsToCsc:
    def __init__(self, rows):
        self._rows = rows
        self.shape = (len(rows), len(rows))

    def tocsc(self):
        return Csc(self._rows)


class CsrWithToCsc:
    """CSR-like container: indices / indptr in ROW layout (as scipy's csr_matrix) plus tocsc()."""

    def __init__(self, rows):
        n = len(rows)
        self._rows = rows
        self.shape = (n, n)
        ind, ptr = [], [0]
        for r in range(n):
            for c in range(n):
                if rows[r][c]:
                    ind.append(c)
            ptr.append(len(ind))
        self.indices = ind
        self.indptr = ptr

    def tocsc(self):
        return Csc(self._rows)


class CooWithToCsc:
    def __init__(self, rows):
        n = len(rows)
        self._rows = rows
        self.shape = (n, n)
        self.row = [r for r in range(n) for c in range(n) if rows[r][c]]
        self.col = [c for r in range(n) for c in range(n) if rows[r][c]]

    def tocsc(self):
        return Csc(self._rows)


try:
    import scipy.sparse as _sp       # optional: real containers when scipy is importable
except Exception:                    # noqa: BLE001
    _sp = None


def sparsity_container(rows, form):
    """(object passed as jac_sparsity, name of the container actually used)."""
    if form == "csc":
        return Csc(rows), form
    if form == "csc_np":
        return Csc(rows, as_np=True), form
    if form == "tocsc":
        return NeedsToCsc(rows), form
    if form == "coo_tocsc":
        return CooWithToCsc(rows), form
    if form == "csr_tocsc":
        return CsrWithToCsc(rows), form
    if form.startswith("sp_"):
        if _sp is None:    # scipy missing: the duck-typed container with the same protocol
            alt = {"sp_csc": "csc", "sp_csr": "csr_tocsc", "sp_coo": "coo_tocsc", "sp_lil": "tocsc"}[form]
            return sparsity_container(rows, alt)
        A = np.array(rows, dtype=float)
        ctor = {"sp_csc": _sp.csc_matrix, "sp_csr": _sp.csr_matrix, "sp_coo": _sp.coo_matrix, "sp_lil": _sp.lil_matrix}[form]
        return ctor(A), form
    raise ValueError(form)


class DuckCoo:
    """Duck-typed COO container of a matrix: stores only the non-zero entries; offers tocoo() / toarray() as scipy's matrices do."""

    def __init__(self, A):
        A = np.asarray(A, dtype=float)
        self.shape = A.shape
        nz = [(r, c) for r in range(A.shape[0]) for c in range(A.shape[1]) if A[r, c] != 0.0]
        self.row = np.array([r for r, _ in nz], dtype=np.int64)
        self.col = np.array([c for _, c in nz], dtype=np.int64)
        self.data = np.array([A[r, c] for r, c in nz], dtype=float)

    def sum_duplicates(self):
        pass

    def tocoo(self):
        return self

    def toarray(self):
        A = np.zeros(self.shape)
        for r, c, v in zip(self.row, self.col, self.data):
            A[r, c] = v
        return A


class DuckToArray:
    """The smallest container the binding accepts: only toarray()."""

    def __init__(self, A):
        self._coo = DuckCoo(A)
        self.shape = self._coo.shape

    def toarray(self):
        return self._coo.toarray()


class Recorder:
    def __init__(self):
        self.calls = 0
        self.jcalls = 0
        self.ecalls = 0
        self.fun_args = set()
        self.ev_args = set()
        self.jac_args = set()
        self.log = None          # list of (t, [y]) when group observation is wanted
        self.y_types = set()
        self.jac_patterns = set()   # stored patterns of the matrices a callable jac returned in a sparse container
        self.jac_container = ""


def make_problem(c, rec):
    kind = c["problem"]
    n = c["n"]
    P = [untok(s) for s in c["params"]]
    A = [[float(v) for v in row] for row in c["a"]]
    NZ = [[j for j, v in enumerate(row) if v != 0] for row in c["a"]]
    use_args = c["use_args"]
    ret = c["ret"]
    jac_ret = c.get("jac_ret", "ndarray")
    ev_ret = c.get("ev_ret", "float")

    def wrap_ev(v):
        if ev_ret == "npfloat":
            return np.float64(v)
        if ev_ret == "zerod":
            return np.array(v)
        return v

    def wrap_out(vals):
        if ret == "tuple":
            return tuple(vals)
        if ret == "ndarray":
            return np.array(vals, dtype=float)
        if ret == "npfloat_list":
            return [np.float64(v) for v in vals]
        return vals

    # NOTE: every expression below mirrors Prob::rhs / Prob::jacobian in py_ref.rs literally
    def rhs_core(t, y, p):
        if kind == "decay":
            return [p[0] * y[i] for i in range(n)]
        if kind == "sho":
            return [p[0] * y[1], -p[0] * y[0]]
        if kind == "affine":
            return [p[0] * y[0] + p[1] * t]
        if kind == "vdp":
            return [y[1], p[0] * ((1.0 - y[0] * y[0]) * y[1]) - y[0]]
        if kind == "switch":
            sk = (1.0 if y[2] > 0.5 else 0.0) * p[0]
            return [(-200.0 * y[0] + sk * y[1]) + 1.0,
                    -0.5 * y[1] - sk * y[0],
                    -1.0 * y[2]]
        if kind == "lin":
            out = []
            for r in range(n):
                acc = 0.0
                for cc in NZ[r]:
                    acc = acc + A[r][cc] * y[cc]
                out.append(p[0] * acc)
            return out
        raise ValueError(kind)

    def jac_core(t, y, p):
        J = [[0.0] * n for _ in range(n)]
        if kind == "decay":
            for i in range(n):
                J[i][i] = p[0]
        elif kind == "sho":
            J[0][1] = p[0]
            J[1][0] = -p[0]
        elif kind == "affine":
            J[0][0] = p[0]
        elif kind == "vdp":
            J[0][1] = 1.0
            J[1][0] = p[0] * (-2.0 * y[0] * y[1]) - 1.0
            J[1][1] = p[0] * (1.0 - y[0] * y[0])
        elif kind == "switch":
            sk = (1.0 if y[2] > 0.5 else 0.0) * p[0]
            J[0][0] = -200.0
            J[0][1] = sk
            J[1][0] = 0.0 - sk
            J[1][1] = -0.5
            J[2][2] = -1.0
        elif kind == "lin":
            for r in range(n):
                for cc in range(n):
                    J[r][cc] = p[0] * A[r][cc]
        return J

    def note_y(y):
        rec.y_types.add(type(y).__name__ + ":" + str(getattr(y, "dtype", "")) + ":" + str(getattr(y, "shape", "")))

    if use_args:
        def fun(t, y, *args):
            rec.calls += 1
            rec.fun_args.add(tuple(tok(a) for a in args))
            note_y(y)
            yy = [float(v) for v in y]
            if rec.log is not None:
                rec.log.append((float(t), yy))
            return wrap_out(rhs_core(float(t), yy, [float(a) for a in args]))

        def jacf(t, y, *args):
            rec.jcalls += 1
            rec.jac_args.add(tuple(tok(a) for a in args))
            return deliver_jac_return(jac_core(float(t), [float(v) for v in y], [float(a) for a in args]), jac_ret, rec)
    else:
        def fun(t, y):
            rec.calls += 1
            note_y(y)
            yy = [float(v) for v in y]
            if rec.log is not None:
                rec.log.append((float(t), yy))
            return wrap_out(rhs_core(float(t), yy, P))

        def jacf(t, y):
            rec.jcalls += 1
            return deliver_jac_return(jac_core(float(t), [float(v) for v in y], P), jac_ret, rec)

    events = []
    for e in c["events"]:
        cc = untok(e["c"])
        idx = e["idx"]
        is_time = e["kind"] == "time"

        def mk(cc=cc, idx=idx, is_time=is_time):
            if use_args:
                def ev(t, y, *args):
                    rec.ecalls += 1
                    rec.ev_args.add(tuple(tok(a) for a in args))
                    return wrap_ev((float(t) - cc) if is_time else (float(y[idx]) - cc))
            else:
                def ev(t, y):
                    rec.ecalls += 1
                    return wrap_ev((float(t) - cc) if is_time else (float(y[idx]) - cc))
            return ev
        ev = mk()
        if e["terminal"] == "true":
            ev.terminal = True
        elif e["terminal"] == "false":
            ev.terminal = False
        elif e["terminal"] == "int1":
            ev.terminal = 1
        elif e["terminal"] == "int2":
            ev.terminal = 2
        d = e["direction"]
        if d == "m1":
            ev.direction = -1
        elif d == "z":
            ev.direction = 0
        elif d == "p1":
            ev.direction = 1
        elif d == "m1f":
            ev.direction = -1.0
        elif d == "p1f":
            ev.direction = 1.0
        elif d == "zf":
            ev.direction = 0.0
        elif d == "phalf":
            ev.direction = 0.5
        elif d == "mhalf":
            ev.direction = -0.5
        elif d == "p2":
            ev.direction = 2
        events.append(ev)
    return fun, jacf, jac_core, events, P


def deliver_matrix(J, form):
    """The n x n matrix J (list of lists of floats) as a numpy array in the given delivery form."""
    A = np.array(J, dtype=float)
    if form == "ndarray":
        return A
    if form == "fortran":
        return np.asfortranarray(A)
    if form == "tview":
        return np.array(A.T, order="C").T          # C buffer holding J^T, viewed transposed (F-contiguous)
    if form == "strided":
        n = A.shape[0]
        K = np.full((2 * n, 2 * n), 7.5)
        K[::2, ::2] = A
        return K[::2, ::2]                          # non-contiguous view
    if form == "intarray":
        return np.array([[int(v) for v in row] for row in J], dtype=np.int64)
    if form == "intfortran":
        return np.asfortranarray(np.array([[int(v) for v in row] for row in J], dtype=np.int64))
    if form == "int32":
        return np.array([[int(v) for v in row] for row in J], dtype=np.int32)
    raise ValueError(form)


def deliver_jac_return(J, form, rec):
    """What the callable jac returns: a numpy delivery form, or a sparse container storing only the non-zero entries of J
    (so the stored pattern follows the values of this call).  The stored patterns seen are recorded."""
    if not (form.startswith("sp_") or form.startswith("duck_")):
        return deliver_matrix(J, form)
    A = np.array(J, dtype=float)
    rec.jac_patterns.add(tuple((r, c) for r in range(A.shape[0]) for c in range(A.shape[1]) if A[r, c] != 0.0))
    if form.startswith("sp_") and _sp is None:     # scipy missing: the duck-typed container with the same protocol
        form = "duck_coo"
    rec.jac_container = form
    if form == "sp_csc":
        return _sp.csc_matrix(A)                    # built from a dense array: explicit zeros are not stored
    if form == "sp_csr":
        return _sp.csr_matrix(A)
    if form == "sp_coo":
        return _sp.coo_matrix(A)
    if form == "sp_csc_ez":                         # full pattern first, zeros removed afterwards
        M = _sp.csc_matrix((A.T.ravel(), np.tile(np.arange(A.shape[0]), A.shape[1]), np.arange(0, A.size + 1, A.shape[0])), shape=A.shape)
        M.eliminate_zeros()
        return M
    if form == "duck_coo":
        return DuckCoo(A)
    if form == "duck_toarray":
        return DuckToArray(A)
    raise ValueError(form)


def tol_value(t):
    form = t["form"]
    v = [untok(s) for s in t["v"]]
    if form == "absent":
        return None
    if form == "float":
        return v[0]
    if form == "npfloat":
        return np.float64(v[0])
    if form == "zerod":
        return np.array(v[0])
    if form == "list":
        return list(v)
    if form == "tuple":
        return tuple(v)
    if form == "ndarray":
        return np.array(v, dtype=float)
    raise ValueError(form)


def step_value(s):
    form = s["form"]
    if form == "absent":
        return False, None
    if form == "none":
        return True, None
    if form == "float":
        return True, untok(s["v"])
    if form == "int":
        return True, int(untok(s["v"]))
    if form == "inf":
        return True, np.inf
    raise ValueError(form)


def arr_record(a):
    a = np.asarray(a)
    return {"shape": [int(x) for x in a.shape], "v": _nest(a)}


def _nest(a):
    if a.ndim == 1:
        return toks(a.tolist())
    return [_nest(x) for x in a]


def decode_groups(c, rec):
    """From the logged right-hand-side calls reconstruct which components were perturbed together.

    An FD evaluation is a call at t == t0 whose argument equals y0 except in a non-empty set of
    components, each moved by a small amount (at most 1e-3 max(|y0[c]|, 1): the size of the
    perturbation is the code's business - the stepper's own stages are evaluated at other times).
    Only the first Jacobian (consecutive block) is decoded."""
    t0 = untok(c["t0"])
    y0 = [untok(s) for s in c["y0"]]
    n = c["n"]
    groups = []
    started = False
    for (t, y) in rec.log:
        is_fd = False
        if t == t0 and len(y) == n:
            cols = [i for i in range(n) if y[i] != y0[i]]
            if cols and all(abs(y[i] - y0[i]) <= 1e-3 * max(abs(y0[i]), 1.0) for i in cols):
                is_fd = True
        if is_fd:
            started = True
            groups.append([i + 1 for i in cols])     # 1-based for TLA+
        elif started:
            break
    return groups


def run_case(c):
    rec = Recorder()
    if c["kind"] == "grp":
        rec.log = []
    fun, jacf, jac_core, events, P = make_problem(c, rec)
    t0, tf = untok(c["t0"]), untok(c["tf"])
    y0v = [untok(s) for s in c["y0"]]
    yf = c["y0_form"]
    if yf == "list":
        y0 = list(y0v)
    elif yf == "ndarray":
        y0 = np.array(y0v, dtype=float)
    elif yf == "intlist":
        y0 = [int(v) for v in y0v]
    elif yf == "intarray":
        y0 = np.array([int(v) for v in y0v])
    else:
        raise ValueError(yf)
    kw = {}
    mf = c["method_form"]
    if mf == "str":
        kw["method"] = c["method"]
    elif mf == "none":
        kw["method"] = None
    elif mf == "absent":
        pass
    elif mf == "nonstr":
        kw["method"] = 5
    for name in ("rtol", "atol"):
        v = tol_value(c[name])
        if v is not None:
            kw[name] = v
    for name in ("first_step", "max_step"):
        present, v = step_value(c[name])
        if present:
            kw[name] = v
    if c["max_steps"] > 0:
        kw["max_steps"] = c["max_steps"]
    if c["has_t_eval"]:
        te = [untok(s) for s in c["t_eval"]]
        kw["t_eval"] = te if c["t_eval_form"] == "list" else np.array(te, dtype=float)
    if c["dense"]:
        kw["dense_output"] = True
    ef = c["events_form"]
    if ef == "single":
        kw["events"] = events[0]
    elif ef == "list":
        kw["events"] = list(events)
    elif ef == "tuple":
        kw["events"] = tuple(events)
    if c["use_args"]:
        kw["args"] = tuple(P)
    if c["jac"] == "callable":
        kw["jac"] = jacf
    elif c["jac"] == "const":
        J = jac_core(t0, y0v, P)
        kw["jac"] = deliver_matrix(J, c["jac_form"])
    if c["has_sparsity"]:
        rows = c["pat"]["rows"]
        kw["jac_sparsity"], sp_used = sparsity_container(rows, c["pat"]["form"])

    out = {"id": c["id"], "side": "py", "n": c["n"], "sparsity_container": sp_used if c["has_sparsity"] else ""}
    try:
        tsf = c.get("tspan_form", "tuple")
        tspan = (t0, tf) if tsf == "tuple" else ([t0, tf] if tsf == "list" else np.array([t0, tf]))
        r = ivp.solve_ivp(fun, tspan, y0, **kw)
    except BaseException as e:  # PanicException derives from BaseException
        if isinstance(e, (KeyboardInterrupt, SystemExit)):
            raise
        out.update({"ok": False, "exc": type(e).__name__, "msg": str(e)[:200], "calls": rec.calls,
                    "jcalls": rec.jcalls, "ecalls": rec.ecalls})
        return out
    out["ok"] = True
    out["exc"] = ""
    out["msg"] = ""
    out["calls"] = rec.calls
    out["jcalls"] = rec.jcalls
    out["ecalls"] = rec.ecalls
    out["t"] = arr_record(r.t)
    out["y"] = arr_record(r.y)
    out["y_dtype"] = str(np.asarray(r.y).dtype)
    out["has_events"] = r.t_events is not None
    out["t_events"] = [arr_record(x) for x in r.t_events] if r.t_events is not None else []
    out["y_events"] = [arr_record(x) for x in r.y_events] if r.y_events is not None else []
    out["status"] = int(r.status)
    out["success"] = bool(r.success)
    out["message"] = str(r.message)
    out["nfev"] = int(r.nfev)
    out["njev"] = int(r.njev)
    out["nlu"] = int(r.nlu)
    out["has_sol"] = r.sol is not None
    # item access must agree with attribute access
    out["getitem_ok"] = bool(r["status"] == r.status and r["nfev"] == r.nfev and r["success"] == r.success)
    out["fun_args"] = sorted([list(a) for a in rec.fun_args])
    out["ev_args"] = sorted([list(a) for a in rec.ev_args])
    out["jac_args"] = sorted([list(a) for a in rec.jac_args])
    sol = []
    sol_arr = {"raised": "", "shape": [], "v": []}
    sol_nd = {"raised": "", "shape": [], "v": []}
    if r.sol is not None and c["dense"]:
        allp = [untok(s) for s in c["probes"]] + [untok(s) for s in c["probes_out"]]
        for p in allp:
            try:
                a = r.sol(p)
                sol.append({"t": tok(p), "raised": "", **arr_record(a)})
            except BaseException as e:
                sol.append({"t": tok(p), "raised": type(e).__name__, "shape": [], "v": []})
        if allp:
            try:
                sol_arr = {"raised": "", **arr_record(r.sol(list(allp)))}
            except BaseException as e:
                sol_arr = {"raised": type(e).__name__, "shape": [], "v": []}
            try:
                sol_nd = {"raised": "", **arr_record(r.sol(np.array(allp, dtype=float)))}
            except BaseException as e:
                sol_nd = {"raised": type(e).__name__, "shape": [], "v": []}
    out["sol"] = sol
    # sol AT every reported time (accepted step ends when there is no t_eval): scalar calls and one array call
    sol_steps = []
    sol_steps_nd = {"raised": "", "shape": [], "v": []}
    if r.sol is not None and c["dense"] and c.get("probe_steps"):
        ts = [float(x) for x in np.asarray(r.t)]
        for p in ts:
            try:
                sol_steps.append({"t": tok(p), "raised": "", **arr_record(r.sol(p))})
            except BaseException as e:
                sol_steps.append({"t": tok(p), "raised": type(e).__name__, "shape": [], "v": []})
        if ts:
            try:
                sol_steps_nd = {"raised": "", **arr_record(r.sol(np.asarray(r.t)))}
            except BaseException as e:
                sol_steps_nd = {"raised": type(e).__name__, "shape": [], "v": []}
    out["sol_steps"] = sol_steps
    out["sol_steps_nd"] = sol_steps_nd
    out["jac_patterns"] = len(rec.jac_patterns)
    out["jac_container"] = rec.jac_container
    sol_empty = {"raised": "", "shape": [], "v": []}
    if r.sol is not None and c.get("probe_empty"):
        try:
            a = r.sol(np.array([], dtype=float))
            sol_empty = {"raised": "", "shape": [int(x) for x in np.asarray(a).shape], "v": []}
        except BaseException as e:
            sol_empty = {"raised": type(e).__name__, "shape": [], "v": []}
    out["sol_empty"] = sol_empty
    out["sol_list"] = sol_arr
    out["sol_nd"] = sol_nd
    if c["kind"] == "grp":
        out["groups_seen"] = decode_groups(c, rec)
    return out


def main():
    cases = json.load(open(sys.argv[2]))
    with open(sys.argv[3], "w") as f:
        for c in cases:
            f.write(json.dumps(run_case(c)) + "\n")


if __name__ == "__main__":
    main()

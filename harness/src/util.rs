//! Small helpers: deterministic RNG, hex tokens, panic capture.

/// SplitMix64 — deterministic, dependency-free.
#[derive(Clone)]
pub struct Rng(pub u64);
impl Rng {
    /// the seed is hashed (splitmix64 finaliser) so that neighbouring seeds give unrelated streams, not shifted copies
    pub fn new(seed: u64) -> Self {
        let mut z = seed.wrapping_add(0x1234_5678_9ABC_DEF1).wrapping_mul(0x9E3779B97F4A7C15);
        z = (z ^ (z >> 30)).wrapping_mul(0xBF58476D1CE4E5B9);
        z = (z ^ (z >> 27)).wrapping_mul(0x94D049BB133111EB);
        Rng(z ^ (z >> 31))
    }
    pub fn next_u64(&mut self) -> u64 {
        self.0 = self.0.wrapping_add(0x9E3779B97F4A7C15);
        let mut z = self.0;
        z = (z ^ (z >> 30)).wrapping_mul(0xBF58476D1CE4E5B9);
        z = (z ^ (z >> 27)).wrapping_mul(0x94D049BB133111EB);
        z ^ (z >> 31)
    }
    pub fn below(&mut self, n: usize) -> usize { (self.next_u64() % (n as u64)) as usize }
    pub fn unit(&mut self) -> f64 { (self.next_u64() >> 11) as f64 / (1u64 << 53) as f64 }
    pub fn range(&mut self, lo: f64, hi: f64) -> f64 { lo + (hi - lo) * self.unit() }
    pub fn pick<'a, T>(&mut self, xs: &'a [T]) -> &'a T { &xs[self.below(xs.len())] }
    pub fn chance(&mut self, p: f64) -> bool { self.unit() < p }
}

/// 16-hex-digit token of the raw bits of a double.
pub fn tok(x: f64) -> String { format!("{:016x}", x.to_bits()) }
pub fn toks(xs: &[f64]) -> Vec<String> { xs.iter().map(|v| tok(*v)).collect() }

/// Run `f`, turning a panic into `Err(message)`. The default panic hook is silenced.
pub fn catch<T>(f: impl FnOnce() -> T) -> Result<T, String> {
    let r = std::panic::catch_unwind(std::panic::AssertUnwindSafe(f));
    match r {
        Ok(v) => Ok(v),
        Err(e) => {
            let msg = if let Some(s) = e.downcast_ref::<&str>() { s.to_string() }
                      else if let Some(s) = e.downcast_ref::<String>() { s.clone() }
                      else { "panic".to_string() };
            Err(msg)
        }
    }
}

pub fn silence_panics() { std::panic::set_hook(Box::new(|_| {})); }

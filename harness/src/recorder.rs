//! Instrumented IVP / SolOut wrappers and the case runner.
//!
//! A *case* (one call of solve_ivp or of a low-level solver) is executed on the real code with
//! an instrumented problem that logs every `ode` / `jac` / `events` / `mass` call, and (for the
//! low-level solvers) a recording, scripted `SolOut`.  The log is turned into one NDJSON trace
//! (`call`, `ode`/`jac`/`ev`/`cb`..., `ret` | `abort`) in which every time value is replaced by its
//! rank in integration order (plus the raw bits as a hex token where identity matters).

use crate::problems::{EventSpec, Problem};
use crate::util::{catch, tok, toks};
use ivp::dense::StepInterpolant;
use ivp::matrix::{Matrix, MatrixStorage};
use ivp::methods::{BDF, DOP853, DOPRI5, RADAU, RK23, RK4, Tolerance};
use ivp::prelude::*;
use ivp::solout::SolOut;
use serde::{Deserialize, Serialize};
use serde_json::{json, Value};
use std::cell::{Cell, RefCell};

pub const BUDGET_DEFAULT: usize = 2_000_000;

#[derive(Clone, Debug, Serialize, Deserialize)]
pub struct Script {
    /// callback index (0 = initial callback)
    pub k: usize,
    /// "interrupt" | "modify_same" | "modify_x2"
    pub action: String,
}

#[derive(Clone, Debug, Serialize, Deserialize)]
pub struct Case {
    pub id: u64,
    /// "solve_ivp" | "low"
    pub api: String,
    /// RK4 RK23 DOPRI5 DOP853 RADAU BDF
    pub method: String,
    pub problem: Problem,
    pub x0: f64,
    pub xend: f64,
    pub y0: Vec<f64>,
    pub rtol: Vec<f64>, // len 1 = scalar
    pub atol: Vec<f64>,
    /// pass the tolerances as Tolerance::Vector even when they have one element
    #[serde(default)]
    pub tol_vec: bool,
    /// > 0: configure event directions through `Direction::from(+-dir_code)` instead of the enum
    #[serde(default)]
    pub dir_code: i32,
    #[serde(default)]
    pub first_step: Option<f64>,
    #[serde(default)]
    pub max_step: Option<f64>,
    #[serde(default)]
    pub max_steps: Option<usize>,
    #[serde(default)]
    pub min_step: Option<f64>,
    #[serde(default)]
    pub t_eval: Option<Vec<f64>>,
    #[serde(default)]
    pub dense: bool,
    #[serde(default)]
    pub events: Vec<EventSpec>,
    /// "fd" | "user"
    #[serde(default = "fd")]
    pub jac: String,
    /// "full" | "banded"
    #[serde(default = "full")]
    pub jac_storage: String,
    /// "identity" | "full" | "banded" | "default" (low-level builder default)
    #[serde(default = "ident")]
    pub mass_storage: String,
    /// "none" (trait default) | "identity" | "pow2:k" (2^k I)
    #[serde(default = "none")]
    pub mass: String,
    #[serde(default)]
    pub script: Vec<Script>,
    /// free-form tags used in signatures
    #[serde(default)]
    pub tags: Vec<String>,
    #[serde(default)]
    pub budget: Option<usize>,
    /// low-level solvers only: build the solver with dense_output(false)
    #[serde(default)]
    pub low_nodense: bool,
    /// low-level solvers only: call `solve` with `None` for the callback
    #[serde(default)]
    pub low_nosolout: bool,
    /// low-level explicit solvers only: at every callback redo the step from (xold, yold) with a fresh solver and
    /// compare its interpolant with the one handed out (the interpolant of a step depends on that step alone)
    #[serde(default)]
    pub probe_restart: bool,
    /// inverse symmetry applied to recorded (t, y) before digesting: "id" | "reflect" | "scale:k" | "copies:m"
    #[serde(default = "idmap")]
    pub map: String,
}
fn idmap() -> String { "id".into() }

/// apply the inverse of the case's symmetry to a recorded (t, y)
pub fn unmap(map: &str, t: f64, y: &[f64]) -> (f64, Vec<f64>) {
    if map == "reflect" {
        (-t, y.to_vec())
    } else if let Some(k) = map.strip_prefix("scale:") {
        let k: i32 = k.parse().unwrap();
        let f = (2.0f64).powi(-k);
        (t, y.iter().map(|v| v * f).collect())
    } else if let Some(m) = map.strip_prefix("copies:") {
        let m: usize = m.parse().unwrap();
        let n = y.len() / m.max(1);
        (t, y[..n].to_vec())
    } else {
        (t, y.to_vec())
    }
}
pub fn mdigest(map: &str, t: f64, y: &[f64]) -> String {
    let (t2, y2) = unmap(map, t, y);
    digest(t2 + 0.0, &y2)
}
pub fn copies_equal(map: &str, y: &[f64]) -> bool {
    if let Some(m) = map.strip_prefix("copies:") {
        let m: usize = m.parse().unwrap();
        let n = y.len() / m.max(1);
        (1..m).all(|c| (0..n).all(|i| y[c * n + i].to_bits() == y[i].to_bits()))
    } else {
        true
    }
}
fn fd() -> String { "fd".into() }
fn full() -> String { "full".into() }
fn ident() -> String { "identity".into() }
fn none() -> String { "none".into() }

#[derive(Clone, Debug)]
pub enum Ev {
    Ode { t: f64, y: Vec<f64>, injac: bool },
    Jac { t: f64 },
    Evt { t: f64 },
    /// x: as the callback left it; x_in: as the solver passed it (they differ when a script moves x back)
    Cb { k: usize, xold: f64, x: f64, x_in: f64, y: Vec<f64>, interp: Option<InterpFacts>, ret: String },
    /// a decision point reported by the solver through the verification hook `ivp::verif_trace`
    Hook { tag: &'static str, v: f64 },
}

#[derive(Clone, Debug)]
pub struct InterpFacts {
    pub lo: f64,
    pub hi: f64,
    /// BDF: order the step was taken with (dense coefficient block marker); 0 for other methods
    pub ord: i64,
    /// raw step size of the interpolant
    pub h: f64,
    /// restart probe: largest relative difference to the interpolant of the same step redone by a fresh solver (-1: not probed)
    pub rs_err: f64,
    /// BDF: largest relative miss of the step's polynomial at the accepted points it is built from, when the last
    /// `order` steps were equal in size (-1: not applicable)
    pub hist_err: f64,
    /// BDF after ModifiedSolution: largest difference (relative to max |y|) between the continuation's first step and the first
    /// step of a fresh run from the point the callback left (-1: not applicable)
    pub cont_err: f64,
    pub l_err: f64, // max_i |interp(xold)_i - yold_i| / scale_i
    pub r_err: f64,
    pub finite: bool,
}

/// FNV-1a over the raw bits: one 16-hex-digit digest per (t, y) argument pair
pub fn digest(t: f64, y: &[f64]) -> String {
    let mut h: u64 = 0xcbf29ce484222325;
    let mut feed = |v: u64| {
        for b in v.to_le_bytes() {
            h ^= b as u64;
            h = h.wrapping_mul(0x100000001b3);
        }
    };
    feed(t.to_bits());
    for v in y {
        feed(v.to_bits());
    }
    format!("{:016x}", h)
}

pub struct Instr<'a> {
    pub case: &'a Case,
    pub log: RefCell<Vec<Ev>>,
    pub injac: Cell<bool>,
    pub n_ode: Cell<usize>,
    pub budget: usize,
    pub mass_calls: Cell<usize>,
}

struct Shim<'a, 'b>(&'b Instr<'a>);
impl<'a, 'b> IVP for Shim<'a, 'b> {
    fn ode(&self, x: f64, y: &[f64], d: &mut [f64]) {
        self.0.ode(x, y, d)
    }
}

impl<'a> Instr<'a> {
    /// append an event; decision points the solver reported since the previous event come first
    pub fn push(&self, e: Ev) {
        self.drain_hooks();
        self.log.borrow_mut().push(e);
    }
    pub fn drain_hooks(&self) {
        if ivp::verif_trace::len() > 0 {
            let hs = ivp::verif_trace::stop();
            ivp::verif_trace::start();
            let mut log = self.log.borrow_mut();
            for (tag, v) in hs { log.push(Ev::Hook { tag, v }); }
        }
    }
    pub fn new(case: &'a Case) -> Self {
        Instr { case, log: RefCell::new(Vec::new()), injac: Cell::new(false), n_ode: Cell::new(0),
                budget: case.budget.unwrap_or(BUDGET_DEFAULT), mass_calls: Cell::new(0) }
    }
}

impl<'a> IVP for Instr<'a> {
    fn ode(&self, x: f64, y: &[f64], d: &mut [f64]) {
        let n = self.n_ode.get() + 1;
        self.n_ode.set(n);
        if n > self.budget {
            panic!("VERIF-BUDGET");
        }
        self.push(Ev::Ode { t: x, y: y.to_vec(), injac: self.injac.get() });
        self.case.problem.f(x, y, d);
    }
    fn n_events(&self) -> usize {
        self.case.events.len()
    }
    fn events(&self, x: f64, y: &[f64], out: &mut [f64]) {
        self.push(Ev::Evt { t: x });
        for (i, e) in self.case.events.iter().enumerate() {
            out[i] = self.case.problem.event(e, x, y);
        }
    }
    fn event_config(&self, i: usize) -> EventConfig {
        let e = &self.case.events[i];
        let mut c = EventConfig::new();
        // every other case configures the filter through the integer codes of `Direction::from` (SciPy convention:
        // any positive code = rising only, any negative code = falling only, 0 = both); magnitudes 1, 2, 3
        let mag = if self.case.dir_code > 0 { self.case.dir_code } else { 1 + ((self.case.id / 2) % 3) as i32 };
        let by_code = self.case.dir_code > 0 || self.case.id % 2 == 1;
        c.direction(match e.dir.as_str() {
            "Pos" => if by_code { Direction::from(mag) } else { Direction::Positive },
            "Neg" => if by_code { Direction::from(-mag) } else { Direction::Negative },
            _ => if by_code { Direction::from(0) } else { Direction::All },
        });
        if e.term > 0 {
            c.terminal_count(e.term);
        }
        c
    }
    fn jac(&self, x: f64, y: &[f64], j: &mut Matrix) {
        self.push(Ev::Jac { t: x });
        if self.case.jac == "user" {
            self.case.problem.jac(x, y, j);
        } else {
            // the trait's default finite-difference Jacobian, with its ode calls flagged
            self.injac.set(true);
            let r = catch(|| Shim(self).jac(x, y, j));
            self.injac.set(false);
            if let Err(m) = r {
                panic!("{}", m);
            }
        }
    }
    fn mass(&self, m: &mut Matrix) {
        self.mass_calls.set(self.mass_calls.get() + 1);
        let n = m.nrows();
        match self.case.mass.as_str() {
            "none" => {
                // exactly what a user who does not override `mass` gets
                struct Plain;
                impl IVP for Plain {
                    fn ode(&self, _x: f64, _y: &[f64], _d: &mut [f64]) {}
                }
                Plain.mass(m);
            }
            "identity" => {
                if !matches!(m.storage, MatrixStorage::Identity) {
                    for i in 0..n {
                        m[(i, i)] = 1.0;
                    }
                }
            }
            s if s.starts_with("pow2:") => {
                let k: i32 = s[5..].parse().unwrap();
                for i in 0..n {
                    m[(i, i)] = (2.0f64).powi(k);
                }
            }
            // nonsingular bidiagonal / tridiagonal masses (entries only inside the band the storage must provide)
            "lowbi" | "upbi" | "tri" | "trineg" | "perm3" => {
                for i in 0..n {
                    for (j, v) in mass_row(&self.case.mass, n, i) { m[(i, j)] = v; }
                }
            }
            // diagonal mass with the listed entries (zeros allowed: differential-algebraic system)
            s if s.starts_with("diag:") => {
                let d: Vec<f64> = s[5..].split(',').map(|x| x.parse().unwrap()).collect();
                for i in 0..n {
                    let v = d[i % d.len()];
                    if v != 0.0 || !matches!(m.storage, MatrixStorage::Identity) { m[(i, i)] = v; }
                }
            }
            _ => {}
        }
    }
}

/// entries (column, value) of row i of the named nonsingular banded mass matrix
pub fn mass_row(kind: &str, n: usize, i: usize) -> Vec<(usize, f64)> {
    if kind == "perm3" {
        // [[0,2,0],[1,0,0],[0,0,1]] (n = 3)
        return match i { 0 => vec![(1, 2.0)], 1 => vec![(0, 1.0)], _ => vec![(i, 1.0)] };
    }
    if let Some(k) = kind.strip_prefix("pow2:") { return vec![(i, (2.0f64).powi(k.parse().unwrap_or(0)))]; }
    let (sub, sup) = match kind { "lowbi" => (0.5, 0.0), "upbi" => (0.0, 0.25), "tri" => (0.5, 0.25), _ => (-0.25, -0.375) };
    let mut v = vec![(i, 1.0)];
    if sub != 0.0 && i >= 1 { v.push((i - 1, sub)); }
    if sup != 0.0 && i + 1 < n { v.push((i + 1, sup)); }
    v
}

/// Recording + scripted SolOut for the low-level solvers.
pub struct RecSolOut<'a, 'b> {
    pub instr: &'b Instr<'a>,
    pub k: usize,
    pub yold: Vec<f64>,
    pub script: Vec<Script>,
    /// accepted points (x, y) since the start / the last ModifiedSolution, oldest first (BDF history fact)
    pub hist: Vec<(f64, Vec<f64>)>,
    /// BDF: the point a ModifiedSolution callback left the solver at (the continuation is compared with a fresh start)
    pub after_mod: Option<(f64, Vec<f64>)>,
}

impl<'a, 'b> SolOut for RecSolOut<'a, 'b> {
    fn solout(&mut self, xold: f64, x: &mut f64, y: &mut [f64], interpolant: Option<&StepInterpolant<'_>>) -> ControlFlag {
        let k = self.k;
        self.k += 1;
        let x_in = *x;
        let facts = interpolant.map(|ip| {
            let (lo, hi) = ip.bounds();
            let n = y.len();
            let mut yl = vec![0.0; n];
            let mut yr = vec![0.0; n];
            ip.interpolate(xold, &mut yl);
            ip.interpolate(*x, &mut yr);
            // Endpoint equality "to rounding": the stored x is itself rounded, so evaluating the interpolant at
            // it moves the value by about y' * ulp(x); allow 64 eps on the values plus 64 ulp(x)/|h| of the
            // largest change over the step (BDF, whose history is rescaled by change_d: 1e-7 relative).
            // l_err / r_err are ratios error / allowance (<= 1 passes).
            let mut l_err: f64 = 0.0;
            let mut r_err: f64 = 0.0;
            let mut finite = true;
            let bdf = self.instr.case.method == "BDF";
            let hh = (*x - xold).abs().max(f64::MIN_POSITIVE);
            let xs = x.abs().max(xold.abs());
            let mut dmax: f64 = 0.0;
            for i in 0..n {
                let yo = if self.yold.len() == n { self.yold[i] } else { f64::NAN };
                dmax = dmax.max((y[i] - yo).abs());
            }
            for i in 0..n {
                let yo = if self.yold.len() == n { self.yold[i] } else { f64::NAN };
                let mag = yo.abs() + y[i].abs();
                let allow = if bdf { 1e-7 * (mag + dmax) } else { 64.0 * f64::EPSILON * mag + 64.0 * (f64::EPSILON * xs / hh) * dmax } + f64::MIN_POSITIVE;
                l_err = l_err.max((yl[i] - yo).abs() / allow);
                r_err = r_err.max((yr[i] - y[i]).abs() / allow);
                finite &= yl[i].is_finite() && yr[i].is_finite();
            }
            let (_, hstep) = ip.step_params();
            let ord = if bdf { let c = ip.to_segment().cont; if c.len() >= 7 { c[6].round() as i64 } else { 0 } } else { 0 };
            let mut rs_err = -1.0;
            if self.instr.case.probe_restart && self.yold.len() == n && k >= 1 && matches!(self.instr.case.method.as_str(), "RK4" | "RK23" | "DOPRI5" | "DOP853") {
                let ts: Vec<f64> = [0.25, 0.5, 0.75].iter().map(|th| xold + th * (*x - xold)).collect();
                let mine: Vec<Vec<f64>> = ts.iter().map(|t| { let mut v = vec![0.0; n]; ip.interpolate(*t, &mut v); v }).collect();
                if let Some(theirs) = restart_step(self.instr.case, xold, &self.yold, *x, &ts) {
                    rs_err = 0.0;
                    for (a, b) in mine.iter().zip(theirs.iter()) {
                        for i in 0..n {
                            let sc = a[i].abs().max(b[i].abs()).max(1e-300);
                            let d = (a[i] - b[i]).abs() / sc;
                            if d.is_nan() { if !(a[i].is_nan() && b[i].is_nan()) { rs_err = f64::INFINITY; } } else if d > rs_err { rs_err = d; }
                        }
                    }
                }
            }
            let mut hist_err = -1.0;
            let q = ord as usize;
            if bdf && q >= 2 && self.hist.len() >= q && finite {
                // points x_{n-1} .. x_{n-q}; the steps between them (and this one) equal in size
                let pts: Vec<&(f64, Vec<f64>)> = self.hist.iter().rev().take(q).collect();
                let hcur = *x - pts[0].0;
                let mut equal = pts[0].0 == xold;
                let mut right = *x;
                for p in &pts {
                    if ((right - p.0) - hcur).abs() > 8.0 * f64::EPSILON * xs { equal = false; }
                    right = p.0;
                }
                if equal {
                    hist_err = 0.0;
                    let mut v = vec![0.0; n];
                    for p in pts.iter().skip(1) {
                        ip.interpolate(p.0, &mut v);
                        for i in 0..n {
                            let sc = (y[i].abs() + p.1[i].abs()).max(1e-300);
                            let d = (v[i] - p.1[i]).abs() / sc;
                            if d > hist_err || d.is_nan() { hist_err = if d.is_nan() { f64::INFINITY } else { d }; }
                        }
                    }
                    if std::env::var("VERIF_HIST_DEBUG").is_ok() { eprintln!("HIST ord={} err={:e}", q, hist_err); }
                }
            }
            // BDF after ModifiedSolution: the continuation's first step against a fresh start from the point the callback left
            let mut cont_err = -1.0;
            if bdf && self.instr.case.mass == "none" {
                if let Some((xk, yk)) = &self.after_mod {
                    if (*xk - xold).abs() <= 4.0 * f64::EPSILON * xs {
                        if let Some((xf, yf)) = bdf_fresh_first_step(self.instr.case, *xk, yk, *x) {
                            if (xf - *x).abs() <= 4.0 * f64::EPSILON * xs {
                                let sc = y.iter().chain(yf.iter()).fold(1e-300f64, |a, b| a.max(b.abs()));
                                cont_err = 0.0;
                                for i in 0..n {
                                    let d = (y[i] - yf[i]).abs() / sc;
                                    if d.is_nan() { if !(y[i].is_nan() && yf[i].is_nan()) { cont_err = f64::INFINITY; } } else if d > cont_err { cont_err = d; }
                                }
                            }
                        }
                    }
                }
            }
            InterpFacts { lo, hi, ord, h: hstep, rs_err, hist_err, cont_err, l_err, r_err, finite }
        });
        let act = self.script.iter().find(|s| s.k == k).map(|s| s.action.clone());
        let mut ret = ControlFlag::Continue;
        let mut rets = "Continue";
        match act.as_deref() {
            Some("interrupt") => {
                ret = ControlFlag::Interrupt;
                rets = "Interrupt";
            }
            Some("modify_same") => {
                ret = ControlFlag::ModifiedSolution;
                rets = "Modified";
            }
            Some("xout") => {
                // schedule "dense output" for a point two steps ahead in the direction of integration
                let ahead = *x + 2.0 * (*x - xold);
                ret = ControlFlag::XOut(if ahead == *x { *x } else { ahead });
                rets = "XOut";
            }
            Some("modify_back") => {
                // restart in the middle of the step just taken: needs the interpolant
                if let Some(ip) = interpolant {
                    let xm = xold + 0.5 * (*x - xold);
                    let mut ym = vec![0.0; y.len()];
                    ip.interpolate(xm, &mut ym);
                    *x = xm;
                    y.copy_from_slice(&ym);
                    ret = ControlFlag::ModifiedSolution;
                    rets = "Modified";
                }
            }
            Some("modify_x2") => {
                for v in y.iter_mut() {
                    *v *= 2.0;
                }
                ret = ControlFlag::ModifiedSolution;
                rets = "Modified";
            }
            _ => {}
        }
        // the state logged is the one the solver continues from (after modification)
        self.instr.push(Ev::Cb { k, xold, x: *x, x_in, y: y.to_vec(), interp: facts, ret: rets.to_string() });
        self.yold = y.to_vec();
        if rets == "Modified" { self.hist.clear(); }
        self.after_mod = if rets == "Modified" && self.instr.case.method == "BDF" { Some((*x, y.to_vec())) } else { None };
        self.hist.push((*x, y.to_vec()));
        if self.hist.len() > 8 { self.hist.remove(0); }
        ret
    }
}

fn tol(v: &[f64], force_vec: bool) -> Tolerance {
    if v.len() == 1 && !force_vec { Tolerance::Scalar(v[0]) } else { Tolerance::Vector(v.to_vec()) }
}

fn storage(kind: &str, n: usize, bw: usize) -> MatrixStorage {
    match kind {
        "identity" => MatrixStorage::Identity,
        "banded" => MatrixStorage::Banded { ml: bw.min(n.saturating_sub(1)), mu: bw.min(n.saturating_sub(1)) },
        s if s.starts_with("banded:") => {
            let p: Vec<usize> = s[7..].split(',').map(|x| x.parse().unwrap()).collect();
            MatrixStorage::Banded { ml: p[0], mu: p[1] }
        }
        _ => MatrixStorage::Full,
    }
}

pub fn method_of(m: &str) -> Method {
    match m {
        "RK4" => Method::RK4,
        "RK23" => Method::RK23,
        "DOP853" => Method::DOP853,
        "RADAU" => Method::RADAU,
        "BDF" => Method::BDF,
        _ => Method::DOPRI5,
    }
}

pub enum Outcome {
    Sol(Solution),
    Low { status: String, h: f64, nfev: usize, njev: usize, nlu: usize, nstep: usize, naccpt: usize, nrejct: usize },
    Err(String),
    Abort(String, String), // why, msg
}

fn status_name(s: Status) -> &'static str {
    match s {
        Status::Success => "Success",
        Status::UserInterrupt => "UserInterrupt",
        Status::NeedLargerNMax => "NeedLargerNMax",
        Status::StepSizeTooSmall => "StepSizeTooSmall",
        Status::ProbablyStiff => "ProbablyStiff",
        Status::SingularMatrix => "SingularMatrix",
        Status::PoorConvergence => "PoorConvergence",
    }
}

fn err_name(e: &ivp::error::Error) -> String {
    let s = format!("{:?}", e);
    let head: String = s.chars().take_while(|c| c.is_alphanumeric() || *c == '(').collect();
    format!("Err:{}", head.replace('(', "/"))
}

/// Reference for a nonsingular non-identity mass: y' = M^-1 f integrated by DOP853 at 1e-11 from x0 to tl.
/// Returns the final state when that run succeeds.
pub fn mass_reference(case: &Case, tl: f64) -> Option<Vec<f64>> {
    let n = case.y0.len();
    if n == 0 || n > 8 { return None; }
    struct Inv<'a> { p: &'a Problem, kind: &'a str, n: usize }
    impl<'a> IVP for Inv<'a> {
        fn ode(&self, x: f64, y: &[f64], d: &mut [f64]) {
            let n = self.n;
            let mut a = vec![0.0; n * n];
            for i in 0..n { for (j, v) in mass_row(self.kind, n, i) { a[i * n + j] = v; } }
            let mut b = vec![0.0; n];
            self.p.f(x, y, &mut b);
            // Gaussian elimination with partial pivoting (n <= 8)
            for k in 0..n {
                let mut piv = k;
                for r in k + 1..n { if a[r * n + k].abs() > a[piv * n + k].abs() { piv = r; } }
                if piv != k { for c in 0..n { a.swap(k * n + c, piv * n + c); } b.swap(k, piv); }
                for r in k + 1..n {
                    let f = a[r * n + k] / a[k * n + k];
                    for c in k..n { a[r * n + c] -= f * a[k * n + c]; }
                    b[r] -= f * b[k];
                }
            }
            for k in (0..n).rev() {
                let mut v = b[k];
                for c in k + 1..n { v -= a[k * n + c] * d[c]; }
                d[k] = v / a[k * n + k];
            }
        }
    }
    let inv = Inv { p: &case.problem, kind: case.mass.as_str(), n };
    let o = Options::builder().method(Method::DOP853).rtol(Tolerance::Scalar(1e-11)).atol(Tolerance::Scalar(1e-13)).build();
    match catch(|| solve_ivp(&inv, case.x0, tl, &case.y0, o)) {
        Ok(Ok(r)) if r.status == Status::Success => r.y.last().cloned(),
        _ => None,
    }
}

pub fn has_reference_mass(case: &Case) -> bool {
    matches!(case.mass.as_str(), "lowbi" | "upbi" | "tri" | "trineg" | "perm3") || case.mass.starts_with("pow2:")
}

/// Redo one accepted step (xold, yold) -> x with a freshly built low-level solver of the same method and options and
/// return its interpolant at the given times (None if the fresh solver does not take exactly that step).
fn restart_step(case: &Case, xold: f64, yold: &[f64], x: f64, ts: &[f64]) -> Option<Vec<Vec<f64>>> {
    struct P<'a>(&'a Problem);
    impl<'a> IVP for P<'a> {
        fn ode(&self, t: f64, y: &[f64], d: &mut [f64]) { self.0.f(t, y, d) }
    }
    struct Grab<'a> { ts: &'a [f64], out: Vec<Vec<f64>>, steps: usize, xs: f64 }
    impl<'a> SolOut for Grab<'a> {
        fn solout(&mut self, xo: f64, xn: &mut f64, y: &mut [f64], ip: Option<&StepInterpolant<'_>>) -> ControlFlag {
            if xo == *xn { return ControlFlag::Continue; }
            self.steps += 1;
            self.xs = *xn;
            if self.steps == 1 {
                if let Some(ip) = ip {
                    for t in self.ts { let mut v = vec![0.0; y.len()]; ip.interpolate(*t, &mut v); self.out.push(v); }
                }
            }
            ControlFlag::Interrupt
        }
    }
    let p = P(&case.problem);
    let mut g = Grab { ts, out: Vec::new(), steps: 0, xs: xold };
    let h = x - xold;
    // the fresh run's interval is three steps long: its first step is an ordinary one (not the step that lands on xend),
    // so that code special-casing the last step of a run cannot hide in both
    let xe = x + 2.0 * h;
    let (rt, at) = (tol(&case.rtol, case.tol_vec), tol(&case.atol, case.tol_vec));
    // the fresh solver reports to the same hook sink: set the recorded run's pending events aside and drop the probe's
    let pending = ivp::verif_trace::stop();
    let r = catch(|| match case.method.as_str() {
        "RK4" => { let s = RK4::builder().dense_output(true).build(); s.solve(&p, xold, yold, xe, h, Some(&mut g)).is_ok() }
        "RK23" => RK23::builder().first_step(h).dense_output(true).build().solve(&p, xold, yold, xe, rt, at, Some(&mut g)).is_ok(),
        "DOPRI5" => DOPRI5::builder().first_step(h).dense_output(true).build().solve(&p, xold, yold, xe, rt, at, Some(&mut g)).is_ok(),
        _ => DOP853::builder().first_step(h).dense_output(true).build().solve(&p, xold, yold, xe, rt, at, Some(&mut g)).is_ok(),
    });
    ivp::verif_trace::start();
    for (tag, v) in pending { ivp::verif_trace::emit(tag, v); }
    // only a fresh run whose first accepted step is the same step is comparable
    if r.ok() == Some(true) && g.steps == 1 && g.out.len() == ts.len() && (g.xs - x).abs() <= 4.0 * f64::EPSILON * x.abs().max(xold.abs()) { Some(g.out) } else { None }
}

/// BDF restarts its history on ModifiedSolution: the step that follows equals the first step of a fresh BDF run started at the
/// point the callback left, with the step size that was used.  Returns the fresh run's first accepted point.
fn bdf_fresh_first_step(case: &Case, xk: f64, yk: &[f64], x: f64) -> Option<(f64, Vec<f64>)> {
    struct PJ<'a>(&'a Problem, bool);
    impl<'a> IVP for PJ<'a> {
        fn ode(&self, t: f64, y: &[f64], d: &mut [f64]) { self.0.f(t, y, d) }
        fn jac(&self, t: f64, y: &[f64], j: &mut Matrix) {
            if self.1 { self.0.jac(t, y, j) } else {
                struct Plain<'b>(&'b Problem);
                impl<'b> IVP for Plain<'b> { fn ode(&self, t: f64, y: &[f64], d: &mut [f64]) { self.0.f(t, y, d) } }
                Plain(self.0).jac(t, y, j)
            }
        }
    }
    struct First { out: Option<(f64, Vec<f64>)> }
    impl SolOut for First {
        fn solout(&mut self, xo: f64, xn: &mut f64, y: &mut [f64], _ip: Option<&StepInterpolant<'_>>) -> ControlFlag {
            if xo == *xn { return ControlFlag::Continue; }
            self.out = Some((*xn, y.to_vec()));
            ControlFlag::Interrupt
        }
    }
    let p = PJ(&case.problem, case.jac == "user");
    let mut g = First { out: None };
    let h = x - xk;
    let n = yk.len();
    let bw = case.problem.bandwidth();
    let pending = ivp::verif_trace::stop();
    let r = catch(|| BDF::builder().maybe_max_step(case.max_step).maybe_min_step(case.min_step).first_step(h.abs())
        .jac_storage(storage(&case.jac_storage, n, bw)).build()
        .solve(&p, xk, yk, x + 2.0 * h, tol(&case.rtol, case.tol_vec), tol(&case.atol, case.tol_vec), Some(&mut g)).is_ok());
    ivp::verif_trace::start();
    for (tag, v) in pending { ivp::verif_trace::emit(tag, v); }
    if r.ok() == Some(true) { g.out } else { None }
}

/// Execute one case on the real code.
pub fn execute(case: &Case, instr: &Instr) -> Outcome {
    let n = case.y0.len();
    let bw = case.problem.bandwidth();
    ivp::verif_trace::start();
    let r = catch(|| {
        if case.api == "solve_ivp" {
            let mut o = Options::builder()
                .method(method_of(&case.method))
                .rtol(tol(&case.rtol, case.tol_vec))
                .atol(tol(&case.atol, case.tol_vec))
                .dense_output(case.dense)
                .jac_storage(storage(&case.jac_storage, n, bw))
                .mass_storage(storage(&case.mass_storage, n, bw))
                .build();
            o.first_step = case.first_step;
            o.max_step = case.max_step;
            o.max_steps = case.max_steps;
            o.min_step = case.min_step;
            o.t_eval = case.t_eval.clone();
            match solve_ivp(instr, case.x0, case.xend, &case.y0, o) {
                Ok(s) => Outcome::Sol(s),
                Err(e) => Outcome::Err(err_name(&e)),
            }
        } else {
            let mut so = RecSolOut { instr, k: 0, yold: Vec::new(), script: case.script.clone(), hist: Vec::new(), after_mod: None };
            // low_nosolout: the documented call without a callback
            let mut so_opt: Option<&mut RecSolOut> = if case.low_nosolout { None } else { Some(&mut so) };
            let ms = case.max_steps;
            let res = match case.method.as_str() {
                "RK4" => {
                    let s = RK4::builder().max_steps(ms.unwrap_or(100_000)).dense_output(!case.low_nodense).build();
                    let h = case.first_step.unwrap_or((case.xend - case.x0) / 100.0);
                    s.solve(instr, case.x0, &case.y0, case.xend, h, so_opt.take())
                }
                "RK23" => RK23::builder().maybe_max_step(case.max_step).maybe_first_step(case.first_step)
                    .max_steps(ms.unwrap_or(10_000)).dense_output(!case.low_nodense).build()
                    .solve(instr, case.x0, &case.y0, case.xend, tol(&case.rtol, case.tol_vec), tol(&case.atol, case.tol_vec), so_opt.take()),
                "DOPRI5" => DOPRI5::builder().maybe_max_step(case.max_step).maybe_first_step(case.first_step)
                    .max_steps(ms.unwrap_or(100_000)).dense_output(!case.low_nodense).build()
                    .solve(instr, case.x0, &case.y0, case.xend, tol(&case.rtol, case.tol_vec), tol(&case.atol, case.tol_vec), so_opt.take()),
                "DOP853" => DOP853::builder().maybe_max_step(case.max_step).maybe_first_step(case.first_step)
                    .max_steps(ms.unwrap_or(100_000)).dense_output(!case.low_nodense).build()
                    .solve(instr, case.x0, &case.y0, case.xend, tol(&case.rtol, case.tol_vec), tol(&case.atol, case.tol_vec), so_opt.take()),
                "RADAU" => {
                    let b = RADAU::builder().maybe_max_step(case.max_step).maybe_min_step(case.min_step).maybe_first_step(case.first_step)
                        .max_steps(ms.unwrap_or(100_000)).jac_storage(storage(&case.jac_storage, n, bw)).dense_output(!case.low_nodense);
                    let s = if case.mass_storage == "default" { b.build() } else { b.mass_storage(storage(&case.mass_storage, n, bw)).build() };
                    s.solve(instr, case.x0, &case.y0, case.xend, tol(&case.rtol, case.tol_vec), tol(&case.atol, case.tol_vec), so_opt.take())
                }
                _ => BDF::builder().maybe_max_step(case.max_step).maybe_min_step(case.min_step).maybe_first_step(case.first_step)
                    .max_steps(ms.unwrap_or(100_000)).jac_storage(storage(&case.jac_storage, n, bw)).build()
                    .solve(instr, case.x0, &case.y0, case.xend, tol(&case.rtol, case.tol_vec), tol(&case.atol, case.tol_vec), so_opt.take()),
            };
            match res {
                Ok(r) => Outcome::Low { status: status_name(r.status).to_string(), h: r.h, nfev: r.evals.ode, njev: r.evals.jac,
                                        nlu: r.evals.lu, nstep: r.steps.total, naccpt: r.steps.accepted, nrejct: r.steps.rejected },
                Err(e) => Outcome::Err(err_name(&e)),
            }
        }
    });
    instr.drain_hooks();
    let _ = ivp::verif_trace::stop();
    match r {
        Ok(o) => o,
        Err(m) => {
            if m.contains("VERIF-BUDGET") { Outcome::Abort("budget".into(), String::new()) } else { Outcome::Abort("panic".into(), m.chars().take(200).collect()) }
        }
    }
}

// ------------------------------------------------------------------------------------ ranking

/// Total order in integration direction; equal doubles (incl. +-0) share a rank; NaN ranks last.
pub struct Ranker {
    dir: f64,
    keys: Vec<f64>,
}
impl Ranker {
    pub fn new(dir: f64) -> Self { Ranker { dir, keys: Vec::new() } }
    pub fn add(&mut self, t: f64) { self.keys.push(self.key(t)); }
    fn key(&self, t: f64) -> f64 { if t.is_nan() { f64::INFINITY } else { self.dir * t + 0.0 } }
    pub fn freeze(&mut self) {
        self.keys.sort_by(|a, b| a.partial_cmp(b).unwrap());
        self.keys.dedup();
    }
    pub fn rank(&self, t: f64) -> i64 {
        let k = self.key(t);
        match self.keys.binary_search_by(|p| p.partial_cmp(&k).unwrap()) {
            Ok(i) => i as i64,
            Err(i) => i as i64, // not registered: rank of insertion point (should not happen)
        }
    }
}

fn ulps(x: f64, k: f64) -> f64 {
    // k ulp of x (at least k * MIN_POSITIVE)
    let a = x.abs();
    let e = if a == 0.0 { f64::MIN_POSITIVE } else { a * f64::EPSILON };
    k * e
}

fn sgn_str(v: f64) -> i64 { if v > 0.0 { 1 } else if v < 0.0 { -1 } else if v == 0.0 { 0 } else { 9 } }

fn c2_of(method: &str) -> f64 {
    match method {
        "RK4" => 0.5,
        "RK23" => 0.5,
        "DOPRI5" => 0.2,
        "DOP853" => 0.526001519587677318785587544488e-01,
        "RADAU" => 0.155_051_025_721_682_2,
        _ => 1.0, // BDF evaluates at x0 + h
    }
}

/// The case as a JSON *string* (TLC never parses the floats inside); non-finite values are clamped.
pub fn case_json(case: &Case) -> String {
    let mut c = case.clone();
    let fix = |v: f64| if v.is_finite() { v } else if v > 0.0 { f64::MAX } else { f64::MIN };
    c.xend = fix(c.xend);
    c.max_step = c.max_step.map(fix);
    serde_json::to_string(&c).unwrap_or_default()
}

/// Turn the executed case into trace lines (JSON values).
pub fn trace(case: &Case, instr: &Instr, out: &Outcome) -> Vec<Value> {
    let dir = if case.xend >= case.x0 { 1.0 } else { -1.0 };
    let log = instr.log.borrow();
    let mut rk = Ranker::new(dir);
    let scale = case.x0.abs().max(if case.xend.is_finite() { case.xend.abs() } else { 0.0 });
    let e8 = ulps(scale, 8.0);
    // marks
    let x0_lo = case.x0 - dir * e8;
    let xend_lo = case.xend - dir * e8;
    let xend_hi = case.xend + dir * e8;
    for t in [case.x0, case.xend, x0_lo, xend_lo, xend_hi] {
        rk.add(t);
    }
    if let Some(te) = &case.t_eval {
        for t in te { rk.add(*t); }
    }
    for e in log.iter() {
        match e {
            Ev::Hook { .. } => {}
            Ev::Ode { t, .. } | Ev::Jac { t } | Ev::Evt { t } => rk.add(*t),
            Ev::Cb { xold, x, x_in, interp, .. } => {
                rk.add(*xold);
                rk.add(*x);
                rk.add(*x_in);
                if let Some(f) = interp { rk.add(f.lo); rk.add(f.hi); }
            }
        }
    }
    let mut segs: Vec<(f64, f64)> = Vec::new();
    if let Outcome::Sol(s) = out {
        for t in &s.t { rk.add(*t); }
        for v in &s.t_events { for t in v { rk.add(*t); } }
        if let Some(c) = &s.continuous_sol {
            if let Some((a, b)) = c.t_span() { rk.add(a); rk.add(b); rk.add(b + dir * 1.5e-12); }
        }
        let _ = &mut segs;
    }
    rk.freeze();
    let tj = |t: f64| json!({"r": rk.rank(t), "b": tok(t)});

    let mut lines = Vec::new();
    let n = case.y0.len();
    lines.push(json!({
        "e": "call", "id": case.id, "api": case.api, "method": case.method, "dir": dir as i64, "n": n,
        "x0": tj(case.x0), "xend": tj(case.xend),
        "m": {"x0_lo": rk.rank(x0_lo), "xend_lo": rk.rank(xend_lo), "xend_hi": rk.rank(xend_hi)},
        "teval": case.t_eval.as_ref().map(|v| v.iter().map(|t| tj(*t)).collect::<Vec<_>>()).unwrap_or_default(),
        "hasT": case.t_eval.is_some(),
        "hasFs": case.first_step.is_some(), "hasMs": case.max_step.is_some(), "hasMin": case.min_step.map_or(false, |m| m != 0.0), "nocb": case.low_nosolout,
        "tin": case.t_eval.as_ref().map_or(true, |te| te.iter().all(|t| *t >= case.x0.min(case.xend) && *t <= case.x0.max(case.xend))),
        "maxsteps": case.max_steps.map(|v| v as i64).unwrap_or(-1),
        "dense": case.dense, "lowdense": !case.low_nodense,
        "events": case.events.iter().map(|e| json!({"dir": e.dir, "term": e.term})).collect::<Vec<_>>(),
        "jac": case.jac, "problem": case.problem.kind, "tags": case.tags,
        "errctl": case.method != "RK4",
        "tinyspan": (case.xend - case.x0).abs() <= 1e-9 && case.xend != case.x0,
        "script": case.script.iter().map(|s| json!({"k": s.k, "action": s.action})).collect::<Vec<_>>(),
        "y0d": digest(case.x0, &case.y0),
        "case_json": case_json(case),
    }));
    // events
    let mut first_trial: Option<f64> = None;
    let mut first_trial_unobservable = false;
    let mut n_plain_ode = 0usize;
    // step size of the previous callback's interpolant (for the "equal steps" flag of BDF)
    let mut prev_h_of: Vec<Option<f64>> = vec![None; log.len()];
    {
        let mut ph: Option<f64> = None;
        for (i, e) in log.iter().enumerate() {
            if let Ev::Cb { interp, .. } = e {
                prev_h_of[i] = ph;
                ph = interp.as_ref().map(|f| f.h);
            }
        }
    }
    // contiguity of consecutive callbacks, computed over the complete log (before any elision)
    let mut contig_of: Vec<bool> = vec![true; log.len()];
    {
        let mut px: Option<f64> = None;
        for (i, e) in log.iter().enumerate() {
            if let Ev::Cb { xold, x, .. } = e {
                if let Some(p) = px { contig_of[i] = (xold - p).abs() <= ulps(p.abs().max(xold.abs()).max(scale), 8.0); }
                px = Some(*x);
            }
        }
    }
    // which events come after a modify_x2 callback (their states are mapped back by 2^-1)
    let x2_at: Option<usize> = case.script.iter().find(|s| s.action == "modify_x2").map(|s| s.k);
    let mut scaled_flags: Vec<bool> = Vec::with_capacity(log.len());
    {
        let mut sc = false;
        for e in log.iter() {
            if let Ev::Cb { k, .. } = e { if Some(*k) == x2_at { sc = true; } }
            scaled_flags.push(sc);
        }
    }
    let dg = |idx: usize, t: f64, y: &[f64]| -> String {
        if scaled_flags[idx] { mdigest("scale:1", t, y) } else { mdigest(&case.map, t, y) }
    };
    // very long runs: keep the first and last KEEP events and summarise the middle in one `gap` line
    const KEEP: usize = 1500;
    let nlog = log.len();
    let elide = nlog > 2 * KEEP + 100;
    for (idx, e) in log.iter().enumerate() {
        if elide && idx == KEEP {
            let mid = &log[KEEP..nlog - KEEP];
            let (mut n_ode, mut n_odej, mut n_jac, mut n_ev, mut n_cb) = (0usize, 0usize, 0usize, 0usize, 0usize);
            let mut rs_bad = 0usize;
            let (mut rmin, mut rmax) = (i64::MAX, i64::MIN);
            for m in mid {
                let r = match m {
                    Ev::Ode { t, injac, .. } => { if *injac { n_odej += 1 } else { n_ode += 1 }; rk.rank(*t) }
                    Ev::Jac { t } => { n_jac += 1; rk.rank(*t) }
                    Ev::Evt { t } => { n_ev += 1; rk.rank(*t) }
                    Ev::Cb { x, interp, .. } => { n_cb += 1; if interp.as_ref().map_or(false, |f| f.rs_err > 1e-9 || f.hist_err > 1e-9) { rs_bad += 1; } rk.rank(*x) }
                    Ev::Hook { .. } => continue,
                };
                rmin = rmin.min(r);
                rmax = rmax.max(r);
            }
            n_plain_ode += n_ode;
            lines.push(json!({"e": "gap", "n_ode": n_ode, "n_odej": n_odej, "n_jac": n_jac, "n_ev": n_ev, "n_cb": n_cb, "rs_bad": rs_bad, "rmin": rmin, "rmax": rmax}));
        }
        if elide && idx >= KEEP && idx < nlog - KEEP {
            continue;
        }
        match e {
            Ev::Ode { t, y, injac } => {
                if !*injac {
                    n_plain_ode += 1;
                    // first evaluation that is not at x0 and not hinit's probe is hard to tell apart in general;
                    // with first_step given there is no hinit: the 2nd plain call is the first trial's first stage
                    if n_plain_ode == 2 { first_trial = Some(*t); }
                }
                lines.push(json!({"e": "ode", "r": rk.rank(*t), "j": *injac, "d": dg(idx, *t, y), "fin": y.iter().all(|v| v.is_finite())}));
            }
            Ev::Jac { t } => lines.push(json!({"e": "jac", "r": rk.rank(*t)})),
            Ev::Evt { t } => lines.push(json!({"e": "ev", "r": rk.rank(*t)})),
            // decision points of the solver's main loop (values classified here: the trace carries no floats)
            Ev::Hook { tag, v } => {
                // a first trial whose factorisation failed evaluated nothing: the evaluations that follow belong to a later trial
                if n_plain_ode < 2 && (*tag == "lu_sing" || *tag == "bdf_lu_sing") { first_trial_unobservable = true; }
                lines.push(json!({"e": "hk", "t": tag, "small": *v < 0.001, "ge1": *v >= 1.0, "le1": *v <= 1.0,
                                                     "n": if v.is_finite() && v.fract() == 0.0 && v.abs() < 1e9 { *v as i64 } else { -1 }}))
            }
            Ev::Cb { k, xold, x, x_in, y, interp, ret } => {
                let contig = contig_of[idx];
                let prev_h = prev_h_of[idx];
                let ip = interp.as_ref().map(|f| json!({
                    "lo": tj(f.lo), "hi": tj(f.hi),
                    "b_ok": (f.lo - xold.min(*x_in)).abs() <= ulps(scale.max(f.lo.abs()), 8.0) && (f.hi - xold.max(*x_in)).abs() <= ulps(scale.max(f.hi.abs()), 8.0),
                    "rs_ok": !(f.rs_err > 1e-9) && !(f.hist_err > 1e-9), "rs": f.rs_err >= 0.0 || f.hist_err >= 0.0,
                    "cont_ok": !(f.cont_err > 1e-12), "cont": f.cont_err >= 0.0,
                    "l_ok": f.l_err <= 1.0 || !f.finite,
                    "r_ok": f.r_err <= 1.0 || !f.finite,
                    "ord": f.ord, "heq": prev_h.map(|p: f64| p.abs().to_bits() == f.h.abs().to_bits()).unwrap_or(false),
                    "lre": [if f.l_err > 0.0 { f.l_err.log10().floor() as i64 } else { -999 }, if f.r_err > 0.0 { f.r_err.log10().floor() as i64 } else { -999 }],
                    "fin": f.finite})).unwrap_or(json!({"b_ok": true, "rs_ok": true, "rs": false, "cont_ok": true, "cont": false, "l_ok": true, "r_ok": true, "fin": true, "ord": 0, "heq": false}));
                lines.push(json!({"e": "cb", "k": k, "xold": tj(*xold), "x": tj(*x), "xin": tj(*x_in), "d": dg(idx, *x, y), "y": toks(y), "contig": contig,
                                  "fin": y.iter().all(|v| v.is_finite()), "ip": ip, "hasip": interp.is_some(), "ret": ret}));
            }
        }
    }
    // Radau IIA nodes: the three evaluations of every Newton iteration (reported by the hook right after them) lie at
    // x + c1 h, x + c2 h, x + h of one and the same (x, h): (t2 - t1) / (t3 - t2) = (c2 - c1) / (1 - c2), whatever x and h
    let mut nodes_seen = 0usize;
    let mut nodes_bad = 0usize;
    if case.method == "RADAU" {
        let s6 = 6.0f64.sqrt();
        let want = (s6 / 5.0) / ((6.0 - s6) / 10.0);
        let mut last3: Vec<f64> = Vec::new();
        for e in log.iter() {
            match e {
                Ev::Ode { t, injac: false, .. } => { last3.push(*t); if last3.len() > 3 { last3.remove(0); } }
                Ev::Hook { tag, .. } if matches!(*tag, "nw_cont" | "nw_conv" | "nw_div" | "nw_slow") => {
                    if last3.len() == 3 && last3.iter().all(|v| v.is_finite()) && last3[2] != last3[1] {
                        nodes_seen += 1;
                        let got = (last3[1] - last3[0]) / (last3[2] - last3[1]);
                        let slack = 1e-9 + 64.0 * f64::EPSILON * last3.iter().fold(0.0f64, |a, b| a.max(b.abs())) / (last3[2] - last3[1]).abs();
                        if !((got - want).abs() <= slack * want) { nodes_bad += 1; }
                    }
                }
                _ => {}
            }
        }
    }
    // ... and an accepted Radau step comes out of a Newton iteration that converged: no acceptance (reported by the step-size
    // path hook that follows it) directly after the `slow` exit of the iteration
    let mut slow_pending = false;
    let mut unconverged_accepts = 0usize;
    if case.method == "RADAU" {
        for e in log.iter() {
            if let Ev::Hook { tag, .. } = e {
                match *tag {
                    "nw_slow" => slow_pending = true,
                    "nw_cont" | "nw_conv" | "nw_div" | "nw_exh" | "lu_sing" => slow_pending = false,
                    t if t.starts_with("post_") => { if slow_pending { unconverged_accepts += 1; } slow_pending = false; }
                    _ => {}
                }
            }
        }
    }
    let nodes_fact = json!({"has": nodes_seen > 0, "ok": nodes_bad == 0, "n": nodes_seen, "conv_ok": unconverged_accepts == 0, "unconv": unconverged_accepts});
    // first_step fact: with first_step given, the second stepper evaluation is at x0 + c2*|h0|*dir
    // the clause only speaks about a first_step not larger than max_step or the span
    let script_at0 = case.script.iter().any(|s| s.k == 0);
    let fs_applicable = !script_at0 && case.first_step.map(|h0| h0.abs() <= (case.xend - case.x0).abs() && case.max_step.map(|m| h0.abs() <= m.abs()).unwrap_or(true)).unwrap_or(false);
    let fs_fact = match (case.first_step.filter(|_| fs_applicable && !first_trial_unobservable), first_trial) {
        (Some(h0), Some(t)) => {
            let want = case.x0 + c2_of(&case.method) * h0.abs() * dir;
            json!({"has": true, "ok": (t - want).abs() <= ulps(want.abs().max(case.x0.abs()), 4.0)})
        }
        _ => json!({"has": false, "ok": true}),
    };
    const CAP: usize = 20_000;
    let oded: Vec<String> = log.iter().enumerate().filter_map(|(i, e)| match e { Ev::Ode { t, y, injac: false } => Some(dg(i, *t, y)), _ => None }).take(CAP).collect();
    let cbd: Vec<String> = log.iter().enumerate().filter_map(|(i, e)| match e { Ev::Cb { x, y, .. } => Some(dg(i, *x, y)), _ => None }).take(CAP).collect();
    match out {
        Outcome::Abort(why, msg) => {
            // a run with a reference-able mass that was cut by the work budget although y' = M^-1 f is solvable
            let unsolved = has_reference_mass(case) && case.max_steps.is_none() && mass_reference(case, case.xend).is_some();
            lines.push(json!({"e": "abort", "id": case.id, "why": why, "msg": msg, "mass_unsolved": unsolved}));
        }
        Outcome::Err(name) => lines.push(json!({"e": "ret", "id": case.id, "kind": "err", "status": name, "fs": fs_fact, "nodes": nodes_fact})),
        Outcome::Low { status, h: _, nfev, njev, nlu, nstep, naccpt, nrejct } => {
            lines.push(json!({"e": "ret", "id": case.id, "kind": "low", "status": status, "nfev": nfev, "njev": njev, "nlu": nlu,
                              "nstep": nstep, "naccpt": naccpt, "nrejct": nrejct, "fs": fs_fact, "nodes": nodes_fact, "oded": oded, "cbd": cbd}));
        }
        Outcome::Sol(s) => {
            // were there stepper evaluations closer than 1.2e-12 to each other? (steps at the scale of the
            // output handler's absolute 1e-12 tolerance; used only to classify findings)
            let mut ts: Vec<f64> = log.iter().filter_map(|e| match e { Ev::Ode { t, injac: false, .. } => Some(*t), _ => None }).filter(|t| t.is_finite()).collect();
            ts.sort_by(|a, b| a.partial_cmp(b).unwrap());
            ts.dedup();
            let tiny = ts.windows(2).any(|w| (w[1] - w[0]).abs() <= 1.2e-12);
            let mut r = ret_line(case, s, &rk, fs_fact, nodes_fact, dir, tiny);
            r["oded"] = json!(oded);
            r["cbd"] = json!(cbd);
            lines.push(r);
        }
    }
    lines
}

fn ret_line(case: &Case, s: &Solution, rk: &Ranker, fs_fact: Value, nodes_fact: Value, dir: f64, tiny: bool) -> Value {
    let tj = |t: f64| json!({"r": rk.rank(t), "b": tok(t)});
    let n = case.y0.len();
    let finite = s.y.iter().all(|v| v.iter().all(|x| x.is_finite())) && s.t.iter().all(|x| x.is_finite());
    // dense facts: probe sol at every stored t, at both ends, and clearly outside
    let mut sol = Vec::new();
    let mut sol_at_t_ok = true;      // sol(t_i) reproduces y_i (to rounding)
    let mut sol_at_t_fail = 0usize;
    let cls = |r: &Result<Vec<f64>, ivp::error::Error>| -> &'static str {
        match r {
            Ok(_) => "ok",
            Err(ivp::error::Error::Interpolation(ivp::error::InterpolationError::OutOfRange { .. })) => "oor",
            Err(ivp::error::Error::Interpolation(ivp::error::InterpolationError::NotEnabled)) => "ne",
            Err(_) => "other",
        }
    };
    let mut span = json!({"lo": {"r": -1, "b": ""}, "hi": {"r": -1, "b": ""}, "hi_tol": -1});
    let mut all_inside_ok = true;
    let mut outside_oor = true;
    let mut many_ok = true;
    let rel = if case.method == "BDF" { 1e-7 } else { 1e-9 };
    let spanv = s.sol_span();
    if let Some((a, b)) = spanv {
        // hi_tol: the covered end plus the output handler's 1e-12 slack (a requested time that close
        // behind the last step is still reported)
        span = json!({"lo": tj(a), "hi": tj(b), "hi_tol": rk.rank(b + dir * 1.5e-12)});
    }
    // the 1e-12 slack zone only exists for a requested time reported just behind a premature stop
    let slack_zone = case.t_eval.is_some() && s.status != Status::Success;
    let beyond_span = |t: f64| -> bool { slack_zone && match spanv { Some((_, b)) => dir * (t - b) > 0.0, None => false } };
    for (i, t) in s.t.iter().enumerate() {
        let r = catch(|| s.sol(*t));
        match r {
            Ok(r) => {
                let c = cls(&r);
                if case.dense && !beyond_span(*t) {
                    if c != "ok" { all_inside_ok = false; }
                    if let Ok(v) = &r {
                        let mut ok = v.len() == s.y[i].len();
                        if ok {
                            // the stored times are themselves rounded: moving t by an ulp moves the value by y' ulp(t)
                            // (matters at large offsets only: 64 eps |t| max|f|)
                            let mut fv = vec![0.0; v.len()];
                            if !fv.is_empty() { case.problem.f(*t, &s.y[i], &mut fv); }
                            let fmax = fv.iter().fold(0.0f64, |a, b| if b.is_finite() { a.max(b.abs()) } else { a });
                            let xround = 64.0 * f64::EPSILON * t.abs() * fmax;
                            for j in 0..v.len() {
                                let sc = v[j].abs().max(s.y[i][j].abs()).max(1e-300);
                                if !((v[j] - s.y[i][j]).abs() <= rel * sc + 1e-12 + xround) && !(v[j].is_nan() && s.y[i][j].is_nan()) { ok = false; }
                            }
                        }
                        if !ok { sol_at_t_ok = false; sol_at_t_fail += 1; }
                    }
                }
                if sol.len() < 6 { sol.push(json!({"t": tj(*t), "res": c})); }
                if !case.dense && c != "ne" { all_inside_ok = false; }
            }
            Err(_) => { all_inside_ok = false; sol.push(json!({"t": tj(*t), "res": "panic"})); }
        }
    }
    if case.dense {
        if let Some((a, b)) = spanv {
            let w = (b - a).abs();
            // interior probes incl. segment joints are covered by s.t; add midpoints
            for i in 0..s.t.len().saturating_sub(1) {
                let m = 0.5 * (s.t[i] + s.t[i + 1]);
                if let Ok(r) = catch(|| s.sol(m)) { if cls(&r) != "ok" { all_inside_ok = false; } } else { all_inside_ok = false; }
            }
            for d in [1e-9 * (1.0 + a.abs().max(b.abs())), 0.1 * (1.0 + w)] {
                for t in [a.min(b) - d, a.max(b) + d] {
                    if let Ok(r) = catch(|| s.sol(t)) { if cls(&r) != "oor" { outside_oor = false; } } else { outside_oor = false; }
                }
            }
            let _ = dir;
            // a run that covered no interval (zero-length run, no accepted step): the continuous solution is the stored
            // initial state over the whole of its (tiny) span and of the range slack around it
            if s.t.len() == 1 && s.y.len() == 1 && w <= 1e-12 {
                for t in [a, b, a - 5e-13, b + 5e-13, 0.5 * (a + b)] {
                    match catch(|| s.sol(t)) {
                        Ok(Ok(v)) => {
                            let y = &s.y[0];
                            if v.len() != y.len() || v.iter().zip(y.iter()).any(|(p, q)| !((p - q).abs() <= 1e-9 * q.abs().max(1e-300)) && !(p.is_nan() && q.is_nan())) {
                                sol_at_t_ok = false;
                                sol_at_t_fail += 1;
                            }
                        }
                        _ => { all_inside_ok = false; }
                    }
                }
            }
            // sol_many over the stored times
            let inside: Vec<f64> = s.t.iter().copied().filter(|t| !beyond_span(*t)).collect();
            let mut batches: Vec<Vec<f64>> = vec![inside.clone(), inside.iter().rev().copied().collect()];
            // an unsorted batch incl. interior points
            let mut mixed: Vec<f64> = Vec::new();
            for i in 0..inside.len().saturating_sub(1) { mixed.push(0.5 * (inside[i] + inside[i + 1])); }
            let m2: Vec<f64> = mixed.iter().rev().step_by(2).copied().chain(mixed.iter().step_by(3).copied()).collect();
            batches.push(m2);
            for bt in batches {
                match catch(|| s.sol_many(&bt)) {
                    Ok(Ok(v)) => {
                        if v.len() != bt.len() { many_ok = false; }
                        for (q, t) in bt.iter().enumerate() {
                            match catch(|| s.sol(*t)) {
                                Ok(Ok(one)) => { if one.len() != v[q].len() || one.iter().zip(v[q].iter()).any(|(a, b)| a.to_bits() != b.to_bits() && !(a.is_nan() && b.is_nan())) { many_ok = false; } }
                                _ => { many_ok = false; }
                            }
                        }
                    }
                    _ => { many_ok = false; }
                }
            }
        }
    }
    // events: |g(te, ye)| and y_e vs sol(te)
    let mut ev_facts = Vec::new();
    for (i, e) in case.events.iter().enumerate() {
        let mut v = Vec::new();
        for j in 0..s.t_events.get(i).map(|x| x.len()).unwrap_or(0) {
            let te = s.t_events[i][j];
            let ye = &s.y_events[i][j];
            let g = case.problem.event(e, te, ye);
            // scale of g: |dg/dt| is unknown; use value scale of the terms
            let gs = match e.kind.as_str() { "y0-a" => ye[0].abs().max(e.a.abs()).max(1.0), "t-c" => te.abs().max(e.a.abs()).max(1.0), _ => 1.0 };
            let mut ye_sol = true;
            if case.dense {
                if let Ok(Ok(v2)) = catch(|| s.sol(te)) {
                    for q in 0..v2.len() { if !((v2[q] - ye[q]).abs() <= rel * v2[q].abs().max(ye[q].abs()) + 1e-12) { ye_sol = false; } }
                } else { ye_sol = false; }
            }
            // located to root-finder accuracy in t: along the library's own continuous solution the event function
            // changes sign (or vanishes) within +-1e-9 (1 + |t_e|) of t_e - 500 times the root finder's own tolerance
            // (2e-12 + 4 eps |t|).  An event AT a step end where g vanishes exactly (a zero touched without a sign change
            // counts, as in SciPy) is accepted on that ground; the value of g being small does not make it a root.
            // Only decided where both probes are inside the dense span and all step ends are reported (no t_eval).
            let mut g_brk = true;
            if case.dense && case.t_eval.is_none() && ye.len() == n && n > 0 {
                let dlt = 1e-9 * (1.0 + te.abs());
                let at_end = s.t.iter().any(|t| t.to_bits() == te.to_bits());
                if let (Ok(Ok(ya)), Ok(Ok(yb))) = (catch(|| s.sol(te - dlt)), catch(|| s.sol(te + dlt))) {
                    let (ga, gb) = (case.problem.event(e, te - dlt, &ya), case.problem.event(e, te + dlt, &yb));
                    let crossing = (ga <= 0.0 && gb >= 0.0) || (ga >= 0.0 && gb <= 0.0);
                    if ga.is_finite() && gb.is_finite() && !crossing && !(at_end && g == 0.0) { g_brk = false; }
                }
            }
            v.push(json!({"t": tj(te), "g_small": g.abs() <= 1e-6 * gs, "g_brk": g_brk, "ye_dim": ye.len() == n, "ye_sol": ye_sol}));
        }
        ev_facts.push(v);
    }
    // sign of each event function at every reported sample
    let gsign: Vec<Vec<i64>> = case.events.iter().map(|e| s.t.iter().zip(s.y.iter()).map(|(t, y)| sgn_str(case.problem.event(e, *t, y))).collect()).collect();
    // max_step facts on reported intervals (only meaningful without t_eval) and on dense segments
    let mut steps_ok_100 = true;
    let mut steps_ok_101 = true;
    let mut worst = 0.0f64;
    if let Some(ms) = case.max_step {
        let ms = ms.abs();
        // the reported intervals are the accepted steps only when nothing was filtered: no t_eval / first_step pinning,
        // and no step below the handler's 1e-12 duplicate filter (then naccpt + 1 samples are stored)
        // (with first_step the pinned first output splits a step: every reported interval is still part of one step)
        let fs_in_scope = case.first_step.map_or(false, |h0| h0.abs() <= ms && h0.abs() <= (case.xend - case.x0).abs());
        if case.t_eval.is_none() && ((case.first_step.is_none() && s.naccpt + 1 == s.t.len()) || (fs_in_scope && !tiny && case.method != "RK4")) {
            let m = s.t.len();
            for i in 0..m.saturating_sub(1) {
                let h = (s.t[i + 1] - s.t[i]).abs();
                let lim = ms * (1.0 + 8.0 * f64::EPSILON) + ulps(s.t[i].abs().max(s.t[i + 1].abs()), 4.0);
                let lim101 = 1.01 * ms * (1.0 + 8.0 * f64::EPSILON) + ulps(s.t[i].abs().max(s.t[i + 1].abs()), 4.0);
                let last = i + 2 == m;
                if h > lim && !(last && h <= lim101) { if h > lim101 { steps_ok_101 = false; } steps_ok_100 = false; }
                worst = worst.max(h / ms);
            }
        }
    }
    // differential-algebraic problems: the algebraic constraint holds at every stored sample, the run succeeds and
    // the differential components agree with the reduced ordinary system integrated by DOP853 at 1e-11
    let mut dae = json!({"has": false, "res_ok": true, "solved": true, "ref_ok": true});
    if case.problem.constraint(&case.y0).is_some() && case.problem.copies == 1 {
        let thr = 1.0e3 * (case.rtol[0] + case.atol[0]);
        let res_ok = s.y.iter().all(|y| case.problem.constraint(y).map_or(true, |c| c.abs() <= thr));
        let solved = s.status == ivp::status::Status::Success;
        let mut ref_ok = true;
        if solved {
            struct Red(Problem);
            impl IVP for Red {
                fn ode(&self, x: f64, y: &[f64], d: &mut [f64]) { self.0.f(x, y, d) }
            }
            let red = Red(Problem::new("dae3red", 0.0));
            let (u0, v0) = case.problem.dae_uv(&case.y0).unwrap();
            let o = Options::builder().method(Method::DOP853).rtol(Tolerance::Scalar(1e-11)).atol(Tolerance::Scalar(1e-13)).build();
            let tl = *s.t.last().unwrap();
            match catch(|| solve_ivp(&red, case.x0, tl, &[u0, v0], o)) {
                Ok(Ok(r)) => {
                    let (u, v) = case.problem.dae_uv(s.y.last().unwrap()).unwrap();
                    let yr = r.y.last().unwrap();
                    ref_ok = (u - yr[0]).abs() <= thr * (1.0 + yr[0].abs()) && (v - yr[1]).abs() <= thr * (1.0 + yr[1].abs());
                }
                _ => {}
            }
        }
        dae = json!({"has": true, "res_ok": res_ok, "solved": solved, "ref_ok": ref_ok});
    }
    // first_step (not larger than max_step or the span, no t_eval): the first reported interval is first_step - once the
    // run has got that far, the sample after x0 is x0 +- |first_step| (the handler pins it there)
    let mut fs_iv = json!({"has": false, "ok": true});
    if let Some(h0) = case.first_step {
        let appl = case.t_eval.is_none() && h0 != 0.0 && h0.abs() <= (case.xend - case.x0).abs() && case.max_step.map(|m| h0.abs() <= m.abs()).unwrap_or(true);
        let target = case.x0 + dir * h0.abs();
        if appl && s.t.len() >= 2 && s.t.iter().any(|t| dir * (*t - target) >= 0.0) {
            fs_iv = json!({"has": true, "ok": (s.t[1] - target).abs() <= ulps(target.abs().max(case.x0.abs()), 4.0)});
        }
    }
    // nonsingular non-identity mass: the result agrees with integrating y' = M^-1 f directly (DOP853 at 1e-11)
    let mut massref = json!({"has": false, "ok": true});
    if has_reference_mass(case) && n > 0 && (s.status == Status::Success || case.max_steps.is_none()) {
        // the reference runs over the whole interval: where it succeeds (the problem is solvable) Radau must succeed too
        let solved = s.status == Status::Success;
        let tl = if solved { *s.t.last().unwrap() } else { case.xend };
        let thr = 1.0e3 * (case.rtol[0] + case.atol[0]);
        if let Some(yb) = mass_reference(case, tl) {
            let ya = s.y.last().unwrap();
            let ok = solved && ya.iter().zip(yb.iter()).all(|(a, b)| (a - b).abs() <= thr * (1.0 + b.abs()));
            massref = json!({"has": true, "ok": ok});
        }
    }
    json!({
        "e": "ret", "id": case.id, "kind": "sol", "status": status_name(s.status), "tiny": tiny, "dae": dae, "massref": massref, "fs_iv": fs_iv,
        "t": s.t.iter().map(|t| tj(*t)).collect::<Vec<_>>(),
        "ylen": s.y.len(), "ydims_ok": s.y.iter().all(|v| v.len() == n), "finite": finite,
        "yd": s.t.iter().zip(s.y.iter()).map(|(t, y)| mdigest(&case.map, *t, y)).collect::<Vec<_>>(),
        "copies_eq": s.y.iter().all(|y| copies_equal(&case.map, y)),
        "ylast": s.y.last().map(|v| toks(v)).unwrap_or_default(),
        "t_events": s.t_events.iter().map(|v| v.iter().map(|t| tj(*t)).collect::<Vec<_>>()).collect::<Vec<_>>(),
        "y_events_len": s.y_events.iter().map(|v| v.len()).collect::<Vec<_>>(),
        "ev": ev_facts, "gsign": gsign,
        "evd": s.t_events.iter().zip(s.y_events.iter()).map(|(tv, yv)| tv.iter().zip(yv.iter()).map(|(t, y)| mdigest(&case.map, *t, y)).collect::<Vec<_>>()).collect::<Vec<_>>(),
        "nfev": s.nfev, "njev": s.njev, "nlu": s.nlu, "nstep": s.nstep, "naccpt": s.naccpt, "nrejct": s.nrejct,
        "span": span, "hasspan": spanv.is_some(),
        "sol": {"inside_ok": all_inside_ok, "outside_oor": outside_oor, "at_t_ok": sol_at_t_ok, "at_t_fail": sol_at_t_fail, "many_ok": many_ok, "probes": sol},
        "ms": {"ok100": steps_ok_100, "ok101": steps_ok_101, "worst_ratio_milli": (worst * 1000.0).min(1e9) as i64},
        "fs": fs_fact, "nodes": nodes_fact,
    })
}

//! Shared helpers for the conformance harness.
pub mod util;
pub mod problems;
pub mod recorder;

//! Shared helpers for the conformance harness.
pub mod util;

//! Closed-form test problems for the recorder.  Accuracy is not what is checked, the protocol is:
//! the problems are cheap, and cover smooth / blow-up / non-finite / discontinuous / stiff behaviour.

use ivp::matrix::Matrix;
use serde::{Deserialize, Serialize};

#[derive(Clone, Debug, Serialize, Deserialize)]
pub struct EventSpec {
    /// "y0-a": y[0]-a ; "t-c": t-c ; "y0y1": y[0]*y[1]
    pub kind: String,
    pub a: f64,
    /// "All" | "Pos" | "Neg"
    pub dir: String,
    /// 0 = not terminal, k = terminal after k occurrences
    pub term: usize,
}

#[derive(Clone, Debug, Serialize, Deserialize)]
pub struct Problem {
    /// const1, decay, sho, logistic, blow2, tan, signc, stiff, robertson, vdp, nan_after, inf_after,
    /// nan_always, lin2, lin3, cube, refl:<kind> (time reflection of <kind>), copies handled by `copies`
    pub kind: String,
    /// generic parameter (rate, c, t*, mu ...)
    pub p: f64,
    /// number of independent identical copies (>= 1)
    #[serde(default = "one")]
    pub copies: usize,
    /// time reflection: integrate z' = -f(-s, z)
    #[serde(default)]
    pub reflect: bool,
    /// multiply the right-hand side by 2^fscale (used with mass = 2^k I)
    #[serde(default)]
    pub fscale: i32,
}
fn one() -> usize {
    1
}

impl Problem {
    pub fn new(kind: &str, p: f64) -> Self {
        Problem { kind: kind.to_string(), p, copies: 1, reflect: false, fscale: 0 }
    }
    pub fn base_dim(&self) -> usize {
        match self.kind.as_str() {
            "sho" | "vdp" | "vdpe" | "lin2" => 2,
            "robertson" | "lin3" | "dae3a" | "dae3b" => 3,
            "dae3red" => 2,
            "chain4" | "cascade4" | "grow4" => 4,
            "empty" => 0,
            _ => 1,
        }
    }
    pub fn dim(&self) -> usize {
        self.base_dim() * self.copies
    }
    /// a reasonable initial state for one copy
    pub fn y0_base(&self) -> Vec<f64> {
        match self.kind.as_str() {
            "const1" => vec![0.0],
            "decay" | "stiff" | "nan_after" | "inf_after" | "nan_always" | "cube" => vec![1.0],
            "sho" => vec![1.0, 0.0],
            "logistic" => vec![0.125],
            "blow2" => vec![1.0],
            "relaxc" => vec![-3.996e9],
            "tan" => vec![0.0],
            "signc" => vec![0.0],
            "robertson" => vec![1.0, 0.0, 0.0],
            "vdp" => vec![2.0, 0.0],
            "vdpe" => vec![2.0, -0.66],
            "lin2" => vec![1.0, 0.5],
            "lin3" => vec![1.0, -0.5, 0.25],
            // index-1 DAE 0 = a - u v, u' = -2u + a, v' = -v + sin t, consistent initial values (algebraic equation first / last)
            "dae3a" => vec![0.5, 1.0, 0.5],
            "dae3b" => vec![1.0, 0.5, 0.5],
            "dae3red" => vec![1.0, 0.5],
            "chain4" | "cascade4" => vec![1.0, 0.0, 0.0, 0.0],
            "grow4" => vec![1.0; 4],
            "empty" => vec![],
            _ => vec![1.0],
        }
    }
    fn f_base(&self, t: f64, y: &[f64], d: &mut [f64]) {
        let p = self.p;
        match self.kind.as_str() {
            "const1" => d[0] = 1.0,
            "decay" => d[0] = -p * y[0],
            "stiff" => d[0] = -p * y[0],
            "sho" => {
                d[0] = y[1];
                d[1] = -y[0];
            }
            "logistic" => d[0] = y[0] * (1.0 - y[0]),
            "blow2" => d[0] = y[0] * y[0],
            "tan" => d[0] = 1.0 + y[0] * y[0],
            "signc" => d[0] = if t < p { -1.0 } else { 1.0 },
            "cube" => d[0] = -y[0] * y[0] * y[0],
            // stiff relaxation towards cos t with rate p
            "relax" => d[0] = -p * (y[0] - t.cos()),
            // nonlinear relaxation towards cos t: -p (e^3 + e) - sin t with e = y - cos t (exact solution cos t from y(0) = 1)
            "cubrelax" => { let e = y[0] - t.cos(); d[0] = -p * (e * e * e + e) - t.sin(); }
            // relaxation with rate p towards a large negative constant (states of magnitude 4e9)
            "relaxc" => d[0] = -p * (y[0] - (-4.0e9)),
            // -y until t = p, then the very stiff -1e4 y^3
            "switch3" => d[0] = if t < p { -y[0] } else { -1.0e4 * y[0] * y[0] * y[0] },
            // -k(t) y^3 with k jumping from 1 to 1e4 at t = p: a step straddling the jump fails in Newton
            "kjump3" => d[0] = -(if t < p { 1.0 } else { 1.0e4 }) * y[0] * y[0] * y[0],
            // leaves the domain of the right-hand side at t = 2 (y reaches 0): NaN afterwards
            "sqrtneg" => d[0] = -y[0].sqrt(),
            "robertson" => {
                d[0] = -0.04 * y[0] + 1.0e4 * y[1] * y[2];
                d[1] = 0.04 * y[0] - 1.0e4 * y[1] * y[2] - 3.0e7 * y[1] * y[1];
                d[2] = 3.0e7 * y[1] * y[1];
            }
            "vdp" => {
                d[0] = y[1];
                d[1] = p * ((1.0 - y[0] * y[0]) * y[1]) - y[0];
            }
            // Van der Pol in the singular-perturbation form, p = eps
            "vdpe" => {
                d[0] = y[1];
                d[1] = ((1.0 - y[0] * y[0]) * y[1] - y[0]) / p;
            }
            "nan_after" => d[0] = if t < p { -y[0] } else { f64::NAN },
            "inf_after" => d[0] = if t < p { -y[0] } else { f64::INFINITY },
            "nan_always" => d[0] = f64::NAN,
            // linear homogeneous systems with small dyadic coefficients (exact under 2^k scaling)
            "lin2" => {
                d[0] = -0.5 * y[0] + 2.0 * y[1];
                d[1] = -2.0 * y[0] - 0.25 * y[1];
            }
            // lower-bidiagonal chain with strong sub-diagonal coupling p (forces row interchanges in the LU)
            "chain4" => {
                d[0] = -y[0];
                d[1] = p * y[0] - y[1];
                d[2] = p * y[1] - y[2];
                d[3] = p * y[2] - y[3];
            }
            // forced tridiagonal cascade: y_i' = -(1+i/2) y_i + p y_{i-1} - y_{i+1}/2 (+ cos(0.3 t) for i = 0)
            "cascade4" => {
                for i in 0..4 {
                    let left = if i > 0 { y[i - 1] } else { 0.0 };
                    let right = if i < 3 { y[i + 1] } else { 0.0 };
                    d[i] = -(1.0 + 0.5 * i as f64) * y[i] + p * left - 0.5 * right + if i == 0 { (0.3 * t).cos() } else { 0.0 };
                }
            }
            // uncoupled growth with rates p, 2p, 4p, 8p (p = u1/h or alpha/h makes the iteration matrix of an implicit
            // method exactly singular at step h, h/2, h/4, h/8)
            "grow4" => {
                for i in 0..4 { d[i] = p * (1u32 << i) as f64 * y[i]; }
            }
            "dae3a" => {
                d[0] = y[0] - y[1] * y[2];
                d[1] = -2.0 * y[1] + y[0];
                d[2] = -y[2] + t.sin();
            }
            "dae3b" => {
                d[0] = -2.0 * y[0] + y[2];
                d[1] = -y[1] + t.sin();
                d[2] = y[2] - y[0] * y[1];
            }
            "dae3red" => {
                d[0] = -2.0 * y[0] + y[0] * y[1];
                d[1] = -y[1] + t.sin();
            }
            "lin3" => {
                d[0] = -y[0] + 0.5 * y[1];
                d[1] = -0.5 * y[0] - 2.0 * y[1] + y[2];
                d[2] = -y[1] - 4.0 * y[2];
            }
            _ => d[0] = 0.0,
        }
    }
    fn jac_base(&self, _t: f64, y: &[f64], j: &mut [f64]) {
        // row-major base_dim x base_dim
        let p = self.p;
        match self.kind.as_str() {
            "const1" | "signc" | "nan_always" => j[0] = 0.0,
            "decay" | "stiff" => j[0] = -p,
            "nan_after" | "inf_after" => j[0] = -1.0,
            "sho" => {
                j[0] = 0.0;
                j[1] = 1.0;
                j[2] = -1.0;
                j[3] = 0.0;
            }
            "logistic" => j[0] = 1.0 - 2.0 * y[0],
            "blow2" => j[0] = 2.0 * y[0],
            "tan" => j[0] = 2.0 * y[0],
            "cube" => j[0] = -3.0 * y[0] * y[0],
            "relax" | "relaxc" => j[0] = -p,
            "cubrelax" => { let e = y[0] - _t.cos(); j[0] = -p * (3.0 * e * e + 1.0); }
            "switch3" => j[0] = if _t < p { -1.0 } else { -3.0e4 * y[0] * y[0] },
            "kjump3" => j[0] = -3.0 * (if _t < p { 1.0 } else { 1.0e4 }) * y[0] * y[0],
            "sqrtneg" => j[0] = -0.5 / y[0].sqrt(),
            "robertson" => {
                j[0] = -0.04;
                j[1] = 1.0e4 * y[2];
                j[2] = 1.0e4 * y[1];
                j[3] = 0.04;
                j[4] = -1.0e4 * y[2] - 6.0e7 * y[1];
                j[5] = -1.0e4 * y[1];
                j[6] = 0.0;
                j[7] = 6.0e7 * y[1];
                j[8] = 0.0;
            }
            "vdp" => {
                j[0] = 0.0;
                j[1] = 1.0;
                j[2] = p * (-2.0 * y[0] * y[1]) - 1.0;
                j[3] = p * (1.0 - y[0] * y[0]);
            }
            "vdpe" => {
                j[0] = 0.0;
                j[1] = 1.0;
                j[2] = (-2.0 * y[0] * y[1] - 1.0) / p;
                j[3] = (1.0 - y[0] * y[0]) / p;
            }
            "lin2" => {
                j[0] = -0.5;
                j[1] = 2.0;
                j[2] = -2.0;
                j[3] = -0.25;
            }
            "chain4" => {
                for v in j.iter_mut() { *v = 0.0; }
                for r in 0..4 { j[r * 4 + r] = -1.0; }
                for r in 1..4 { j[r * 4 + r - 1] = p; }
            }
            "cascade4" => {
                for v in j.iter_mut() { *v = 0.0; }
                for r in 0..4 {
                    j[r * 4 + r] = -(1.0 + 0.5 * r as f64);
                    if r > 0 { j[r * 4 + r - 1] = p; }
                    if r < 3 { j[r * 4 + r + 1] = -0.5; }
                }
            }
            "grow4" => {
                for v in j.iter_mut() { *v = 0.0; }
                for r in 0..4 { j[r * 4 + r] = p * (1u32 << r) as f64; }
            }
            "dae3a" => {
                j[0] = 1.0; j[1] = -y[2]; j[2] = -y[1];
                j[3] = 1.0; j[4] = -2.0; j[5] = 0.0;
                j[6] = 0.0; j[7] = 0.0; j[8] = -1.0;
            }
            "dae3b" => {
                j[0] = -2.0; j[1] = 0.0; j[2] = 1.0;
                j[3] = 0.0; j[4] = -1.0; j[5] = 0.0;
                j[6] = -y[1]; j[7] = -y[0]; j[8] = 1.0;
            }
            "dae3red" => {
                j[0] = -2.0 + y[1]; j[1] = y[0];
                j[2] = 0.0; j[3] = -1.0;
            }
            "lin3" => {
                j[0] = -1.0;
                j[1] = 0.5;
                j[2] = 0.0;
                j[3] = -0.5;
                j[4] = -2.0;
                j[5] = 1.0;
                j[6] = 0.0;
                j[7] = -1.0;
                j[8] = -4.0;
            }
            _ => j[0] = 0.0,
        }
    }

    /// right-hand side of the (possibly reflected / copied / scaled) problem
    pub fn f(&self, t: f64, y: &[f64], d: &mut [f64]) {
        let m = self.base_dim();
        let (tt, sg) = if self.reflect { (-t, -1.0) } else { (t, 1.0) };
        let sc = (2.0f64).powi(self.fscale);
        for c in 0..self.copies {
            self.f_base(tt, &y[c * m..(c + 1) * m], &mut d[c * m..(c + 1) * m]);
        }
        if self.reflect || self.fscale != 0 {
            for v in d.iter_mut() {
                *v = sg * *v * sc;
            }
        }
    }

    /// analytic Jacobian written through IndexMut (works for Full and for Banded wide enough)
    pub fn jac(&self, t: f64, y: &[f64], j: &mut Matrix) {
        let m = self.base_dim();
        let (tt, sg) = if self.reflect { (-t, -1.0) } else { (t, 1.0) };
        let sc = (2.0f64).powi(self.fscale);
        let mut jb = vec![0.0; m * m];
        let band = match j.storage {
            ivp::matrix::MatrixStorage::Banded { ml, mu } => Some((ml as isize, mu as isize)),
            _ => None,
        };
        for c in 0..self.copies {
            self.jac_base(tt, &y[c * m..(c + 1) * m], &mut jb);
            for r in 0..m {
                for q in 0..m {
                    let (gi, gj) = (c * m + r, c * m + q);
                    if let Some((ml, mu)) = band {
                        let k = gi as isize - gj as isize;
                        if k < -mu || k > ml {
                            continue;
                        }
                    }
                    j[(gi, gj)] = sg * jb[r * m + q] * sc;
                }
            }
        }
    }

    /// index-1 DAE problems: residual of the algebraic constraint at a state, and the (u, v) components
    pub fn constraint(&self, y: &[f64]) -> Option<f64> {
        match self.kind.as_str() {
            "dae3a" => Some(y[0] - y[1] * y[2]),
            "dae3b" => Some(y[2] - y[0] * y[1]),
            _ => None,
        }
    }
    pub fn dae_uv(&self, y: &[f64]) -> Option<(f64, f64)> {
        match self.kind.as_str() {
            "dae3a" => Some((y[1], y[2])),
            "dae3b" => Some((y[0], y[1])),
            _ => None,
        }
    }

    /// half bandwidth of the Jacobian of the composed problem
    pub fn bandwidth(&self) -> usize {
        match self.kind.as_str() {
            "empty" => 0,
            "lin3" | "chain4" | "cascade4" => 1,
            "dae3a" | "dae3b" => 2,
            _ => self.base_dim() - 1,
        }
    }

    pub fn event(&self, e: &EventSpec, t: f64, y: &[f64]) -> f64 {
        // the time-reflected problem sees the same event surfaces in original time
        let t = if self.reflect { -t } else { t };
        match e.kind.as_str() {
            "y0-a" => y[0] - e.a,
            "t-c" => t - e.a,
            "y0y1" => y[0] * y[1],
            "y1" => y[1],
            // a time event of small magnitude: scale (t - a)
            k if k.starts_with("st-c:") => k[5..].parse::<f64>().unwrap_or(1.0) * (t - e.a),
            // strongly convex in time: exp(rate (t - a)) - 1
            k if k.starts_with("expt:") => (k[5..].parse::<f64>().unwrap_or(1.0) * (t - e.a)).exp() - 1.0,
            _ => 1.0,
        }
    }
}

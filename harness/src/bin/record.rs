//! Records real runs of solve_ivp / the low-level solvers as NDJSON traces for Trace_Stepper.tla.
//!
//! usage: record <family> <quick|thorough> <seed> <out.ndjson> [--only <case.json>]
//! families: core adversarial lowlevel observer budget terminal symmetry storage teval events
//!
//! Every family is a deterministic corner sweep plus a seed-driven random sweep over the same space.
//! Relational families emit `pair` lines that reference the line numbers of the two runs compared.

use ivp_verif_harness::problems::{EventSpec, Problem};
use ivp_verif_harness::recorder::*;
use ivp_verif_harness::util::{silence_panics, Rng};
use serde_json::{json, Value};
use std::io::{BufWriter, Write};

const METHODS: [&str; 6] = ["RK4", "RK23", "DOPRI5", "DOP853", "RADAU", "BDF"];
const ADAPTIVE: [&str; 5] = ["RK23", "DOPRI5", "DOP853", "RADAU", "BDF"];

struct Out {
    w: BufWriter<std::fs::File>,
    line: u64,
    next_id: u64,
    runs: u64,
    /// ids of cases that hung in an earlier attempt (wall-clock watchdog of the driver): not executed again
    skip: Vec<u64>,
}

struct Done {
    id: u64,
    call_line: u64,
    ret_line: u64,
    sol: Option<ivp::solve::Solution>,
    low_naccpt: usize,
    status: String,
}

impl Out {
    fn emit(&mut self, v: &Value) {
        writeln!(self.w, "{}", v).unwrap();
        self.line += 1;
    }
    fn run(&mut self, mut case: Case) -> Done {
        self.next_id += 1;
        self.runs += 1;
        case.id = self.next_id;
        let instr = Instr::new(&case);
        // announce the case before running it, so that the driver's watchdog can name a hanging case
        eprintln!("START {} {}", case.id, case_json(&case));
        let out = if self.skip.contains(&case.id) { Outcome::Abort("watchdog".into(), String::new()) } else { execute(&case, &instr) };
        let lines = trace(&case, &instr, &out);
        let call_line = self.line + 1;
        for l in &lines {
            self.emit(l);
        }
        let ret_line = self.line;
        let (sol, low_naccpt, status) = match out {
            Outcome::Sol(s) => {
                let st = format!("{:?}", s.status);
                (Some(s), 0, st)
            }
            Outcome::Low { naccpt, status, .. } => (None, naccpt, status),
            Outcome::Err(e) => (None, 0, e),
            Outcome::Abort(w, _) => (None, 0, format!("abort:{}", w)),
        };
        Done { id: case.id, call_line, ret_line, sol, low_naccpt, status }
    }
    fn pair(&mut self, prop: &str, mode: &str, a: &Done, b: &Done, note: &str) {
        self.pair_f(prop, mode, a, b, note, true);
    }
    /// `fact`: a relational fact computed here from the two returned solutions (named in `note`)
    fn pair_f(&mut self, prop: &str, mode: &str, a: &Done, b: &Done, note: &str, fact: bool) {
        let v = json!({"e": "pair", "prop": prop, "mode": mode, "a": a.id, "b": b.id, "ca": a.call_line, "la": a.ret_line,
                       "cb": b.call_line, "lb": b.ret_line, "note": note, "fact": fact});
        self.emit(&v);
    }
}

fn base(method: &str, prob: Problem, x0: f64, xend: f64) -> Case {
    let mut y0 = Vec::new();
    for _ in 0..prob.copies {
        y0.extend(prob.y0_base());
    }
    Case {
        id: 0, api: "solve_ivp".into(), method: method.into(), problem: prob, x0, xend, y0,
        rtol: vec![1e-3], atol: vec![1e-6], tol_vec: false, dir_code: 0, first_step: None, max_step: None, max_steps: None, min_step: None, t_eval: None, dense: false,
        events: vec![], jac: "fd".into(), jac_storage: "full".into(), mass_storage: "identity".into(), mass: "none".into(),
        script: vec![], tags: vec![], budget: None, low_nodense: false, low_nosolout: false, probe_restart: false, map: "id".into(),
    }
}

/// every event the non-terminal run `a` reports strictly before the stop of the terminal run `b` is reported by `b` too
fn keeps_earlier(a: &Done, b: &Done, dir: f64) -> bool {
    let (sa, sb) = match (&a.sol, &b.sol) { (Some(x), Some(y)) => (x, y), _ => return true };
    if b.status != "UserInterrupt" { return true; }
    let tstop = match sb.t.last() { Some(t) => *t, None => return true };
    for i in 0..sa.t_events.len() {
        for (j, te) in sa.t_events[i].iter().enumerate() {
            if dir * (tstop - *te) > 0.0 {
                match sb.t_events.get(i).and_then(|v| v.get(j)) {
                    Some(tb) if tb.to_bits() == te.to_bits() => {}
                    _ => return false,
                }
            }
        }
    }
    true
}

/// event lists of the reflected run mirror those of the reference run (counts equal, times to 1e-9)
fn events_mirror(a: &Done, b: &Done) -> bool {
    let (sa, sb) = match (&a.sol, &b.sol) { (Some(x), Some(y)) => (x, y), _ => return true };
    if sa.t_events.len() != sb.t_events.len() { return false; }
    for i in 0..sa.t_events.len() {
        if sa.t_events[i].len() != sb.t_events[i].len() { return false; }
        for j in 0..sa.t_events[i].len() {
            let (ta, tb) = (sa.t_events[i][j], sb.t_events[i][j]);
            if !((ta + tb).abs() <= 1e-9 * (1.0 + ta.abs())) { return false; }
        }
    }
    true
}

/// duplication "leaves the step sequence and each copy's solution unchanged up to rounding in the error norm": the same
/// number of reported times, times equal to 1e-6 (1 + |t|) and the first copy's states equal to 1e-5 (1 + |y|)
/// (the counters are compared exactly by the trace specification)
fn copies_close(a: &Done, b: &Done) -> bool {
    let (sa, sb) = match (&a.sol, &b.sol) { (Some(x), Some(y)) => (x, y), _ => return true };
    if sa.t.len() != sb.t.len() { return false; }
    for i in 0..sa.t.len() {
        if !((sa.t[i] - sb.t[i]).abs() <= 1e-6 * (1.0 + sa.t[i].abs())) { return false; }
        let n = sa.y[i].len();
        if sb.y[i].len() < n { return false; }
        for q in 0..n {
            let (u, v) = (sa.y[i][q], sb.y[i][q]);
            if !((u - v).abs() <= 1e-5 * (1.0 + u.abs())) && !(u.is_nan() && v.is_nan()) { return false; }
        }
    }
    true
}

/// where a requested time coincides bit-for-bit with an accepted step end of the grid run, the reported value is the
/// state of that step end to rounding
fn grid_values_ok(grid: &Done, tev: &Done, rel: f64) -> bool {
    let (sg, st) = match (&grid.sol, &tev.sol) { (Some(x), Some(y)) => (x, y), _ => return true };
    for (i, t) in st.t.iter().enumerate() {
        if let Some(k) = sg.t.iter().position(|g| g.to_bits() == t.to_bits()) {
            if st.status == ivp::status::Status::UserInterrupt && i + 1 == st.t.len() { continue; }
            for q in 0..sg.y[k].len() {
                let (u, v) = (sg.y[k][q], st.y[i][q]);
                if !((u - v).abs() <= rel * u.abs().max(v.abs()) + 1e-12) { return false; }
            }
        }
    }
    true
}

fn linspace(a: f64, b: f64, n: usize) -> Vec<f64> {
    (0..n).map(|i| if i + 1 == n { b } else { a + (b - a) * (i as f64) / ((n - 1) as f64) }).collect()
}

fn spans(quick: bool) -> Vec<(f64, f64)> {
    let mut v = vec![(0.0, 1.0), (1.0, 0.0), (-2.0, -1.5), (0.5, -0.75), (-1.0, 0.026), (1.0, -0.013)];
    if !quick {
        v.extend([(0.0, 2.5), (3.0, 1.0), (10.0, 10.5), (0.0, 1e-9), (0.0, -1e-9), (1.0, 1.0 + 1e-11)]);
    }
    v
}

fn smooth_problems() -> Vec<Problem> {
    vec![Problem::new("decay", 1.0), Problem::new("sho", 0.0), Problem::new("logistic", 0.0), Problem::new("const1", 0.0), Problem::new("lin2", 0.0)]
}

// ------------------------------------------------------------------------------------------ core
/// C03 / C06 / C11 / C18 / C04(benign): solve_ivp over methods x directions x option corners.
fn fam_core(o: &mut Out, quick: bool, rng: &mut Rng) {
    let probs = smooth_problems();
    for (mi, m) in METHODS.iter().enumerate() {
        for (si, (x0, xend)) in spans(quick).iter().enumerate() {
            let span = xend - x0;
            let p = probs[(mi + si) % probs.len()].clone();
            let mk = || base(m, p.clone(), *x0, *xend);
            let mut variants: Vec<(Case, &str)> = Vec::new();
            let mut essential: Vec<(Case, &str)> = Vec::new();
            variants.push((mk(), "plain"));
            let mut c = mk(); c.dense = true; variants.push((c, "dense"));
            let mut c = mk(); c.max_step = Some(span.abs() / 4.0); c.dense = true; variants.push((c, "max_step_divides"));
            let mut c = mk(); c.max_step = Some(f64::INFINITY); variants.push((c, "max_step_inf"));
            let mut c = mk(); c.first_step = Some(span / 8.0); c.dense = true; variants.push((c, "first_step_eighth"));
            let mut c = mk(); c.first_step = Some(span); variants.push((c, "first_step=span"));
            let mut c = mk(); c.first_step = Some(span * 2.0); variants.push((c, "first_step>span"));
            let mut c = mk(); c.first_step = Some(span * 0.3); variants.push((c, "first_step_0.3"));
            if *m != "RK4" {
                let mut c = mk(); c.first_step = Some(-span / 8.0); variants.push((c, "first_step_wrongsign"));
                let mut c = mk(); c.first_step = Some(span / 8.0); c.max_step = Some(span.abs() / 16.0); variants.push((c, "first_step>max_step"));
            }
            let mut c = mk(); c.first_step = Some(span * 10.0); c.max_step = Some(f64::INFINITY); variants.push((c, "first_step>span+max_step_inf"));
            let mut c = mk(); c.t_eval = Some(linspace(*x0, *xend, 5)); variants.push((c, "t_eval5"));
            let mut c = mk(); c.t_eval = Some(linspace(*x0, *xend, 5)); c.dense = true; variants.push((c, "t_eval5+dense"));
            let mut c = mk(); c.max_steps = Some(3); variants.push((c, "max_steps3"));
            let mut c = mk(); c.max_steps = Some(1); c.dense = true; variants.push((c, "max_steps1"));
            let mut c = mk(); c.rtol = vec![1e-7]; c.atol = vec![1e-10]; variants.push((c, "tight"));
            let mut c = mk(); c.rtol = vec![1e-8]; c.atol = vec![1e-8]; c.first_step = Some(span); variants.push((c, "tight+first_step=span"));

            if *m == "RADAU" || *m == "BDF" {
                let mut c = mk(); c.jac = "user".into(); c.dense = true; variants.push((c, "userjac"));
            }
            if p.dim() > 1 {
                let mut c = mk(); c.rtol = vec![1e-4; p.dim()]; c.atol = vec![1e-7; p.dim()]; variants.push((c, "vector_tol"));
            }
            // corner variants that are always run
            let mut c = mk(); c.max_step = Some(span.abs() / 10.0); c.first_step = Some(span / 10.0); essential.push((c, "max_step=first_step=span/10"));
            let mut c = base(m, Problem::new("decay", 1e-3), *x0, *xend); c.max_step = Some(span.abs() * 0.02); essential.push((c, "slow+max_step_small"));
            let mut c = base(m, Problem::new("decay", 1e-3), *x0, *xend); c.max_step = Some(f64::INFINITY); essential.push((c, "slow+max_step_inf"));
            let mut c = mk(); c.rtol = vec![1e-8]; c.atol = vec![1e-8]; c.first_step = Some(span * 2.5); c.max_step = Some(f64::INFINITY); essential.push((c, "tight+first_step>span"));
            let mut c = mk(); c.max_step = Some(span.abs() * 0.3); essential.push((c, "max_step_0.3"));
            if *m != "RK4" {
                // the budget runs out before any step is accepted (oversized first step at a tight tolerance)
                let mut c = mk(); c.rtol = vec![1e-9]; c.atol = vec![1e-12]; c.first_step = Some(span); c.max_steps = Some(1); c.dense = true;
                essential.push((c, "no_accepted_step+dense"));
            }
            for (mut c, tag) in essential.drain(..) {
                c.tags = vec![tag.to_string()];
                o.run(c);
            }
            let keep = if quick { 9 } else { variants.len() };
            // quick: rotate which of the other variants are kept so that all of them occur across methods/spans
            let rot = (mi * 5 + si * 3) % variants.len();
            for i in 0..variants.len().min(keep) {
                let (mut c, tag) = variants[(i + rot) % variants.len()].clone();
                c.tags = vec![tag.to_string()];
                o.run(c);
            }
        }
    }
    // the interval is a whole number of max_step plus a remainder of less than 1% (the landing stretch must cover it)
    for m in ADAPTIVE {
        for (x0, dirn) in [(0.0, 1.0), (1.0, -1.0)] {
            for frac in [0.005, 0.0099, 0.0002] {
                let ms = 0.1;
                let mut c = base(m, Problem::new("decay", 0.001), x0, x0 + dirn * ms * (10.0 + frac));
                c.max_step = Some(ms);
                c.jac = "user".into();
                c.tags = vec!["max_step_remainder_below_1pct".into()];
                o.run(c.clone());
                c.first_step = Some(dirn * ms);
                c.tags = vec!["max_step_remainder_below_1pct+first_step".into()];
                o.run(c);
            }
        }
    }
    // Radau on a nonlinear problem, xend swept across the step grid (the kept-step fast path next to the landing test)
    for (i, tol) in [1e-6, 1e-8, 1e-9].iter().enumerate() {
        for k in 0..(if quick { 10 } else { 40 }) {
            for dirn in [1.0, -1.0] {
                if dirn < 0.0 && k % 2 == 1 { continue; }
                let xe = 3.1 + 0.0437 * k as f64 + 0.011 * i as f64;
                let mut c = base("RADAU", Problem::new("vdp", 1.0), 0.0, dirn * xe);
                c.problem.reflect = dirn < 0.0;
                c.rtol = vec![*tol];
                c.atol = vec![*tol * 1e-2];
                c.jac = "user".into();
                c.tags = vec!["radau_xend_sweep".into()];
                o.run(c);
            }
        }
    }
    // first_step beyond the interval together with a max_step inside it
    for m in ADAPTIVE {
        for (x0, xend) in [(0.0, 1.0), (1.0, 0.0)] {
            for (tol, tag) in [(1e-3, "loose"), (1e-8, "tight")] {
                let mut c = base(m, Problem::new("decay", 1.0), x0, xend);
                c.rtol = vec![tol];
                c.atol = vec![tol * 1e-3];
                c.first_step = Some((xend - x0) * 2.0);
                c.max_step = Some(0.25);
                c.t_eval = if tag == "loose" { Some(linspace(x0, xend, 11)) } else { None };
                c.tags = vec![format!("first_step>span+max_step<span+{}", tag)];
                o.run(c);
            }
        }
    }
    // first_step = max_step with a mildly rejected first attempt: the pinned first output, then steps of at most max_step
    for m in ADAPTIVE {
        for e in 0..(if quick { 8 } else { 24 }) {
            let tol = 10f64.powf(-2.0 - 0.25 * e as f64);
            let mut c = base(m, Problem::new("decay", 1.0), 0.0, 5.0);
            c.rtol = vec![tol];
            c.atol = vec![tol * 1e-3];
            c.first_step = Some(0.5);
            c.max_step = Some(0.5);
            c.jac = "user".into();
            c.tags = vec!["first_step=max_step+tolerance_scan".into()];
            o.run(c);
        }
    }
    // small non-zero x0 with a comparatively large first step: x0 + h lies in a higher binade than x0
    for m in METHODS {
        for (x0, xend, fs) in [(1e-3, 2.001, 0.05), (-1e-3, -2.001, -0.5), (1e-2, 1.01, 0.5), (0.3e-3, -1.0, -0.05)] {
            let mut c = base(m, Problem::new("decay", 1.0), x0, xend);
            c.first_step = Some(fs);
            c.dense = true;
            c.tags = vec!["small_x0+first_step".into()];
            o.run(c);
        }
    }
    // implicit methods driven into Newton failures / rejections (oversized first step on a nonlinear problem)
    for m in ["RADAU", "BDF"] {
        for (x0, xend, fs) in [(0.0, 5.0, 2.0), (5.0, 0.0, -2.0), (0.0, 3.0, 3.0)] {
            for jac in ["fd", "user"] {
                let mut c = base(m, Problem::new("vdp", 1.0), x0, xend);
                c.first_step = Some(fs);
                c.jac = jac.into();
                c.tags = vec!["newton_stress".into()];
                o.run(c);
            }
        }
        let mut c = base(m, Problem::new("signc", 0.37), 0.0, 1.0);
        c.first_step = Some(0.5);
        c.tags = vec!["newton_stress_discontinuous".into()];
        o.run(c);
    }
    // a jump in the stiffness of a nonlinear law inside the interval: Newton fails on a Jacobian that was kept
    for m in ["RADAU", "BDF"] {
        for refl in [false, true] {
            for (jac, tol) in [("user", 1e-7), ("fd", 1e-7), ("user", 1e-4)] {
                let mut c = base(m, Problem::new("kjump3", 1.0), 0.0, if refl { -2.0 } else { 2.0 });
                c.problem.reflect = refl;
                c.jac = jac.into();
                c.rtol = vec![tol];
                c.atol = vec![tol];
                c.tags = vec!["newton_fail_kept_jacobian".into()];
                o.run(c);
            }
        }
    }
    // step budgets running out inside a run of rejections; lower step bound (min_step) with a failing right-hand side
    for m in ["RADAU", "BDF"] {
        for ms in [1usize, 2, 3, 6] {
            let mut c = base(m, Problem::new("vdp", 50.0), 0.0, 5.0);
            c.first_step = Some(0.5);
            c.max_steps = Some(ms);
            c.tags = vec!["newton_stress+budget".into()];
            o.run(c);
        }
        // a switch to a very stiff law shortly before xend: the landing step is attempted with a stale Jacobian
        for k in 0..(if quick { 6 } else { 24 }) {
            let xend = 1.9 + 0.01 * k as f64;
            let mut c = base(m, Problem::new("switch3", xend - 0.02), 0.0, xend);
            c.jac = "user".into();
            c.tags = vec!["stiff_switch_before_xend".into()];
            o.run(c);
        }
    }
    // max_step far below the solvers' built-in first-step guesses
    for m in METHODS {
        for (x0, xend) in [(0.0, 1e-5), (2.0, 2.0 - 1e-5)] {
            let mut c = base(m, Problem::new("decay", 1.0), x0, xend);
            c.max_step = Some(2.5e-7);
            c.tags = vec!["max_step_tiny".into()];
            o.run(c);
        }
    }
    // accepted steps not longer than the handler's / the segment lookup's 1e-12 at the start of a run, with dense output
    for m in METHODS {
        for (x0, xend, fs) in [(0.0, 1e-10, 1e-13), (0.0, -1e-10, -1e-13), (0.0, 1.0, 1e-14)] {
            let mut c = base(m, Problem::new("decay", 1.0), x0, xend);
            c.first_step = Some(fs);
            c.dense = true;
            if xend.abs() > 0.5 { c.max_steps = Some(2); }
            c.tags = vec!["tiny_first_step+dense".into()];
            o.run(c);
        }
    }
    // a large time offset (Julian-date like): steps of 1e-7 are many ulps of x0 but far below 1e-12 |x0|
    for m in METHODS {
        for dir in [1.0, -1.0] {
            let x0 = 2_460_000.5;
            let mut c = base(m, Problem::new("lin2", 0.0), x0, x0 + dir * 1e-5);
            c.first_step = Some(dir * 1e-7);
            c.max_step = Some(2e-7);
            c.jac = "user".into();
            c.tags = vec!["large_offset+first_step".into()];
            o.run(c.clone());
            let mut c2 = c.clone();
            c2.first_step = None;
            if m == "RK4" { c2.first_step = Some(dir * 2e-7); }
            c2.dense = true;
            c2.tags = vec!["large_offset+max_step".into()];
            o.run(c2);
        }
    }
    // a strongly convex event function whose root lies in a long first / last step: the root finder's trial points stay
    // inside the step (the event functions are never evaluated outside the interval)
    for m in METHODS {
        let nc = if quick { 40 } else { 240 };
        for i in 0..nc {
            let rate = 3.0 + 5.5 * ((i * 7919) % 101) as f64 / 101.0;
            let cpos = 0.45 + 0.5 * ((i * 104729) % 97) as f64 / 97.0;
            for (x0, xend) in [(0.0, 1.0), (1.0, 0.0)] {
                let lam = if i % 2 == 0 { 0.0 } else { 1.0 };
                let mut c = base(m, Problem::new("decay", lam), x0, xend);
                if m == "RK4" { c.first_step = Some(xend - x0); }
                c.events = vec![EventSpec { kind: format!("expt:{}", rate), a: x0 + (xend - x0) * cpos, dir: "All".into(), term: 0 }];
                c.tags = vec!["convex_event_long_step".into()];
                o.run(c);
            }
        }
    }
    // a first_step longer than the interval carrying the sign of a backward run, and a negative one on a forward run
    for m in METHODS {
        for (x0, xend, fs) in [(0.25, 0.0, -1.0), (2.0, 1.0, -4.0), (0.0, 0.25, -1.0)] {
            let mut c = base(m, Problem::new("lin2", 0.0), x0, xend);
            c.first_step = Some(fs);
            c.tags = vec!["first_step>span+negative_sign".into()];
            o.run(c.clone());
            c.dense = true;
            c.t_eval = Some(linspace(x0, xend, 4));
            c.tags = vec!["first_step>span+negative_sign+t_eval+dense".into()];
            o.run(c);
        }
    }
    // a flat start (f = 0 at x0 and at the probe point) with a max_step below hinit's fallback step
    for m in METHODS {
        for (x0, xend) in [(0.0, 4.0e-6), (4.0e-6, 0.0)] {
            let mut c = base(m, Problem::new("logistic", 0.0), x0, xend);
            c.y0 = vec![1.0];
            c.jac = "user".into();
            c.max_step = Some(2.5e-7);
            if m == "RK4" { c.first_step = Some(2.5e-7); }
            c.tags = vec!["flat_start+max_step_below_1e-6".into()];
            o.run(c);
        }
    }
    // degenerate front-end cases
    for m in METHODS {
        let mut c = base(m, Problem::new("decay", 1.0), 2.0, 2.0); c.dense = true; c.tags = vec!["zero_interval".into()]; o.run(c);
        let mut c = base(m, Problem::new("decay", 1.0), 2.0, 2.0); c.t_eval = Some(vec![2.0, 2.0]); c.tags = vec!["zero_interval+t_eval".into()]; o.run(c);
        // far from the origin x0 + 1e-15 == x0
        for x0 in [50.0, -1.0e3, 1.0e6] {
            let mut c = base(m, Problem::new("lin2", 0.0), x0, x0); c.dense = true; c.tags = vec!["zero_interval_far".into()]; o.run(c);
        }
    }
    // empty state vector: nothing to integrate
    for m in METHODS {
        for v in 0..3 {
            let mut c = base(m, Problem::new("empty", 0.0), 0.5, 1.5);
            if v == 1 { c.dense = true; }
            if v == 2 { c.t_eval = Some(linspace(0.5, 1.5, 4)); }
            c.tags = vec!["empty_state".into()];
            o.run(c);
        }
    }
    // RK4 through solve_ivp: max_step bounds the fixed step (the default hundredth of the interval as well as a given
    // first_step), and first_step means the same with either sign, as for the adaptive methods
    for (x0, xend) in [(0.0, 5.0), (1.0, -4.0)] {
        for ms in [0.02, 0.0371] {
            let mut c = base("RK4", Problem::new("sho", 0.0), x0, xend);
            c.max_step = Some(ms);
            c.tags = vec!["rk4+max_step_below_default_step".into()];
            o.run(c);
        }
        let mut c = base("RK4", Problem::new("sho", 0.0), x0, xend);
        c.max_step = Some(0.3);
        c.tags = vec!["rk4+max_step_above_default_step".into()];
        o.run(c);
        let h = (xend - x0) / 16.0;
        let mut a = base("RK4", Problem::new("sho", 0.0), x0, xend);
        a.first_step = Some(h);
        a.max_step = Some(1.0);
        a.tags = vec!["rk4+first_step_signed".into()];
        let ra = o.run(a.clone());
        for hs in [h.abs(), -h.abs()] {
            let mut b = a.clone();
            b.first_step = Some(hs);
            b.tags = vec!["rk4+first_step_other_sign".into()];
            let rb = o.run(b);
            o.pair("C11", "equal", &ra, &rb, "the sign of first_step does not matter (RK4 as the adaptive methods)");
        }
    }
    // infinite xend with a terminal event
    for m in ADAPTIVE {
        let mut c = base(m, Problem::new("const1", 0.0), 0.0, f64::INFINITY);
        c.events = vec![EventSpec { kind: "y0-a".into(), a: 2.0, dir: "All".into(), term: 1 }];
        c.max_steps = Some(500);
        c.tags = vec!["xend_inf+terminal".into()];
        o.run(c);
    }
    // huge span, cheap problem
    for m in ["RK23", "DOPRI5", "DOP853"] {
        let mut c = base(m, Problem::new("const1", 0.0), 0.0, 1e6); c.tags = vec!["huge_span".into()]; o.run(c);
    }
    // seeded random sweep
    let nr = if quick { 40 } else { 600 };
    for _ in 0..nr {
        let m = *rng.pick(&METHODS);
        let p = rng.pick(&probs).clone();
        let x0 = *rng.pick(&[0.0, 1.0, -3.0, 0.25]);
        let len = *rng.pick(&[1.0, 0.5, 2.0, 0.125, 3.0]);
        let xend = if rng.chance(0.5) { x0 + len } else { x0 - len };
        let mut c = base(m, p, x0, xend);
        let e = rng.below(6) as i32;
        c.rtol = vec![10f64.powi(-3 - e)];
        c.atol = vec![10f64.powi(-6 - e)];
        if rng.chance(0.3) { c.dense = true; }
        if rng.chance(0.3) { c.max_step = Some(len * *rng.pick(&[0.5, 0.25, 0.1, 1.0, 0.37])); }
        if rng.chance(0.3) { c.first_step = Some((xend - x0) * *rng.pick(&[0.01, 0.1, 0.5, 1.0, 1.5])); }
        if rng.chance(0.25) { let k = 2 + rng.below(7); c.t_eval = Some(linspace(x0, xend, k)); }
        if rng.chance(0.15) { c.max_steps = Some(1 + rng.below(20)); }
        if (m == "RADAU" || m == "BDF") && rng.chance(0.5) { c.jac = "user".into(); }
        c.tags = vec!["random".into()];
        o.run(c);
    }
}

// ------------------------------------------------------------------------------------- adversarial
/// C04: blow-up, NaN/inf part-way, discontinuous, stiff with explicit methods.
fn fam_adversarial(o: &mut Out, quick: bool, _rng: &mut Rng) {
    let probs: Vec<(Problem, f64, f64, &str)> = vec![
        (Problem::new("blow2", 0.0), 0.0, 2.0, "blowup_y2"),
        (Problem::new("tan", 0.0), 0.0, 3.0, "blowup_tan"),
        (Problem::new("nan_after", 0.5), 0.0, 1.0, "nan_after"),
        (Problem::new("inf_after", 0.5), 0.0, 1.0, "inf_after"),
        (Problem::new("nan_always", 0.0), 0.0, 1.0, "nan_always"),
        (Problem::new("signc", 0.3), 0.0, 1.0, "discontinuous"),
        (Problem::new("stiff", 1e6), 0.0, 0.01, "stiff_1e6"),
        (Problem::new("cube", 0.0), 0.0, 5.0, "cube"),
    ];
    for m in ADAPTIVE {
        for (p, x0, xend, tag, tol) in [
            (Problem::new("blow2", 0.0), 0.0, 1.02, "blowup_y2_near_xend", 1e-2),
            (Problem::new("blow2", 0.0), 0.0, 1.0001, "blowup_y2_near_xend", 1e-2),
            (Problem::new("tan", 0.0), 0.0, 1.6, "blowup_tan_near_xend", 1e-2),
            (Problem::new("nan_after", 0.5), 0.0, 0.55, "nan_near_xend", 1e-3),
            (Problem::new("nan_after", 0.5), 0.0, 0.7, "nan_near_xend", 1e-3),
            (Problem::new("inf_after", 0.5), 0.0, 0.52, "inf_near_xend", 1e-3),
            (Problem::new("sqrtneg", 0.0), 0.0, 3.0, "domain_error", 1e-3),
        ] {
            let mut c = base(m, p, x0, xend);
            c.rtol = vec![tol];
            c.atol = vec![tol];
            c.budget = Some(300_000);
            c.tags = vec![tag.to_string()];
            o.run(c.clone());
            if m == "RADAU" || m == "BDF" {
                let mut c2 = c.clone();
                c2.jac = "user".into();
                c2.tags = vec![tag.to_string(), "userjac".into()];
                o.run(c2);
            }
        }
    }
    // a lower bound on the step size must not turn a failing right-hand side into endless retries
    for m in ["RADAU", "BDF"] {
        for (p, tag) in [(Problem::new("nan_after", 0.5), "nan_after+min_step"), (Problem::new("blow2", 0.0), "blowup_y2+min_step")] {
            for ms in [None, Some(2000usize)] {
                let mut c = base(m, p.clone(), 0.0, 2.0);
                c.min_step = Some(1e-3);
                c.max_steps = ms;
                c.budget = Some(300_000);
                c.tags = vec![tag.to_string(), if ms.is_some() { "finite_budget".into() } else { "default_budget".into() }];
                o.run(c);
            }
        }
    }
    // a discontinuous right-hand side early in a long interval: the step size recovers after the jump was located
    for m in ADAPTIVE {
        for (x0, xend) in [(0.0, 100.0), (2.0, -100.0)] {
            let mut c = base(m, Problem::new("signc", 1.0), x0, xend);
            c.rtol = vec![1e-9];
            c.atol = vec![1e-9];
            c.budget = Some(300_000);
            c.tags = vec!["discontinuity_then_long_interval".into(), "default_budget".into()];
            o.run(c);
        }
    }
    for c in singular_cases() {
        o.run(c.clone());
        let mut c2 = c.clone();
        c2.max_steps = Some(200_000);
        c2.tags.push("finite_budget".into());
        o.run(c2);
    }
    // the same pathologies on the negative axis (guards that compare with |x|), in both directions, and a non-finite
    // region that begins shortly before xend (the step that runs into it is the one cut to land on xend)
    for m in METHODS {
        for (p, x0, xend, tag) in [(Problem::new("nan_after", -1.5), -3.0, -1.0, "nan_after_negative_axis"),
                                   (Problem::new("inf_after", -1.5), -3.0, -1.0, "inf_after_negative_axis"),
                                   (Problem::new("blow2", 0.0), -3.0, 0.0, "blowup_y2_negative_axis"),
                                   (Problem::new("nan_after", 1.9), 0.0, 2.0, "nan_shortly_before_xend"),
                                   (Problem::new("inf_after", 1.93), 0.0, 2.0, "inf_shortly_before_xend"),
                                   (Problem::new("nan_after", -1.1), -3.0, -1.0, "nan_shortly_before_xend_negative_axis")] {
            let mut c = base(m, p, x0, xend);
            c.budget = Some(300_000);
            if m == "RK4" { c.first_step = Some((xend - x0) / 64.0); }
            c.tags = vec![tag.to_string(), "default_budget".into()];
            o.run(c.clone());
            if m != "RK4" {
                let mut c2 = c.clone();
                c2.rtol = vec![1e-6];
                c2.atol = vec![1e-9];
                c2.tags = vec![tag.to_string(), "tight".into()];
                o.run(c2);
            }
        }
    }
    for m in METHODS {
        for (p, x0, xend, tag) in &probs {
            if m == "RK4" && (*tag == "stiff_1e6") { continue; }
            let budgets: Vec<Option<usize>> = if quick { vec![None, Some(200)] } else { vec![None, Some(50), Some(1000)] };
            for ms in budgets {
                let mut c = base(m, p.clone(), *x0, *xend);
                c.max_steps = ms;
                c.budget = Some(if quick { 300_000 } else { 2_000_000 });
                c.tags = vec![tag.to_string(), if ms.is_some() { "finite_budget".into() } else { "default_budget".into() }];
                if !quick && ms.is_none() { c.dense = true; }
                o.run(c.clone());
                // the first step is cut to land on xend (first_step and max_step larger than the interval)
                if ms.is_none() && m != "RK4" && (*tag == "nan_after" || *tag == "inf_after" || *tag == "blowup_y2") {
                    let mut c2 = c.clone();
                    let span = xend - x0;
                    c2.xend = x0 + span * if *tag == "blowup_y2" { 1.0 } else { 0.6 };
                    c2.first_step = Some(span * 4.0);
                    c2.max_step = Some(f64::INFINITY);
                    c2.tags = vec![tag.to_string(), "first_step>span+max_step_inf".into()];
                    o.run(c2);
                    let mut c3 = c.clone();
                    c3.t_eval = Some(linspace(*x0, *xend, 9));
                    c3.tags = vec![tag.to_string(), "t_eval".into()];
                    o.run(c3);
                }
            }
        }
    }
}

/// Radau / BDF runs whose iteration matrix is exactly singular at the first step size and again after each of the next
/// three halvings (C04: the retry with the halved step ends; C11: singular passes count against the budget)
fn singular_cases() -> Vec<Case> {
    let mut v = Vec::new();
    // Radau factors u1/h - J (u1/h exact for h a power of two); BDF factors I - (h/alpha) J (h/alpha exact for h = alpha/2^k)
    let alpha1 = (1.0 - (-0.1850)) * 1.0_f64;
    for (m, x0, xend, h0, lam0) in [("RADAU", 0.0, 1.0, 0.5, 3.637_834_252_744_496_f64 / 0.5), ("RADAU", 0.0, 1.0, 0.25, 3.637_834_252_744_496 / 0.25),
                                    ("RADAU", 1.0, 0.0, 0.5, 3.637_834_252_744_496 / 0.5),
                                    ("BDF", 0.0, 1.0, alpha1 / 2.0, 2.0), ("BDF", 0.0, 1.0, alpha1 / 4.0, 4.0), ("BDF", 1.0, 0.0, alpha1 / 2.0, 2.0)] {
        {
            let lam = lam0 * if xend > x0 { 1.0 } else { -1.0 };
            let mut c = base(m, Problem::new("grow4", lam), x0, xend);
            c.rtol = vec![1e-4];
            c.atol = vec![1e-8];
            c.jac = "user".into();
            c.first_step = Some(h0);
            c.budget = Some(300_000);
            c.tags = vec!["singular_iteration_matrix".into()];
            v.push(c);
        }
    }
    v
}

// ---------------------------------------------------------------------------------------- lowlevel
/// C19 / C06 (per-step interpolant facts) / C18: low-level solvers with a recording, scripted SolOut.
fn fam_lowlevel(o: &mut Out, quick: bool, rng: &mut Rng) {
    let probs = vec![Problem::new("decay", 1.0), Problem::new("sho", 0.0), Problem::new("lin2", 0.0), Problem::new("logistic", 0.0), Problem::new("vdp", 5.0)];
    let sp = [(0.0, 1.0), (1.0, -0.5)];
    for (mi, m) in METHODS.iter().enumerate() {
        for (si, (x0, xend)) in sp.iter().enumerate() {
            let np = if quick { 2 } else { probs.len() };
            for pi in 0..np {
                let p = probs[(mi + si + pi) % probs.len()].clone();
                let mut c = base(m, p.clone(), *x0, *xend);
                c.api = "low".into();
                if *m == "RK4" { c.first_step = Some((xend - x0) / 10.0); }
                if (*m == "RADAU" || *m == "BDF") && pi % 2 == 1 { c.jac = "user".into(); }
                if *m == "RADAU" { c.mass_storage = "identity".into(); }
                c.tags = vec!["plain".into()];
                let plain = o.run(c.clone());
                let na = plain.low_naccpt.max(if *m == "RK4" { 10 } else { 0 });
                if plain.status != "Success" { continue; }
                // Interrupt at callback k
                let ks: Vec<usize> = if quick { vec![0, 1, na / 2, na] } else { (0..=na.min(12)).chain([na]).collect() };
                let mut seen = std::collections::BTreeSet::new();
                for k in ks {
                    if !seen.insert(k) { continue; }
                    let mut ci = c.clone();
                    ci.script = vec![Script { k, action: "interrupt".into() }];
                    ci.tags = vec!["interrupt".into()];
                    let r = o.run(ci);
                    o.pair("C19", "prefix_cb", &plain, &r, "interrupted run is a prefix of the plain run");
                }
                // Modified (unchanged) at some callbacks: must be a no-op on the trajectory
                let subsets: Vec<Vec<usize>> = if quick { vec![vec![0], vec![1, 2]] } else { vec![vec![0], vec![1], vec![na / 2], vec![1, 2, 3], vec![na.saturating_sub(1)]] };
                for ss in subsets {
                    let mut cm = c.clone();
                    cm.script = ss.iter().map(|k| Script { k: *k, action: "modify_same".into() }).collect();
                    cm.tags = vec!["modify_same".into()];
                    let r = o.run(cm);
                    o.pair("C19", "equal_cb", &plain, &r, "ModifiedSolution with an unchanged state is a no-op");
                }
            }
            // ControlFlag::XOut behaves like Continue as far as the integration is concerned (dense on and off)
            for nodense in [false, true] {
                if *m == "BDF" && nodense { continue; }
                let mut c = base(m, Problem::new("logistic", 0.0), *x0, *xend);
                c.api = "low".into();
                c.low_nodense = nodense;
                if *m == "RK4" { c.first_step = Some((xend - x0) / 9.0); }
                c.tags = vec![if nodense { "plain_nodense".into() } else { "plain_dense".into() }];
                let pl = o.run(c.clone());
                let mut cx = c.clone();
                cx.script = (0..6).map(|k| Script { k: 2 * k, action: "xout".into() }).collect();
                cx.probe_restart = true;       // whatever interpolant a step hands out is the step's own
                cx.tags = vec![if nodense { "xout_nodense".into() } else { "xout_dense".into() }];
                let xr = o.run(cx);
                o.pair("C19", "equal_cb", &pl, &xr, "returning XOut instead of Continue does not change the integration");
            }
            // the landing step is attempted first and rejected: first_step >= interval at a tight tolerance
            if *m != "RK4" {
                for fsf in [1.0, 10.0] {
                    let mut c = base(m, Problem::new("sho", 0.0), *x0, *xend);
                    c.api = "low".into();
                    c.rtol = vec![1e-8];
                    c.atol = vec![1e-8];
                    c.first_step = Some((xend - x0) * fsf);
                    c.max_step = Some(f64::INFINITY);
                    c.tags = vec![format!("tight+first_step={}span", fsf)];
                    o.run(c);
                }
            }
            if *m == "RADAU" && si == 0 {
                for k in 0..(if quick { 12 } else { 40 }) {
                    let xe = 1.8 + 0.0125 * k as f64;
                    let mut c = base(m, Problem::new("switch3", xe - 0.02), 0.0, xe);
                    c.api = "low".into();
                    c.jac = "user".into();
                    c.tags = vec!["stiff_switch_before_xend".into()];
                    o.run(c);
                }
            }
            if *m == "RK4" {
                // the fixed step does not divide the interval: the last step is shortened
                let mut c = base(m, Problem::new("sho", 0.0), *x0, *xend);
                c.api = "low".into();
                c.first_step = Some((xend - x0) * 0.3);
                c.tags = vec!["step_not_dividing".into()];
                o.run(c);
            }
            if *m == "DOP853" || *m == "RADAU" {
                // long runs (stiffness detection of DOP853 is reached; Radau reuses its collocation polynomial)
                let (p, xe) = if *m == "DOP853" { (Problem::new("vdp", 100.0), if quick { 60.0 } else { 200.0 }) } else { (Problem::new("robertson", 0.0), 400.0) };
                let mut c = base(m, p, 0.0, xe);
                c.api = "low".into();
                c.rtol = vec![1e-6];
                c.atol = vec![1e-10];
                c.jac = "user".into();
                c.tags = vec!["long_dense_ref".into()];
                let dr = o.run(c.clone());
                let mut cn = c.clone();
                cn.low_nodense = true;
                cn.tags = vec!["long_nodense".into()];
                let nd = o.run(cn);
                o.pair("C12", "equal_cb", &dr, &nd, "building dense coefficients or not does not change the integration");
            }
            // solvers built with dense_output(false): same protocol, no interpolant
            if *m != "BDF" {
                let mut c = base(m, Problem::new("logistic", 0.0), *x0, *xend);
                c.api = "low".into();
                c.low_nodense = true;
                if *m == "RK4" { c.first_step = Some((xend - x0) / 7.0); }
                c.tags = vec!["nodense".into()];
                let nd = o.run(c.clone());
                let mut cd = c.clone();
                cd.low_nodense = false;
                cd.tags = vec!["dense_ref".into()];
                let dr = o.run(cd);
                o.pair("C19", "equal_cb", &dr, &nd, "dense_output(false) does not change the accepted-step sequence");
                o.pair("C12", "equal_cb", &dr, &nd, "building dense coefficients or not does not change the integration");
            }
            // the solver called without a callback takes the same steps as with a passive one
            for (p, tol) in [(Problem::new("decay", 1.0), 1e-8), (Problem::new("vdp", 2.0), 1e-5)] {
                let mut c = base(m, p, *x0, *xend);
                c.api = "low".into();
                c.rtol = vec![tol];
                c.atol = vec![tol];
                c.jac = "user".into();
                if *m == "RK4" { c.first_step = Some((xend - x0) / 16.0); }
                c.tags = vec!["passive_callback".into()];
                let a = o.run(c.clone());
                let mut v = c.clone();
                v.low_nosolout = true;
                v.tags = vec!["no_callback".into()];
                let b = o.run(v);
                o.pair("C02", "equal_low", &a, &b, "solve(.., None) integrates like solve(.., Some(passive callback))");
                o.pair("C19", "equal_low", &a, &b, "solve(.., None) integrates like solve(.., Some(passive callback))");
            }
            // restart probes: the interpolant handed out for a step equals the one a fresh solver builds for that step
            if matches!(*m, "RK4" | "RK23" | "DOPRI5" | "DOP853") {
                for (p, tol) in [(Problem::new("sho", 0.0), 1e-6), (Problem::new("vdp", 2.0), 1e-4)] {
                    let mut c = base(m, p, *x0, *xend);
                    c.api = "low".into();
                    c.rtol = vec![tol];
                    c.atol = vec![tol * 1e-3];
                    c.probe_restart = true;
                    if *m == "RK4" { c.first_step = Some((xend - x0) / 23.0); }
                    c.tags = vec!["restart_probe".into()];
                    o.run(c);
                }
                // max_step in force, and a last step stretched by half a percent of max_step to land on xend
                if *m != "RK4" {
                    let mut c = base(m, Problem::new("sho", 0.0), *x0, *xend);
                    c.api = "low".into();
                    c.rtol = vec![1e-4];
                    c.atol = vec![1e-7];
                    c.max_step = Some((xend - x0).abs() / 10.005);
                    c.first_step = c.max_step;          // every step is max_step: ten of them leave 0.5% of one
                    c.probe_restart = true;
                    c.tags = vec!["restart_probe+max_step_remainder".into()];
                    o.run(c);
                }
                // a long run: more than 1000 accepted steps (periodic housekeeping of the steppers is reached)
                if si == 0 && *m != "RK4" {
                    let mut c = base(m, Problem::new("sho", 0.0), 0.0, if quick { 52.0 } else { 110.0 });
                    c.api = "low".into();
                    c.rtol = vec![1e-6];
                    c.atol = vec![1e-9];
                    c.max_step = Some(0.05);
                    c.probe_restart = true;
                    c.tags = vec!["restart_probe_long".into()];
                    o.run(c);
                }
            }
            // ModifiedSolution (state unchanged) at the initial callback of a run started with first_step: a no-op
            if *m != "RK4" {
                let mut c = base(m, Problem::new("sho", 0.0), *x0, *xend);
                c.api = "low".into();
                c.rtol = vec![1e-6];
                c.atol = vec![1e-9];
                c.first_step = Some((xend - x0) / 64.0);
                c.tags = vec!["plain+first_step".into()];
                let pl = o.run(c.clone());
                let mut cm = c.clone();
                cm.script = vec![Script { k: 0, action: "modify_same".into() }];
                cm.tags = vec!["modify_same@0+first_step".into()];
                let r = o.run(cm);
                o.pair("C19", "equal_cb", &pl, &r, "ModifiedSolution with an unchanged state at the initial callback is a no-op (first_step given)");
            }
            // a callback that restarts inside the step it was handed: moves x back to the middle of the step, writes the
            // interpolated state there and returns ModifiedSolution (non-autonomous problem)
            {
                let mut c = base(m, Problem::new("relax", 3.0), *x0, *xend);
                c.api = "low".into();
                c.rtol = vec![1e-5];
                c.atol = vec![1e-8];
                c.jac = "user".into();
                if *m == "RK4" { c.first_step = Some((xend - x0) / 16.0); }
                c.script = vec![Script { k: 2, action: "modify_back".into() }, Script { k: 5, action: "modify_back".into() }];
                c.tags = vec!["modify_back".into()];
                o.run(c);
            }
            // ModifiedSolution (state unchanged) at every callback from the tenth on of a long, steady run: whichever path
            // the solver takes after the callback, the derivative is re-evaluated at the state the callback left
            if *m != "BDF" {
                let mut c = base(m, Problem::new("lin2", 0.0), *x0, *x0 + (xend - x0) * 2.0);
                c.api = "low".into();
                c.rtol = vec![1e-6];
                c.atol = vec![1e-9];
                c.jac = "user".into();
                if *m == "RK4" { c.first_step = Some((xend - x0) / 32.0); }
                c.script = (10..90).map(|k| Script { k, action: "modify_same".into() }).collect();
                c.tags = vec!["modify_same_every_callback".into()];
                o.run(c);
            }
            // Radau started from exact data on a stiff nonlinear relaxation with an oversized first step: slowly converging
            // Newton iterations
            if *m == "RADAU" && si == 0 {
                for fs in [0.2, 0.7, 1.5, 0.4, 1.0] {
                    for api in ["low", "solve_ivp"] {
                        let mut c = base(m, Problem::new("cubrelax", 100.0), 0.0, 3.0);
                        c.api = api.into();
                        c.rtol = vec![1e-3];
                        c.atol = vec![1e-3];
                        c.first_step = Some(fs);
                        c.jac = "user".into();
                        c.tags = vec!["slow_newton".into()];
                        o.run(c);
                    }
                }
            }
            // Radau: an oversized first step on a nonlinear problem - the Newton iteration fails and the halved step is accepted
            if *m == "RADAU" && si == 0 {
                for (y0, fs) in [(1.0e-3, 3.5), (1.0e-4, 4.5), (1.0e-3, 7.0), (1.0e-2, 2.5)] {
                    for api in ["low", "solve_ivp"] {
                        for jac in ["user", "fd"] {
                            let mut c = base(m, Problem::new("logistic", 0.0), 0.0, 10.0);
                            c.api = api.into();
                            c.y0 = vec![y0];
                            c.rtol = vec![1e-3];
                            c.atol = vec![1e-3];
                            c.first_step = Some(fs);
                            c.jac = jac.into();
                            c.tags = vec!["newton_failure_then_accept".into()];
                            o.run(c);
                        }
                    }
                }
            }
            // doubling at the initial callback
            for p in [Problem::new("lin2", 0.0), Problem::new("decay", 1.0)] {
                let mut c = base(m, p, *x0, *xend);
                c.api = "low".into();
                c.atol = vec![0.0];
                c.rtol = vec![1e-4];
                c.jac = "user".into();
                if *m == "RK4" { c.first_step = Some((xend - x0) / 10.0); }
                let mut ca = c.clone();
                ca.script = vec![Script { k: 0, action: "modify_same".into() }];
                ca.tags = vec!["modify_same@0".into()];
                let a = o.run(ca);
                let mut cb = c.clone();
                cb.script = vec![Script { k: 0, action: "modify_x2".into() }];
                cb.tags = vec!["modify_x2@0".into()];
                let b = o.run(cb);
                o.pair("C19", "double_from:0", &a, &b, "doubling the state at the initial callback doubles everything that follows");
            }
            // doubling on a linear homogeneous problem with pure relative control
            for p in [Problem::new("lin2", 0.0), Problem::new("decay", 1.0)] {
                let mut c = base(m, p, *x0, *xend);
                c.api = "low".into();
                c.atol = vec![0.0];
                c.rtol = vec![1e-4];
                c.jac = "user".into();
                if *m == "RK4" { c.first_step = Some((xend - x0) / 10.0); }
                let k = 1 + rng.below(3);
                let mut ca = c.clone();
                ca.script = vec![Script { k, action: "modify_same".into() }];
                ca.tags = vec!["modify_same@k".into()];
                let a = o.run(ca);
                let mut cb = c.clone();
                cb.script = vec![Script { k, action: "modify_x2".into() }];
                cb.tags = vec!["modify_x2@k".into()];
                cb.map = "id".into();
                let b = o.run(cb);
                o.pair("C19", &format!("double_from:{}", k), &a, &b, "doubling the state doubles everything that follows");
            }
        }
    }
}

// ---------------------------------------------------------------------------------------- observer
/// C12: output options do not perturb the integration.
fn fam_observer(o: &mut Out, quick: bool, rng: &mut Rng) {
    let probs = smooth_problems();
    let ncase = if quick { 12 } else { 150 };
    for ci in 0..ncase {
        let m = METHODS[ci % METHODS.len()];
        let p = probs[(ci / METHODS.len() + ci) % probs.len()].clone();
        let x0 = *rng.pick(&[0.0, 1.0, -2.0]);
        let len = *rng.pick(&[1.0, 2.0, 0.5]);
        let xend = if ci % 2 == 0 { x0 + len } else { x0 - len };
        let mut c = base(m, p.clone(), x0, xend);
        let e = rng.below(5) as i32;
        c.rtol = vec![10f64.powi(-3 - e)];
        c.atol = vec![10f64.powi(-6 - e)];
        if (m == "RADAU" || m == "BDF") && rng.chance(0.5) { c.jac = "user".into(); }
        if ci % 3 == 0 { c.first_step = Some((xend - x0) * *rng.pick(&[1e-3, 0.05])); }
        c.tags = vec![if c.first_step.is_some() { "plain+first_step".into() } else { "plain".into() }];
        let a = o.run(c.clone());
        let evs = vec![EventSpec { kind: if p.dim() > 1 { "y0y1".into() } else { "y0-a".into() }, a: 0.7, dir: "All".into(), term: 0 },
                       EventSpec { kind: "t-c".into(), a: x0 + (xend - x0) * 0.37, dir: "All".into(), term: 0 }];
        for mask in 1..8u32 {
            if quick && !(mask == 1 || mask == 2 || mask == 4 || mask == 7) { continue; }
            let mut v = c.clone();
            if mask & 1 != 0 { v.t_eval = Some(linspace(x0, xend, 7)); }
            if mask & 2 != 0 { v.dense = true; }
            if mask & 4 != 0 { v.events = evs.clone(); }
            v.tags = vec![format!("observer_mask{}", mask)];
            let b = o.run(v);
            o.pair("C12", "observer", &a, &b, "t_eval/dense/events change only what is reported");
        }
        // an empty list of requested times is still only an output option
        {
            let mut v = c.clone();
            v.t_eval = Some(vec![]);
            v.tags = vec!["observer_teval_empty".into()];
            let b = o.run(v);
            o.pair("C12", "observer", &a, &b, "an empty t_eval changes only what is reported");
        }
        // requested times that end well before xend: the integration still runs to xend, unperturbed
        for dense in [false, true] {
            let mut v = c.clone();
            v.t_eval = Some(linspace(x0, x0 + 0.55 * (xend - x0), 4));
            v.dense = dense;
            v.tags = vec![if dense { "observer_teval_inside+dense".into() } else { "observer_teval_inside".into() }];
            let b = o.run(v);
            o.pair("C12", "observer", &a, &b, "t_eval ending inside the span changes only what is reported");
        }
        let mut v = c.clone();
        v.tags = vec!["repeat".into()];
        let b = o.run(v);
        o.pair("C12", "equal", &a, &b, "repeating the call gives bit-identical results");
    }
}

/// C12: a long, stability-limited explicit run that the stiffness detection cuts short stops at the same place whatever is
/// reported
fn fam_observer_stiff(o: &mut Out) {
    for m in ["DOP853", "DOPRI5"] {
        let mut c = base(m, Problem::new("relax", 2.0e4), 0.0, 1.5);
        c.y0 = vec![0.0];
        c.rtol = vec![1e-6];
        c.atol = vec![1e-8];
        c.tags = vec!["plain+stiff_long".into()];
        let a = o.run(c.clone());
        for (tag, te, dense) in [("teval", Some(linspace(0.0, 1.5, 7)), false), ("dense", None, true), ("teval+dense", Some(linspace(0.0, 1.5, 16)), true)] {
            let mut v = c.clone();
            v.t_eval = te;
            v.dense = dense;
            v.tags = vec![format!("stiff_long+{}", tag)];
            let b = o.run(v);
            o.pair("C12", "observer", &a, &b, "output options on a run that stiffness detection ends");
        }
    }
}

/// C12: a non-terminal event function added next to a terminal one, its root shortly before the terminal root in the same
/// step (both index orders, both directions): the run stops where it stopped without it
fn fam_observer_terminal(o: &mut Out) {
    let root = std::f64::consts::PI / 3.0;
    for m in METHODS {
        for dir in [1.0, -1.0] {
            for cnt in [1usize, 2] {
                let mut c = base(m, Problem::new("sho", 0.0), 0.0, dir * 8.0);
                c.rtol = vec![1e-5];
                c.atol = vec![1e-8];
                c.jac = "user".into();
                if m == "RK4" { c.first_step = Some(0.25); } else { c.max_step = Some(0.5); }
                let term = EventSpec { kind: "y0-a".into(), a: 0.5, dir: "All".into(), term: cnt };
                c.events = vec![term.clone()];
                c.tags = vec![format!("plain+terminal{}", cnt)];
                let a = o.run(c.clone());
                let obs = EventSpec { kind: "t-c".into(), a: dir * (root - 1.0e-4), dir: "All".into(), term: 0 };
                for (order, evs) in [("observer_first", vec![obs.clone(), term.clone()]), ("observer_second", vec![term.clone(), obs.clone()])] {
                    let mut v = c.clone();
                    v.events = evs;
                    v.tags = vec![format!("terminal{}+{}", cnt, order)];
                    let b = o.run(v);
                    o.pair("C12", "observer", &a, &b, "a non-terminal event next to a terminal one changes only what is reported");
                }
            }
        }
    }
}

/// C12: output options on intervals shorter than the output handler's absolute time tolerance
fn fam_observer_tinyspan(o: &mut Out) {
    for m in METHODS {
        for (x0, xend) in [(0.0, 4.0e-13), (0.0, -4.0e-13), (1.0, 1.0 + 2048.0 * f64::EPSILON), (1.0, 1.0 - 1024.0 * f64::EPSILON)] {
            let mut c = base(m, Problem::new("lin2", 0.0), x0, xend);
            c.tags = vec!["plain+tiny_interval".into()];
            let a = o.run(c.clone());
            for (tag, te, dense) in [("teval_ends", Some(vec![x0, xend]), false), ("teval_end", Some(vec![xend]), false),
                                     ("teval_mid+dense", Some(vec![x0, x0 + 0.5 * (xend - x0), xend]), true), ("dense", None, true)] {
                let mut v = c.clone();
                v.t_eval = te;
                v.dense = dense;
                v.tags = vec![format!("tiny_interval+{}", tag)];
                let b = o.run(v);
                o.pair("C12", "observer", &a, &b, "output options on a tiny interval change only what is reported");
            }
        }
    }
}

/// C12: first_step whose first attempt is rejected (the handler skips outputs up to the pinned one); more than 100 requested times
fn fam_observer_firststep(o: &mut Out) {
    for m in METHODS {
        for (x0, xend) in [(0.0, 2.0), (2.0, 0.0)] {
            let mut c = base(m, Problem::new("sho", 0.0), x0, xend);
            c.rtol = vec![1e-8];
            c.atol = vec![1e-10];
            c.jac = "user".into();
            if m != "RK4" { c.first_step = Some((xend - x0) * 0.5); }
            c.tags = vec!["plain+first_step_rejected".into()];
            let a = o.run(c.clone());
            let evs = vec![EventSpec { kind: "y0-a".into(), a: 0.3, dir: "All".into(), term: 0 }];
            for (tag, te, dense, ev) in [("teval", Some(linspace(x0, xend, 9)), false, false), ("dense", None, true, false), ("events", None, false, true),
                                         ("teval251", Some(linspace(x0, xend, 251)), false, false), ("teval251+dense", Some(linspace(x0, xend, 251)), true, false)] {
                let mut v = c.clone();
                v.t_eval = te;
                v.dense = dense;
                if ev { v.events = evs.clone(); }
                v.tags = vec![format!("first_step_rejected+{}", tag)];
                let b = o.run(v);
                o.pair("C12", "observer", &a, &b, "output options with a rejected first_step / many requested times");
            }
        }
    }
}

/// C12 on larger systems (work vectors of 4..12 components), with the caller holding earlier results alive: output options
/// and repetition must not reach the integration through anything, incl. buffer placement
fn fam_observer_wide(o: &mut Out, quick: bool) {
    let probs = vec![Problem::new("cascade4", 2.0), { let mut p = Problem::new("lin2", 0.0); p.copies = 3; p }, { let mut p = Problem::new("vdp", 2.0); p.copies = 5; p },
                     { let mut p = Problem::new("lin3", 0.0); p.copies = 4; p }];
    for m in ["BDF", "RADAU", "DOP853", "RK23"] {
        for (pi, p) in probs.iter().enumerate() {
            if quick && pi >= 3 { continue; }
            let mut c = base(m, p.clone(), 0.0, 2.0);
            c.rtol = vec![1e-5];
            c.atol = vec![1e-8];
            c.jac = "user".into();
            c.tags = vec!["wide_plain".into()];
            let a = o.run(c.clone());
            for r in 0..(if quick { 4 } else { 12 }) {
                let mut v = c.clone();
                match r % 4 {
                    0 => { v.t_eval = Some(linspace(0.0, 2.0, 3 + 2 * r)); v.tags = vec!["wide_teval".into()]; }
                    1 => { v.dense = true; v.tags = vec!["wide_dense".into()]; }
                    2 => { v.t_eval = Some(linspace(0.0, 1.5, 2 + 3 * r)); v.dense = true; v.tags = vec!["wide_teval+dense".into()]; }
                    _ => { v.tags = vec!["wide_repeat".into()]; }
                }
                let b = o.run(v);
                o.pair("C12", "observer", &a, &b, "output options / repetition on a larger system");
            }
        }
    }
}

/// C12 on runs too long to trace line by line (more than 100000 accepted steps): the output options change only what is
/// reported.  Both runs are made here on an uninstrumented problem and compared; one `fact` line carries the verdict.
fn fam_observer_long(o: &mut Out, quick: bool) {
    use ivp::prelude::*;
    struct P(Problem);
    impl IVP for P {
        fn ode(&self, t: f64, y: &[f64], d: &mut [f64]) { self.0.f(t, y, d) }
        fn n_events(&self) -> usize { 0 }
    }
    let nsteps = 100_500usize;
    for (mi, m) in ["RK4", "RK23"].iter().enumerate() {
        if quick && mi > 0 { continue; }
        for (x0, xend) in [(0.0, 1.0), (1.0, 0.0)] {
            if quick && x0 != 0.0 { continue; }
            let prob = P(Problem::new("decay", 1.0));
            let mk = |dense: bool, te: Option<Vec<f64>>| {
                let mut opt = Options::builder().method(ivp_verif_harness::recorder::method_of(m)).dense_output(dense).build();
                let hs = (xend - x0) / nsteps as f64;
                if *m == "RK4" { opt.first_step = Some(hs); } else { opt.max_step = Some(hs.abs()); }
                opt.t_eval = te;
                solve_ivp(&prob, x0, xend, &[1.0], opt)
            };
            let plain = mk(false, None);
            for (tag, dense, te) in [("long_run_dense", true, None), ("long_run_t_eval", false, Some(linspace(x0, xend, 5)))] {
                let v = mk(dense, te);
                let (ok, note) = match (&plain, &v) {
                    (Ok(a), Ok(b)) => {
                        let same = a.status == b.status && a.nfev == b.nfev && a.nstep == b.nstep && a.naccpt == b.naccpt && a.nrejct == b.nrejct
                            && a.t.last().map(|t| t.to_bits()) == b.t.last().map(|t| t.to_bits())
                            && a.y.last().map(|y| y.iter().map(|v| v.to_bits()).collect::<Vec<_>>()) == b.y.last().map(|y| y.iter().map(|v| v.to_bits()).collect::<Vec<_>>());
                        (same, format!("plain: {:?} naccpt={} nfev={}; with option: {:?} naccpt={} nfev={}", a.status, a.naccpt, a.nfev, b.status, b.naccpt, b.nfev))
                    }
                    (Err(_), Err(_)) => (true, "both runs rejected".to_string()),
                    _ => (false, "one of the two runs returned an error".to_string()),
                };
                o.next_id += 1;
                let id = o.next_id;
                o.emit(&json!({"e": "fact", "id": id, "prop": "C12", "clause": "long_run_observer", "ok": ok, "method": m, "api": "solve_ivp",
                               "problem": "decay", "tags": [tag], "note": note}));
            }
        }
    }
}

// ------------------------------------------------------------------------------------------ budget
/// C11: a budgeted run is the bit-identical prefix of the unbudgeted one.
fn fam_budget(o: &mut Out, quick: bool, rng: &mut Rng) {
    let probs = smooth_problems();
    let ncase = if quick { 12 } else { 72 };
    for ci in 0..ncase {
        let m = METHODS[ci % METHODS.len()];
        let p = probs[(ci / 3) % probs.len()].clone();
        let (x0, xend) = if ci % 2 == 0 { (0.0, 1.0) } else { (1.0, -1.0) };
        let mut c = base(m, p, x0, xend);
        if m == "RK4" { c.first_step = Some((xend - x0) / 8.0); }
        c.rtol = vec![*rng.pick(&[1e-3, 1e-5])];
        c.tags = vec!["unbudgeted".into()];
        let a = o.run(c.clone());
        let na = a.sol.as_ref().map(|s| s.t.len().saturating_sub(1)).unwrap_or(0);
        let ns = a.sol.as_ref().map(|s| s.nstep).unwrap_or(0);
        // (ns = attempts counted by the solver: the budget that is exactly enough, one less, one more)
        let ks: Vec<usize> = if quick { vec![1, 2, na, na + 1, ns.saturating_sub(1), ns, ns + 1] } else { (1..=(na + 2).min(14)).chain([na, na + 1, na + 2, ns.saturating_sub(1), ns, ns + 1]).collect() };
        let mut seen = std::collections::BTreeSet::new();
        for k in ks {
            if k == 0 || !seen.insert(k) { continue; }
            let mut v = c.clone();
            v.max_steps = Some(k);
            v.tags = vec!["budget".into()];
            let b = o.run(v);
            o.pair("C11", "budget_prefix", &a, &b, "budgeted run is a prefix of the unbudgeted run");
        }
    }
}

/// C11: attempts rejected before the second accepted step count against the budget like any other
fn fam_budget_early_rejections(o: &mut Out, quick: bool) {
    for m in ADAPTIVE {
        for (x0, xend) in [(0.0, 1.0), (1.0, -1.0)] {
            let mut c = base(m, Problem::new("sho", 0.0), x0, xend);
            c.rtol = vec![1e-8];
            c.atol = vec![1e-10];
            c.first_step = Some(xend - x0);
            c.tags = vec!["early_rejections+unbudgeted".into()];
            let a = o.run(c.clone());
            for k in if quick { vec![1usize, 2, 4] } else { (1usize..=8).collect() } {
                let mut v = c.clone();
                v.max_steps = Some(k);
                v.tags = vec!["early_rejections+budget".into()];
                let b = o.run(v);
                o.pair("C11", "budget_prefix", &a, &b, "budgeted run is a prefix of the unbudgeted run");
            }
        }
    }
}

/// C11: factorisations that fail (exactly singular iteration matrix) are passes of the loop like any other
fn fam_budget_singular(o: &mut Out) {
    for mut c in singular_cases() {
        c.tags = vec!["singular_iteration_matrix+unbudgeted".into()];
        let a = o.run(c.clone());
        for k in 1..=8usize {
            let mut v = c.clone();
            v.max_steps = Some(k);
            v.tags = vec!["singular_iteration_matrix+budget".into()];
            let b = o.run(v);
            o.pair("C11", "budget_prefix", &a, &b, "budgeted run is a prefix of the unbudgeted run");
        }
    }
}

/// C11: every budget on a nonlinear Radau run at a tight tolerance (budgets that run out on kept-step passes too)
fn fam_budget_radau(o: &mut Out, quick: bool) {
    let mut c = base("RADAU", Problem::new("vdp", 5.0), 0.0, 5.0);
    c.rtol = vec![1e-9];
    c.atol = vec![1e-12];
    c.jac = "user".into();
    c.tags = vec!["radau_tight+unbudgeted".into()];
    let a = o.run(c.clone());
    for k in 1..=(if quick { 60 } else { 160 }) {
        let mut v = c.clone();
        v.max_steps = Some(k);
        v.tags = vec!["radau_tight+budget".into()];
        let b = o.run(v);
        o.pair("C11", "budget_prefix", &a, &b, "budgeted run is a prefix of the unbudgeted run");
    }
}

/// C10: a terminal event in every accepted step of a run in turn (for all event positions relative to the step grid)
fn fam_terminal_sweep(o: &mut Out, quick: bool) {
    for m in METHODS {
        for (x0, xend) in [(0.0, 6.0), (6.0, 0.0)] {
            let mut c = base(m, Problem::new("logistic", 0.0), x0, xend);
            c.rtol = vec![1e-6];
            c.atol = vec![1e-9];
            c.jac = "user".into();
            if m == "RK4" { c.first_step = Some((xend - x0) / 24.0); }
            c.tags = vec!["grid_run".into()];
            let a = o.run(c.clone());
            let grid: Vec<f64> = match &a.sol { Some(s) => s.t.clone(), None => continue };
            let implicit = m == "RADAU" || m == "BDF";
            let stride = if quick && !implicit { 2 } else { 1 };
            let cap = if quick { 48 } else { 200 };
            for k in (0..grid.len().saturating_sub(1)).step_by(stride).take(cap) {
                let mut v = c.clone();
                v.events = vec![EventSpec { kind: "t-c".into(), a: grid[k] + 0.5 * (grid[k + 1] - grid[k]), dir: "All".into(), term: 1 }];
                v.tags = vec!["terminal_sweep".into()];
                o.run(v);
            }
        }
    }
}

// ---------------------------------------------------------------------------------------- terminal
/// C10: everything reported before a terminal stop equals the run without the terminal flag.
fn fam_terminal(o: &mut Out, quick: bool, rng: &mut Rng) {
    let ncase = if quick { 12 } else { 96 };
    for ci in 0..ncase {
        let m = METHODS[ci % METHODS.len()];
        let (x0, xend) = if ci % 2 == 0 { (0.0, 6.0) } else { (6.0, 0.0) };
        let p = Problem::new("sho", 0.0);
        let mut c = base(m, p, x0, xend);
        if m == "RK4" { c.first_step = Some((xend - x0) / 40.0); }
        c.rtol = vec![1e-5];
        c.atol = vec![1e-8];
        let cnt = 1 + rng.below(3);
        let dirs = ["All", "Pos", "Neg"];
        let e1 = EventSpec { kind: "y0-a".into(), a: *rng.pick(&[0.0, 0.5, -0.25]), dir: dirs[rng.below(3)].into(), term: 0 };
        let e2 = EventSpec { kind: "y1".into(), a: 0.0, dir: dirs[rng.below(3)].into(), term: 0 };
        let e3 = EventSpec { kind: "t-c".into(), a: x0 + (xend - x0) * 0.41, dir: "All".into(), term: 0 };
        c.events = vec![e1, e2, e3];
        if ci % 3 == 1 { c.t_eval = Some(linspace(x0, xend, 25)); }
        if ci % 3 == 2 { c.dense = true; }
        if ci % 4 >= 2 && m != "RK4" {
            // large steps: several event functions cross within one accepted step
            c.rtol = vec![1e-2];
            c.atol = vec![1e-2];
            c.first_step = Some((xend - x0) * 0.25);
            c.events[0].a = 0.5;
            c.events[1] = EventSpec { kind: "y0-a".into(), a: 0.2, dir: "All".into(), term: 0 };
        }
        c.tags = vec!["nonterminal".into()];
        let a = o.run(c.clone());
        for which in 0..3 {
            if quick && which != ci % 3 { continue; }
            let mut v = c.clone();
            v.events[which].term = if which == 2 { 1 } else { cnt };
            v.tags = vec![format!("terminal_fn{}_count{}", which, v.events[which].term)];
            let b = o.run(v);
            let dir = if xend > x0 { 1.0 } else { -1.0 };
            let ke = keeps_earlier(&a, &b, dir);
            o.pair_f("C10", "terminal_prefix", &a, &b, "terminal run is a prefix of the non-terminal run; fact: events before the stop are kept", ke);
        }
    }
}

/// C10 / C11: a step budget that is used up exactly by the step in which the terminal event fires
fn fam_terminal_tinysteps(o: &mut Out) {
    // a terminal event inside an accepted step that is shorter than the output handler's absolute time tolerance
    for m in METHODS {
        for (x0, dir) in [(0.0, 1.0), (1.0, -1.0)] {
            let hs = 5.0e-13;
            let mut c = base(m, Problem::new("decay", 1.0), x0, x0 + dir * 40.0 * hs);
            if m == "RK4" { c.first_step = Some(hs); } else { c.max_step = Some(hs); }
            c.events = vec![EventSpec { kind: "t-c".into(), a: x0 + dir * 20.4 * hs, dir: "All".into(), term: 1 }];
            c.tags = vec!["terminal_in_tiny_step".into()];
            o.run(c);
        }
    }
}

/// C05 / C10: an unbounded span, the run ends at its terminal event; requested times up to the event are reported
fn fam_terminal_unbounded(o: &mut Out) {
    for m in METHODS {
        for dir in [1.0, -1.0] {
            let mut c = base(m, Problem::new("decay", dir), 0.0, dir * f64::INFINITY);
            c.jac = "user".into();
            if m == "RK4" { c.first_step = Some(0.05); }
            c.events = vec![EventSpec { kind: "y0-a".into(), a: 0.25, dir: "All".into(), term: 1 }];
            c.tags = vec!["unbounded_span+terminal".into()];
            o.run(c.clone());
            c.t_eval = Some((1..=7).map(|i| dir * 0.15 * i as f64).collect());
            c.tags = vec!["unbounded_span+terminal+t_eval".into()];
            o.run(c);
        }
    }
}

fn fam_terminal_budget(o: &mut Out) {
    for m in METHODS {
        for (x0, xend) in [(0.0, 6.0), (6.0, 0.0)] {
            for cnt in [1usize, 2] {
                let mut c = base(m, Problem::new("sho", 0.0), x0, xend);
                c.rtol = vec![1e-5];
                c.atol = vec![1e-8];
                c.jac = "user".into();
                if m == "RK4" { c.first_step = Some((xend - x0) / 40.0); }
                c.events = vec![EventSpec { kind: "y0-a".into(), a: 0.0, dir: "Neg".into(), term: cnt }];
                c.tags = vec!["terminal_unbudgeted".into()];
                let a = o.run(c.clone());
                let n = match &a.sol { Some(s) => s.nstep, None => continue };
                if n == 0 { continue; }
                for (k, tag) in [(n, "budget=steps_to_event"), (n + 1, "budget=steps_to_event+1")] {
                    let mut v = c.clone();
                    v.max_steps = Some(k);
                    v.tags = vec![format!("terminal+{}", tag)];
                    let b = o.run(v);
                    o.pair("C10", "equal", &a, &b, "a budget that suffices up to the terminal event changes nothing");
                }
            }
        }
    }
}

/// C10: a terminal event located inside the last accepted step (the step that lands on xend)
fn fam_terminal_last(o: &mut Out, quick: bool) {
    for m in METHODS {
        for (x0, xend) in [(0.0, 2.0), (1.0, -1.0)] {
            for tol in if quick { vec![1e-4] } else { vec![1e-3, 1e-6] } {
                let mut c = base(m, Problem::new("sho", 0.0), x0, xend);
                c.rtol = vec![tol];
                c.atol = vec![tol * 1e-2];
                if m == "RK4" { c.first_step = Some((xend - x0) / 9.5); }
                c.tags = vec!["grid_run".into()];
                let a = o.run(c.clone());
                let grid: Vec<f64> = match &a.sol { Some(s) => s.t.clone(), None => continue };
                if grid.len() < 3 { continue; }
                let n = grid.len();
                for frac in [0.5, 0.9] {
                    let cpos = grid[n - 2] + (grid[n - 1] - grid[n - 2]) * frac;
                    let mut v = c.clone();
                    v.events = vec![EventSpec { kind: "t-c".into(), a: cpos, dir: "All".into(), term: 1 }];
                    v.tags = vec!["terminal_in_last_step".into()];
                    o.run(v);
                }
            }
        }
    }
}

// ---------------------------------------------------------------------------------------- symmetry
/// C13: exact symmetries give bit-identical trajectories.
fn fam_symmetry(o: &mut Out, quick: bool, rng: &mut Rng) {
    // reflection of a run whose given first_step is rejected (the handler's pinned first output is passed by a later step)
    for m in ADAPTIVE {
        for (x0, xend) in [(0.0, 3.0), (3.0, 0.0)] {
            let mut c = base(m, Problem::new("sho", 0.0), x0, xend);
            c.rtol = vec![1e-8];
            c.atol = vec![1e-10];
            c.jac = "user".into();
            c.first_step = Some((xend - x0) / 3.0);
            c.tags = vec!["reference+first_step_rejected".into()];
            let a = o.run(c.clone());
            let mut v = c.clone();
            v.problem.reflect = true;
            v.x0 = -x0;
            v.xend = -xend;
            v.first_step = c.first_step.map(|h| -h);
            v.map = "reflect".into();
            v.tags = vec!["reflect+first_step_rejected".into()];
            let b = o.run(v);
            o.pair("C13", "equal", &a, &b, "time reflection with a rejected first_step");
        }
    }
    // reflection of low-level runs whose callback returns ModifiedSolution (state unchanged) at some steps: whatever a solver
    // rebuilds on that return (derivative, BDF history, Radau predictor) mirrors with the problem, in both directions
    for m in METHODS {
        for (x0, xend) in [(0.0, 2.0), (2.0, -1.0)] {
            for (pk, pp) in [("sho", 0.0), ("vdp", 2.0)] {
                if quick && pk == "vdp" && m != "BDF" && m != "RADAU" { continue; }
                let mut c = base(m, Problem::new(pk, pp), x0, xend);
                c.api = "low".into();
                c.rtol = vec![1e-5];
                c.atol = vec![1e-7];
                c.jac = "user".into();
                if m == "RK4" { c.first_step = Some((xend - x0) / 12.0); }
                c.script = [1usize, 2, 4, 7].iter().map(|k| Script { k: *k, action: "modify_same".into() }).collect();
                c.tags = vec!["reference+modify_same".into()];
                let a = o.run(c.clone());
                let mut v = c.clone();
                v.problem.reflect = true;
                v.x0 = -x0;
                v.xend = -xend;
                v.first_step = c.first_step.map(|h| -h);
                v.map = "reflect".into();
                v.tags = vec!["reflect+modify_same".into()];
                let b = o.run(v);
                o.pair("C13", "equal_cb", &a, &b, "time reflection of a run with ModifiedSolution callbacks");
            }
        }
    }
    let ncase = if quick { 12 } else { 120 };
    let probs = vec![Problem::new("lin2", 0.0), Problem::new("decay", 1.0), Problem::new("vdp", 5.0), Problem::new("lin3", 0.0), Problem::new("sho", 0.0), Problem::new("logistic", 0.0)];
    // reflection with events, incl. two event functions crossing within one (large) step and one of them terminal
    for (mi, m) in ADAPTIVE.iter().enumerate() {
        for (x0, xend) in [(0.0, 3.0), (3.0, 0.0)] {
            let mut c = base(m, Problem::new("sho", 0.0), x0, xend);
            c.rtol = vec![1e-2];
            c.atol = vec![1e-2];
            c.first_step = Some((xend - x0) * 0.5);
            c.jac = "user".into();
            c.events = vec![EventSpec { kind: "y0-a".into(), a: 0.5, dir: "All".into(), term: 0 },
                            EventSpec { kind: "y0-a".into(), a: 0.2, dir: "All".into(), term: if mi % 2 == 0 { 1 } else { 0 } }];
            c.tags = vec!["reference+events".into()];
            let a = o.run(c.clone());
            let mut v = c.clone();
            v.problem.reflect = true;
            v.x0 = -x0;
            v.xend = -xend;
            v.first_step = c.first_step.map(|h| -h);
            v.map = "reflect".into();
            v.tags = vec!["reflect+events".into()];
            let b = o.run(v);
            let ok = events_mirror(&a, &b);
            o.pair_f("C13", "mirror_events", &a, &b, "fact: event lists mirror under time reflection (counts equal, times to 1e-9)", ok);
        }
    }
    // a binding max_step must bind in both directions
    for m in ADAPTIVE {
        for (x0, xend) in [(0.0, 2.0), (2.0, 0.0)] {
            let mut c = base(m, Problem::new("sho", 0.0), x0, xend);
            c.rtol = vec![1e-2];
            c.atol = vec![1e-2];
            c.max_step = Some(0.05);
            c.jac = "user".into();
            c.tags = vec!["reference+max_step".into()];
            let a = o.run(c.clone());
            let mut v = c.clone();
            v.problem.reflect = true;
            v.x0 = -x0;
            v.xend = -xend;
            v.map = "reflect".into();
            v.tags = vec!["reflect+max_step".into()];
            let b = o.run(v);
            o.pair("C13", "equal", &a, &b, "time reflection with a binding max_step");
        }
    }
    // one-equation nonlinear systems with the implicit methods: a scalar tolerance and the one-element vector
    for m in ["RADAU", "BDF"] {
        for (p, x0, xend) in [(Problem::new("logistic", 0.0), 0.0, 2.0), (Problem::new("logistic", 0.0), 1.0, -0.5), (Problem::new("cube", 0.0), 0.0, 2.0), (Problem::new("tan", 0.0), 0.0, 1.2)] {
            for tol in if quick { vec![1e-7] } else { vec![1e-5, 1e-7, 1e-10] } {
                let mut c = base(m, p.clone(), x0, xend);
                c.rtol = vec![tol];
                c.atol = vec![tol * 1e-2];
                c.jac = "user".into();
                c.tags = vec!["reference_n1".into()];
                let a = o.run(c.clone());
                let mut v = c.clone();
                v.rtol = vec![tol; 1];
                v.atol = vec![tol * 1e-2; 1];
                v.tags = vec!["vector_tol_n1".into()];
                v.tol_vec = true;
                let b = o.run(v);
                o.pair("C13", "equal", &a, &b, "scalar tolerance as constant vector, one equation");
            }
        }
    }
    // Radau (no hinit): copies of a stiff nonlinear system with an oversized first step: the refined error estimate of a
    // rejected first step, and the retries that follow, must not depend on the number of copies
    for (p, xend, fs) in [(Problem::new("vdp", 50.0), 3.0, 0.5), (Problem::new("vdp", 5.0), 4.0, 1.0), (Problem::new("kjump3", 1.0), 2.0, 0.7), (Problem::new("robertson", 0.0), 40.0, 5.0)] {
        let mut c = base("RADAU", p.clone(), 0.0, xend);
        c.rtol = vec![1e-3];
        c.atol = vec![1e-6];
        c.jac = "user".into();
        c.first_step = Some(fs);
        c.tags = vec!["reference_radau_rejections".into()];
        let a = o.run(c.clone());
        for mcopies in [2usize, 4] {
            let mut v = c.clone();
            v.problem.copies = mcopies;
            v.y0 = (0..mcopies).flat_map(|_| c.y0.clone()).collect();
            v.map = format!("copies:{}", mcopies);
            v.tags = vec![format!("radau_rejections+copies{}", mcopies)];
            let b = o.run(v);
            let cc = copies_close(&a, &b);
            o.pair_f("C13", "copies", &a, &b, "independent identical copies, Radau with rejected first attempts (fact: same step sequence and states up to rounding)", cc);
        }
    }
    // a long, stability-limited explicit run (stiffness detection is reached) and its reflection
    for m in ["DOP853", "DOPRI5"] {
        let mut c = base(m, Problem::new("relax", 2.0e4), 0.0, if quick { 1.5 } else { 5.0 });
        c.y0 = vec![0.0];
        c.rtol = vec![1e-6];
        c.atol = vec![1e-8];
        c.tags = vec!["reference_stiff_long".into()];
        let a = o.run(c.clone());
        let mut v = c.clone();
        v.problem.reflect = true;
        v.x0 = -c.x0;
        v.xend = -c.xend;
        v.map = "reflect".into();
        v.tags = vec!["reflect_stiff_long".into()];
        let b = o.run(v);
        o.pair("C13", "equal", &a, &b, "time reflection of a stability-limited run");
    }
    for ci in 0..ncase {
        let m = ADAPTIVE[ci % ADAPTIVE.len()];
        let implicit = m == "RADAU" || m == "BDF";
        let p = probs[(ci / ADAPTIVE.len()) % probs.len()].clone();
        let linear = matches!(p.kind.as_str(), "lin2" | "lin3" | "decay" | "sho");
        let (mut x0, mut xend) = *rng.pick(&[(0.0, 1.0), (1.0, 0.0), (-1.0, 0.5)]);
        if p.kind == "vdp" { x0 *= 6.0; xend *= 6.0; }       // long enough for rejected steps
        let mut c = base(m, p.clone(), x0, xend);
        let e = rng.below(4) as i32;
        c.rtol = vec![10f64.powi(-3 - e)];
        c.atol = vec![10f64.powi(-6 - e)];
        c.jac = if implicit && ci % 2 == 0 { "user".into() } else { "fd".into() };
        c.events = vec![EventSpec { kind: "t-c".into(), a: x0 + (xend - x0) * 0.5, dir: "All".into(), term: 0 }];
        if ci % 3 == 1 { c.max_step = Some((xend - x0).abs() * *rng.pick(&[0.02, 0.05, 0.11])); }   // a binding max_step
        c.tags = vec!["reference".into()];
        let a = o.run(c.clone());
        // (1) time reflection: z' = -f(-s, z) from -x0 to -xend
        {
            let mut v = c.clone();
            v.problem.reflect = true;
            v.x0 = -x0;
            v.xend = -xend;
            v.events = vec![];
            v.map = "reflect".into();
            v.tags = vec!["reflect".into()];
            let mut a0 = c.clone();
            a0.events = vec![];
            a0.tags = vec!["reference_noev".into()];
            let a0r = o.run(a0);
            let b = o.run(v);
            o.pair("C13", "equal", &a0r, &b, "time reflection");
        }
        // (2) scalar tolerance written as a constant vector (both, or only one of the two)
        for (vr, va, tag) in [(true, true, "vector_tol"), (true, false, "vector_rtol_scalar_atol"), (false, true, "scalar_rtol_vector_atol")] {
            let mut v = c.clone();
            if vr { v.rtol = vec![c.rtol[0]; p.dim()]; }
            if va { v.atol = vec![c.atol[0]; p.dim()]; }
            v.tags = vec![tag.to_string()];
            let b = o.run(v);
            o.pair("C13", "equal", &a, &b, "scalar tolerance as constant vector");
        }
        // (3) 2^k scaling of state and atol, linear homogeneous, explicit or user Jacobian
        if linear && (!implicit || c.jac == "user") {
            let mut a0 = c.clone();
            a0.events = vec![];
            a0.tags = vec!["reference_noev".into()];
            let a0r = o.run(a0);
            // a moderate factor, and one that puts states and error weights far below / above machine epsilon
            for k in [*rng.pick(&[-20, -7, -1, 1, 5, 20]), *rng.pick(&[-60, 60, -90])] {
                let f = (2.0f64).powi(k);
                let mut v = c.clone();
                v.y0 = c.y0.iter().map(|y| y * f).collect();
                v.atol = c.atol.iter().map(|t| t * f).collect();
                v.events = vec![];
                v.map = format!("scale:{}", k);
                v.tags = vec![format!("scale2^{}", k)];
                let b = o.run(v);
                o.pair("C13", "equal", &a0r, &b, "2^k scaling of a linear homogeneous system");
            }
        }
        // (4) duplication of a scalar problem into 2 / 4 identical copies
        if p.base_dim() == 1 && (!implicit || c.jac == "user") {
            for mcopies in [2usize, 4] {
                let mut v = c.clone();
                v.problem.copies = mcopies;
                v.y0 = (0..mcopies).flat_map(|_| c.y0.clone()).collect();
                v.map = format!("copies:{}", mcopies);
                v.events = vec![];
                v.tags = vec![format!("copies{}", mcopies)];
                let mut a0 = c.clone();
                a0.events = vec![];
                a0.tags = vec!["reference_noev".into()];
                // (a) automatic first step (hinit), (b) first step given: the main loop alone
                let a0r = o.run(a0.clone());
                let b = o.run(v.clone());
                let cc = copies_close(&a0r, &b);
                o.pair_f("C13", "copies", &a0r, &b, "independent identical copies (fact: same step sequence and states up to rounding)", cc);
                let fs = (xend - x0) * 1e-3;
                a0.first_step = Some(fs);
                a0.tags = vec!["reference_noev+first_step".into()];
                v.first_step = Some(fs);
                v.tags = vec![format!("copies{}+first_step", mcopies)];
                let a1 = o.run(a0);
                let b1 = o.run(v);
                let cc = copies_close(&a1, &b1);
                o.pair_f("C13", "copies", &a1, &b1, "independent identical copies, first step given (fact: same step sequence and states up to rounding)", cc);
            }
        }
    }
}

// ----------------------------------------------------------------------------------------- storage
/// C15: mass / Jacobian storage and the absence of a mass matrix do not change the trajectory.
fn fam_storage(o: &mut Out, quick: bool, rng: &mut Rng) {
    let probs = vec![Problem::new("cascade4", 8.0), Problem::new("vdpe", 1e-6), Problem::new("vdp", 1000.0), Problem::new("chain4", 60.0), Problem::new("lin3", 0.0), Problem::new("robertson", 0.0), Problem::new("vdp", 10.0), Problem::new("decay", 3.0), Problem::new("lin2", 0.0)];
    let ncase = if quick { 9 } else { 54 };
    for ci in 0..ncase {
        let p = probs[ci % probs.len()].clone();
        let mut p = p;
        if ci >= probs.len() && p.base_dim() <= 2 { p.copies = 1 + rng.below(3); }
        let xend = if p.kind == "robertson" { 40.0 } else if p.kind == "chain4" { 6.0 } else if p.kind == "cascade4" { 30.0 } else if p.kind == "vdp" && p.p > 100.0 { 3.0 } else if p.kind == "vdpe" { 2.0 } else { 1.0 };
        for m in ["RADAU", "BDF"] {
            let mut c = base(m, p.clone(), 0.0, xend);
            c.jac = "user".into();
            c.rtol = vec![*rng.pick(&[1e-3, 1e-5])];
            c.atol = vec![1e-8];
            c.tags = vec!["ref_identity_full".into()];
            let a = o.run(c.clone());
            // Jacobian storage Full vs Banded (band wide enough for the pattern; also wider than the matrix)
            for js in ["banded".to_string(), format!("banded:{},{}", p.dim(), p.dim() + 1)] {
                let mut v = c.clone();
                v.jac_storage = js.clone();
                v.tags = vec![if js == "banded" { "jac_banded".into() } else { "jac_banded_wide".into() }];
                let b = o.run(v);
                o.pair("C15", "equal", &a, &b, "Jacobian storage Full vs Banded");
            }
            if m == "RADAU" {
                let nn = p.dim();
                let mut asym: Vec<(String, &str)> = if nn >= 2 {
                    vec![("banded:0,1".to_string(), "none"), ("banded:1,0".to_string(), "none"), (format!("banded:{},0", nn - 1), "none"), ("banded:0,1".to_string(), "identity")]
                } else { vec![] };
                // a band declared wider than the matrix is a valid layout
                asym.push((format!("banded:{},{}", nn, nn), "none"));
                asym.push((format!("banded:{},{}", nn + 1, nn), "identity"));
                for (ms, mass) in asym.iter().map(|(a, b)| (a.as_str(), *b)) {
                    let mut v = c.clone();
                    v.mass_storage = ms.into();
                    v.mass = mass.into();
                    v.tags = vec![format!("mass_storage={}+mass={}", ms, mass)];
                    let b = o.run(v);
                    o.pair("C15", "equal", &a, &b, "asymmetric banded mass storage / no mass supplied");
                }
                for (ms, mass) in [("full", "none"), ("banded", "none"), ("full", "identity"), ("banded", "identity"), ("identity", "identity")] {
                    let mut v = c.clone();
                    v.mass_storage = ms.into();
                    v.mass = mass.into();
                    v.tags = vec![format!("mass_storage={}+mass={}", ms, mass)];
                    let b = o.run(v);
                    o.pair("C15", "equal", &a, &b, "mass storage / no mass supplied");
                }
                // low-level builder with its documented defaults and no mass supplied
                let mut v = c.clone();
                v.api = "low".into();
                v.mass_storage = "default".into();
                v.mass = "none".into();
                v.tags = vec!["lowlevel_default_mass_storage".into()];
                let mut al = c.clone();
                al.api = "low".into();
                al.tags = vec!["lowlevel_identity".into()];
                let a2 = o.run(al);
                let b = o.run(v);
                o.pair("C15", "equal", &a2, &b, "low-level builder defaults, no mass supplied");
                // metamorphic: mass 2^k I with right-hand side 2^k f
                let k = *rng.pick(&[-3, 1, 4]);
                let mut v = c.clone();
                v.mass_storage = "full".into();
                v.mass = format!("pow2:{}", k);
                v.problem.fscale = k;
                v.tags = vec![format!("mass=2^{}I", k)];
                // (no pair: invariance under scaling is not part of C15; the run is judged by the mass_reference fact -
                // agreement with y' = M^-1 f integrated directly)
                let _ = o.run(v);
            }
        }
    }
}

/// C15: the default finite-difference Jacobian and the analytic one give answers that agree within the tolerance - also on
/// states of large magnitude and either sign (fact: both succeed within the step budget, final states agree to 1e3 (rtol + atol))
fn fam_storage_jacsource(o: &mut Out) {
    for m in ["RADAU", "BDF"] {
        for (p, xend, y0) in [(Problem::new("relaxc", 1.0e6), 1.0e-3, None), (Problem::new("relaxc", 1.0e7), 1.0e-3, Some(vec![-4.0e9 - 2.0e8])),
                              (Problem::new("vdp", 50.0), 2.0, Some(vec![-2.0, 0.0])), (Problem::new("robertson", 0.0), 1.0, None)] {
            let mut c = base(m, p, 0.0, xend);
            if let Some(v) = y0 { c.y0 = v; }
            c.rtol = vec![1e-5];
            c.atol = vec![1e-7];
            c.max_steps = Some(20_000);
            c.jac = "user".into();
            c.tags = vec!["jac_user".into()];
            let a = o.run(c.clone());
            let mut v = c.clone();
            v.jac = "fd".into();
            // the same problem is not twenty times harder with the default Jacobian
            v.max_steps = Some(a.sol.as_ref().map_or(20_000, |s| 20 * s.nstep + 100));
            v.tags = vec!["jac_default_fd".into()];
            let b = o.run(v);
            let ok = match (&a.sol, &b.sol) {
                (Some(sa), Some(sb)) => sa.status == ivp::prelude::Status::Success && sb.status == ivp::prelude::Status::Success
                    && match (sa.y.last(), sb.y.last()) {
                        (Some(ya), Some(yb)) => ya.iter().zip(yb.iter()).all(|(u, w)| (u - w).abs() <= 1.0e3 * (1e-5 + 1e-7) * (1.0 + u.abs().max(w.abs()))),
                        _ => false,
                    },
                _ => false,
            };
            o.pair_f("C15", "grid_values", &a, &b, "fact: analytic and default finite-difference Jacobian both succeed (the latter within 20x the steps of the former) and agree within 1e3 (rtol + atol)", ok);
        }
    }
}

/// C15: non-identity mass matrices held in different storages; index-1 DAEs (singular diagonal mass)
fn fam_storage_mass(o: &mut Out, quick: bool) {
    let probs = vec![Problem::new("lin3", 0.0), Problem::new("cascade4", 2.0), Problem::new("vdp", 2.0), Problem::new("chain4", 3.0)];
    for (pi, p) in probs.iter().enumerate() {
        if quick && pi >= 3 { continue; }
        let n = p.dim();
        for (mass, stores) in [("lowbi", vec!["full".to_string(), "banded:1,0".into(), "banded:1,1".into(), format!("banded:{},1", n)]),
                               ("upbi", vec!["full".to_string(), "banded:0,1".into(), "banded:1,1".into(), format!("banded:0,{}", n)]),
                               ("tri", vec!["full".to_string(), "banded:1,1".into(), "banded:2,1".into(), "banded:1,2".into()]),
                               ("trineg", vec!["full".to_string(), "banded:1,1".into(), "banded:1,2".into()])] {
            for (x0, xend) in [(0.0, 1.5), (1.0, 0.25)] {
                let mut c = base("RADAU", p.clone(), x0, xend);
                c.jac = "user".into();
                c.rtol = vec![1e-6];
                c.atol = vec![1e-9];
                c.mass = mass.into();
                c.mass_storage = stores[0].clone();
                c.tags = vec![format!("mass={}+mass_storage={}", mass, stores[0])];
                let a = o.run(c.clone());
                for st in &stores[1..] {
                    let mut v = c.clone();
                    v.mass_storage = st.clone();
                    v.tags = vec![format!("mass={}+mass_storage={}", mass, st)];
                    let b = o.run(v);
                    o.pair("C15", "equal", &a, &b, "the same mass matrix in Full and Banded storage");
                }
                // Jacobian storage with a non-identity mass
                let mut v = c.clone();
                v.jac_storage = format!("banded:{},{}", n - 1, n - 1);
                v.tags = vec![format!("mass={}+jac_banded", mass)];
                let b = o.run(v);
                o.pair("C15", "equal", &a, &b, "Jacobian storage Full vs Banded with a non-identity mass");
            }
        }
    }
    // a Jacobian band narrower than the mass pattern: decoupled equations (diagonal Jacobian, Banded{0,0}) under a tridiagonal mass
    for mass in ["tri", "trineg"] {
        let mut p = Problem::new("decay", 2.0);
        p.copies = 3;
        let mut c = base("RADAU", p, 0.0, 1.0);
        c.jac = "user".into();
        c.rtol = vec![1e-6];
        c.atol = vec![1e-9];
        c.mass = mass.into();
        c.mass_storage = "full".into();
        c.tags = vec![format!("mass={}+jac_full", mass)];
        let a = o.run(c.clone());
        for (js, ms) in [("banded:0,0", "full"), ("banded:0,0", "banded:1,1"), ("full", "banded:1,1")] {
            for api in ["solve_ivp", "low"] {
                let mut v = c.clone();
                v.api = api.into();
                v.jac_storage = js.into();
                v.mass_storage = ms.into();
                v.tags = vec![format!("mass={}+jac={}+mass_storage={}", mass, js, ms)];
                let b = o.run(v);
                if api == "solve_ivp" { o.pair("C15", "equal", &a, &b, "Jacobian band narrower than the mass pattern"); }
            }
        }
    }
    // a nonsingular mass with zeros on its diagonal (permutation-like)
    for st in ["full", "banded:1,1", "banded:2,2"] {
        let mut c = base("RADAU", Problem::new("lin3", 0.0), 0.0, 1.0);
        c.jac = "user".into();
        c.rtol = vec![1e-6];
        c.atol = vec![1e-9];
        c.mass = "perm3".into();
        c.mass_storage = st.into();
        c.tags = vec![format!("mass=perm3+mass_storage={}", st)];
        o.run(c);
    }
    // index-1 DAEs: the algebraic equation first / last; diagonal singular mass in Full and Banded storage
    for (kind, mass) in [("dae3a", "diag:0,1,1"), ("dae3b", "diag:1,1,0")] {
        for tol in [1e-4, 1e-6] {
            for jac in ["user", "fd"] {
                let mut c = base("RADAU", Problem::new(kind, 0.0), 0.0, 4.0);
                c.rtol = vec![tol];
                c.atol = vec![tol * 1e-2];
                c.jac = jac.into();
                c.mass = mass.into();
                c.mass_storage = "full".into();
                c.max_steps = Some(20000);
                c.tags = vec![format!("dae+mass_storage=full+jac={}", jac)];
                let a = o.run(c.clone());
                for st in ["banded:0,0", "banded:1,1"] {
                    let mut v = c.clone();
                    v.mass_storage = st.into();
                    v.tags = vec![format!("dae+mass_storage={}+jac={}", st, jac)];
                    let b = o.run(v);
                    o.pair("C15", "equal", &a, &b, "singular diagonal mass in Full and Banded storage");
                }
            }
        }
    }
}

// ------------------------------------------------------------------------------------------- teval
/// C05 (recorded part): t_eval built from the accepted-step grid of a prior run of the same case.
fn fam_teval(o: &mut Out, quick: bool, rng: &mut Rng) {
    let probs = smooth_problems();
    let ncase = if quick { 18 } else { 180 };
    for ci in 0..ncase {
        let m = METHODS[ci % METHODS.len()];
        let p = probs[(ci / 2) % probs.len()].clone();
        let (x0, xend) = if ci % 2 == 0 { (0.0, 2.0) } else { (1.0, -1.0) };
        let dir = if xend > x0 { 1.0 } else { -1.0 };
        let mut c = base(m, p, x0, xend);
        c.dense = true;
        if m == "RK4" { c.first_step = Some((xend - x0) / if ci % 4 < 2 { 12.0 } else { 11.3 }); }
        c.tags = vec!["grid_run".into()];
        let a = o.run(c.clone());
        let grid: Vec<f64> = match &a.sol { Some(s) => s.t.clone(), None => continue };
        if grid.len() < 2 { continue; }
        // requested times: on / +-0.5e-12 / +-3e-12 of grid points, between them, duplicates, x0, xend
        let mut te: Vec<f64> = vec![x0];
        for (i, g) in grid.iter().enumerate() {
            if i == 0 { continue; }
            let prev = grid[i - 1];
            match rng.below(7) {
                0 => te.push(*g),
                1 => te.push(*g - dir * 0.5e-12),
                2 => te.push(*g + dir * 0.5e-12),
                3 => te.push(*g - dir * 3e-12),
                4 => { te.push(prev + (*g - prev) * 0.25); te.push(prev + (*g - prev) * 0.75); }
                5 => { te.push(*g); te.push(*g); }
                _ => {}
            }
        }
        te.push(xend);
        te.retain(|t| dir * (*t - x0) >= 0.0 && dir * (xend - *t) >= 0.0);
        te.sort_by(|a, b| (dir * a).partial_cmp(&(dir * b)).unwrap());
        let mut variants: Vec<Case> = Vec::new();
        let mut v = c.clone(); v.dense = true; v.t_eval = Some(te.clone()); v.tags = vec!["t_eval+dense".into()]; variants.push(v);
        let mut v = c.clone(); v.dense = false; v.t_eval = Some(te.clone()); v.tags = vec!["t_eval".into()]; variants.push(v);
        let mut v = c.clone(); v.dense = true; v.t_eval = Some(te.clone()); v.max_steps = Some(1 + rng.below(grid.len())); v.tags = vec!["t_eval+budget".into()]; variants.push(v);
        let mut te2 = te.clone();
        te2.pop();
        te2.push(xend - dir * 0.5e-12);
        te2.sort_by(|a, b| (dir * a).partial_cmp(&(dir * b)).unwrap());
        let mut v = c.clone(); v.dense = ci % 2 == 0; v.t_eval = Some(te2); v.tags = vec!["t_eval_last_near_xend".into()]; variants.push(v);
        let mut v = c.clone(); v.dense = true; v.t_eval = Some(te.clone());
        v.events = vec![EventSpec { kind: "t-c".into(), a: x0 + (xend - x0) * rng.range(0.2, 0.9), dir: "All".into(), term: 1 }];
        v.tags = vec!["t_eval+terminal".into()]; variants.push(v);
        let mut recs = Vec::new();
        for v in variants { recs.push(o.run(v)); }
        o.pair("C05", "dense_indep", &recs[0], &recs[1], "t_eval values do not depend on dense_output");
        o.pair("C12", "observer", &a, &recs[0], "t_eval next to accepted step ends changes only what is reported");
        let rel = if m == "BDF" { 1e-7 } else { 1e-9 };
        for r in &recs {
            let ok = grid_values_ok(&a, r, rel);
            o.pair_f("C05", "grid_values", &a, r, "fact: a requested time equal to an accepted step end carries that step's state (to rounding)", ok);
        }
    }
}

/// C05: the step cut to land on xend is attempted first and rejected (first_step >= span at a tight tolerance); a non-finite
/// region shortly before xend: "every requested time not beyond the stopping point is still reported"
fn fam_teval_landing(o: &mut Out) {
    for m in ADAPTIVE {
        for (x0, xend) in [(0.0, 2.0), (1.0, -1.0)] {
            // first_step beyond the interval with a max_step inside it, first step accepted
            {
                let mut c = base(m, Problem::new("decay", 1.0), x0, xend);
                c.first_step = Some((xend - x0) * 2.0);
                c.max_step = Some(0.25);
                c.t_eval = Some(linspace(x0, xend, 11));
                c.tags = vec!["t_eval+first_step>span+max_step<span".into()];
                o.run(c);
            }
            for (p, tag) in [(Problem::new("sho", 0.0), "landing_rejected"), (Problem::new("nan_after", x0 + 0.93 * (xend - x0)), "nan_shortly_before_xend")] {
                let mut c = base(m, p.clone(), x0, xend);
                if p.kind == "nan_after" && xend < x0 { continue; }
                c.rtol = vec![1e-8];
                c.atol = vec![1e-10];
                if tag == "landing_rejected" { c.first_step = Some((xend - x0) * 1.5); c.max_step = Some(f64::INFINITY); }
                c.t_eval = Some(linspace(x0, xend, 9));
                c.tags = vec![format!("t_eval+{}", tag)];
                o.run(c);
            }
        }
    }
}

/// C05: steps far shorter than 1e-12 abs(x0) at an offset of 1e6 (fast decay, rtol 1e-8; RK4: 5e-7): the handler's slack is
/// absolute, such steps are ordinary steps and requested times inside them carry the interpolant's value
fn fam_teval_offset_short(o: &mut Out) {
    for m in METHODS {
        for (x0, len) in [(1.0e6, 1.0e-4), (-1.0e6, -1.0e-4)] {
            let xend: f64 = x0 + len;
            let mut c = base(m, Problem::new("decay", 2.0e5), x0, xend);
            c.rtol = vec![1e-8];
            c.atol = vec![1e-12];
            c.jac = "user".into();
            c.dense = true;
            if m == "RK4" { c.first_step = Some(len / 200.0); }
            c.t_eval = Some((0..=40).map(|i| if i == 40 { xend } else { x0 + len * (i as f64) / 40.0 }).collect());
            c.tags = vec!["offset+short_steps".into()];
            o.run(c);
        }
    }
}

/// C05 / C03: an interval that starts at a large offset and ends near the origin: the landing step h = xend - x is
/// rounded at the magnitude of x, so x + h misses xend by up to half an ulp of x (1e-10 at 1e6), more than the handler's
/// absolute 1e-12: the requested xend is not reported although the run is a Success (recorded finding `landing_cancellation`)
fn fam_teval_cancellation(o: &mut Out) {
    for m in METHODS {
        for (x0, xend) in [(-1000000.7, 0.1), (1000000.7, -0.1)] {
            let mut c = base(m, Problem::new("const1", 0.0), x0, xend);
            c.t_eval = Some(vec![x0, xend]);
            c.tags = vec!["landing_cancellation".into()];
            o.run(c);
        }
    }
}

/// C05: the degenerate interval with the requested time repeated
/// C06: requested times that miss the span by a few 1e-10 at an offset of 1000 or 1e5 (a grid accumulated by repeated
/// addition): whatever is reported is covered by sol
fn fam_teval_offset(o: &mut Out) {
    for m in METHODS {
        for (x0, len) in [(1000.0, 1.0), (1.0e5, 1.0), (-1000.0, -1.0)] {
            let xend: f64 = x0 + len;
            let s = len.signum();
            let mut c = base(m, Problem::new("sho", 0.0), x0, xend);
            c.rtol = vec![1e-8];
            c.atol = vec![1e-10];
            c.dense = true;
            if m == "RK4" { c.first_step = Some(len.abs() / 40.0); }
            c.t_eval = Some(vec![x0 - s * 4e-10, x0 + 0.25 * len, x0 + 0.5 * len, xend + s * 4e-10]);
            c.tags = vec!["offset+t_eval_outside_by_4e-10".into()];
            o.run(c.clone());
            // ten additions of a tenth
            let mut te = vec![x0];
            for _ in 0..10 { let l = *te.last().unwrap(); te.push(l + 0.1 * len); }
            c.t_eval = Some(te);
            c.tags = vec!["offset+t_eval_accumulated".into()];
            o.run(c);
        }
    }
}

/// C06 / C05: a single requested time (the end, or an interior one) with dense output
fn fam_teval_single(o: &mut Out) {
    for m in METHODS {
        for (x0, xend) in [(0.0, 2.0), (2.0, 0.0)] {
            for frac in [1.0, 0.6] {
                let mut c = base(m, Problem::new("sho", 0.0), x0, xend);
                c.dense = true;
                if m == "RK4" { c.first_step = Some((xend - x0) / 16.0); }
                c.t_eval = Some(vec![x0 + frac * (xend - x0)]);
                c.tags = vec![if frac == 1.0 { "t_eval_only_xend+dense".into() } else { "t_eval_single_interior+dense".into() }];
                o.run(c);
            }
        }
    }
}

/// C05: BDF with a lower step bound, xend placed a fraction of min_step beyond an accepted step end of the free run
fn fam_teval_minstep(o: &mut Out) {
    for (x0, dir) in [(0.0, 1.0), (0.0, -1.0)] {
        let ms = 1.0e-3;
        let mut c = base("BDF", Problem::new("sho", 0.0), x0, x0 + dir * 2.0);
        c.rtol = vec![1e-4];
        c.atol = vec![1e-7];
        c.jac = "user".into();
        c.min_step = Some(ms);
        c.tags = vec!["min_step+grid_run".into()];
        let a = o.run(c.clone());
        let grid: Vec<f64> = match &a.sol { Some(s) => s.t.clone(), None => continue };
        for k in (grid.len() / 3..grid.len().saturating_sub(2)).step_by(3).take(12) {
            for off in [0.4, -0.4] {
                let xe = grid[k] + dir * off * ms;
                let mut v = c.clone();
                v.xend = xe;
                v.t_eval = Some(vec![grid[k.saturating_sub(1)], xe]);
                v.tags = vec!["min_step+xend_near_grid+t_eval".into()];
                o.run(v);
            }
        }
    }
}

fn fam_teval_zero(o: &mut Out) {
    for m in METHODS {
        for x0 in [2.0, -50.0] {
            for dense in [false, true] {
                let mut c = base(m, Problem::new("lin2", 0.0), x0, x0);
                c.t_eval = Some(vec![x0, x0, x0]);
                c.dense = dense;
                c.tags = vec!["zero_interval+t_eval3".into()];
                o.run(c);
            }
        }
    }
}

// ------------------------------------------------------------------------------------------ events
/// C08 / C09 (recorded part): state-dependent and time-dependent event functions on real steppers.
fn fam_events(o: &mut Out, quick: bool, rng: &mut Rng) {
    let ncase = if quick { 24 } else { 240 };
    let dirs = ["All", "Pos", "Neg"];
    for ci in 0..ncase {
        let m = METHODS[ci % METHODS.len()];
        let (x0, xend) = if ci % 2 == 0 { (0.0, 7.0) } else { (7.0, 0.0) };
        let dir = if xend > x0 { 1.0 } else { -1.0 };
        let (p, evk) = match (ci / 6) % 3 {
            0 => (Problem::new("sho", 0.0), "y0-a"),
            1 => (Problem::new("decay", 0.5), "y0-a"),
            _ => (Problem::new("const1", 0.0), "t-c"),
        };
        let mut c = base(m, p.clone(), x0, xend);
        c.rtol = vec![1e-6];
        c.atol = vec![1e-9];
        c.dense = true;
        if m == "RK4" { c.first_step = Some((xend - x0) / 60.0); }
        // a grid run first, so that roots of t-c can be placed relative to accepted steps
        c.tags = vec!["grid_run".into()];
        let a = o.run(c.clone());
        let grid: Vec<f64> = match &a.sol { Some(s) => s.t.clone(), None => continue };
        if grid.len() < 3 { continue; }
        let gi = 1 + rng.below(grid.len() - 2);
        let off = *rng.pick(&[0.0, 1e-9, -1e-9, 1e-12, -1e-12, 0.3]);
        let c_root = if off == 0.3 { grid[gi] + (grid[gi + 1] - grid[gi]) * 0.3 } else { grid[gi] + dir * off };
        let mut evs = vec![EventSpec { kind: "t-c".into(), a: c_root, dir: dirs[rng.below(3)].into(), term: 0 }];
        if p.kind == "const1" {
            // y(t) = t - x0 on this problem: a second, state-dependent function with a known root
            evs.push(EventSpec { kind: "y0-a".into(), a: (grid[gi] - x0) + 0.4 * (grid[gi + 1] - grid[gi]), dir: "All".into(), term: 0 });
        } else {
            evs.push(EventSpec { kind: evk.into(), a: *rng.pick(&[0.0, 0.5, 0.3, -0.8]), dir: dirs[rng.below(3)].into(), term: 0 });
            if p.dim() > 1 { evs.push(EventSpec { kind: "y0y1".into(), a: 0.0, dir: dirs[rng.below(3)].into(), term: 0 }); }
        }
        let mut v = c.clone();
        v.events = evs;
        v.tags = vec!["events".into(), format!("root_offset={}", off)];
        o.run(v);
    }
}

/// C08: event functions of small magnitude (state of size 2^-20): located to the root finder's accuracy in t
fn fam_events_small(o: &mut Out) {
  // event functions of small magnitude: above and below the root finder's abscissa tolerance 2e-12 (the value of g is not a time)
  for (f, at) in [((2.0f64).powi(-20), 1e-16), ((2.0f64).powi(-42), 1e-22), ((2.0f64).powi(-70), 1e-30)] {
    for m in METHODS {
        for (x0, xend, a) in [(0.0, 2.0, 0.5), (1.0, -1.0, 3.0)] {
            let mut c = base(m, Problem::new("decay", 1.0), x0, xend);
            c.y0 = vec![f];
            c.rtol = vec![1e-8];
            c.atol = vec![at];
            c.dense = true;
            if m == "RK4" { c.first_step = Some((xend - x0) / 60.0); }
            c.events = vec![EventSpec { kind: "y0-a".into(), a: a * f, dir: "All".into(), term: 0 },
                            EventSpec { kind: "y0-a".into(), a: a * f * 1.25, dir: if xend > x0 { "Neg".into() } else { "Pos".into() }, term: 0 }];
            c.tags = vec!["events_small_scale".into()];
            o.run(c);
        }
    }
  }
    // a time event scaled down to 1e-12 .. 1e-30: located at its root whatever the scale
    for m in METHODS {
        for (x0, xend) in [(0.0, 2.0), (1.0, -1.0)] {
            for sc in ["1e-12", "-3e-13", "1e-30"] {
                let mut c = base(m, Problem::new("sho", 0.0), x0, xend);
                c.dense = true;
                if m == "RK4" { c.first_step = Some((xend - x0) / 7.0); }
                let root = x0 + (xend - x0) * 0.6180339887;
                c.events = vec![EventSpec { kind: format!("st-c:{}", sc), a: root, dir: "All".into(), term: 0 }];
                c.tags = vec!["events_small_scale+time".into()];
                let r = o.run(c.clone());
                let ok = r.sol.as_ref().map_or(true, |s| s.t_events.len() == 1 && s.t_events[0].len() == 1 && (s.t_events[0][0] - root).abs() <= 1e-9);
                o.pair_f("C09", "grid_values", &r, &r, "fact: a scaled time event s (t - c) is reported once, at c (1e-9)", ok);
                o.pair_f("C08", "grid_values", &r, &r, "fact: a scaled time event s (t - c) is reported once, at c (1e-9)", ok);
            }
        }
    }
}

/// C08: a zero-length run has one (empty) event list per event function, whatever the dimension of the state
fn fam_events_zero(o: &mut Out) {
    for m in METHODS {
        for (prob, nev) in [("lin2", 1usize), ("lin2", 3), ("decay", 2), ("lin3", 1)] {
            let mut c = base(m, Problem::new(prob, 1.0), 2.0, 2.0);
            c.events = (0..nev).map(|i| EventSpec { kind: "y0-a".into(), a: 0.25 * i as f64, dir: "All".into(), term: i % 2 }).collect();
            c.tags = vec!["zero_interval+events".into()];
            o.run(c);
        }
    }
}

/// C09: a sign change inside an accepted step that is shorter than the output handler's absolute time tolerance
fn fam_events_tinysteps(o: &mut Out) {
    for m in METHODS {
        for (x0, dir) in [(0.0, 1.0), (1.0, -1.0)] {
            let hs = 5.0e-13;
            let mut c = base(m, Problem::new("decay", 1.0), x0, x0 + dir * 60.0 * hs);
            if m == "RK4" { c.first_step = Some(hs); } else { c.max_step = Some(hs); }
            c.events = vec![EventSpec { kind: "t-c".into(), a: x0 + dir * 30.4 * hs, dir: "All".into(), term: 0 },
                            EventSpec { kind: "t-c".into(), a: x0 + dir * 41.7 * hs, dir: if dir > 0.0 { "Pos".into() } else { "Neg".into() }, term: 0 }];
            c.tags = vec!["event_in_tiny_step".into()];
            o.run(c);
        }
    }
}

/// C09: a counted (terminal_count >= 2) event whose non-final occurrence shares its step with a later event of another
/// function; more event functions than states
fn fam_events_counted(o: &mut Out) {
    let root = std::f64::consts::PI / 3.0;
    for m in METHODS {
        for dir in [1.0, -1.0] {
            for cnt in [2usize, 3] {
                let mut c = base(m, Problem::new("sho", 0.0), 0.0, dir * 8.0);
                c.rtol = vec![1e-5];
                c.atol = vec![1e-8];
                c.jac = "user".into();
                if m == "RK4" { c.first_step = Some(0.25); } else { c.max_step = Some(0.5); }
                c.events = vec![EventSpec { kind: "y0-a".into(), a: 0.5, dir: "All".into(), term: cnt },
                                EventSpec { kind: "t-c".into(), a: dir * (root + 1.0e-4), dir: "All".into(), term: 0 },
                                EventSpec { kind: "t-c".into(), a: dir * (5.0 * root + 2.0e-3), dir: "All".into(), term: 0 }];
                c.tags = vec![format!("counted_terminal{}+later_event_same_step", cnt)];
                o.run(c);
            }
            let mut c = base(m, Problem::new("decay", 1.0), 0.0, dir * 2.0);
            if dir < 0.0 { c.y0 = vec![0.2]; }
            if m == "RK4" { c.first_step = Some(0.05); }
            let (a1, a2) = if dir > 0.0 { (0.5, 0.25) } else { (0.5, 1.0) };
            c.events = vec![EventSpec { kind: "y0-a".into(), a: a1, dir: "All".into(), term: 0 },
                            EventSpec { kind: "t-c".into(), a: dir * 1.3, dir: "All".into(), term: 0 },
                            EventSpec { kind: "y0-a".into(), a: a2, dir: "All".into(), term: 0 }];
            c.tags = vec!["more_events_than_states".into()];
            o.run(c);
        }
    }
}

/// C09: event values that decay to the subnormal range keep their strict sign: no crossing, no event
fn fam_events_tiny(o: &mut Out) {
    for m in ["RK4", "RK23", "DOPRI5", "BDF"] {
        let mut c = base(m, Problem::new("decay", 60.0), 0.0, 10.0);
        c.rtol = vec![1e-6];
        c.atol = vec![0.0];
        c.dense = m == "RK4";
        if m == "RK4" { c.first_step = Some(0.01); } else { c.max_step = Some(0.05); }
        c.events = vec![EventSpec { kind: "y0-a".into(), a: 0.0, dir: "All".into(), term: 0 }];
        c.tags = vec!["events_tiny_values".into()];
        o.run(c);
    }
}

/// C08: direction filters given as integer codes (any positive code = rising, any negative = falling, 0 = both)
fn fam_events_codes(o: &mut Out) {
    for m in METHODS {
        for (x0, xend) in [(0.0, 7.0), (7.0, 0.0)] {
            for code in [1, 2, 5] {
                let mut c = base(m, Problem::new("sho", 0.0), x0, xend);
                c.rtol = vec![1e-5];
                c.atol = vec![1e-8];
                c.jac = "user".into();
                if m == "RK4" { c.first_step = Some((xend - x0) / 60.0); }
                c.dir_code = code;
                c.events = vec![EventSpec { kind: "y0-a".into(), a: 0.25, dir: "Pos".into(), term: 0 },
                                EventSpec { kind: "y1".into(), a: 0.0, dir: "Neg".into(), term: 0 },
                                EventSpec { kind: "y0-a".into(), a: -0.5, dir: "All".into(), term: 0 }];
                c.tags = vec![format!("direction_code{}", code)];
                o.run(c);
            }
        }
    }
}

fn main() {
    silence_panics();
    let args: Vec<String> = std::env::args().collect();
    if args.len() < 5 {
        eprintln!("usage: record <family> <quick|thorough> <seed> <out.ndjson> [--only case.json]");
        std::process::exit(2);
    }
    let fam = args[1].as_str();
    let quick = args[2] == "quick";
    let seed: u64 = args[3].parse().unwrap_or(1);
    let skip: Vec<u64> = std::env::var("VERIF_SKIP").ok().map(|v| v.split(',').filter_map(|x| x.parse().ok()).collect()).unwrap_or_default();
    let mut o = Out { w: BufWriter::new(std::fs::File::create(&args[4]).expect("out file")), line: 0, next_id: 0, runs: 0, skip };
    let mut rng = Rng::new(seed ^ (fam.len() as u64 * 7919) ^ fam.bytes().fold(0u64, |a, b| a.wrapping_mul(131).wrapping_add(b as u64)));
    if args.len() >= 7 && args[5] == "--only" {
        let txt = std::fs::read_to_string(&args[6]).expect("case file");
        let cases: Vec<Case> = serde_json::from_str(&txt).expect("case json (array)");
        let mut done = Vec::new();
        for c in cases { done.push(o.run(c)); }
        if done.len() == 2 {
            // a replayed pair: the mode is given as the 8th argument
            let mode = args.get(7).cloned().unwrap_or("equal".into());
            let prop = args.get(8).cloned().unwrap_or("C12".into());
            o.pair(&prop, &mode, &done[0], &done[1], "replay");
        }
    } else {
        match fam {
            "core" => { fam_core(&mut o, quick, &mut rng); fam_events_counted(&mut o); }
            "adversarial" => fam_adversarial(&mut o, quick, &mut rng),
            "lowlevel" => fam_lowlevel(&mut o, quick, &mut rng),
            "observer" => { fam_observer(&mut o, quick, &mut rng); fam_observer_wide(&mut o, quick); fam_observer_firststep(&mut o); fam_observer_long(&mut o, quick); fam_observer_stiff(&mut o); fam_observer_terminal(&mut o); fam_observer_tinyspan(&mut o); }
            "budget" => { fam_budget(&mut o, quick, &mut rng); fam_budget_early_rejections(&mut o, quick); fam_budget_radau(&mut o, quick); fam_budget_singular(&mut o); }
            "terminal" => { fam_terminal(&mut o, quick, &mut rng); fam_terminal_last(&mut o, quick); fam_terminal_sweep(&mut o, quick); fam_terminal_budget(&mut o); fam_terminal_tinysteps(&mut o); fam_terminal_unbounded(&mut o); }
            "symmetry" => fam_symmetry(&mut o, quick, &mut rng),
            "storage" => { fam_storage(&mut o, quick, &mut rng); fam_storage_mass(&mut o, quick); fam_storage_jacsource(&mut o); }
            "teval" => { fam_teval(&mut o, quick, &mut rng); fam_teval_zero(&mut o); fam_teval_landing(&mut o); fam_teval_offset(&mut o); fam_teval_cancellation(&mut o); fam_teval_offset_short(&mut o); fam_teval_single(&mut o); fam_teval_minstep(&mut o); fam_terminal_unbounded(&mut o); }
            "events" => { fam_events(&mut o, quick, &mut rng); fam_events_small(&mut o); fam_events_codes(&mut o); fam_events_tiny(&mut o); fam_events_zero(&mut o); fam_events_tinysteps(&mut o); fam_events_counted(&mut o); }
            _ => { eprintln!("unknown family {}", fam); std::process::exit(2); }
        }
    }
    o.w.flush().unwrap();
    eprintln!("record: family={} runs={} lines={}", fam, o.runs, o.line);
}

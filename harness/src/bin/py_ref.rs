//! C20 — Rust side of the relational check "Python binding == Rust solve_ivp in SciPy layout".
//!
//!   py_ref --emit-cases <cases.json> --scenarios <scen.json> --seed <u64> --tier quick|thorough
//!   py_ref --run <cases.json>            (NDJSON on stdout, one record per case)
//!
//! The scenario file holds the REPLAY records printed by TLC for spec/python/MC_PyLayer: shapes (n, m),
//! sparsity patterns with the Level-B grouping, and the option-parsing table (method aliases, tolerance
//! forms, step forms, event attributes, Jacobian forms) *with the parse result the specification expects*.
//! The Rust reference run is configured from the expected parse result, the Python run from the raw
//! option: a binding that parses differently from the specification produces different numbers.
//!
//! All floats travel as 16-hex-digit tokens of their raw bits (never as JSON numbers).
//! The right-hand sides use only +, -, * in a fixed association order that harness/py/c20_driver.py
//! repeats literally.
use ivp::prelude::*;
use ivp::methods::Tolerance;
use ivp_verif_harness::util::{catch, silence_panics, tok, toks, Rng};
use serde::{Deserialize, Serialize};
use std::cell::Cell;
use std::io::Write;

fn untok(s: &str) -> f64 { f64::from_bits(u64::from_str_radix(s, 16).expect("token")) }
fn untoks(v: &[String]) -> Vec<f64> { v.iter().map(|s| untok(s)).collect() }

#[derive(Serialize, Deserialize, Clone, Default, Debug)]
struct Tol { form: String, expect: String, v: Vec<String> }
#[derive(Serialize, Deserialize, Clone, Default, Debug)]
struct Step { form: String, expect: String, v: String }
#[derive(Serialize, Deserialize, Clone, Default, Debug)]
struct Ev { kind: String, idx: usize, c: String, terminal: String, direction: String, rterm: bool, rdir: i32 }
#[derive(Serialize, Deserialize, Clone, Default, Debug)]
struct Pat { n: usize, rows: Vec<Vec<i64>>, form: String, groups: Vec<i64>, ngroups: i64 }
#[derive(Serialize, Deserialize, Clone, Default, Debug)]
#[serde(default)]
struct Case {
    id: String,
    kind: String,        // "full" (complete relational comparison) | "grp" (observe the FD perturbation groups)
    class: String,       // option class (part of the violation signature)
    problem: String,     // decay | sho | affine | vdp | lin
    n: usize,
    a: Vec<Vec<i64>>,    // matrix of problem "lin"
    params: Vec<String>, // parameter values; passed through `args` when use_args
    use_args: bool,
    method: String,      // what Python passes
    method_form: String, // str | none | nonstr
    rmethod: String,     // what the specification says it means
    t0: String,
    tf: String,
    y0: Vec<String>,
    y0_form: String,     // list | ndarray | intlist | intarray
    rtol: Tol,
    atol: Tol,
    has_t_eval: bool,
    t_eval: Vec<String>,
    t_eval_form: String, // list | ndarray
    dense: bool,
    probes: Vec<String>,
    probes_out: Vec<String>,
    events: Vec<Ev>,
    events_form: String, // none | single | list | tuple
    first_step: Step,
    max_step: Step,
    max_steps: i64,      // 0 = absent
    jac: String,         // none | const | callable
    jac_form: String,    // none | callable | delivery form of a constant matrix (ndarray fortran tview strided intarray intfortran int32)
    jac_ret: String,     // delivery form of the matrix a callable jac returns
    ev_ret: String,      // float | npfloat | zerod : type of the value the event functions return
    tspan_form: String,  // tuple | list | ndarray
    has_sparsity: bool,
    pat: Pat,
    ret: String,         // list | tuple | ndarray
    probe_empty: bool,   // also call sol(np.array([])) (k = 0)
    doc: bool,           // every option form used is documented by the binding (false: Level-B expectation only, drift)
    jac_source: String,  // "" (derive from `jac`) | callable | const | fd-grouped | fd-dense : the Jacobian source PyLayer's jacsrc machine
                         // names for this combination of jac / jac_sparsity; the reference run is configured from it
    probe_steps: bool,   // dense: also evaluate sol at every reported time sol.t[k] (accepted step ends when there is no t_eval)
    want_pattern_change: bool, // the callable jac returns a sparse container whose stored pattern must change between calls (adequacy)
    census: bool,        // also count, per event function, the crossings in each direction (all events non-terminal): scenario adequacy
}

// ------------------------------------------------------------------------------------------------ problems
struct Prob {
    kind: String,
    n: usize,
    a: Vec<Vec<f64>>,
    nz: Vec<Vec<usize>>,
    p: Vec<f64>,
    events: Vec<Ev>,
    evc: Vec<f64>,
    calls: Cell<usize>,
    jcalls: Cell<usize>,
    ecalls: Cell<usize>,
}

impl Prob {
    fn new(c: &Case) -> Prob {
        let a: Vec<Vec<f64>> = c.a.iter().map(|r| r.iter().map(|&v| v as f64).collect()).collect();
        let nz = c.a.iter().map(|r| r.iter().enumerate().filter(|(_, v)| **v != 0).map(|(i, _)| i).collect()).collect();
        Prob { kind: c.problem.clone(), n: c.n, a, nz, p: untoks(&c.params), events: c.events.clone(),
               evc: c.events.iter().map(|e| untok(&e.c)).collect(),
               calls: Cell::new(0), jcalls: Cell::new(0), ecalls: Cell::new(0) }
    }
    // NOTE: every expression below is mirrored literally in harness/py/c20_driver.py
    fn rhs(&self, t: f64, y: &[f64], d: &mut [f64]) {
        self.calls.set(self.calls.get() + 1);
        let p = &self.p;
        match self.kind.as_str() {
            "decay" => { for i in 0..self.n { d[i] = p[0] * y[i]; } }
            "sho" => { d[0] = p[0] * y[1]; d[1] = -p[0] * y[0]; }
            "affine" => { d[0] = p[0] * y[0] + p[1] * t; }
            "vdp" => { d[0] = y[1]; d[1] = p[0] * ((1.0 - y[0] * y[0]) * y[1]) - y[0]; }
            "switch" => {
                // stiff 3-state system with a coupling term of strength p[0] that is switched off once y[2] <= 0.5
                let sk = (if y[2] > 0.5 { 1.0 } else { 0.0 }) * p[0];
                d[0] = (-200.0 * y[0] + sk * y[1]) + 1.0;
                d[1] = -0.5 * y[1] - sk * y[0];
                d[2] = -1.0 * y[2];
            }
            "lin" => {
                for r in 0..self.n {
                    let mut acc = 0.0;
                    for &c in &self.nz[r] { acc = acc + self.a[r][c] * y[c]; }
                    d[r] = p[0] * acc;
                }
            }
            k => panic!("unknown problem {k}"),
        }
    }
    fn jacobian(&self, _t: f64, y: &[f64], j: &mut Matrix) {
        self.jcalls.set(self.jcalls.get() + 1);
        let p = &self.p;
        let n = self.n;
        for r in 0..n { for c in 0..n { j[(r, c)] = 0.0; } }
        match self.kind.as_str() {
            "decay" => { for i in 0..n { j[(i, i)] = p[0]; } }
            "sho" => { j[(0, 1)] = p[0]; j[(1, 0)] = -p[0]; }
            "affine" => { j[(0, 0)] = p[0]; }
            "vdp" => {
                j[(0, 1)] = 1.0;
                j[(1, 0)] = p[0] * (-2.0 * y[0] * y[1]) - 1.0;
                j[(1, 1)] = p[0] * (1.0 - y[0] * y[0]);
            }
            "switch" => {
                // entries (0,1) and (1,0) are +-p[0] while y[2] > 0.5 and exactly +0.0 afterwards
                let sk = (if y[2] > 0.5 { 1.0 } else { 0.0 }) * p[0];
                j[(0, 0)] = -200.0; j[(0, 1)] = sk;
                j[(1, 0)] = 0.0 - sk; j[(1, 1)] = -0.5;
                j[(2, 2)] = -1.0;
            }
            "lin" => { for r in 0..n { for c in 0..n { j[(r, c)] = p[0] * self.a[r][c]; } } }
            k => panic!("unknown problem {k}"),
        }
    }
    fn ev(&self, t: f64, y: &[f64], out: &mut [f64]) {
        self.ecalls.set(self.ecalls.get() + 1);
        for (i, e) in self.events.iter().enumerate() {
            out[i] = if e.kind == "time" { t - self.evc[i] } else { y[e.idx] - self.evc[i] };
        }
    }
    fn cfg(&self, i: usize) -> EventConfig {
        let mut c = EventConfig::new();
        if self.events[i].rterm { c.terminal(); }
        c.direction(Direction::from(self.events[i].rdir));
        c
    }
}

struct NoJac<'a>(&'a Prob);
impl<'a> IVP for NoJac<'a> {
    fn ode(&self, x: f64, y: &[f64], d: &mut [f64]) { self.0.rhs(x, y, d) }
    fn events(&self, x: f64, y: &[f64], out: &mut [f64]) { self.0.ev(x, y, out) }
    fn n_events(&self) -> usize { self.0.events.len() }
    fn event_config(&self, i: usize) -> EventConfig { self.0.cfg(i) }
}
struct WithJac<'a>(&'a Prob);
impl<'a> IVP for WithJac<'a> {
    fn ode(&self, x: f64, y: &[f64], d: &mut [f64]) { self.0.rhs(x, y, d) }
    fn events(&self, x: f64, y: &[f64], out: &mut [f64]) { self.0.ev(x, y, out) }
    fn n_events(&self) -> usize { self.0.events.len() }
    fn event_config(&self, i: usize) -> EventConfig { self.0.cfg(i) }
    fn jac(&self, x: f64, y: &[f64], j: &mut Matrix) { self.0.jacobian(x, y, j) }
}

fn method_of(name: &str) -> Method {
    match name {
        "RK23" => Method::RK23, "DOPRI5" => Method::DOPRI5, "DOP853" => Method::DOP853,
        "RK4" => Method::RK4, "RADAU" => Method::RADAU, "BDF" => Method::BDF,
        k => panic!("scenario names unknown canonical method {k}"),
    }
}
fn tol_of(t: &Tol, default: f64) -> Tolerance {
    match t.expect.as_str() {
        "Default" => Tolerance::Scalar(default),
        "Scalar" => Tolerance::Scalar(untok(&t.v[0])),
        "Vector" => Tolerance::Vector(untoks(&t.v)),
        k => panic!("tol expect {k}"),
    }
}
fn step_of(s: &Step) -> Option<f64> { if s.expect == "Some" { Some(untok(&s.v)) } else { None } }

fn run_case(c: &Case) -> serde_json::Value {
    let prob = Prob::new(c);
    let opts = Options::builder()
        .method(method_of(&c.rmethod))
        .dense_output(c.dense)
        .maybe_t_eval(if c.has_t_eval { Some(untoks(&c.t_eval)) } else { None })
        .maybe_max_step(step_of(&c.max_step))
        .maybe_first_step(step_of(&c.first_step))
        .maybe_max_steps(if c.max_steps > 0 { Some(c.max_steps as usize) } else { None })
        .rtol(tol_of(&c.rtol, 1e-3))
        .atol(tol_of(&c.atol, 1e-6))
        .build();
    let (t0, tf) = (untok(&c.t0), untok(&c.tf));
    let y0 = untoks(&c.y0);
    let user_jac = match c.jac_source.as_str() {
        "" => c.jac != "none",
        "callable" | "const" => true,          // the user's Jacobian (Prob::jacobian; the constant matrix is the same function of y0)
        "fd-grouped" | "fd-dense" => false,    // finite differences (IVP::jac default); a pattern changes evaluation counts only
        k => panic!("jac_source {k}"),
    };
    let res = catch(|| {
        if user_jac { solve_ivp(&WithJac(&prob), t0, tf, &y0, opts) } else { solve_ivp(&NoJac(&prob), t0, tf, &y0, opts) }
    });
    let mut rec = serde_json::json!({"id": c.id, "side": "rust", "calls": prob.calls.get(), "jcalls": prob.jcalls.get(),
                                     "ecalls": prob.ecalls.get(), "n": c.n});
    match res {
        Err(msg) => { rec["ok"] = false.into(); rec["fail"] = "panic".into(); rec["msg"] = msg.into(); }
        Ok(Err(e)) => { rec["ok"] = false.into(); rec["fail"] = "error".into(); rec["msg"] = format!("{:?}", e).into(); }
        Ok(Ok(sol)) => {
            rec["ok"] = true.into();
            rec["fail"] = "".into();
            rec["msg"] = "".into();
            rec["m"] = sol.t.len().into();
            rec["t"] = toks(&sol.t).into();
            rec["y"] = sol.y.iter().map(|r| toks(r)).collect::<Vec<_>>().into();
            rec["t_events"] = sol.t_events.iter().map(|r| toks(r)).collect::<Vec<_>>().into();
            rec["y_events"] = sol.y_events.iter().map(|e| e.iter().map(|r| toks(r)).collect::<Vec<_>>()).collect::<Vec<_>>().into();
            rec["status"] = format!("{:?}", sol.status).into();
            rec["nfev"] = sol.nfev.into();
            rec["njev"] = sol.njev.into();
            rec["nlu"] = sol.nlu.into();
            let mut probes = Vec::new();
            if c.dense {
                for p in c.probes.iter().chain(c.probes_out.iter()) {
                    let r = catch(|| sol.sol(untok(p)));
                    probes.push(match r {
                        Ok(Ok(v)) => serde_json::json!({"t": p, "inside": true, "v": toks(&v)}),
                        Ok(Err(_)) => serde_json::json!({"t": p, "inside": false, "v": Vec::<String>::new()}),
                        Err(_) => serde_json::json!({"t": p, "inside": false, "v": Vec::<String>::new()}),
                    });
                }
            }
            rec["sol"] = probes.into();
            // sol at every reported time (the accepted step ends when there is no t_eval): Solution::sol, token for token
            let mut at_steps = Vec::new();
            if c.dense && c.probe_steps {
                for &t in sol.t.iter() {
                    at_steps.push(match catch(|| sol.sol(t)) {
                        Ok(Ok(v)) => serde_json::json!({"t": tok(t), "inside": true, "v": toks(&v)}),
                        _ => serde_json::json!({"t": tok(t), "inside": false, "v": Vec::<String>::new()}),
                    });
                }
            }
            rec["sol_steps"] = at_steps.into();
        }
    }
    rec["census"] = if c.census { census(c) } else { serde_json::json!([]) };
    rec
}

/// Scenario adequacy of the event-list cases, measured on the Rust API: the same problem with every event non-terminal and
/// direction +1 (resp. -1) for all of them; per event function <<number of rising crossings, number of falling crossings>>.
/// (-1 = that run failed.)  Trace_Py demands >= 1 of each, so that a wrong direction / terminal flag changes the outcome.
fn census(c: &Case) -> serde_json::Value {
    let mut counts: Vec<[i64; 2]> = vec![[-1, -1]; c.events.len()];
    for (slot, dir) in [(0usize, 1i32), (1usize, -1i32)] {
        let mut c2 = c.clone();
        for e in c2.events.iter_mut() { e.rterm = false; e.rdir = dir; }
        let prob = Prob::new(&c2);
        let opts = Options::builder().method(method_of(&c.rmethod)).rtol(tol_of(&c.rtol, 1e-3)).atol(tol_of(&c.atol, 1e-6)).build();
        let y0 = untoks(&c.y0);
        if let Ok(Ok(sol)) = catch(|| solve_ivp(&NoJac(&prob), untok(&c.t0), untok(&c.tf), &y0, opts)) {
            for (i, te) in sol.t_events.iter().enumerate() { if i < counts.len() { counts[i][slot] = te.len() as i64; } }
        }
    }
    serde_json::json!(counts.iter().map(|p| vec![p[0], p[1]]).collect::<Vec<_>>())
}

// ------------------------------------------------------------------------------------------------ case table
#[derive(Deserialize, Clone, Debug, Default)]
struct Scen {
    kind: String,
    #[serde(default)] n: usize,
    #[serde(default)] m: usize,
    #[serde(default)] name: String,
    #[serde(default)] form: String,
    #[serde(default)] expect: String,
    #[serde(default)] terminal: String,
    #[serde(default)] direction: String,
    #[serde(default)] rterm: i64,
    #[serde(default)] rdir: i64,
    #[serde(default)] rows: Vec<Vec<i64>>,
    #[serde(default)] groups: Vec<i64>,
    #[serde(default)] ngroups: i64,
    #[serde(default)] doc: bool,
    #[serde(default)] njev: String,
    #[serde(default, rename = "where")] where_: String,   // kind "solseg": position class of the probe time (before start interior step-end end after)
    #[serde(default)] jac: String,          // kind "jacsrc": form of `jac`, container of `jac_sparsity`, source the specification expects
    #[serde(default)] sp: String,
    #[serde(default)] source: String,
    #[serde(default)] evs: Vec<ScenEv>,     // kind "evlist": per event function the attribute forms and the parse result the specification expects
}
#[derive(Deserialize, Clone, Debug, Default)]
struct ScenEv { terminal: String, direction: String, rterm: i64, rdir: i64, doc: bool }

struct Tables { methods: Vec<Scen>, tols: Vec<Scen>, steps: Vec<Scen>, evattrs: Vec<Scen>, jacs: Vec<Scen>,
                shapes: Vec<Scen>, patterns: Vec<Scen>, evundoc: Vec<Scen>, spforms: Vec<Scen>, evlists: Vec<Scen>,
                jacsrcs: Vec<Scen>, solsegs: Vec<Scen>, jacrets: Vec<Scen> }

fn d(x: f64) -> String { tok(x) }

fn base_case(problem: &str, n: usize) -> Case {
    let mut c = Case::default();
    c.kind = "full".into();
    c.doc = true;
    c.problem = problem.into();
    c.method_form = "str".into();
    c.y0_form = "list".into();
    c.t_eval_form = "list".into();
    c.events_form = "none".into();
    c.jac = "none".into();
    c.jac_form = "none".into();
    c.ret = "list".into();
    c.jac_ret = "ndarray".into();
    c.ev_ret = "float".into();
    c.tspan_form = "tuple".into();
    c.rtol = Tol { form: "absent".into(), expect: "Default".into(), v: vec![] };
    c.atol = Tol { form: "absent".into(), expect: "Default".into(), v: vec![] };
    c.first_step = Step { form: "absent".into(), expect: "None".into(), v: d(0.0) };
    c.max_step = Step { form: "absent".into(), expect: "None".into(), v: d(0.0) };
    let (t0, tf, y0, params): (f64, f64, Vec<f64>, Vec<f64>) = match problem {
        "decay" => (0.0, 2.0, (0..n).map(|i| (2u32 << i) as f64).collect(), vec![-0.5]),
        "sho" => (0.0, 4.0, vec![1.0, 0.0], vec![1.5]),
        "affine" => (0.0, 3.0, vec![1.0], vec![-0.75, 0.5]),
        "vdp" => (0.0, 3.0, vec![2.0, 0.0], vec![2.0]),
        "lin" => (0.0, 2.0, (0..n).map(|i| (i + 1) as f64).collect(), vec![0.75]),
        "switch" => (0.0, 3.0, vec![1.0, 2.0, 1.0], vec![150.0]),
        k => panic!("problem {k}"),
    };
    c.n = y0.len();
    if problem == "lin" && n == 3 { c.a = vec![vec![-2, 1, 0], vec![2, -3, 1], vec![0, 3, -2]]; } // non-symmetric
    c.t0 = d(t0); c.tf = d(tf); c.y0 = toks(&y0); c.params = toks(&params);
    c
}

fn comp_event(problem: &str) -> (usize, f64) {
    match problem { "decay" => (0, 1.5), "sho" => (0, 0.0), "affine" => (0, 0.75), "vdp" => (0, 1.0), _ => (2, 1.5) }
}

fn lerp(t0: f64, tf: f64, num: f64, den: f64) -> f64 { t0 + (tf - t0) * (num / den) }

fn set_method(c: &mut Case, s: &Scen) {
    c.method = s.name.clone(); c.rmethod = s.expect.clone(); c.method_form = s.form.clone();
    if !s.doc { c.doc = false; }
}
fn canonical<'a>(tb: &'a Tables, name: &str) -> &'a Scen {
    tb.methods.iter().find(|s| s.name == name && s.form == "str").unwrap_or_else(|| panic!("scenario table lacks method {name}"))
}
fn mk_event(c: &Case, kind: &str, which: usize, attr: &Scen) -> Ev {
    let (t0, tf) = (untok(&c.t0), untok(&c.tf));
    let (idx, cc) = if kind == "time" { (0, lerp(t0, tf, 3.0 + 2.0 * which as f64, 8.0)) } else { comp_event(&c.problem) };
    Ev { kind: kind.into(), idx, c: d(cc), terminal: attr.terminal.clone(), direction: attr.direction.clone(),
         rterm: attr.rterm != 0, rdir: attr.rdir as i32 }
}
fn attr<'a>(tb: &'a Tables, terminal: &str, direction: &str) -> &'a Scen {
    tb.evattrs.iter().find(|s| s.terminal == terminal && s.direction == direction)
        .unwrap_or_else(|| panic!("scenario table lacks evattr {terminal}/{direction}"))
}

const PROBLEMS: [(&str, usize); 5] = [("decay", 3), ("sho", 2), ("affine", 1), ("vdp", 2), ("lin", 3)];
const CANON: [&str; 6] = ["RK45", "RK23", "DOP853", "Radau", "BDF", "RK4"];
const FACETS: [&str; 25] = ["tol-scalar", "tol-vector", "tol-form", "t_eval", "dense", "ev-terminal", "ev-direction", "ev-multi",
    "first_step", "max_step", "max_steps", "backward", "jac-const", "jac-callable", "args", "args-events", "args-jac",
    "alias", "ret-form", "y0-form", "dense-events-teval", "step-form", "invalid", "ev-ret", "tspan-form"];

fn apply_facet(c: &mut Case, facet: &str, tb: &Tables, rng: &mut Rng) {
    let (t0, tf) = (untok(&c.t0), untok(&c.tf));
    let n = c.n;
    match facet {
        "tol-scalar" => {
            c.rtol = Tol { form: "float".into(), expect: "Scalar".into(), v: vec![d(1e-6)] };
            c.atol = Tol { form: "float".into(), expect: "Scalar".into(), v: vec![d(1e-9)] };
        }
        "tol-vector" => {
            let rv: Vec<f64> = (0..n).map(|i| if i % 2 == 0 { 1e-5 } else { 1e-7 }).collect();
            let av: Vec<f64> = (0..n).map(|i| if i % 2 == 0 { 1e-10 } else { 1e-8 }).collect();
            c.rtol = Tol { form: "list".into(), expect: "Vector".into(), v: toks(&rv) };
            c.atol = Tol { form: "ndarray".into(), expect: "Vector".into(), v: toks(&av) };
        }
        "tol-form" => {
            for which in 0..2 {
                let s = rng.pick(&tb.tols).clone();
                let v: Vec<f64> = match s.expect.as_str() {
                    "Default" => vec![],
                    "Scalar" => vec![if which == 0 { 1e-5 } else { 1e-8 }],
                    _ => (0..n).map(|i| (if which == 0 { 1e-5 } else { 1e-8 }) * (1.0 + i as f64)).collect(),
                };
                let t = Tol { form: s.form.clone(), expect: s.expect.clone(), v: toks(&v) };
                if which == 0 { c.rtol = t } else { c.atol = t }
            }
        }
        "t_eval" => {
            c.has_t_eval = true;
            let k = 2 + rng.below(8);
            c.t_eval = (0..=k).map(|i| d(lerp(t0, tf, i as f64, k as f64))).collect();
            c.t_eval_form = (*rng.pick(&["list", "ndarray"])).into();
        }
        "dense" => {
            c.dense = true;
            c.probes = [0.0, 1.0, 5.0, 8.0, 15.0, 16.0].iter().map(|&k| d(lerp(t0, tf, k, 16.0))).collect();
            c.probes_out = vec![d(lerp(t0, tf, 20.0, 16.0)), d(lerp(t0, tf, -4.0, 16.0))];
            // PyLayer's solseg table: probe positions "start" / "step-end" / "end" are the reported times themselves
            c.probe_steps = tb.solsegs.iter().any(|s| s.where_ == "step-end");
        }
        "ev-terminal" => {
            let dir = *rng.pick(&["absent", "z"]);
            let kind = *rng.pick(&["comp", "time"]);
            let e = mk_event(c, kind, 0, attr(tb, "true", dir));
            c.events = vec![e];
            c.events_form = (*rng.pick(&["single", "list"])).into();
        }
        "ev-direction" => {
            let s = rng.pick(&tb.evattrs).clone();
            let e1 = mk_event(c, "comp", 0, &s);
            let s2 = rng.pick(&tb.evattrs).clone();
            let e2 = mk_event(c, "time", 1, &s2);
            c.events = vec![e1, e2];
            c.events_form = "list".into();
        }
        "ev-multi" => {
            let mut evs = Vec::new();
            for w in 0..3 {
                let s = rng.pick(&tb.evattrs).clone();
                let kind = if w == 1 { "comp" } else { "time" };
                evs.push(mk_event(c, kind, w, &s));
            }
            c.events = evs;
            c.events_form = (*rng.pick(&["list", "tuple"])).into();
        }
        "first_step" => { c.first_step = Step { form: "float".into(), expect: "Some".into(), v: d((tf - t0) / 16.0) }; }
        "max_step" => { c.max_step = Step { form: "float".into(), expect: "Some".into(), v: d((tf - t0).abs() / 8.0) }; }
        "step-form" => {
            let s1 = rng.pick(&tb.steps).clone();
            c.max_step = Step { form: s1.form.clone(), expect: s1.expect.clone(), v: d(if s1.form == "int" { 1.0 } else if s1.form == "inf" { f64::INFINITY } else { (tf - t0).abs() / 4.0 }) };
            let s2 = rng.pick(&tb.steps).clone();
            if s2.form != "inf" {
                c.first_step = Step { form: s2.form.clone(), expect: s2.expect.clone(),
                                      v: d(if s2.form == "int" { if tf > t0 { 1.0 } else { -1.0 } } else { (tf - t0) / 32.0 }) };
            }
        }
        "max_steps" => { c.max_steps = 3 + rng.below(4) as i64; }
        "backward" => { let (a, b) = (c.t0.clone(), c.tf.clone()); c.t0 = b; c.tf = a; }
        "jac-const" => {
            if c.problem == "vdp" { c.jac = "callable".into(); c.jac_form = "callable".into(); }
            else { c.jac = "const".into(); c.jac_form = (*rng.pick(&["ndarray", "fortran", "tview", "strided", "intarray"])).into();
                   if c.jac_form == "intarray" && c.problem != "lin" { c.jac_form = "fortran".into(); }
                   if c.jac_form == "intarray" { c.params = toks(&[1.0]); } }
        }
        "jac-callable" => { c.jac = "callable".into(); c.jac_form = "callable".into();
                            c.jac_ret = (*rng.pick(&["ndarray", "fortran", "tview", "strided"])).into(); }
        "args" => { c.use_args = true; }
        "args-events" => {
            c.use_args = true;
            let e1 = mk_event(c, "comp", 0, attr(tb, "absent", "absent"));
            let e2 = mk_event(c, "time", 1, attr(tb, "true", "absent"));
            c.events = vec![e1, e2];
            c.events_form = "list".into();
        }
        "args-jac" => { c.use_args = true; c.jac = "callable".into(); c.jac_form = "callable".into(); }
        "alias" => { /* method chosen by caller */ }
        "invalid" => {
            // inputs the Rust API rejects (Err) or panics on: the binding must raise, never return a result
            if c.rmethod == "BDF" {
                c.rtol = Tol { form: "float".into(), expect: "Scalar".into(), v: vec![d(-1e-3)] };      // Err(Config(NegativeTolerance))
            } else {
                c.atol = Tol { form: "list".into(), expect: "Vector".into(), v: toks(&vec![1e-6; 1]) }; // index panic for n >= 2
            }
        }
        "ret-form" => { c.ret = (*rng.pick(&["tuple", "ndarray", "npfloat_list"])).into(); }
        "ev-ret" => {
            let e1 = mk_event(c, "comp", 0, attr(tb, "absent", "absent"));
            let e2 = mk_event(c, "time", 1, attr(tb, "absent", "p1"));
            c.events = vec![e1, e2];
            c.events_form = "list".into();
            c.ev_ret = (*rng.pick(&["npfloat", "zerod"])).into();
        }
        "tspan-form" => { c.tspan_form = (*rng.pick(&["list", "ndarray"])).into(); }
        "y0-form" => { c.y0_form = (*rng.pick(&["ndarray", "intlist", "intarray"])).into(); }
        "dense-events-teval" => {
            apply_facet(c, "dense", tb, rng);
            apply_facet(c, "t_eval", tb, rng);
            apply_facet(c, "ev-direction", tb, rng);
        }
        k => panic!("facet {k}"),
    }
}

fn lin_from_pattern(rows: &[Vec<i64>]) -> Vec<Vec<i64>> {
    let n = rows.len();
    (0..n).map(|r| (0..n).map(|c| if rows[r][c] != 0 { let v = ((r * n + c) % 5 + 1) as i64; if r == c { -v } else { v } } else { 0 }).collect()).collect()
}

fn gen_cases(tb: &Tables, seed: u64, tier: &str) -> Vec<Case> {
    let mut rng = Rng::new(seed ^ 0xC20);
    let mut out: Vec<Case> = Vec::new();
    let thorough = tier == "thorough";
    // 1. baseline grid: every problem x every canonical method name
    for (p, n) in PROBLEMS.iter() {
        for m in CANON.iter() {
            let mut c = base_case(p, *n);
            set_method(&mut c, canonical(tb, m));
            c.class = "baseline".into();
            out.push(c);
        }
    }
    // 2. option facets: every facet at least once per round; method and problem rotate, a second facet is sometimes added
    let rounds = if thorough { 18 } else { 2 };
    let mut v = 0usize;
    for round in 0..rounds {
        for (fi, facet) in FACETS.iter().enumerate() {
            v += 1;
            let (mut p, mut n) = PROBLEMS[(v + round + rng.below(5)) % 5];
            if *facet == "invalid" && n == 1 { p = "sho"; n = 2; }
            let mut c = base_case(p, n);
            let implicit_only = facet.starts_with("jac") || *facet == "args-jac";
            let mname = if implicit_only { ["Radau", "BDF"][(v + round) % 2] }
                        else if *facet == "invalid" { ["BDF", "RK45", "BDF", "DOP853"][round % 4] }
                        else { CANON[(fi + round * 5 + v / FACETS.len()) % 6] };
            if *facet == "alias" { let s = rng.pick(&tb.methods).clone(); set_method(&mut c, &s); }
            else { set_method(&mut c, canonical(tb, mname)); }
            apply_facet(&mut c, facet, tb, &mut rng);
            c.class = facet.to_string();
            if thorough && rng.chance(0.4) {
                let f2 = *rng.pick(&["t_eval", "dense", "backward", "tol-scalar", "args", "max_step", "ret-form"]);
                if f2 != *facet && !(facet.contains("dense") && f2 == "dense") && !(facet.contains("teval") && f2 == "t_eval")
                    && !(*facet == "t_eval" && f2 == "t_eval") {
                    // "backward" must precede anything derived from the span: re-derive by rebuilding
                    if f2 == "backward" {
                        let mut c2 = base_case(p, n);
                        c2.method = c.method.clone(); c2.rmethod = c.rmethod.clone(); c2.method_form = c.method_form.clone(); c2.doc = c.doc;
                        apply_facet(&mut c2, "backward", tb, &mut rng);
                        apply_facet(&mut c2, facet, tb, &mut rng);
                        c = c2;
                    } else {
                        apply_facet(&mut c, f2, tb, &mut rng);
                    }
                    c.class = format!("{}+{}", facet, f2);
                }
            }
            out.push(c);
        }
    }
    // 3. every method-table row once (aliases, case variants, unknown names, None, non-string)
    for s in tb.methods.iter() {
        let (p, n) = PROBLEMS[rng.below(5)];
        let mut c = base_case(p, n);
        set_method(&mut c, s);
        c.class = "alias".into();
        out.push(c);
    }
    // 3c. Jacobian delivery forms (memory layouts / dtypes of PyLayer's jac table) x {constant, callable} x {Radau, BDF};
    //     non-symmetric Jacobians (sho, lin 3x3, vdp) so that a transposed read changes the numbers
    {
        let forms: Vec<&Scen> = tb.jacs.iter().filter(|s| s.njev == "zero").collect();
        let mut k = 0usize;
        for f in forms.iter() {
            for callable in [false, true] {
                for m in ["Radau", "BDF"] {
                    k += 1;
                    let int_form = f.form.starts_with("int");
                    let (p, n) = if int_form { ("lin", 3) } else if callable { [("vdp", 2), ("lin", 3), ("sho", 2)][k % 3] } else { [("sho", 2), ("lin", 3)][k % 2] };
                    let mut c = base_case(p, n);
                    set_method(&mut c, canonical(tb, m));
                    if int_form { c.params = toks(&[1.0]); }
                    if callable { c.jac = "callable".into(); c.jac_form = "callable".into(); c.jac_ret = f.form.clone(); }
                    else { c.jac = "const".into(); c.jac_form = f.form.clone(); }
                    c.class = "jac-layout".into();
                    out.push(c);
                }
            }
        }
    }
    // 3b. event attributes outside the documented domain (int-valued terminal, fractional direction): Level-B expectation only
    for (k, s) in tb.evundoc.iter().enumerate() {
        let (p, n) = PROBLEMS[k % 5];
        let mut c = base_case(p, n);
        set_method(&mut c, canonical(tb, CANON[k % 6]));
        let e = mk_event(&c, "comp", 0, s);
        c.events = vec![e];
        c.events_form = "single".into();
        c.doc = false;
        c.class = "ev-undocumented".into();
        if tier == "quick" && k % 4 != (seed % 4) as usize { continue; }
        out.push(c);
    }
    // 4. shapes (n, m) from the transposition model: decay with n components and m requested times; dense probes for sol shapes
    for s in tb.shapes.iter() {
        if s.n == 0 { continue; }
        let mut c = base_case("decay", s.n);
        set_method(&mut c, canonical(tb, CANON[(s.n + s.m) % 6]));
        c.has_t_eval = true;
        let (t0, tf) = (untok(&c.t0), untok(&c.tf));
        c.t_eval = (0..s.m).map(|i| d(lerp(t0, tf, (i + 1) as f64, 4.0))).collect();
        c.t_eval_form = if (s.n + s.m) % 2 == 0 { "list".into() } else { "ndarray".into() };
        c.dense = true;
        c.probes = (0..s.m).map(|i| d(lerp(t0, tf, (2 * i + 1) as f64, 8.0))).collect();
        // one event per shape case so that y_events has k rows of n columns (k = 1 here; k up to 3 in ev-multi cases)
        let e = mk_event(&c, "time", 0, attr(tb, "absent", "absent"));
        c.events = vec![e];
        c.events_form = "list".into();
        c.class = format!("shape-m{}", if s.m == 0 { "0" } else if s.m == 1 { "1" } else { "k" });
        c.probe_empty = s.m == 0;
        out.push(c);
    }
    // 5. sparsity patterns. "grp": tiny run that exposes the perturbation groups of the first Jacobian; "full": complete comparison
    let mut nfull = 0;
    let full_budget = if thorough { 60 } else { 8 };
    for (pi, s) in tb.patterns.iter().enumerate() {
        let a = lin_from_pattern(&s.rows);
        let mut c = base_case("lin", s.n);
        c.a = a;
        c.n = s.n;
        c.y0 = toks(&(0..s.n).map(|i| (i + 1) as f64).collect::<Vec<_>>());
        c.params = toks(&[1.0]);
        c.has_sparsity = true;
        c.pat = Pat { n: s.n, rows: s.rows.clone(), form: tb.spforms[pi % tb.spforms.len()].form.clone(), groups: s.groups.clone(), ngroups: s.ngroups };
        set_method(&mut c, canonical(tb, ["BDF", "Radau"][pi % 2]));
        c.kind = "grp".into();
        c.t0 = d(0.0); c.tf = d(1.0 / 1024.0);
        c.first_step = Step { form: "float".into(), expect: "Some".into(), v: d(1.0 / 4096.0) };
        c.class = "sparsity-groups".into();
        out.push(c.clone());
        // full comparison for a sample of the patterns with at least two columns sharing a group or n == 4
        let wanted = s.n >= 3 && (s.ngroups as usize) < s.n;
        if wanted && nfull < full_budget && rng.chance(if thorough { 0.02 } else { 0.05 }) {
            let mut f = c;
            f.kind = "full".into();
            f.t0 = d(0.0); f.tf = d(0.5);
            f.first_step = Step { form: "absent".into(), expect: "None".into(), v: d(0.0) };
            f.class = "sparsity".into();
            out.push(f);
            nfull += 1;
        }
    }
    // 6. sparsity containers: structurally NON-symmetric patterns (lower-banded chain, arrows) x every container form of
    //    PyLayer's table x {BDF, Radau}, complete comparison with the dense-FD Rust run
    {
        let named: [(&str, Vec<Vec<i64>>); 3] = [
            ("chain", vec![vec![1, 0, 0], vec![1, 1, 0], vec![0, 1, 1]]),
            ("arrow-col", vec![vec![1, 0, 0], vec![1, 1, 0], vec![1, 0, 1]]),
            ("arrow-row", vec![vec![1, 1, 1], vec![0, 1, 0], vec![0, 0, 1]]),
        ];
        let mut k = 0usize;
        for (_name, rows) in named.iter() {
            let s = tb.patterns.iter().find(|s| s.n == 3 && &s.rows == rows).expect("scenario table lacks a named 3x3 pattern");
            for f in tb.spforms.iter() {
                k += 1;
                let mut c = base_case("lin", 3);
                c.a = lin_from_pattern(rows);
                c.params = toks(&[1.0]);
                c.has_sparsity = true;
                c.pat = Pat { n: 3, rows: rows.clone(), form: f.form.clone(), groups: s.groups.clone(), ngroups: s.ngroups };
                set_method(&mut c, canonical(tb, ["BDF", "Radau"][k % 2]));
                c.t0 = d(0.0); c.tf = d(0.5);
                c.class = "sparsity-container".into();
                out.push(c);
            }
        }
    }
    // 7. event LISTS (PyLayer machine evlist): two and three event functions, each with its own terminal / direction attributes
    //    or without them, in every order; the Rust reference is configured per event from the parse result the specification
    //    expects.  Problem: the oscillator y = (cos 1.5 t, -sin 1.5 t) over 2.15 periods; the event functions are component
    //    thresholds, each crossed several times in BOTH directions at interleaved times (see EVLIST_FUNS), so that a wrong
    //    direction filter drops / adds occurrences and a wrong terminal flag moves the end of the run.  The assignment of the
    //    threshold functions to the list positions rotates, methods and list / tuple delivery rotate.
    //    quick: every pair (400) + a seed-selected 1/4 of the triples; thorough: all 8 400 lists.
    {
        // (util::Rng streams of neighbouring seeds are shifted copies of each other: spread the seed first)
        let mut rng7 = Rng::new((seed ^ 0xE71157).wrapping_mul(0xD134_2543_DE82_EF95).rotate_left(29));
        for (k, s) in tb.evlists.iter().enumerate() {
            let nev = s.evs.len();
            if nev < 2 { continue; }
            if !thorough && nev > 2 && !rng7.chance(0.25) { continue; }
            let mut c = base_case("sho", 2);
            c.tf = d(9.0);
            set_method(&mut c, canonical(tb, CANON[k % 6]));
            let rot = (k / 6) % EVLIST_FUNS.len();
            c.events = s.evs.iter().enumerate().map(|(i, a)| {
                let (idx, cc) = EVLIST_FUNS[(i + rot) % EVLIST_FUNS.len()];
                Ev { kind: "comp".into(), idx, c: d(cc), terminal: a.terminal.clone(), direction: a.direction.clone(),
                     rterm: a.rterm != 0, rdir: a.rdir as i32 }
            }).collect();
            c.events_form = (if (k / 18) % 2 == 0 { "list" } else { "tuple" }).into();
            c.doc = s.doc && s.evs.iter().all(|e| e.doc);
            c.census = true;
            c.class = format!("ev-list{}", nev);
            out.push(c);
        }
    }
    // 8. Jacobian SOURCES (PyLayer machine jacsrc): every combination of jac in {absent, callable, constant C / Fortran array}
    //    with jac_sparsity in {absent, every container form} x {Radau, BDF}.  The Rust reference uses the source the
    //    specification names (user Jacobian if jac is given, else finite differences; a pattern changes evaluation counts
    //    only).  Problems: "lin" with a structurally non-symmetric 3x3 pattern (rotating) and, for absent / callable jac, the
    //    nonlinear "vdp" (state-dependent Jacobian).  When jac is given the pattern must not matter at all: besides the true
    //    pattern a deliberately NARROWER one (diagonal only) is passed -- if it were used the numbers would change grossly.
    {
        let named: [Vec<Vec<i64>>; 3] = [
            vec![vec![1, 0, 0], vec![1, 1, 0], vec![0, 1, 1]],
            vec![vec![1, 0, 0], vec![1, 1, 0], vec![1, 0, 1]],
            vec![vec![1, 1, 1], vec![0, 1, 0], vec![0, 0, 1]],
        ];
        let find = |rows: &Vec<Vec<i64>>| tb.patterns.iter().find(|s| s.n == rows.len() && &s.rows == rows)
            .unwrap_or_else(|| panic!("scenario table lacks pattern {:?}", rows));
        let mut k = 0usize;
        for s in tb.jacsrcs.iter() {
            for m in ["Radau", "BDF"] {
                k += 1;
                let true_rows = named[k % 3].clone();
                // (problem, true pattern of its Jacobian, declared pattern)
                let mut variants: Vec<(&str, Vec<Vec<i64>>, Vec<Vec<i64>>)> = vec![("lin", true_rows.clone(), true_rows.clone())];
                if s.jac == "none" || s.jac == "callable" {
                    let v = vec![vec![0, 1], vec![1, 1]];
                    variants.push(("vdp", v.clone(), v));
                }
                if s.jac != "none" && s.sp != "none" {
                    variants.push(("lin", true_rows.clone(), vec![vec![1, 0, 0], vec![0, 1, 0], vec![0, 0, 1]]));
                }
                for (p, truth, declared) in variants {
                    let mut c = base_case(p, truth.len());
                    if p == "lin" { c.a = lin_from_pattern(&truth); }
                    set_method(&mut c, canonical(tb, m));
                    match s.jac.as_str() {
                        "none" => {}
                        "callable" => { c.jac = "callable".into(); c.jac_form = "callable".into(); }
                        f => { c.jac = "const".into(); c.jac_form = f.into(); }
                    }
                    if s.sp != "none" {
                        let g = find(&declared);
                        c.has_sparsity = true;
                        c.pat = Pat { n: truth.len(), rows: declared.clone(), form: s.sp.clone(), groups: g.groups.clone(), ngroups: g.ngroups };
                    }
                    c.jac_source = s.source.clone();
                    c.class = (if declared == truth { "jac-source" } else { "jac-source-narrow-pattern" }).into();
                    out.push(c);
                }
            }
        }
    }
    // 9. sol(t) AT the accepted step ends (PyLayer machine solseg: at a step end the step ENDING there answers, as in
    //    Solution::sol): every problem x every method x {forward, backward}, dense output without t_eval, sol evaluated at
    //    every reported time (scalar calls and one array call) besides the interior / outside probes of the "dense" facet
    if tb.solsegs.iter().any(|s| s.where_ == "step-end") {
        for (p, n) in PROBLEMS.iter() {
            for m in CANON.iter() {
                for (backward, tight) in [(false, false), (true, false), (false, true), (true, true)] {
                    let mut c = base_case(p, *n);
                    set_method(&mut c, canonical(tb, m));
                    if backward { apply_facet(&mut c, "backward", tb, &mut rng); }
                    if tight { apply_facet(&mut c, "tol-scalar", tb, &mut rng); }      // rtol 1e-6, atol 1e-9: more (and shorter) steps
                    apply_facet(&mut c, "dense", tb, &mut rng);
                    c.class = (if backward { "sol-step-times-backward" } else { "sol-step-times" }).into();
                    out.push(c);
                }
            }
        }
    }
    // 10. a callable jac returning the matrix in a container (PyLayer machine jacret): dense ndarray and every sparse
    //     container form x {Radau, BDF} on "switch", whose Jacobian has two entries that are non-zero in the early calls and
    //     exactly zero later, so that a sparse container built from it stores a DIFFERENT set of entries later on.  Whatever
    //     the container, the run must equal the Rust run with the analytical Jacobian (hence the dense-return run).
    {
        let mut forms: Vec<&str> = Vec::new();
        if tb.jacrets.iter().any(|s| s.form == "dense") { forms.push("ndarray"); }
        if tb.jacrets.iter().any(|s| s.form == "sparse") { forms.extend(["sp_csc", "sp_csr", "sp_coo", "sp_csc_ez", "duck_coo", "duck_toarray"]); }
        for f in forms {
            for m in ["Radau", "BDF"] {
                for tight in [true, false] {
                    let mut c = base_case("switch", 3);
                    set_method(&mut c, canonical(tb, m));
                    if tight { apply_facet(&mut c, "tol-scalar", tb, &mut rng); }
                    c.jac = "callable".into(); c.jac_form = "callable".into();
                    c.jac_ret = f.into();
                    c.want_pattern_change = f != "ndarray";
                    c.class = "jac-return-container".into();
                    out.push(c);
                }
            }
        }
    }
    for (i, c) in out.iter_mut().enumerate() { c.id = format!("k{:05}", i + 1); }
    out
}

/// Event functions of the event-list cases on "sho" (y0 = cos 1.5 t, y1 = -sin 1.5 t, t in [0, 9]): (component, threshold).
///   y0 - 0.5   : falling at t = 0.698, 4.887; rising at 3.491, 7.679
///   y1 + 0.25  : falling at t = 0.168, 4.357, 8.546; rising at 1.926, 6.115
///   y0 + 0.75  : falling at t = 1.613, 5.802; rising at 2.576, 6.765
/// (none vanishes at t0; Trace_Py re-checks "at least one crossing in each direction" on the measured census of every case)
const EVLIST_FUNS: [(usize, f64); 3] = [(0, 0.5), (1, -0.25), (0, -0.75)];

fn load_tables(path: &str) -> Tables {
    let txt = std::fs::read_to_string(path).expect("scenario file");
    let all: Vec<Scen> = serde_json::from_str(&txt).expect("scenario json");
    let pick = |k: &str| all.iter().filter(|s| s.kind == k).cloned().collect::<Vec<_>>();
    let mut tb = Tables { methods: pick("method"), tols: pick("tol"), steps: pick("step"), evattrs: pick("evattr"), jacs: pick("jac"),
             shapes: pick("shape"), patterns: pick("pattern"), evundoc: vec![], spforms: pick("spform"),
             evlists: pick("evlist"), jacsrcs: pick("jacsrc"),
             solsegs: pick("solseg"), jacrets: pick("jacret") };
    tb.jacsrcs.sort_by_key(|s| (s.jac.clone(), s.sp.clone()));
    tb.evlists.sort_by_key(|s| (s.evs.len(), s.evs.iter().map(|e| (e.terminal.clone(), e.direction.clone())).collect::<Vec<_>>()));
    tb.spforms.sort_by_key(|s| s.form.clone());
    tb.evundoc = tb.evattrs.iter().filter(|s| !s.doc).cloned().collect();
    tb.evattrs.retain(|s| s.doc);
    // deterministic order independent of TLC's worker scheduling
    tb.methods.sort_by_key(|s| (s.form.clone(), s.name.clone()));
    tb.tols.sort_by_key(|s| s.form.clone());
    tb.steps.sort_by_key(|s| s.form.clone());
    tb.evattrs.sort_by_key(|s| (s.terminal.clone(), s.direction.clone()));
    tb.evundoc.sort_by_key(|s| (s.terminal.clone(), s.direction.clone()));
    tb.shapes.sort_by_key(|s| (s.n, s.m));
    tb.patterns.sort_by_key(|s| (s.n, s.rows.clone()));
    tb
}

fn main() {
    let args: Vec<String> = std::env::args().collect();
    let get = |k: &str| args.iter().position(|a| a == k).and_then(|i| args.get(i + 1)).cloned();
    if let Some(path) = get("--emit-cases") {
        let tb = load_tables(&get("--scenarios").expect("--scenarios"));
        let seed: u64 = get("--seed").map(|s| s.parse().unwrap()).unwrap_or(1);
        let tier = get("--tier").unwrap_or_else(|| "quick".into());
        let _ = &tb.jacs;
        let cases = gen_cases(&tb, seed, &tier);
        std::fs::write(&path, serde_json::to_string(&cases).unwrap()).unwrap();
        eprintln!("py_ref: {} cases written", cases.len());
        return;
    }
    if let Some(path) = get("--run") {
        silence_panics();
        let cases: Vec<Case> = serde_json::from_str(&std::fs::read_to_string(&path).unwrap()).unwrap();
        let out = std::io::stdout();
        let mut w = std::io::BufWriter::new(out.lock());
        for c in &cases {
            let rec = run_case(c);
            writeln!(w, "{}", rec).unwrap();
        }
        return;
    }
    eprintln!("usage: py_ref --emit-cases <cases.json> --scenarios <scen.json> --seed N --tier T | --run <cases.json>");
    std::process::exit(2);
}

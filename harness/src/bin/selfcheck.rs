//! Prints a few facts about the linked ivp crate (used to confirm which source tree was built).
fn main() {
    let m = ivp::matrix::Matrix::identity(2);
    println!("identity[0,0]={} cfg_ivp_verif={}", m[(0, 0)], cfg!(ivp_verif));
}

//! C16 replay: executes TLC-generated LU scenarios on the real `lu_decomp` / `lin_solve` /
//! `lu_decomp_complex` / `lin_solve_complex`, on Full storage and on Banded storage wide enough to hold the
//! fill-in (ml = mu = n-1), and records what the code returned as an NDJSON trace for `spec/lu/Trace_LU.tla`.
//!
//! usage: replay_lu <scenarios.ndjson> <trace.ndjson> [--mutate <k>]
//!
//! Numbers are logged as exact rationals [num, den] when they are dyadic with den <= 2^16 and |num| < 2^30
//! (then the float IS that rational), else as the sentinel [0, 0]; complex numbers as [[num,den],[num,den]].
//! In addition the harness logs booleans it computes in f64 from the exact rationals carried by the scenario:
//! "close" (solution within TOL_FACTOR*n*eps*max(1,|x|_inf) of the scenario's exact rational, echoed as "xe_used") and
//! "lu_close" (same for the factor entries; Level-B comparison only).
//!
//! Trace lines:
//!  {"sid","act":"dec","storage":"full|banded","cls":"ok|singular|nonsquare|pivot_size|other|panic","mult_ok":bool,
//!   "lu":[[num]],"lu_close":bool,"ip":[int; -1 = slot not written], ("sc": scenario, on the first line of a scenario)}
//!  {"sid","act":"sol","storage","panic":bool,"xs":[[num]..per rhs],"close":[bool..],"xe_used":[[num]..],"a_same":bool,"ip_same":bool}
//!  {"sid","act":"shape","cls":..., "sc":...}
//!
//! --mutate k (self-test of the binding: deliberately falsify the *recorded* outcome)
//!   1: report class "ok" where the code said "singular"      2: report a wrong first solution component
//!   3: report mult_ok = false                                 4: report a_same = false
//!   5: report "ok" for every shape / pivot-length error       6: report a wrong pivot index (Level-B only -> DRIFT)
use ivp::error::{Error, LinearAlgebraError};
use ivp::matrix::{lin_solve, lin_solve_complex, lu_decomp, lu_decomp_complex, Matrix};
use ivp_verif_harness::util::{catch, silence_panics};
use serde_json::{json, Value};
use std::io::{BufRead, BufReader, BufWriter, Write};

const IP_SENTINEL: usize = 7777;
const TOL_FACTOR: f64 = 16.0;

fn pair(v: f64) -> [i64; 2] {
    if !v.is_finite() { return [0, 0]; }
    let mut scale = 1.0f64;
    for e in 0..=16 {
        let s = v * scale;
        if s.fract() == 0.0 && s.abs() < 1073741824.0 { return [s as i64, 1i64 << e]; }
        scale *= 2.0;
    }
    [0, 0]
}

fn rat(v: &Value) -> f64 { v[0].as_i64().unwrap() as f64 / v[1].as_i64().unwrap() as f64 }

fn class_of(r: &Result<Result<(), Error>, String>) -> &'static str {
    match r {
        Err(_) => "panic",
        Ok(Ok(())) => "ok",
        Ok(Err(Error::LinearAlgebra(LinearAlgebraError::SingularMatrix))) => "singular",
        Ok(Err(Error::LinearAlgebra(LinearAlgebraError::NonSquareMatrix { .. }))) => "nonsquare",
        Ok(Err(Error::LinearAlgebra(LinearAlgebraError::PivotSizeMismatch { .. }))) => "pivot_size",
        Ok(Err(_)) => "other",
    }
}

fn build(n: usize, a: &Value, storage: &str) -> Matrix {
    let mut m = if storage == "full" { Matrix::zeros(n, n) } else { Matrix::banded(n, n.saturating_sub(1), n.saturating_sub(1)) };
    for i in 0..n { for j in 0..n { m[(i, j)] = a[i][j].as_i64().unwrap() as f64; } }
    m
}

fn ip_out(ip: &[usize]) -> Vec<i64> { ip.iter().map(|&v| if v == IP_SENTINEL { -1 } else { v as i64 }).collect() }
fn same_bits(a: &[f64], b: &[f64]) -> bool { a.len() == b.len() && a.iter().zip(b).all(|(x, y)| x.to_bits() == y.to_bits()) }
fn tol(n: usize, scale: f64) -> f64 { TOL_FACTOR * n as f64 * f64::EPSILON * scale.max(1.0) }

struct Ctx { w: BufWriter<std::fs::File>, mutate: u32, worst: f64 }

fn real_case(cx: &mut Ctx, sid: i64, rec: &Value, storage: &str, first: bool) {
    let sc = &rec["sc"];
    let n = sc["n"].as_u64().unwrap() as usize;
    let mut a = build(n, &sc["A"], storage);
    let mut ip = vec![IP_SENTINEL; n];
    let r = catch(|| lu_decomp(&mut a, &mut ip));
    let mut cls = class_of(&r);
    let mut mult_ok = true;
    for i in 0..n { for k in 0..i { if !(a[(i, k)].abs() <= 1.0) { mult_ok = false; } } }
    let lu: Vec<Vec<[i64; 2]>> = (0..n).map(|i| (0..n).map(|j| pair(a[(i, j)])).collect()).collect();
    let elu = &rec["expect"]["lu"];
    let mut lu_close = true;
    for i in 0..n { for j in 0..n {
        let e = rat(&elu[i][j]);
        if !((a[(i, j)] - e).abs() <= tol(n, e.abs())) { lu_close = false; }
    } }
    let mut ipv = ip_out(&ip);
    match cx.mutate {
        1 if cls == "singular" => cls = "ok",
        3 => mult_ok = false,
        6 if n > 1 => ipv[0] = (ipv[0] + 1) % n as i64,
        _ => {}
    }
    let code_ok = cls == "ok";
    let mut o = json!({"sid": sid, "act": "dec", "storage": storage, "cls": cls, "mult_ok": mult_ok, "lu": lu, "lu_close": lu_close, "ip": ipv});
    if first { o["sc"] = sc.clone(); }
    writeln!(cx.w, "{}", o).unwrap();
    if !code_ok { return; }

    let a_before = a.data.clone();
    let ip_before = ip.clone();
    let xe = &rec["expect"]["xe"];
    let (mut xs, mut close, mut xe_used, mut panic) = (vec![], vec![], vec![], false);
    for (k, bv) in sc["bs"].as_array().unwrap().iter().enumerate() {
        let mut b: Vec<f64> = bv.as_array().unwrap().iter().map(|v| v.as_i64().unwrap() as f64).collect();
        if catch(|| lin_solve(&a, &mut b, &ip)).is_err() { panic = true; }
        let mut c = false;
        let mut used = json!([]);
        if let Some(e) = xe.get(k) {
            let ev: Vec<f64> = e.as_array().unwrap().iter().map(rat).collect();
            let scale = ev.iter().fold(0.0f64, |m, v| m.max(v.abs()));
            let worst = b.iter().zip(&ev).fold(0.0f64, |m, (x, e)| m.max((x - e).abs()));
            c = worst <= tol(n, scale);
            cx.worst = cx.worst.max(worst / (n as f64 * f64::EPSILON * scale.max(1.0)));
            used = e.clone();
        }
        let mut xp: Vec<[i64; 2]> = b.iter().map(|v| pair(*v)).collect();
        if cx.mutate == 2 { if xp[0][1] != 0 { xp[0][0] += xp[0][1]; } c = true; used = json!(xp.clone()); }
        xs.push(xp); close.push(c); xe_used.push(used);
    }
    let mut a_same = same_bits(&a_before, &a.data);
    let ip_same = ip_before == ip;
    if cx.mutate == 4 { a_same = false; }
    writeln!(cx.w, "{}", json!({"sid": sid, "act": "sol", "storage": storage, "panic": panic, "xs": xs, "close": close,
                                 "xe_used": xe_used, "a_same": a_same, "ip_same": ip_same})).unwrap();
}

fn cpair(re: f64, im: f64) -> [[i64; 2]; 2] { [pair(re), pair(im)] }

fn complex_case(cx: &mut Ctx, sid: i64, rec: &Value, storage: &str, first: bool) {
    let sc = &rec["sc"];
    let n = sc["n"].as_u64().unwrap() as usize;
    let mut ar = build(n, &sc["A"], storage);
    let mut ai = build(n, &sc["AI"], storage);
    let mut ip = vec![IP_SENTINEL; n];
    let r = catch(|| lu_decomp_complex(&mut ar, &mut ai, &mut ip));
    let mut cls = class_of(&r);
    let mut mult_ok = true;
    for i in 0..n { for k in 0..i {
        let (x, y) = (ar[(i, k)], ai[(i, k)]);
        if !(x * x + y * y <= 1.0) { mult_ok = false; }
    } }
    let lu: Vec<Vec<[[i64; 2]; 2]>> = (0..n).map(|i| (0..n).map(|j| cpair(ar[(i, j)], ai[(i, j)])).collect()).collect();
    let elu = &rec["expect"]["lu"];
    let mut lu_close = true;
    for i in 0..n { for j in 0..n {
        let (er, ei) = (rat(&elu[i][j][0]), rat(&elu[i][j][1]));
        let t = tol(n, er.abs().max(ei.abs()));
        if !((ar[(i, j)] - er).abs() <= t && (ai[(i, j)] - ei).abs() <= t) { lu_close = false; }
    } }
    let mut ipv = ip_out(&ip);
    match cx.mutate {
        1 if cls == "singular" => cls = "ok",
        3 => mult_ok = false,
        6 if n > 1 => ipv[0] = (ipv[0] + 1) % n as i64,
        _ => {}
    }
    let code_ok = cls == "ok";
    let mut o = json!({"sid": sid, "act": "dec", "storage": storage, "cls": cls, "mult_ok": mult_ok, "lu": lu, "lu_close": lu_close, "ip": ipv});
    if first { o["sc"] = sc.clone(); }
    writeln!(cx.w, "{}", o).unwrap();
    if !code_ok { return; }

    let (ar_before, ai_before, ip_before) = (ar.data.clone(), ai.data.clone(), ip.clone());
    let xe = &rec["expect"]["xe"];
    let (mut xs, mut close, mut xe_used, mut panic) = (vec![], vec![], vec![], false);
    for (k, bv) in sc["bs"].as_array().unwrap().iter().enumerate() {
        let mut br: Vec<f64> = bv.as_array().unwrap().iter().map(|v| v[0].as_i64().unwrap() as f64).collect();
        let mut bi: Vec<f64> = bv.as_array().unwrap().iter().map(|v| v[1].as_i64().unwrap() as f64).collect();
        if catch(|| lin_solve_complex(&ar, &ai, &mut br, &mut bi, &ip)).is_err() { panic = true; }
        let mut c = false;
        let mut used = json!([]);
        if let Some(e) = xe.get(k) {
            let ev: Vec<(f64, f64)> = e.as_array().unwrap().iter().map(|z| (rat(&z[0]), rat(&z[1]))).collect();
            let scale = ev.iter().fold(0.0f64, |m, v| m.max(v.0.abs()).max(v.1.abs()));
            let mut worst = 0.0f64;
            for i in 0..n { worst = worst.max((br[i] - ev[i].0).abs()).max((bi[i] - ev[i].1).abs()); }
            c = worst <= tol(n, scale);
            cx.worst = cx.worst.max(worst / (n as f64 * f64::EPSILON * scale.max(1.0)));
            used = e.clone();
        }
        let mut xp: Vec<[[i64; 2]; 2]> = (0..n).map(|i| cpair(br[i], bi[i])).collect();
        if cx.mutate == 2 { if xp[0][0][1] != 0 { xp[0][0][0] += xp[0][0][1]; } c = true; used = json!(xp.clone()); }
        xs.push(xp); close.push(c); xe_used.push(used);
    }
    let mut a_same = same_bits(&ar_before, &ar.data) && same_bits(&ai_before, &ai.data);
    let ip_same = ip_before == ip;
    if cx.mutate == 4 { a_same = false; }
    writeln!(cx.w, "{}", json!({"sid": sid, "act": "sol", "storage": storage, "panic": panic, "xs": xs, "close": close,
                                 "xe_used": xe_used, "a_same": a_same, "ip_same": ip_same})).unwrap();
}

fn eye(rows: usize, cols: usize) -> Matrix {
    let mut m = Matrix::zeros(rows, cols);
    for i in 0..rows.min(cols) { m[(i, i)] = 1.0; }
    m
}

fn shape_case(cx: &mut Ctx, sid: i64, rec: &Value) {
    let sc = &rec["sc"];
    let g = |k: &str| sc[k].as_u64().unwrap() as usize;
    let mut ip = vec![IP_SENTINEL; g("iplen")];
    let mut cls = if sc["kind"] == "shape_real" {
        let mut a = eye(g("rows"), g("cols"));
        class_of(&catch(|| lu_decomp(&mut a, &mut ip)))
    } else {
        let mut ar = eye(g("rows"), g("cols"));
        let mut ai = Matrix::zeros(g("irows"), g("icols"));
        class_of(&catch(|| lu_decomp_complex(&mut ar, &mut ai, &mut ip)))
    };
    if cx.mutate == 5 && cls != "ok" { cls = "ok"; }
    writeln!(cx.w, "{}", json!({"sid": sid, "act": "shape", "cls": cls, "sc": sc})).unwrap();
}

fn main() {
    let args: Vec<String> = std::env::args().collect();
    if args.len() < 3 { eprintln!("usage: replay_lu <scenarios.ndjson> <trace.ndjson> [--mutate k]"); std::process::exit(2); }
    let mutate = args.iter().position(|a| a == "--mutate").map(|p| args[p + 1].parse::<u32>().unwrap()).unwrap_or(0);
    silence_panics();
    let rd = BufReader::new(std::fs::File::open(&args[1]).expect("open scenarios"));
    let mut cx = Ctx { w: BufWriter::new(std::fs::File::create(&args[2]).expect("create trace")), mutate, worst: 0.0 };
    let mut count = 0usize;
    for line in rd.lines() {
        let line = line.unwrap();
        if line.trim().is_empty() { continue; }
        let rec: Value = serde_json::from_str(&line).expect("scenario json");
        let sid = rec["sid"].as_i64().unwrap();
        match rec["sc"]["kind"].as_str().unwrap() {
            "real" => { real_case(&mut cx, sid, &rec, "full", true); real_case(&mut cx, sid, &rec, "banded", false); }
            "complex" => { complex_case(&mut cx, sid, &rec, "full", true); complex_case(&mut cx, sid, &rec, "banded", false); }
            _ => shape_case(&mut cx, sid, &rec),
        }
        count += 1;
    }
    cx.w.flush().unwrap();
    println!("replayed {count} scenarios; worst |x-xe|/(n*eps*max(1,|xe|)) = {:.3}", cx.worst);
}

//! C16 replay: executes TLC-generated LU scenarios on the real `lu_decomp` / `lin_solve` /
//! `lu_decomp_complex` / `lin_solve_complex`, on Full storage and on Banded storage wide enough to hold the
//! fill-in (ml = mu = n-1), and records what the code returned as an NDJSON trace for `spec/lu/Trace_LU.tla`.
//!
//! usage: replay_lu <scenarios.ndjson> <trace.ndjson> [--mutate <k>]
//!
//! Input: the matrix handed to the code is sc.A[i][j] * 2^(sc.rs[i] + sc.cs[j]) (complex: A + i AI likewise), the
//! right-hand sides sc.bs[k][i] * 2^sc.rs[i] (rs / cs absent = zeros); powers of two are exact.
//!
//! Every float the code returns is logged exactly as [m, e] with value = m * 2^e, m odd ([0, 0] for zero); when
//! |m| >= 2^30 or the value is not finite the sentinel [0, 1] is logged; complex numbers as [[m,e],[m,e]].
//! Expected numbers carried by the scenario are triples [num, den, e] = (num/den) * 2^e.
//! In addition the harness logs booleans it computes in f64 from those expected numbers:
//! "close" (every solution component, divided by its 2^e, within TOL_FACTOR*n*eps*max(1,|x|_inf) of num/den; the
//! expected numbers are echoed as "xe_used") and "lu_close" (same for the factor entries; Level-B comparison only),
//! and "mult_ok": every stored multiplier is bounded (real: |l| <= 1; complex: re^2 + im^2 <= 2, up to 1e-12).
//!
//! Trace lines:
//!  {"sid","act":"dec","storage":"full|banded","cls":"ok|singular|nonsquare|pivot_size|other|panic","mult_ok":bool,
//!   "lu":[[num]],"lu_close":bool,"ip":[int; -1 = slot not written], ("sc": scenario, on the first line of a scenario)}
//!  {"sid","act":"sol","storage","panic":bool,"xs":[[num]..per rhs],"close":[bool..],"xe_used":[[num]..],"a_same":bool,"ip_same":bool}
//!  {"sid","act":"shape","cls":..., "sc":...}
//!
//! --mutate k (self-test of the binding: deliberately falsify the *recorded* outcome)
//!   1: report class "ok" where the code said "singular"      2: report a wrong first solution component
//!   3: report mult_ok = false                                 4: report a_same = false
//!   5: report "ok" for every shape / pivot-length error       6: report a wrong pivot index (pivot_max; DRIFT on ties)
use ivp::error::{Error, LinearAlgebraError};
use ivp::matrix::{lin_solve, lin_solve_complex, lu_decomp, lu_decomp_complex, Matrix};
use ivp_verif_harness::util::{catch, silence_panics};
use serde_json::{json, Value};
use std::io::{BufRead, BufReader, BufWriter, Write};

const IP_SENTINEL: usize = 7777;
const TOL_FACTOR: f64 = 16.0;

/// v = m * 2^e exactly, m odd
fn pair(v: f64) -> [i64; 2] {
    if v == 0.0 { return [0, 0]; }
    if !v.is_finite() { return [0, 1]; }
    let bits = v.to_bits();
    let biased = ((bits >> 52) & 0x7ff) as i64;
    let frac = (bits & ((1u64 << 52) - 1)) as i64;
    let (mut m, mut e) = if biased == 0 { (frac, -1074) } else { (frac | (1i64 << 52), biased - 1075) };
    while m & 1 == 0 { m >>= 1; e += 1; }
    if m >= 1073741824 { return [0, 1]; }
    [if v < 0.0 { -m } else { m }, e]
}

fn p2(e: i64) -> f64 { 2.0f64.powi(e as i32) }
fn exp_of(v: &Value) -> i64 { v.get(2).and_then(|x| x.as_i64()).unwrap_or(0) }
/// num/den of an expected triple (the value without its power of two)
fn rat(v: &Value) -> f64 { v[0].as_i64().unwrap() as f64 / v[1].as_i64().unwrap() as f64 }
fn scale_vec(sc: &Value, key: &str, n: usize) -> Vec<i64> {
    (0..n).map(|i| sc[key].get(i).and_then(|x| x.as_i64()).unwrap_or(0)).collect()
}

fn class_of(r: &Result<Result<(), Error>, String>) -> &'static str {
    match r {
        Err(_) => "panic",
        Ok(Ok(())) => "ok",
        Ok(Err(Error::LinearAlgebra(LinearAlgebraError::SingularMatrix))) => "singular",
        Ok(Err(Error::LinearAlgebra(LinearAlgebraError::NonSquareMatrix { .. }))) => "nonsquare",
        Ok(Err(Error::LinearAlgebra(LinearAlgebraError::PivotSizeMismatch { .. }))) => "pivot_size",
        Ok(Err(_)) => "other",
    }
}

fn build(n: usize, a: &Value, rs: &[i64], cs: &[i64], storage: &str) -> Matrix {
    let mut m = if storage == "full" { Matrix::zeros(n, n) } else { Matrix::banded(n, n.saturating_sub(1), n.saturating_sub(1)) };
    for i in 0..n { for j in 0..n { m[(i, j)] = a[i][j].as_i64().unwrap() as f64 * p2(rs[i] + cs[j]); } }
    m
}

fn ip_out(ip: &[usize]) -> Vec<i64> { ip.iter().map(|&v| if v == IP_SENTINEL { -1 } else { v as i64 }).collect() }
fn same_bits(a: &[f64], b: &[f64]) -> bool { a.len() == b.len() && a.iter().zip(b).all(|(x, y)| x.to_bits() == y.to_bits()) }
fn tol(n: usize, scale: f64) -> f64 { TOL_FACTOR * n as f64 * f64::EPSILON * scale.max(1.0) }

struct Ctx { w: BufWriter<std::fs::File>, mutate: u32, worst: f64 }

fn real_case(cx: &mut Ctx, sid: i64, rec: &Value, storage: &str, first: bool) {
    let sc = &rec["sc"];
    let n = sc["n"].as_u64().unwrap() as usize;
    let (rs, cs) = (scale_vec(sc, "rs", n), scale_vec(sc, "cs", n));
    let mut a = build(n, &sc["A"], &rs, &cs, storage);
    let mut ip = vec![IP_SENTINEL; n];
    let r = catch(|| lu_decomp(&mut a, &mut ip));
    let mut cls = class_of(&r);
    let mut mult_ok = true;
    for i in 0..n { for k in 0..i { if !(a[(i, k)].abs() <= 1.0) { mult_ok = false; } } }
    let lu: Vec<Vec<[i64; 2]>> = (0..n).map(|i| (0..n).map(|j| pair(a[(i, j)])).collect()).collect();
    let elu = &rec["expect"]["lu"];
    let mut lu_close = true;
    for i in 0..n { for j in 0..n {
        let e = rat(&elu[i][j]);
        let un = p2(-exp_of(&elu[i][j]));
        if !((a[(i, j)] * un - e).abs() <= tol(n, e.abs())) { lu_close = false; }
    } }
    let mut ipv = ip_out(&ip);
    match cx.mutate {
        1 if cls == "singular" => cls = "ok",
        3 => mult_ok = false,
        6 if n > 1 => ipv[0] = (ipv[0] + 1) % n as i64,
        _ => {}
    }
    let code_ok = cls == "ok";
    let mut o = json!({"sid": sid, "act": "dec", "storage": storage, "cls": cls, "mult_ok": mult_ok, "lu": lu, "lu_close": lu_close, "ip": ipv});
    if first { o["sc"] = sc.clone(); }
    writeln!(cx.w, "{}", o).unwrap();
    if !code_ok { return; }

    let a_before = a.data.clone();
    let ip_before = ip.clone();
    let xe = &rec["expect"]["xe"];
    let (mut xs, mut close, mut xe_used, mut panic) = (vec![], vec![], vec![], false);
    for (k, bv) in sc["bs"].as_array().unwrap().iter().enumerate() {
        let mut b: Vec<f64> = bv.as_array().unwrap().iter().enumerate().map(|(i, v)| v.as_i64().unwrap() as f64 * p2(rs[i])).collect();
        if catch(|| lin_solve(&a, &mut b, &ip)).is_err() { panic = true; }
        let mut c = false;
        let mut used = json!([]);
        if let Some(e) = xe.get(k) {
            let ev: Vec<f64> = e.as_array().unwrap().iter().map(rat).collect();
            let un: Vec<f64> = e.as_array().unwrap().iter().map(|t| p2(-exp_of(t))).collect();
            let scale = ev.iter().fold(0.0f64, |m, v| m.max(v.abs()));
            let worst = (0..n).fold(0.0f64, |m, j| { let d = (b[j] * un[j] - ev[j]).abs(); if d.is_nan() { f64::INFINITY } else { m.max(d) } });
            c = worst <= tol(n, scale);
            cx.worst = cx.worst.max(worst / (n as f64 * f64::EPSILON * scale.max(1.0)));
            used = e.clone();
        }
        let mut xp: Vec<[i64; 2]> = b.iter().map(|v| pair(*v)).collect();
        if cx.mutate == 2 { xp[0] = if xp[0][0] == 0 { [1, 0] } else { [xp[0][0] + 2, xp[0][1]] }; c = true; used = json!(xp.clone()); }
        xs.push(xp); close.push(c); xe_used.push(used);
    }
    let mut a_same = same_bits(&a_before, &a.data);
    let ip_same = ip_before == ip;
    if cx.mutate == 4 { a_same = false; }
    writeln!(cx.w, "{}", json!({"sid": sid, "act": "sol", "storage": storage, "panic": panic, "xs": xs, "close": close,
                                 "xe_used": xe_used, "a_same": a_same, "ip_same": ip_same})).unwrap();
}

fn cpair(re: f64, im: f64) -> [[i64; 2]; 2] { [pair(re), pair(im)] }

fn complex_case(cx: &mut Ctx, sid: i64, rec: &Value, storage: &str, first: bool) {
    let sc = &rec["sc"];
    let n = sc["n"].as_u64().unwrap() as usize;
    let (rs, cs) = (scale_vec(sc, "rs", n), scale_vec(sc, "cs", n));
    let mut ar = build(n, &sc["A"], &rs, &cs, storage);
    let mut ai = build(n, &sc["AI"], &rs, &cs, storage);
    let mut ip = vec![IP_SENTINEL; n];
    let r = catch(|| lu_decomp_complex(&mut ar, &mut ai, &mut ip));
    let mut cls = class_of(&r);
    let mut mult_ok = true;
    for i in 0..n { for k in 0..i {
        let (x, y) = (ar[(i, k)], ai[(i, k)]);
        if !(x * x + y * y <= 2.0 * (1.0 + 1e-12)) { mult_ok = false; }
    } }
    let lu: Vec<Vec<[[i64; 2]; 2]>> = (0..n).map(|i| (0..n).map(|j| cpair(ar[(i, j)], ai[(i, j)])).collect()).collect();
    let elu = &rec["expect"]["lu"];
    let mut lu_close = true;
    for i in 0..n { for j in 0..n {
        let (er, ei) = (rat(&elu[i][j][0]), rat(&elu[i][j][1]));
        let un = p2(-exp_of(&elu[i][j][0]));
        let t = tol(n, er.abs().max(ei.abs()));
        if !((ar[(i, j)] * un - er).abs() <= t && (ai[(i, j)] * un - ei).abs() <= t) { lu_close = false; }
    } }
    let mut ipv = ip_out(&ip);
    match cx.mutate {
        1 if cls == "singular" => cls = "ok",
        3 => mult_ok = false,
        6 if n > 1 => ipv[0] = (ipv[0] + 1) % n as i64,
        _ => {}
    }
    let code_ok = cls == "ok";
    let mut o = json!({"sid": sid, "act": "dec", "storage": storage, "cls": cls, "mult_ok": mult_ok, "lu": lu, "lu_close": lu_close, "ip": ipv});
    if first { o["sc"] = sc.clone(); }
    writeln!(cx.w, "{}", o).unwrap();
    if !code_ok { return; }

    let (ar_before, ai_before, ip_before) = (ar.data.clone(), ai.data.clone(), ip.clone());
    let xe = &rec["expect"]["xe"];
    let (mut xs, mut close, mut xe_used, mut panic) = (vec![], vec![], vec![], false);
    for (k, bv) in sc["bs"].as_array().unwrap().iter().enumerate() {
        let mut br: Vec<f64> = bv.as_array().unwrap().iter().enumerate().map(|(i, v)| v[0].as_i64().unwrap() as f64 * p2(rs[i])).collect();
        let mut bi: Vec<f64> = bv.as_array().unwrap().iter().enumerate().map(|(i, v)| v[1].as_i64().unwrap() as f64 * p2(rs[i])).collect();
        if catch(|| lin_solve_complex(&ar, &ai, &mut br, &mut bi, &ip)).is_err() { panic = true; }
        let mut c = false;
        let mut used = json!([]);
        if let Some(e) = xe.get(k) {
            let ev: Vec<(f64, f64)> = e.as_array().unwrap().iter().map(|z| (rat(&z[0]), rat(&z[1]))).collect();
            let un: Vec<f64> = e.as_array().unwrap().iter().map(|z| p2(-exp_of(&z[0]))).collect();
            let scale = ev.iter().fold(0.0f64, |m, v| m.max(v.0.abs()).max(v.1.abs()));
            let mut worst = 0.0f64;
            for i in 0..n {
                let (dr, di) = ((br[i] * un[i] - ev[i].0).abs(), (bi[i] * un[i] - ev[i].1).abs());
                worst = if dr.is_nan() || di.is_nan() { f64::INFINITY } else { worst.max(dr).max(di) };
            }
            c = worst <= tol(n, scale);
            cx.worst = cx.worst.max(worst / (n as f64 * f64::EPSILON * scale.max(1.0)));
            used = e.clone();
        }
        let mut xp: Vec<[[i64; 2]; 2]> = (0..n).map(|i| cpair(br[i], bi[i])).collect();
        if cx.mutate == 2 { xp[0][0] = if xp[0][0][0] == 0 { [1, 0] } else { [xp[0][0][0] + 2, xp[0][0][1]] }; c = true; used = json!(xp.clone()); }
        xs.push(xp); close.push(c); xe_used.push(used);
    }
    let mut a_same = same_bits(&ar_before, &ar.data) && same_bits(&ai_before, &ai.data);
    let ip_same = ip_before == ip;
    if cx.mutate == 4 { a_same = false; }
    writeln!(cx.w, "{}", json!({"sid": sid, "act": "sol", "storage": storage, "panic": panic, "xs": xs, "close": close,
                                 "xe_used": xe_used, "a_same": a_same, "ip_same": ip_same})).unwrap();
}

fn eye(rows: usize, cols: usize) -> Matrix {
    let mut m = Matrix::zeros(rows, cols);
    for i in 0..rows.min(cols) { m[(i, i)] = 1.0; }
    m
}

fn shape_case(cx: &mut Ctx, sid: i64, rec: &Value) {
    let sc = &rec["sc"];
    let g = |k: &str| sc[k].as_u64().unwrap() as usize;
    let mut ip = vec![IP_SENTINEL; g("iplen")];
    let mut cls = if sc["kind"] == "shape_real" {
        let mut a = eye(g("rows"), g("cols"));
        class_of(&catch(|| lu_decomp(&mut a, &mut ip)))
    } else {
        let mut ar = eye(g("rows"), g("cols"));
        let mut ai = Matrix::zeros(g("irows"), g("icols"));
        class_of(&catch(|| lu_decomp_complex(&mut ar, &mut ai, &mut ip)))
    };
    if cx.mutate == 5 && cls != "ok" { cls = "ok"; }
    writeln!(cx.w, "{}", json!({"sid": sid, "act": "shape", "cls": cls, "sc": sc})).unwrap();
}

fn main() {
    let args: Vec<String> = std::env::args().collect();
    if args.len() < 3 { eprintln!("usage: replay_lu <scenarios.ndjson> <trace.ndjson> [--mutate k]"); std::process::exit(2); }
    let mutate = args.iter().position(|a| a == "--mutate").map(|p| args[p + 1].parse::<u32>().unwrap()).unwrap_or(0);
    silence_panics();
    let rd = BufReader::new(std::fs::File::open(&args[1]).expect("open scenarios"));
    let mut cx = Ctx { w: BufWriter::new(std::fs::File::create(&args[2]).expect("create trace")), mutate, worst: 0.0 };
    let mut count = 0usize;
    for line in rd.lines() {
        let line = line.unwrap();
        if line.trim().is_empty() { continue; }
        let rec: Value = serde_json::from_str(&line).expect("scenario json");
        let sid = rec["sid"].as_i64().unwrap();
        match rec["sc"]["kind"].as_str().unwrap() {
            "real" => { real_case(&mut cx, sid, &rec, "full", true); real_case(&mut cx, sid, &rec, "banded", false); }
            "complex" => { complex_case(&mut cx, sid, &rec, "full", true); complex_case(&mut cx, sid, &rec, "banded", false); }
            _ => shape_case(&mut cx, sid, &rec),
        }
        count += 1;
    }
    cx.w.flush().unwrap();
    println!("replayed {count} scenarios; worst |x-xe|/(n*eps*max(1,|xe|)) = {:.3}", cx.worst);
}

//! Tableau extraction through the public API (checks C02 / C07).
//!
//! Reads NDJSON jobs on stdin, writes one NDJSON record per job on stdout.
//!
//! A job runs ONE solver call on a *probe problem*: the k-th call of `IVP::ode` ignores its arguments
//! (after recording them) and returns the k-th row of the job's response table (`resp`; "unit" means the
//! unit vector e_k).  With x0 = 0, y0 = 0, |h| = first_step = 1 = |xend| and a huge `atol` the (t, y)
//! arguments of the successive calls are c_i and a_ij as the code applies them, the state handed to the
//! SolOut callback after the step is b_j, and the step interpolant evaluated at theta is b_j(theta).
//! With dim = 1, tight `atol` and scalar responses w_k the returned next step size reveals
//! |sum_k w_k e_k| (error-estimator weights).
//!
//! job:  {"id": str, "api": "lowlevel" | "solve_ivp", "method": "RK4"|"RK23"|"DOPRI5"|"DOP853",
//!        "dir": 1 | -1, "dim": n, "resp": "unit" | [[hex64,..],..], "atol": [hex64,..] (1 entry = scalar),
//!        "rtol": hex64, "thetas": [hex64,..], "beta0": bool, "max_step": hex64 (lowlevel, adaptive methods), "first_step": hex64 (solve_ivp only)}
//! beta0 = true (error-weight probe) pins the step-size controller parameters (safety factor 0.9, clamps, beta 0) through the builders.
//! "span": |xend| (default 1; 1.3 with max_step = 1 gives a second, shortened landing step), "dense": false builds the low-level
//! solver with dense_output(false), "xis": absolute evaluation points for Solution::sol.
//! "xout": hex64 makes the recording SolOut answer ControlFlag::XOut(xout) from every callback (sparse-output mode of the low-level API).
//! "stop_after": k makes the SolOut answer Interrupt from the k-th step callback.  method "RADAU" (low-level only) is supported for
//! the abscissa / polynomial probes (resp = "poly").
//! "resp": "lin" (see run_lin_job): adaptive RADAU run on y' = lambda y with the exact Jacobian; the accepted (t, y) are returned.
//! "resp": "polydecay" is y_k' = t^k - y_k.
//! "resp": "poly" replaces the impulse probe by the time-dependent problem y_k' = t^k; "h0": |first step| (default 1).
//! All floats cross the boundary as 16-hex-digit tokens of their bits (the *_f fields are informational).
use ivp::dense::StepInterpolant;
use ivp::ivp::IVP;
use ivp::methods::{Tolerance, DOP853, DOPRI5, RADAU, RK23, RK4};
use ivp::solout::{ControlFlag, SolOut};
use ivp::solve::options::{Method, Options};
use ivp::solve::solve_ivp::solve_ivp;
use ivp_verif_harness::util::{catch, silence_panics, tok, toks};
use serde_json::{json, Value};
use std::cell::RefCell;
use std::io::{BufRead, Write};

fn untok(s: &str) -> f64 {
    f64::from_bits(u64::from_str_radix(s, 16).expect("hex token"))
}

fn fj(x: f64) -> Value {
    if x.is_finite() { json!(x) } else { json!(format!("{}", x)) }
}
fn fjs(xs: &[f64]) -> Value {
    Value::Array(xs.iter().map(|v| fj(*v)).collect())
}

struct Probe {
    dim: usize,
    resp: Option<Vec<Vec<f64>>>, // None = unit vectors
    poly: bool,                  // time-dependent sanity problem y_k' = t^k (k = 0..dim-1)
    decay: bool,                 // with poly: y_k' = t^k - y_k (state-dependent, so that Radau needs several Newton iterations)
    calls: RefCell<Vec<(f64, Vec<f64>)>>,
}

impl IVP for Probe {
    fn ode(&self, x: f64, y: &[f64], dydx: &mut [f64]) {
        let k = {
            let mut c = self.calls.borrow_mut();
            c.push((x, y.to_vec()));
            c.len() - 1
        };
        for v in dydx.iter_mut() {
            *v = 0.0;
        }
        if self.poly {
            for (i, v) in dydx.iter_mut().enumerate() {
                *v = x.powi(i as i32) - if self.decay { y[i] } else { 0.0 };
            }
            return;
        }
        match &self.resp {
            None => {
                if k < self.dim {
                    dydx[k] = 1.0;
                }
            }
            Some(r) => {
                if k < r.len() {
                    for (i, v) in r[k].iter().enumerate() {
                        if i < dydx.len() {
                            dydx[i] = *v;
                        }
                    }
                }
            }
        }
    }
}

struct Recorder {
    xout: Option<f64>, // sparse-output mode: every callback answers XOut(xout)
    thetas: Vec<f64>,
    dim: usize,
    events: Vec<Value>,
    stop_after: Option<usize>, // answer Interrupt from the stop_after-th step callback (the initial callback does not count)
    nsteps: usize,
}

impl SolOut for Recorder {
    fn solout(&mut self, xold: f64, x: &mut f64, y: &mut [f64], interpolant: Option<&StepInterpolant<'_>>) -> ControlFlag {
        let mut dense = Vec::new();
        if let Some(ip) = interpolant {
            // evaluation points are placed on the ACTUAL step [xold, x] handed to the callback, not on the interpolant's own (xold, h)
            let (xo, h) = (xold, *x - xold);
            for th in &self.thetas {
                let xi = xo + th * h;
                let mut yi = vec![0.0; self.dim];
                ip.interpolate(xi, &mut yi);
                dense.push(json!({"theta": tok(*th), "theta_f": fj(*th), "xi": tok(xi), "y": toks(&yi), "y_f": fjs(&yi)}));
            }
        }
        let sp = interpolant.map(|ip| ip.step_params());
        self.events.push(json!({"xold": tok(xold), "x": tok(*x), "x_f": fj(*x), "y": toks(y), "y_f": fjs(y),
                                "has_interp": interpolant.is_some(), "dense": dense,
                                "interp_xold": sp.map(|p| tok(p.0)), "interp_h": sp.map(|p| tok(p.1))}));
        if xold != *x || interpolant.is_some() {
            self.nsteps += 1;
        }
        if let Some(k) = self.stop_after {
            if self.nsteps >= k {
                return ControlFlag::Interrupt;
            }
        }
        match self.xout {
            Some(xo) => ControlFlag::XOut(xo),
            None => ControlFlag::Continue,
        }
    }
}

fn tol_of(v: &[f64]) -> Tolerance {
    if v.len() == 1 { Tolerance::Scalar(v[0]) } else { Tolerance::Vector(v.to_vec()) }
}

/// y' = lambda * y with the exact Jacobian: every accepted Radau IIA step must multiply y by the (2,3) Pade approximant R(h lambda).
struct Lin {
    lam: f64,
}
impl IVP for Lin {
    fn ode(&self, _x: f64, y: &[f64], dydx: &mut [f64]) {
        for (d, v) in dydx.iter_mut().zip(y.iter()) {
            *d = self.lam * *v;
        }
    }
    fn jac(&self, _x: f64, y: &[f64], j: &mut ivp::matrix::Matrix) {
        for r in 0..y.len() {
            for c in 0..y.len() {
                j[(r, c)] = if r == c { self.lam } else { 0.0 };
            }
        }
    }
}

/// job: {"id", "resp": "lin", "api", "lam": hex64, "x0": hex64, "xend": hex64, "rtol": hex64, "atol": [hex64]}  (RADAU, adaptive, default first step)
fn run_lin_job(job: &Value) -> Value {
    let id = job["id"].as_str().unwrap_or("").to_string();
    let api = job["api"].as_str().unwrap_or("lowlevel").to_string();
    let lam = untok(job["lam"].as_str().unwrap());
    let x0 = untok(job["x0"].as_str().unwrap());
    let xend = untok(job["xend"].as_str().unwrap());
    let rtol = untok(job["rtol"].as_str().unwrap());
    let atol = untok(job["atol"][0].as_str().unwrap());
    let f = Lin { lam };
    let y0 = [1.0];
    let mut out = json!({"id": id, "api": api, "method": "RADAU"});
    if api == "lowlevel" {
        let mut rec = Recorder { xout: None, thetas: Vec::new(), dim: 1, events: Vec::new(), stop_after: None, nsteps: 0 };
        let r = catch(|| RADAU::builder().build().solve(&f, x0, &y0, xend, Tolerance::Scalar(rtol), Tolerance::Scalar(atol), Some(&mut rec)));
        match r {
            Err(p) => out["panic"] = json!(p),
            Ok(Err(e)) => out["error"] = json!(format!("{:?}", e)),
            Ok(Ok(res)) => {
                out["result"] = json!({"status": format!("{:?}", res.status), "naccpt": res.steps.accepted, "nrejct": res.steps.rejected, "nfev": res.evals.ode})
            }
        }
        out["t"] = Value::Array(rec.events.iter().map(|e| e["x"].clone()).collect());
        out["y"] = Value::Array(rec.events.iter().map(|e| e["y"][0].clone()).collect());
    } else {
        let r = catch(|| {
            let opts = Options::builder().method(Method::RADAU).rtol(Tolerance::Scalar(rtol)).atol(Tolerance::Scalar(atol)).build();
            solve_ivp(&f, x0, xend, &y0, opts)
        });
        match r {
            Err(p) => out["panic"] = json!(p),
            Ok(Err(e)) => out["error"] = json!(format!("{:?}", e)),
            Ok(Ok(sol)) => {
                out["result"] = json!({"status": format!("{:?}", sol.status), "naccpt": sol.naccpt, "nrejct": sol.nrejct, "nfev": sol.nfev});
                out["t"] = json!(toks(&sol.t));
                out["y"] = Value::Array(sol.y.iter().map(|r| json!(tok(r[0]))).collect());
            }
        }
    }
    out
}

fn run_job(job: &Value) -> Value {
    if job["resp"].as_str() == Some("lin") {
        return run_lin_job(job);
    }
    let id = job["id"].as_str().unwrap_or("").to_string();
    let api = job["api"].as_str().unwrap_or("lowlevel").to_string();
    let method = job["method"].as_str().unwrap_or("").to_string();
    let dir = job["dir"].as_i64().unwrap_or(1) as f64;
    let dim = job["dim"].as_u64().unwrap_or(1) as usize;
    let resp = match &job["resp"] {
        Value::Array(rows) => Some(
            rows.iter()
                .map(|r| r.as_array().unwrap().iter().map(|t| untok(t.as_str().unwrap())).collect::<Vec<f64>>())
                .collect::<Vec<_>>(),
        ),
        _ => None,
    };
    let atol: Vec<f64> = job["atol"].as_array().map(|a| a.iter().map(|t| untok(t.as_str().unwrap())).collect()).unwrap_or(vec![1e300]);
    let rtol: f64 = job["rtol"].as_str().map(untok).unwrap_or(0.0);
    let thetas: Vec<f64> = job["thetas"].as_array().map(|a| a.iter().map(|t| untok(t.as_str().unwrap())).collect()).unwrap_or_default();
    let beta0 = job["beta0"].as_bool().unwrap_or(false);
    // solve_ivp only: Options::first_step (RK4 needs the sign of the direction; the adaptive methods take |first_step|)
    let fs: f64 = job["first_step"].as_str().map(untok).unwrap_or(if method == "RK4" { dir * job["h0"].as_str().map(untok).unwrap_or(1.0) } else { job["h0"].as_str().map(untok).unwrap_or(1.0) });

    let max_step: Option<f64> = job["max_step"].as_str().map(untok);

    let decay = job["resp"].as_str() == Some("polydecay");
    let poly = decay || job["resp"].as_str() == Some("poly");
    let h0: f64 = job["h0"].as_str().map(untok).unwrap_or(1.0); // |first step|
    let probe = Probe { dim, resp, poly, decay, calls: RefCell::new(Vec::new()) };
    let y0 = vec![0.0; dim];
    let x0 = 0.0;
    let span: f64 = job["span"].as_str().map(untok).unwrap_or(1.0);
    let xend = dir * span;
    let dense_on = job["dense"].as_bool().unwrap_or(true);
    let xis: Vec<f64> = job["xis"].as_array().map(|a| a.iter().map(|t| untok(t.as_str().unwrap())).collect()).unwrap_or_default();
    let mut out = json!({"id": id, "api": api, "method": method, "dir": dir as i64, "dim": dim});

    if api == "lowlevel" {
        let mut rec = Recorder { xout: job["xout"].as_str().map(untok), thetas: thetas.clone(), dim, events: Vec::new(),
                                 stop_after: job["stop_after"].as_u64().map(|k| k as usize), nsteps: 0 };
        let r = catch(|| match method.as_str() {
            "RK4" => RK4::builder().dense_output(dense_on).build().solve(&probe, x0, &y0, xend, dir * h0, Some(&mut rec)),
            "RK23" => {
                let s = if beta0 {
                    // error-weight probe: pin the controller parameters so that the crate's defaults do not matter
                    RK23::builder().first_step(h0).maybe_max_step(max_step).safety_factor(0.9).scale_min(0.2).scale_max(10.0).build()
                } else {
                    RK23::builder().first_step(h0).maybe_max_step(max_step).dense_output(dense_on).build()
                };
                s.solve(&probe, x0, &y0, xend, Tolerance::Scalar(rtol), tol_of(&atol), Some(&mut rec))
            }
            "DOPRI5" => {
                let s = if beta0 {
                    DOPRI5::builder().first_step(h0).maybe_max_step(max_step).beta(0.0).safety_factor(0.9).scale_min(0.2).scale_max(10.0).build()
                } else {
                    DOPRI5::builder().first_step(h0).maybe_max_step(max_step).dense_output(dense_on).build()
                };
                s.solve(&probe, x0, &y0, xend, Tolerance::Scalar(rtol), tol_of(&atol), Some(&mut rec))
            }
            "DOP853" => {
                let s = if beta0 {
                    DOP853::builder().first_step(h0).maybe_max_step(max_step).beta(0.0).safety_factor(0.9).scale_min(0.333).scale_max(6.0).build()
                } else {
                    DOP853::builder().first_step(h0).maybe_max_step(max_step).dense_output(dense_on).build()
                };
                s.solve(&probe, x0, &y0, xend, Tolerance::Scalar(rtol), tol_of(&atol), Some(&mut rec))
            }
            "RADAU" => RADAU::builder().first_step(h0).maybe_max_step(max_step).dense_output(dense_on).build().solve(
                &probe, x0, &y0, xend, Tolerance::Scalar(rtol), tol_of(&atol), Some(&mut rec)),
            _ => panic!("unknown method"),
        });
        match r {
            Err(p) => {
                out["panic"] = json!(p);
            }
            Ok(Err(e)) => {
                out["error"] = json!(format!("{:?}", e));
            }
            Ok(Ok(res)) => {
                out["result"] = json!({"h": tok(res.h), "h_f": fj(res.h), "status": format!("{:?}", res.status),
                                       "nfev": res.evals.ode, "nstep": res.steps.total, "naccpt": res.steps.accepted, "nrejct": res.steps.rejected});
            }
        }
        out["solout"] = Value::Array(rec.events);
    } else {
        let m = match method.as_str() {
            "RK4" => Method::RK4,
            "RK23" => Method::RK23,
            "DOPRI5" => Method::DOPRI5,
            "DOP853" => Method::DOP853,
            _ => Method::DOPRI5,
        };
        let r = catch(|| {
            let opts = Options::builder()
                .method(m)
                .rtol(Tolerance::Scalar(rtol))
                .atol(tol_of(&atol))
                .first_step(fs)
                .maybe_max_step(max_step)
                .dense_output(true)
                .build();
            solve_ivp(&probe, x0, xend, &y0, opts)
        });
        match r {
            Err(p) => {
                out["panic"] = json!(p);
            }
            Ok(Err(e)) => {
                out["error"] = json!(format!("{:?}", e));
            }
            Ok(Ok(sol)) => {
                let mut dense = Vec::new();
                let mut pts: Vec<(f64, f64)> = thetas.iter().map(|th| (*th, x0 + th * (dir * 1.0))).collect();
                pts.extend(xis.iter().map(|xi| (f64::NAN, *xi)));      // absolute evaluation points (landing-step probe)
                for (th, xi) in &pts {
                    let xi = *xi;
                    match catch(|| sol.sol(xi)) {
                        Ok(Ok(yi)) => dense.push(json!({"theta": tok(*th), "theta_f": fj(*th), "xi": tok(xi), "y": toks(&yi), "y_f": fjs(&yi)})),
                        Ok(Err(e)) => dense.push(json!({"theta": tok(*th), "xi": tok(xi), "error": format!("{:?}", e)})),
                        Err(p) => dense.push(json!({"theta": tok(*th), "xi": tok(xi), "panic": p})),
                    }
                }
                out["sol"] = json!({"t": toks(&sol.t), "t_f": fjs(&sol.t),
                                    "y": sol.y.iter().map(|r| toks(r)).collect::<Vec<_>>(),
                                    "y_f": sol.y.iter().map(|r| fjs(r)).collect::<Vec<_>>(),
                                    "status": format!("{:?}", sol.status), "nfev": sol.nfev, "nstep": sol.nstep,
                                    "naccpt": sol.naccpt, "nrejct": sol.nrejct, "dense": dense});
            }
        }
    }
    let calls = probe.calls.borrow();
    out["calls"] = Value::Array(
        calls.iter().map(|(t, y)| json!({"t": tok(*t), "t_f": fj(*t), "y": toks(y), "y_f": fjs(y)})).collect(),
    );
    out
}

fn main() {
    silence_panics();
    let stdin = std::io::stdin();
    let stdout = std::io::stdout();
    let mut w = stdout.lock();
    for line in stdin.lock().lines() {
        let line = line.expect("stdin");
        let line = line.trim();
        if line.is_empty() {
            continue;
        }
        let job: Value = serde_json::from_str(line).expect("job json");
        let rec = run_job(&job);
        writeln!(w, "{}", serde_json::to_string(&rec).unwrap()).unwrap();
    }
}

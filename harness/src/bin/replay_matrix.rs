//! C17 replay: executes TLC-generated Matrix scenarios on the real `ivp::matrix::Matrix` API and records
//! what the code returned as an NDJSON trace (one line per scenario step) for `spec/matrix/Trace_Matrix.tla`.
//!
//! usage: replay_matrix <scenarios.ndjson> <trace.ndjson> [--mutate <k>]
//!
//! Scenario line: {"sid":int,"sc":{n,ctor,ml,mu,pat,op,i,j,s,bkind,bml,bmu,bpat},"initA":[ints],"wsA":[[i,j,v]..],"wsB":[..]}
//!                (two-operation scenarios add op2, i2, j2, s2, ckind, cml, cmu, cpat to sc and "wsC";
//!                 sc.pf != 0: A, and B, is handed to Matrix::fill(pf) before its writes)
//! Trace line:    {"sid","act":"ctorA|prefillA|fillA|ctorB|prefillB|fillB|op|ctorC|fillC|op2","panic":bool,"entries":[[int]],"kind":"I|F|B","ml","mu",
//!                 "len","data":[int],"val":bool, ("sc": scenario record, on ctorA lines)}
//! Numbers (entries, data, write values, scalars) are the graded values of spec/matrix/Graded.tla, m * 2^(80 e) with
//! |m| < 100000 and e in -3..3, carried as the integer code m + e * 2000000 (zero is 0; a small integer is its own code):
//! `decode` builds the f64 handed to the code under test exactly, `to_code` converts what the code returned
//! (888888 = value read back is not such a number, 999999 = reading that entry panicked).
//!
//! --mutate k (self-test of the binding: deliberately falsify the *recorded* outcome)
//!   1: report a wrong entry in the result of every binary / scalar op
//!   2: swallow the panic of an out-of-band / Identity write (report panic=false)
//!   3: negate the reported is_identity value
//!   4: report a wrong data length (Level-B only: must show up as DRIFT, not as a violation)
//!   5: report the entries of every constructed banded matrix transposed after the fill
use ivp::matrix::{Matrix, MatrixStorage};
use ivp_verif_harness::util::{catch, silence_panics};
use serde_json::{json, Value};
use std::io::{BufRead, BufReader, BufWriter, Write};

const NOTINT: i64 = 888888;
const READPANIC: i64 = 999999;

const GSTRIDE: i64 = 2_000_000;
const GHALF: i64 = 1_000_000;
const GLEVEL_BITS: i32 = 80;
const GMAXE: i64 = 3;

/// 2^k exactly (k within the normal exponent range)
fn pow2(k: i32) -> f64 {
    assert!((-1022..=1023).contains(&k));
    f64::from_bits(((1023 + k) as u64) << 52)
}

/// code m + e*GSTRIDE -> m * 2^(80 e), exact (|m| < 2^20, |e| <= 3)
fn decode(code: i64) -> f64 {
    let e = (code + GHALF).div_euclid(GSTRIDE);
    let m = code - e * GSTRIDE;
    assert!(e.abs() <= GMAXE, "scenario number {code} outside the graded range");
    (m as f64) * pow2(GLEVEL_BITS * e as i32)
}

/// f64 -> code of the graded number it is exactly equal to, or NOTINT.  Multiplying by a power of two is exact unless the
/// result leaves the normal range, in which case it is not a non-zero integer below 100000 and the level is rejected.
fn to_int(v: f64) -> i64 {
    if !v.is_finite() { return NOTINT; }
    if v == 0.0 { return 0; }
    for e in [0, -1, 1, -2, 2, -3, 3] {
        let w = v * pow2(-GLEVEL_BITS * e as i32);
        if w.is_finite() && w != 0.0 && w.fract() == 0.0 && w.abs() < 100000.0 && w * pow2(GLEVEL_BITS * e as i32) == v {
            return w as i64 + e * GSTRIDE;
        }
    }
    NOTINT
}

fn read_all(m: &Matrix, n: usize) -> Vec<Vec<i64>> {
    (0..n)
        .map(|i| {
            (0..n)
                .map(|j| match catch(|| m[(i, j)]) {
                    Ok(v) => to_int(v),
                    Err(_) => READPANIC,
                })
                .collect()
        })
        .collect()
}

fn storage(m: &Matrix) -> (&'static str, usize, usize) {
    match m.storage {
        MatrixStorage::Identity => ("I", 0, 0),
        MatrixStorage::Full => ("F", 0, 0),
        MatrixStorage::Banded { ml, mu } => ("B", ml, mu),
    }
}

fn us(v: &Value, k: &str) -> usize { v[k].as_u64().unwrap_or_else(|| panic!("field {k}")) as usize }
fn st<'a>(v: &'a Value, k: &str) -> &'a str { v[k].as_str().unwrap_or_else(|| panic!("field {k}")) }

fn construct(ctor: &str, n: usize, ml: usize, mu: usize, init: &[f64]) -> Matrix {
    match ctor {
        "identity" => Matrix::identity(n),
        "from_vec" => Matrix::from_vec(n, n, init.to_vec()),
        "from_storage_I" => Matrix::from_storage(n, n, MatrixStorage::Identity),
        "from_storage_F" => Matrix::from_storage(n, n, MatrixStorage::Full),
        "from_storage_B" => Matrix::from_storage(n, n, MatrixStorage::Banded { ml, mu }),
        "full" => Matrix::full(n, n),
        "square" => Matrix::square(n),
        "zeros" => Matrix::zeros(n, n),
        "banded" => Matrix::banded(n, ml, mu),
        "diagonal" => Matrix::diagonal(init.to_vec()),
        "lower_triangular" => Matrix::lower_triangular(n),
        "upper_triangular" => Matrix::upper_triangular(n),
        other => panic!("unknown constructor {other}"),
    }
}

struct Out {
    w: BufWriter<std::fs::File>,
    mutate: u32,
}

impl Out {
    #[allow(clippy::too_many_arguments)]
    fn line(&mut self, sid: i64, act: &str, sc: Option<&Value>, panic: bool, m: Option<&Matrix>, n: usize, val: bool, op: &str) {
        let (mut entries, kind, ml, mu, mut len, data) = match m {
            Some(m) => {
                let (k, ml, mu) = storage(m);
                (read_all(m, n), k, ml, mu, m.data.len(), m.data.iter().map(|v| to_int(*v)).collect::<Vec<_>>())
            }
            None => (vec![], "F", 0, 0, 0, vec![]),
        };
        let mut panic = panic;
        let mut val = val;
        match self.mutate {
            1 if act == "op" && (op.starts_with("component") || op.contains("add") || op.contains("sub")) => {
                if !entries.is_empty() { entries[n - 1][0] += 1; }
            }
            2 if act == "op" && op == "write" => panic = false,
            3 if (act == "op" || act == "op2") && op == "is_identity" => val = !val,
            4 => len += 1,
            5 if act == "fillA" && kind == "B" => {
                let t = entries.clone();
                for i in 0..n { for j in 0..n { entries[i][j] = t[j][i]; } }
            }
            _ => {}
        }
        let mut o = json!({"sid": sid, "act": act, "panic": panic, "entries": entries, "kind": kind, "ml": ml, "mu": mu,
                           "len": len, "data": data, "val": val});
        if let Some(sc) = sc { o["sc"] = sc.clone(); }
        writeln!(self.w, "{}", o).unwrap();
    }
}

fn writes(m: &mut Matrix, ws: &Value) -> bool {
    // returns true if a write panicked (stops at the first panic)
    for w in ws.as_array().unwrap() {
        let (i, j, v) = (w[0].as_u64().unwrap() as usize, w[1].as_u64().unwrap() as usize, decode(w[2].as_i64().unwrap()));
        if catch(|| { m[(i, j)] = v; }).is_err() { return true; }
    }
    false
}

/// Apply one operation to `a` (second operand `b` for binary ops). Returns (panicked, resulting matrix, is_identity value).
/// For a panicking binary / scalar op there is no result; for write / swap_rows / fill / is_identity the target is returned.
fn apply(op: &str, mut a: Matrix, b: &Matrix, i: usize, j: usize, s: f64) -> (bool, Option<Matrix>, bool) {
    match op {
        "read" => (false, Some(a), false),
        "write" => {
            let p = catch(|| { a[(i, j)] = 77.0; }).is_err();
            (p, Some(a), false)
        }
        "add" | "sub" => {
            let b2 = b.clone();
            let r = if op == "add" { catch(move || a + b2) } else { catch(move || a - b2) };
            match r { Ok(m) => (false, Some(m), false), Err(_) => (true, None, false) }
        }
        "add_assign" | "sub_assign" | "sub_assign_ref" => {
            let b2 = b.clone();
            let p = match op {
                "add_assign" => catch(|| { a += b2; }).is_err(),
                "sub_assign" => catch(|| { a -= b2; }).is_err(),
                _ => catch(|| { a -= &b2; }).is_err(),
            };
            if p { (true, None, false) } else { (false, Some(a), false) }
        }
        "component_add" | "component_sub" | "component_mul" => {
            let r = match op {
                "component_add" => catch(move || a.component_add(s)),
                "component_sub" => catch(move || a.component_sub(s)),
                _ => catch(move || a.component_mul(s)),
            };
            match r { Ok(m) => (false, Some(m), false), Err(_) => (true, None, false) }
        }
        "component_mul_mut" => {
            let p = catch(|| a.component_mul_mut(s)).is_err();
            (p, Some(a), false)
        }
        "is_identity" => match catch(|| a.is_identity()) {
            Ok(v) => (false, Some(a), v),
            Err(_) => (true, Some(a), false),
        },
        "swap_rows" => {
            let p = catch(|| a.swap_rows(i, j)).is_err();
            (p, Some(a), false)
        }
        "fill" => {
            let p = catch(|| a.fill(s)).is_err();
            (p, Some(a), false)
        }
        other => panic!("unknown op {other}"),
    }
}

fn main() {
    let args: Vec<String> = std::env::args().collect();
    if args.len() < 3 { eprintln!("usage: replay_matrix <scenarios.ndjson> <trace.ndjson> [--mutate k]"); std::process::exit(2); }
    let mutate = args.iter().position(|a| a == "--mutate").map(|p| args[p + 1].parse::<u32>().unwrap()).unwrap_or(0);
    silence_panics();
    let rd = BufReader::new(std::fs::File::open(&args[1]).expect("open scenarios"));
    let mut out = Out { w: BufWriter::new(std::fs::File::create(&args[2]).expect("create trace")), mutate };
    let mut count = 0usize;
    for line in rd.lines() {
        let line = line.unwrap();
        if line.trim().is_empty() { continue; }
        let rec: Value = serde_json::from_str(&line).expect("scenario json");
        let sid = rec["sid"].as_i64().unwrap();
        let sc = &rec["sc"];
        let n = us(sc, "n");
        let op = st(sc, "op").to_string();
        let init: Vec<f64> = rec["initA"].as_array().unwrap().iter().map(|v| decode(v.as_i64().unwrap())).collect();

        // ctorA
        let (ctor, ml, mu) = (st(sc, "ctor"), us(sc, "ml"), us(sc, "mu"));
        let ra = catch(|| construct(ctor, n, ml, mu, &init));
        #[allow(unused_mut)]
        let mut a = match ra {
            Ok(m) => { out.line(sid, "ctorA", Some(sc), false, Some(&m), n, false, &op); m }
            Err(_) => { out.line(sid, "ctorA", Some(sc), true, None, n, false, &op); Matrix::zeros(n, n) }
        };
        // optional prefill: the public whole-buffer operation Matrix::fill
        let pf = sc.get("pf").and_then(|v| v.as_i64()).unwrap_or(0);
        if pf != 0 {
            let p = catch(|| a.fill(decode(pf))).is_err();
            out.line(sid, "prefillA", None, p, Some(&a), n, false, &op);
        }
        // fillA
        let p = writes(&mut a, &rec["wsA"]);
        out.line(sid, "fillA", None, p, Some(&a), n, false, &op);

        let is_bin = matches!(op.as_str(), "add" | "sub" | "add_assign" | "sub_assign" | "sub_assign_ref");
        let mut b = Matrix::zeros(n, n);
        if is_bin {
            let bctor = match st(sc, "bkind") { "I" => "identity", "F" => "zeros", _ => "banded" };
            let (bml, bmu) = (us(sc, "bml"), us(sc, "bmu"));
            match catch(|| construct(bctor, n, bml, bmu, &[])) {
                Ok(m) => { out.line(sid, "ctorB", None, false, Some(&m), n, false, &op); b = m; }
                Err(_) => { out.line(sid, "ctorB", None, true, None, n, false, &op); }
            }
            if pf != 0 {
                let p = catch(|| b.fill(decode(pf))).is_err();
                out.line(sid, "prefillB", None, p, Some(&b), n, false, &op);
            }
            let p = writes(&mut b, &rec["wsB"]);
            out.line(sid, "fillB", None, p, Some(&b), n, false, &op);
        }

        // op: (panicked, result / target matrix, is_identity value)
        let (i, j) = (us(sc, "i"), us(sc, "j"));
        let s = decode(sc["s"].as_i64().unwrap());
        let (p1, r1, v1) = apply(&op, a, &b, i, j, s);
        out.line(sid, "op", None, p1, r1.as_ref(), n, v1, &op);

        // optional second operation on the result of the first
        let op2 = sc.get("op2").and_then(|v| v.as_str()).unwrap_or("none").to_string();
        if op2 != "none" {
            let r = r1.unwrap_or_else(|| Matrix::zeros(n, n));
            let mut c = Matrix::zeros(n, n);
            if matches!(op2.as_str(), "add" | "sub" | "add_assign" | "sub_assign" | "sub_assign_ref") {
                let cctor = match st(sc, "ckind") { "I" => "identity", "F" => "zeros", _ => "banded" };
                let (cml, cmu) = (us(sc, "cml"), us(sc, "cmu"));
                match catch(|| construct(cctor, n, cml, cmu, &[])) {
                    Ok(m) => { out.line(sid, "ctorC", None, false, Some(&m), n, false, &op2); c = m; }
                    Err(_) => { out.line(sid, "ctorC", None, true, None, n, false, &op2); }
                }
                let p = writes(&mut c, &rec["wsC"]);
                out.line(sid, "fillC", None, p, Some(&c), n, false, &op2);
            }
            let (i2, j2) = (us(sc, "i2"), us(sc, "j2"));
            let s2 = decode(sc["s2"].as_i64().unwrap());
            let (p2, r2, v2) = apply(&op2, r, &c, i2, j2, s2);
            out.line(sid, "op2", None, p2, r2.as_ref(), n, v2, &op2);
        }
        count += 1;
    }
    out.w.flush().unwrap();
    println!("replayed {count} scenarios");
}

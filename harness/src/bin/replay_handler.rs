//! Replays TLC-generated handler scenarios into the REAL output handler of solve_ivp
//! (`ivp::solve::solout::verif::Handler`, the cfg(ivp_verif) wrapper around `DefaultSolOut`).
//!
//! usage: replay_handler <scenarios.ndjson> <trace-out.ndjson> [--concs all|basic] [--mutate k]
//!
//! Each scenario line is {"sc":{grid,hasT,teval,evs,dense,hasFs,fs,fsMatch},"K":k} in sub-units
//! (1024 per tick, one tick = 2^-40), measured from x0 in the direction of integration.  It is
//! concretised for several (x0, dir) pairs, the callbacks are delivered to the real handler
//! with a synthetic interpolant whose value identifies (evaluation time, step index), and what
//! the handler did is written as one NDJSON trace (call / cb* / ret) for Trace_Handler.tla.

use ivp::prelude::*;
use ivp::solout::SolOut;
use ivp::solve::solout::verif::Handler;
use ivp_verif_harness::util::{catch, silence_panics};
use serde_json::{json, Value};
use std::io::{BufRead, BufWriter, Write};

const TICK: f64 = 9.094947017729282e-13; // 2^-40
const U: f64 = 1024.0;

#[derive(Clone)]
struct Ev {
    roots: Vec<f64>, // in ticks
    sgn: f64,
    dir: Direction,
    term: usize,
}

struct Prob {
    evs: Vec<Ev>,
    x0: f64,
    dir: f64,
}

impl IVP for Prob {
    fn ode(&self, _x: f64, _y: &[f64], dydx: &mut [f64]) {
        dydx.fill(0.0);
    }
    fn n_events(&self) -> usize {
        self.evs.len()
    }
    fn events(&self, x: f64, _y: &[f64], out: &mut [f64]) {
        // position in ticks (exact for grid points): p = dir * (x - x0) / 2^-40
        let p = self.dir * (x - self.x0) / TICK;
        for (i, e) in self.evs.iter().enumerate() {
            let mut g = e.sgn;
            for c in &e.roots {
                g *= p - c;
            }
            out[i] = g * TICK;
        }
    }
    fn event_config(&self, i: usize) -> EventConfig {
        let mut c = EventConfig::new();
        c.direction(self.evs[i].dir);
        if self.evs[i].term > 0 {
            c.terminal_count(self.evs[i].term);
        }
        c
    }
}

/// Synthetic interpolant: value = (evaluation time, index of the step it belongs to).
fn interp(xi: f64, yi: &mut [f64], cont: &[f64], _xold: f64, _h: f64) {
    yi[0] = xi;
    yi[1] = cont[0];
}

struct Conc {
    x0: f64,
    dir: f64,
}

impl Conc {
    fn x(&self, p_sub: f64) -> f64 {
        self.x0 + self.dir * (p_sub / U) * TICK
    }
    /// time -> sub-units (rounded) + exactness flag
    fn sub(&self, t: f64) -> (i64, bool) {
        let v = self.dir * (t - self.x0) / TICK * U;
        let r = v.round();
        if !r.is_finite() || r.abs() > 1.0e9 {
            return (if v > 0.0 { 999_999_999 } else { -999_999_999 }, false);
        }
        (r as i64, r == v)
    }
}

fn parse_evs(sc: &Value, noterm: bool) -> Vec<Ev> {
    sc["evs"]
        .as_array()
        .map(|a| {
            a.iter()
                .map(|e| Ev {
                    roots: e["roots"].as_array().unwrap().iter().map(|r| r.as_f64().unwrap()).collect(),
                    sgn: e["sgn"].as_f64().unwrap(),
                    dir: match e["dir"].as_str().unwrap() {
                        "Pos" => Direction::Positive,
                        "Neg" => Direction::Negative,
                        _ => Direction::All,
                    },
                    term: if noterm { 0 } else { e["term"].as_u64().unwrap() as usize },
                })
                .collect()
        })
        .unwrap_or_default()
}

struct RunOut {
    cbs: Vec<Value>,
    out: Vec<Value>,
    tev: Vec<Vec<Value>>,
    segs: Vec<Value>,
    intr: bool,
    kseen: usize,
    panic: Option<String>,
}

fn sample_json(c: &Conc, t: f64, y: &[f64]) -> Value {
    let (ts, ex) = c.sub(t);
    let (at, _) = c.sub(y[0]);
    let seg = y[1];
    json!({"t": ts, "ex": ex, "at": at, "seg": if seg.fract() == 0.0 && seg.abs() < 1e6 { seg as i64 } else { -777 }})
}

/// Deliver callbacks 0..=k_max of the scenario to a fresh real handler.
fn run_one(sc: &Value, k_max: usize, c: &Conc, dense: bool, noterm: bool, mutate: u32) -> RunOut {
    let grid: Vec<f64> = sc["grid"].as_array().unwrap().iter().map(|v| v.as_f64().unwrap()).collect();
    let evs = parse_evs(sc, noterm);
    let nev = evs.len();
    let prob = Prob { evs, x0: c.x0, dir: c.dir };
    let teval: Option<Vec<f64>> = if sc["hasT"].as_bool().unwrap() {
        Some(sc["teval"].as_array().unwrap().iter().map(|v| c.x(v.as_f64().unwrap())).collect())
    } else {
        None
    };
    let first_step = if sc["hasFs"].as_bool().unwrap() {
        let mag = sc["fs"].as_f64().unwrap() / U * TICK;
        let matches = sc["fsMatch"].as_bool().unwrap();
        Some(if matches { c.dir * mag } else { -c.dir * mag })
    } else {
        None
    };
    let mut h = Handler::new(&prob, teval, dense, first_step, c.x0, 2);
    let mut cbs = Vec::new();
    let mut intr = false;
    let mut kseen = 0usize;
    let mut panic = None;
    let mut prev_nout = 0usize;
    let mut prev_nev = vec![0usize; nev];
    for k in 0..=k_max {
        let xold = if k == 0 { c.x(grid[0]) } else { c.x(grid[k - 1]) };
        let mut x = c.x(grid[k]);
        let mut y = vec![x, k as f64];
        let cont = [k as f64];
        let hh = x - xold;
        let r = catch(|| {
            if k == 0 {
                h.solout(xold, &mut x, &mut y, None)
            } else {
                let ip = StepInterpolant::new(&cont, xold, hh, interp);
                h.solout(xold, &mut x, &mut y, Some(&ip))
            }
        });
        let flag = match r {
            Ok(f) => f,
            Err(m) => {
                panic = Some(m);
                break;
            }
        };
        kseen = k;
        let p = h.probe();
        let flag_s = match flag {
            ControlFlag::Continue => "Continue",
            ControlFlag::Interrupt => "Interrupt",
            ControlFlag::ModifiedSolution => "Modified",
            ControlFlag::XOut(_) => "XOut",
        };
        let prev: Vec<i64> = p.prev_event.iter().map(|g| (g / TICK).round() as i64).collect();
        let _ = (prev_nout, &prev_nev);
        cbs.push(json!({"k": k, "flag": flag_s, "idx": p.next_idx + 1, "nout": p.n_out, "nsegs": p.n_segs,
                        "hits": p.event_hits, "fdone": p.first_output_done, "prev": prev}));
        prev_nout = p.n_out;
        prev_nev = p.event_hits.clone();
        if flag == ControlFlag::Interrupt {
            intr = true;
            break;
        }
    }
    let (t, y, te, ye, segs) = h.into_payload();
    let mut out: Vec<Value> = t.iter().zip(y.iter()).map(|(t, y)| sample_json(c, *t, y)).collect();
    let mut tev: Vec<Vec<Value>> = Vec::new();
    for i in 0..te.len() {
        let mut v = Vec::new();
        for j in 0..te[i].len() {
            let mut s = sample_json(c, te[i][j], &ye[i][j]);
            s.as_object_mut().unwrap().remove("ex");
            v.push(s);
        }
        tev.push(v);
    }
    let segs_j: Vec<Value> = segs
        .iter()
        .map(|(_, xo, hh)| {
            let (lo, _) = c.sub(*xo);
            let (hi, _) = c.sub(*xo + *hh);
            json!({"lo": lo, "h": hi - lo})
        })
        .collect();
    // deliberate falsifications of the record (self-test of the binding)
    match mutate {
        1 => {
            if let Some(o) = out.last_mut() {
                o["t"] = json!(o["t"].as_i64().unwrap() + 1024);
            }
        }
        2 => {
            if out.len() > 1 {
                out.remove(1);
            }
        }
        3 => {
            for v in tev.iter_mut() {
                v.clear();
            }
        }
        4 => {
            for o in out.iter_mut() {
                o["seg"] = json!(o["seg"].as_i64().unwrap() + 1);
            }
        }
        _ => {}
    }
    RunOut { cbs, out, tev, segs: segs_j, intr, kseen, panic }
}

/// attribute each event to the callback at which it was reported (cumulative hit counts)
fn attach_cb(run: &mut RunOut) {
    let nev = run.tev.len();
    for i in 0..nev {
        let mut seen = 0usize;
        for cb in &run.cbs {
            let h = cb["hits"][i].as_u64().unwrap() as usize;
            while seen < h && seen < run.tev[i].len() {
                run.tev[i][seen]["cb"] = cb["k"].clone();
                seen += 1;
            }
        }
        while seen < run.tev[i].len() {
            run.tev[i][seen]["cb"] = json!(-1);
            seen += 1;
        }
    }
}

fn main() {
    silence_panics();
    let args: Vec<String> = std::env::args().collect();
    let inp = &args[1];
    let outp = &args[2];
    let mut concs_all = false;
    let mut mutate = 0u32;
    let mut i = 3;
    while i < args.len() {
        match args[i].as_str() {
            "--concs" => {
                concs_all = args[i + 1] == "all";
                i += 1;
            }
            "--mutate" => {
                mutate = args[i + 1].parse().unwrap();
                i += 1;
            }
            _ => {}
        }
        i += 1;
    }
    let concs: Vec<Conc> = if concs_all {
        vec![Conc { x0: 0.0, dir: 1.0 }, Conc { x0: 1.0, dir: -1.0 }, Conc { x0: -3.0, dir: 1.0 }, Conc { x0: 0.0, dir: -1.0 }]
    } else {
        vec![Conc { x0: 0.0, dir: 1.0 }, Conc { x0: 1.0, dir: -1.0 }]
    };
    let f = std::io::BufReader::new(std::fs::File::open(inp).expect("scenario file"));
    let mut w = BufWriter::new(std::fs::File::create(outp).expect("trace file"));
    let mut id = 0u64;
    let mut n_lines = 0u64;
    for line in f.lines() {
        let line = line.unwrap();
        if line.trim().is_empty() {
            continue;
        }
        let v: Value = serde_json::from_str(&line).expect("scenario json");
        let sc = &v["sc"];
        let k_max = v["K"].as_u64().unwrap() as usize;
        let dense = sc["dense"].as_bool().unwrap();
        for (ci, c) in concs.iter().enumerate() {
            id += 1;
            let mut main = run_one(sc, k_max, c, dense, false, mutate);
            attach_cb(&mut main);
            let alt = run_one(sc, k_max, c, !dense, false, 0);
            let mut nt = run_one(sc, k_max, c, dense, true, 0);
            attach_cb(&mut nt);
            writeln!(w, "{}", json!({"e": "call", "id": id, "sc": sc, "K": k_max, "conc": ci, "dir": c.dir as i64})).unwrap();
            n_lines += 1;
            for cb in &main.cbs {
                let mut o = cb.clone();
                o["e"] = json!("cb");
                // events first reported at this callback, per function (t only: the oracle for the model)
                let k = cb["k"].as_i64().unwrap();
                let te: Vec<i64> = main
                    .tev
                    .iter()
                    .map(|v| v.iter().find(|e| e["cb"].as_i64() == Some(k)).map(|e| e["t"].as_i64().unwrap()).unwrap_or(0))
                    .collect();
                o["te"] = json!(te);
                writeln!(w, "{}", o).unwrap();
                n_lines += 1;
            }
            writeln!(
                w,
                "{}",
                json!({"e": "ret", "id": id, "K": main.kseen, "intr": main.intr, "out": main.out, "tev": main.tev, "segs": main.segs,
                       "alt": alt.out, "nt": {"out": nt.out, "tev": nt.tev},
                       "panic": main.panic.is_some() || alt.panic.is_some() || nt.panic.is_some()})
            )
            .unwrap();
            n_lines += 1;
        }
    }
    w.flush().unwrap();
    eprintln!("replay_handler: {} runs, {} trace lines", id, n_lines);
}

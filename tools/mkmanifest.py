#!/usr/bin/env python3
"""Generates /verif/MANIFEST.json from the table below (single place to keep it valid)."""
import json
import os
import subprocess

VERIF = os.path.dirname(os.path.dirname(os.path.abspath(__file__)))

TLA = "explicit TLA+ specification + TLC"

CHECKS = {
 "C02": dict(cat="proof", tech="TLA+ tableau specification: order conditions as integer identities discharged by Apalache; bound to the code by tableau extraction (impulse probing of the real steppers) validated by a TLC trace spec",
   text="Exact rational Butcher tableaux in TLA+ (spec/tableaux, generated from checks/tableaux_gen.py); every rooted-tree order condition up to p (RK4 p=4, RK23 p=3, DOPRI5 p=5), the failing tree of order p+1, the embedded-estimator conditions, and for DOP853 row sums + quadrature conditions within 1e-25 are discharged by Apalache; the coefficients the real steppers apply (c, A, b, error-estimator sums, source constants) are extracted by probing and compared with the specification to <=1 ulp by a TLC trace spec - on plain steps, on the shortened landing step, on the accepted retry after a rejected attempt and with dense_output off. Radau IIA: the nodes as roots of 10c^2-8c+1 (bracketed to 1e-30) and R(z) as the (2,3) Pade approximant of exp are Apalache identities; every Newton triple of recorded runs evaluates at x+c_i h (3 ulp), y'=t^k (k<=4) is integrated exactly, and every accepted step of adaptive runs on y'=lambda*y equals R(h*lambda) in exact rational arithmetic (1.2e-10 relative). Recorded Radau runs of every family (Trace_Stepper clauses C02/radau_nodes, C02/radau_converged): the three evaluations of each Newton iteration lie at the Radau IIA nodes of one attempted step, and an accepted step comes out of an iteration that converged (the latter exposed and now guards repair 29daa34).",
   note="NOT decided: the ~190 remaining DOP853 tree conditions of order <=8 (literature), the tol^(-1/q) growth law, Radau's order on nonlinear problems, BDF (numeric). Trusted: Apalache/Z3, TLC, the generator's expansion tree -> integer identity, python Fraction arithmetic for float->rational distances.",
   ref="5 (C02), 3.4"),
 "C03": dict(cat="model_checking", tech=TLA + " (stepper/handler state machines, implementation-shaped loop models of all six steppers (Radau.tla, Bdf.tla, Dopri.tla)) with trace validation of recorded solve_ivp runs and replay of TLC-generated handler scenarios",
   text="Interval discipline and honest status are contract operators of the TLA+ specification (spec/stepper/StepperContract.tla, spec/handler/HandlerContract.tla). TLC checks the bounded stepper model (all six variants, every relation of first_step/max_step/budget to the span) against them and validates recorded runs of the real solve_ivp (corner sweep + seeded random sweep, both directions, all methods): every ode/jac/events time within [x0,xend], samples start at x0 and are strictly monotone, Success iff the interval was covered, UserInterrupt iff a terminal event stopped the run, shapes, finiteness.",
   note="Times enter TLC as ranks of the recorded doubles plus hex tokens; the xend +/- 8 ulp marks and finiteness flags are computed by the recorder (trusted). Bounded model: span <= 3 coarse steps.",
   ref="5 (C03)"),
 "C04": dict(cat="model_checking", tech=TLA + ": liveness (termination under weak fairness) on the stepper model; trace validation of adversarial runs under an evaluation budget and a watchdog",
   text="Termination is a temporal property of the stepper specification (spec/stepper/Stepper.tla, MC_StepperLive): every rejection shrinks |h|, a non-finite error norm is a rejection, every acceptance advances x, the underflow guard and the failure counters are bounded. TLC checks <>Done under WF for all six variants with an adversarial oracle, and validates recorded runs of the real solve_ivp on blow-up, NaN/inf-returning, discontinuous and stiff right-hand sides: each run must end in `ret` within the evaluation budget, never panic, and never report Success with non-finite states.",
   note="'Bounded work' is operationalised as <= 2e6 right-hand-side evaluations and the watchdog wall-clock limit per run. The oracle abstraction of the error norm is trusted to over-approximate the code's arithmetic.",
   ref="5 (C04)"),
 "C05": dict(cat="model_checking", tech=TLA + ": bounded-exhaustive handler model, every scenario replayed into the real DefaultSolOut, traces validated by TLC; plus trace validation of recorded solve_ivp runs",
   text="The output handler is specified action by action (spec/handler/Handler.tla); the t_eval contract (exactly the requested times not beyond the stopping point, bit-for-bit, in order, each with the value of an interpolant of a step containing it, independent of dense_output) is a Level-A operator. TLC enumerates every placement of <=3-4 requested times relative to grids of <=3 steps (on / within 1e-12 of / between step boundaries, duplicates, x0, xend, rounding jitter of the step ends), budgets and terminal events, checks model => contract, and every scenario is executed on the real handler and validated by TLC (Level B conformance + Level A contract). Recorded runs of all six real steppers with t_eval built from their own step grids are validated against the same contract.",
   note="The sub-clause 'agrees with the exact solution to the accuracy of C01/C07' is numeric and not decided. Assumes accepted steps longer than 1e-12. Synthetic interpolant in the replay; real interpolants in the recorded runs.",
   ref="5 (C05), 3.2"),
 "C06": dict(cat="model_checking", tech=TLA + ": segment-chain / coverage / error-class contract checked by TLC on recorded runs of all steppers and on replayed handler scenarios",
   text="Dense output is specified as a chain of segments (spec/stepper/StepperContract.tla C06_*, spec/handler/HandlerContract.tla C06_Segments): consecutive segments chain from x0 to the last covered time, sol succeeds on the covered span and reports OutOfRange / NotEnabled otherwise, every stored sample is reproduced by sol, and the per-step interpolant handed to callbacks equals the stored states at both ends of its step. TLC validates these on traces recorded from every accepted step of real runs (all methods, directions, after rejections, BDF order changes, zero-length run).",
   note="The endpoint-equality clause uses a numeric predicate computed by the recorder (|delta| <= 64 eps (|y_old|+|y_new|), 1e-9 relative for BDF) - exploration-level for that clause; chain/coverage/error classes are order facts decided by TLC.",
   ref="5 (C06)"),
 "C07": dict(cat="proof", tech="TLA+ tableau specification: continuous order conditions as coefficient-wise integer identities discharged by Apalache; bound to the code by dense-weight extraction validated by a TLC trace spec",
   text="Continuous weights b_j(theta) of RK4 (cubic Hermite), RK23 and DOPRI5 as rational polynomials in TLA+; all continuous order conditions up to q (3,3,4), b_j(0)=0, b_j(1)=b_j discharged by Apalache; the b_j(theta) the real code computes (StepInterpolant and Solution::sol, h=+-1) are extracted and compared with the specification within 16 ulp by a TLC trace spec. DOP853: bushy-tree continuous conditions to order 7 within 1e-24 and conformance of the extracted weights to the published table. Sparse-output mode (XOut, dense_output off) and the landing step are probed too. Restart probes (Trace_Stepper clause C07/restart): at every callback of recorded low-level runs of the explicit methods - runs with rejections and runs of more than 1000 steps - a freshly built solver redoes the step and must hand out the same polynomial (1e-9); BDF: after `order` steps of equal size the polynomial handed out reproduces the order+1 accepted states it is built from (1e-9; 1e-14 observed).",
   note="NOT decided: the remaining continuous tree conditions of DOP853, Radau, BDF (numeric).",
   ref="5 (C07), 3.4"),
 "C08": dict(cat="model_checking", tech=TLA + ": bounded-exhaustive handler model with event functions, replayed into the real DefaultSolOut (real Brent code), traces validated by TLC; plus recorded solve_ivp runs",
   text="Event reporting is specified in spec/handler/Handler.tla (crossing test, a step end answers only where g vanishes there exactly - repair 4876364 -, Brent refinement as an oracle, chronological stable sort) and the contract C08_Inv (event inside its bracketing step, y_e = interpolant(t_e), t_e within root-finder accuracy of a root, configured direction in integration order, per-function monotone lists, matching shapes) is evaluated by TLC on every replayed scenario (1-2 event functions, 1-2 roots each anywhere relative to the grid, all direction filters, both time directions) and on recorded runs of the six real steppers.",
   note="Replay uses polynomial event functions of t with tick-valued roots; recorded runs use state-dependent event functions, incl. event functions of magnitude 1e-6 .. 1e-30 (the scale of g is not a time). RootT = 4 ticks (3.6e-12).",
   ref="5 (C08)"),
 "C09": dict(cat="model_checking", tech=TLA + ": same handler model; per-step sign-change contract evaluated by TLC on replayed scenarios and recorded runs",
   text="C09_Inv: strictly opposite signs in the configured direction at consecutive accepted step ends => exactly one event of that function in that step; equal strict signs => none; zeros at step ends unconstrained (as the property states). Checked by TLC for every scenario of the bounded model executed on the real handler (roots on / next to / between step ends, several functions in one step, terminal stops in the same step) and on recorded runs of the real steppers with g evaluated at every reported step end.",
   note="As C08.", ref="5 (C09)"),
 "C10": dict(cat="model_checking", tech=TLA + ": handler model with terminal counts; self-composition with the non-terminal run; replay + trace validation; recorded solve_ivp pairs",
   text="C10_Stop / C10_Prefix: the run stops iff a terminal count is reached, the final sample is the event point, nothing later is reported, earlier events of the same step are kept, and everything before the stop equals the run without the terminal flag (prefix relation checked by TLC between the two recorded runs). Exhaustive on the bounded handler model (counts 1-2, two functions firing in one step in either order, with and without t_eval/first_step), every scenario executed on the real handler; plus recorded pairs of real solve_ivp runs for all methods.",
   note="As C08.", ref="5 (C10)"),
 "C11": dict(cat="model_checking", tech=TLA + ": stepper model with max_step/first_step/max_steps; trace validation of recorded runs incl. budget prefixes",
   text="C11 contract operators (spec/stepper/StepperContract.tla): every accepted step <= max_step (final step <= 1.01 max_step), first trial evaluation at x0 + c2*first_step, first reported interval = first_step if accepted, nstep <= max_steps+1, NeedLargerNMax iff the budget ran out, budgeted run = bit-identical prefix of the unbudgeted run. TLC checks the bounded stepper model and validates recorded runs of the real solvers (marks xold +/- max_step inserted into the ranked time set).",
   note="Marks and 4-ulp windows are computed by the recorder (trusted).", ref="5 (C11)"),
 "C12": dict(cat="model_checking", tech=TLA + ": relational trace validation (observer mode) of recorded run families against the Level-A contract; Level-B stepper model shows the loop never reads observer state",
   text="Non-interference is a relational contract clause (spec/stepper/StepperContract.tla Rel_Observer / Rel_Equal / Rel_EqualCb): for every case the plain run and the runs with t_eval, dense_output, non-terminal events (all subsets in thorough), a repeat, t_eval placed next to accepted step ends / ending inside the span / empty, systems of 4-12 equations with earlier results kept alive, and low-level solvers built with dense_output on/off are recorded, and TLC checks token equality of the complete stepper evaluation stream (times and states), of every reported step state, and of nfev/njev/nstep/naccpt/nrejct; runs of more than 100000 steps are compared by the recorder and enter the trace as `fact` lines. The Level-B model Stepper.tla has no variable through which the output handler could influence the loop other than the callback flag.",
   note="Bit-identity is meaningful because one thread, deterministic arithmetic. No separate self-composition model was built (DESIGN.md 13).", ref="5 (C12), 13"),
 "C13": dict(cat="model_checking", tech=TLA + ": Tolerance aliasing model + relational trace validation under exact symmetries",
   text="Tolerance cell semantics and Radau's adjust loop are modelled (spec/stepper/Tolerance.tla: every component transformed exactly once for both representations); on the real code, pairs of runs related by time reflection, 2^k scaling, scalar-vs-vector tolerance and duplication into 2/4 copies are recorded, mapped through the inverse symmetry and required by TLC to be token-equal.",
   note="Only relations exact in IEEE arithmetic are checked (no 'up to rounding' relations).", ref="5 (C13)"),
 "C15": dict(cat="model_checking", tech=TLA + ": matrix-read model at the mass/Jacobian use sites + relational trace validation across storages",
   text="'The matrix the solver reads equals the matrix the user means' is an invariant of the storage model; on the real code, runs differing only in mass storage (Identity/Full/Banded), Jacobian storage (Full/Banded), absence of a mass matrix, and 2^k*I mass with 2^k*f are recorded in pairs and TLC requires token-equal ode streams and outputs (Radau and BDF, Options path and low-level builders); non-identity masses (bi-/tridiagonal, with negative entries) in Full and one-/two-sided Banded storage, a Jacobian band narrower than the mass pattern; index-1 DAEs with the algebraic equation first / last (clause C15/dae: solved, constraint residual <= 1e3(rtol+atol) at every sample, agreement with the reduced ODE) and clause C15/mass_reference (wherever DOP853 solves y'=M^-1 f, Radau succeeds and agrees to 1e3(rtol+atol)) are recorder-computed facts.",
   note="The two numeric clauses are facts computed by the recorder against DOP853 at 1e-11 (exploration-level for those clauses). NOT decided: analytic-vs-FD Jacobian agreement, general dense M beyond the listed patterns.", ref="5 (C15)"),
 "C16": dict(cat="model_checking", tech=TLA + ": DEC/SOL(+complex) transcribed over exact rationals; every enumerated system replayed into the real lu_decomp/lin_solve; TLC trace validation",
   text="LU factorisation and solves are modelled action by action over exact rationals (spec/lu); the contract (singular iff exactly singular on dyadic paths, exact solution, multipliers <= 1, shape/pivot errors, only b modified) is checked by TLC for all small-integer matrices (2x2 over -2..2, 3x3 over -1..1; thorough 3x3 over -2..2 and complex 2x2), their power-of-two row/column gradings (exact in binary floating point; tiny pivots in every position), seeded complex 3x3 / real 4x4, with the clauses pivot_max (the reported pivot row holds a largest entry of its column) and complex multipliers <= sqrt 2; every system is executed on the real code and validated by a TLC trace spec.",
   note="NOT decided: the backward-stability bound for float matrices of size 4..12 (numeric).", ref="5 (C16)"),
 "C17": dict(cat="model_checking", tech=TLA + ": data-layout model of Matrix vs dense-meaning contract; every enumerated case replayed into the real Matrix API; TLC trace validation",
   text="Matrix storage (Identity/Full/Banded, index map, all constructors, +,-,scalar ops, writes, is_identity) is modelled at the data-layout level (spec/matrix) and the contract is stated through the dense abstraction function; TLC checks all cases for n<=3 (thorough 4), all (ml,mu), all storage pairs, and each case is executed on the real Matrix with every entry read back (bit-exact small integers).",
   note="Sizes 1..4 rather than 1..8 (the index map is uniform in n).", ref="5 (C17)"),
 "C18": dict(cat="model_checking", tech=TLA + ": counters as history variables of the stepper model; trace validation counting events against reported statistics",
   text="C18_Inv: nfev = number of ode events outside Jacobian differencing, njev = number of jac events, naccpt = callbacks-1 = reported intervals without output filtering, nstep >= naccpt, all zero for the zero-length run; TLC counts the events of each recorded run of the real solvers (all methods, analytic and finite-difference Jacobian, both directions) and compares with the returned statistics; the handler side (every accepted step is a reported interval) is checked on replayed handler scenarios.",
   note="The recorder flags ode calls made inside the default finite-difference jac by wrapping the problem (trusted).", ref="5 (C18)"),
 "C19": dict(cat="model_checking", tech=TLA + ": callback protocol actions of the stepper model; trace validation of scripted SolOut runs on the six low-level solvers",
   text="C19_Inv: initial callback (xold=x=x0,y0), one callback per accepted step with contiguous intervals ending at xend on success, interpolant bounds = the step, Interrupt => UserInterrupt and no further ode/cb event, ModifiedSolution => next ode call at (x, written y); relational: Modified(no change) = plain run, Modified(x2 at step k) on linear homogeneous problems = 2x from step k on. Checked by TLC on recorded runs with scripted callbacks at every step index.",
   note="8-ulp contiguity marks computed by the recorder.", ref="5 (C19)"),
 "C20": dict(cat="model_checking", tech=TLA + ": PyLayer index/status/grouping model checked exhaustively; relational trace validation Python vs Rust",
   text="Transpose map, status map, option table and greedy column grouping are modelled (spec/python) and checked exhaustively for n,m<=4 / all sparsity patterns n<=4; the extension module is built from the working tree and Python runs are compared by TLC with Rust runs of bit-identical problems (t, y^T, events, counters, sol shapes, args, jac variants, sparsity).",
   note="Problems use only + - * so that CPython and Rust arithmetic agree bit-for-bit (trusted).", ref="5 (C20)"),
}

NOT_APPLICABLE = {
 "C01": "quantitative numerical accuracy over the reals (global error proportional to tolerance, 4th-order convergence): no finite-state TLA+ abstraction preserves it; the discrete decisions of a run are legal in the specification whether or not the error estimate is right (DESIGN.md 5/C01, 12)",
 "C14": "quantitative stability/cost statements (error within tolerance scale, step count independent of stiffness ratio, invariants to rounding): numeric, not decidable on the specification; the discrete Radau/BDF protocol is covered under C03/C04/C18 (DESIGN.md 5/C14, 12)",
}

THOROUGH = set(CHECKS)  # every check has a thorough tier


def main():
    built = [p for p in sorted(CHECKS) if os.path.exists(os.path.join(VERIF, "checks", p.lower() + ".py"))]
    props = [json.loads(l)["id"] for l in open(os.path.join(VERIF, "properties.jsonl"))]
    hooks = subprocess.run(["git", "-C", "/repo", "log", "--format=%h %s"], stdout=subprocess.PIPE, text=True).stdout.splitlines()
    hook_commits = [l.split()[0] for l in hooks if l.split(" ", 1)[1].startswith("verif hook")]
    checks = []
    for p in built:
        c = CHECKS[p]
        checks.append({
            "property_id": p,
            "quick_cmd": f"./check {p} --tier quick",
            "thorough_cmd": f"./check {p} --tier thorough",
            "evidence_file": f"/verif/evidence/{p}.json",
            "replay_cmd_template": f"./check {p} --replay {{path}}",
            "engine": "tla",
            "level_claimed": {"category": c["cat"], "text": c["text"], "design_ref": "DESIGN.md section " + c["ref"]},
            "level_note": c["note"],
            "technique": c["tech"],
        })
    na = [{"property_id": p, "reason": r} for p, r in NOT_APPLICABLE.items()]
    for p in props:
        if p not in built and p not in NOT_APPLICABLE:
            na.append({"property_id": p, "reason": "check under construction in this round (designed in DESIGN.md section 5; not claimed until its check is committed)"})
    m = {
        "version": 1,
        "setup_cmd": "cd /verif/harness && CARGO_NET_OFFLINE=true cargo build --release --offline --bins",
        "hooks": {
            "guard": "ivp_verif",
            "what": "solve::solout::verif::Handler (public wrapper of the crate-private output handler); verif_trace (thread-local decision-point sink) + one-line reports in the solve loops of all six methods",
            "enable": "--cfg ivp_verif via /verif/harness/.cargo/config.toml rustflags; the harness crate depends on /repo by path and is rebuilt by every check",
            "baseline_off_cmd": "cd /repo && cargo test --workspace --no-fail-fast --offline",
            "source_commits": hook_commits,
            "add_only": True,
        },
        "engines": [{"name": "tla", "path": "/verif/spec", "serves_properties": built,
                     "kind_free_text": "explicit TLA+ specification (Level A contract + Level B implementation-shaped models), TLC for bounded-exhaustive model checking and trace validation, Apalache for big-integer tableau identities; Rust harness /verif/harness replays TLC-generated scenarios into the real code and records real runs"}],
        "checks": checks,
        "notes": "Driver: /verif/check; conventions: /verif/tools/CONVENTIONS.md; known findings: /verif/known_findings.json; exit 2 = tool error (never a verdict).",
        "not_applicable": na,
    }
    with open(os.path.join(VERIF, "MANIFEST.json"), "w") as f:
        json.dump(m, f, indent=1)
        f.write("\n")
    print("MANIFEST: claimed", built, "| not claimed", [x["property_id"] for x in na])


if __name__ == "__main__":
    main()

#!/usr/bin/env python3
"""Confirm a seeded mutation and run the checks against it (development tool, not a registered command).

usage: seedtest.py <PROP> <seed-dir> <n> [extra check ids...]
  <seed-dir>/seed<n>.patch, <seed-dir>/seed<n>_demo.rs (or .py)
Steps (all in a scratch worktree of /repo HEAD, removed afterwards):
  1 demo passes on the unmodified tree      2 patch applies, crate builds, existing suite passes
  3 demo fails with the patch               4 ./check <PROP> (and extra ids) --tier quick with VERIF_REPO=<worktree>
Writes /verif/seeded/<PROP>-<n>/{patch.diff, demo.*, meta.json}.
"""
import json
import os
import re
import shutil
import subprocess
import sys
import time

VERIF = os.path.dirname(os.path.dirname(os.path.abspath(__file__)))
KEY = None


def sh(cmd, cwd=None, env=None, timeout=3600):
    e = dict(os.environ)
    if env:
        e.update(env)
    p = subprocess.run(cmd, shell=True, cwd=cwd, env=e, stdout=subprocess.PIPE, stderr=subprocess.STDOUT, text=True, timeout=timeout)
    return p.returncode, p.stdout


def main():
    prop, sdir, n = sys.argv[1], sys.argv[2], sys.argv[3]
    extra = [a for a in sys.argv[4:] if not a.startswith("--key=")]
    global KEY
    KEY = ([a[6:] for a in sys.argv[4:] if a.startswith("--key=")] or [f"{prop}-{n}"])[0]
    patch = os.path.join(sdir, f"seed{n}.patch")
    demo_rs = os.path.join(sdir, f"seed{n}_demo.rs")
    demo_py = os.path.join(sdir, f"seed{n}_demo.py")
    is_py = os.path.exists(demo_py) and (not os.path.exists(demo_rs) or "use ivp" not in open(demo_rs).read())
    demo = demo_py if is_py else demo_rs
    wt = f"/tmp/st-{KEY}"
    sh(f"git -C /repo worktree remove --force {wt}")
    shutil.rmtree(wt, ignore_errors=True)
    rc, out = sh(f"git -C /repo worktree add -q {wt} HEAD")
    assert rc == 0, out
    meta = {"property": prop, "seed": int(n), "patch": os.path.basename(patch), "repo_head": sh("git -C /repo rev-parse --short HEAD")[1].strip()}
    env = {"CARGO_TARGET_DIR": f"{wt}/target", "CARGO_NET_OFFLINE": "true"}
    try:
        if not is_py:
            shutil.copy(demo, f"{wt}/tests/seed_demo.rs")
            rc, out = sh("cargo test --offline --test seed_demo 2>&1 | tail -15", cwd=wt, env=env)
            meta["demo_passes_without"] = ("test result: ok" in out)
        def pydemo(tag):
            e2 = dict(env); e2["PYO3_PYTHON"] = "/opt/veriftools/pyvenv/bin/python"
            rc, out = sh("cargo build --features python --offline 2>&1 | tail -3", cwd=wt, env=e2)
            d = f"{wt}/pyscratch_{tag}"
            os.makedirs(d, exist_ok=True)
            shutil.copy(f"{wt}/target/debug/libivp.so", f"{d}/ivp.abi3.so")
            rc, out = sh(f"/opt/veriftools/pyvenv/bin/python {demo} {d} 2>&1", cwd=wt, env={"IVP_SO_DIR": d})
            return rc, "\n".join(out.splitlines()[-8:]) + ("\nFAIL(exit %d)" % rc if rc != 0 else "\nPASS(exit 0)")
        if is_py:
            rc, out = pydemo("clean")
            meta["demo_passes_without"] = ("PASS" in out and "FAIL" not in out)
        rc, out = sh(f"git apply {patch}", cwd=wt)
        if rc != 0:
            # the repository moved on since the seed was written (a later fix: commit touched the same lines)
            rc, out = sh(f"git apply --3way {patch}", cwd=wt)
            meta["applied_3way"] = (rc == 0)
        meta["patch_applies"] = (rc == 0)
        if rc != 0:
            meta["error"] = out[-400:]
            return finish(meta, prop, n, patch, demo)
        if not is_py:
            os.remove(f"{wt}/tests/seed_demo.rs")
        rc, out = sh("cargo test --offline --no-fail-fast 2>&1 | grep -E '^test result|error(\\[|:)' ", cwd=wt, env=env)
        meta["existing_suite_passes_with"] = ("error" not in out and "FAILED" not in out and out.count("test result: ok") >= 4)
        meta["existing_suite_summary"] = out.strip().splitlines()[:8]
        if not is_py:
            shutil.copy(demo, f"{wt}/tests/seed_demo.rs")
            rc, out = sh("cargo test --offline --test seed_demo 2>&1 | tail -25", cwd=wt, env=env)
            meta["demo_fails_with"] = ("test result: FAILED" in out or "panicked" in out)
            meta["demo_output_tail"] = out.strip().splitlines()[-6:]
            os.remove(f"{wt}/tests/seed_demo.rs")
        if is_py:
            rc, out = pydemo("mut")
            meta["demo_fails_with"] = ("FAIL" in out)
            meta["demo_output_tail"] = out.strip().splitlines()[-6:]
        shutil.rmtree(f"{wt}/target", ignore_errors=True)
        # run the checks against the mutated tree
        meta["checks"] = {}
        for cid in [prop] + extra:
            t0 = time.time()
            rc, out = sh(f"./check {cid} --tier quick", cwd=VERIF, env={"VERIF_REPO": wt, "VERIF_SEED": "1"}, timeout=3000)
            sigs = re.findall(r"signature=(\S+)", out)
            meta["checks"][cid] = {"exit": rc, "violation_lines": out.count("VIOLATION property="), "signatures": sorted(set(sigs))[:12],
                                   "wall_s": round(time.time() - t0, 1), "tail": out.strip().splitlines()[-3:]}
        meta["caught_by"] = [c for c, v in meta["checks"].items() if v["exit"] == 1]
    finally:
        sh(f"git -C /repo worktree remove --force {wt}")
        shutil.rmtree(wt, ignore_errors=True)
    return finish(meta, prop, n, patch, demo)


def finish(meta, prop, n, patch, demo):
    d = os.path.join(VERIF, "seeded", KEY)
    os.makedirs(d, exist_ok=True)
    shutil.copy(patch, os.path.join(d, "patch.diff"))
    if os.path.exists(demo):
        shutil.copy(demo, os.path.join(d, "demo" + os.path.splitext(demo)[1]))
    prev = {}
    mp = os.path.join(d, "meta.json")
    if os.path.exists(mp):
        prev = json.load(open(mp))
    prev.update(meta)
    json.dump(prev, open(mp, "w"), indent=1)
    print(json.dumps({k: meta.get(k) for k in ("property", "seed", "demo_passes_without", "existing_suite_passes_with", "demo_fails_with", "caught_by")}))
    for c, v in meta.get("checks", {}).items():
        print("  ", c, "exit", v["exit"], v["signatures"][:4])


if __name__ == "__main__":
    main()

"""Shared machinery for the /verif checks: harness build, TLC / Apalache runners,
violation reporting with known findings, replay files and evidence files.

Exit-code convention of ./check: 0 = property held on everything explored,
1 = at least one VIOLATION line (not a known finding), 2 = tool error / timeout.
"""
import hashlib
import json
import os
import re
import shutil
import subprocess
import sys
import time

VERIF = os.path.dirname(os.path.dirname(os.path.abspath(__file__)))
REPO = "/repo"
HARNESS = os.path.join(VERIF, "harness")
SPEC = os.path.join(VERIF, "spec")
WORK = os.path.join(VERIF, "work")
EVID = os.path.join(VERIF, "evidence")
REPLAYS = os.path.join(VERIF, "replays")
TLA_JAR = "/opt/veriftools/tla/tla2tools.jar:/opt/veriftools/tla/CommunityModules-deps.jar"


class ToolError(Exception):
    """Anything that prevents a verdict (build failure, TLC crash, timeout)."""


def log(*a):
    print(*a, file=sys.stderr, flush=True)


# ---------------------------------------------------------------- harness build
_built = False


def ensure_harness():
    """(Re)build the Rust harness against /repo's current working tree."""
    global _built
    if _built:
        return os.path.join(_target_dir(), "release")
    t0 = time.time()
    env = dict(os.environ)
    env["CARGO_NET_OFFLINE"] = "true"
    cmd = ["cargo", "build", "--release", "--offline", "--bins"]
    if repo_override():
        # mutation testing only: build against a scratch copy of the repository, in a separate target dir
        cmd += ["--config", 'paths=["%s"]' % repo_override()]
        env["CARGO_TARGET_DIR"] = _target_dir()
    p = subprocess.run(cmd, cwd=HARNESS,
                       env=env, stdout=subprocess.PIPE, stderr=subprocess.STDOUT, text=True)
    if p.returncode != 0:
        log(p.stdout[-4000:])
        raise ToolError("harness build failed")
    log(f"[build] harness ok in {time.time()-t0:.1f}s" + (f" (repo override {repo_override()})" if repo_override() else ""))
    _built = True
    return os.path.join(_target_dir(), "release")


def repo_override():
    """VERIF_REPO=<dir>: development aid for mutation testing in a scratch worktree (never used by registered commands)."""
    d = os.environ.get("VERIF_REPO")
    return os.path.abspath(d) if d else None


def repo_dir():
    return repo_override() or REPO


def _target_dir():
    if repo_override():
        return os.path.join(repo_override(), "target-verif-harness")
    return os.path.join(HARNESS, "target")


def run_bin(name, args, stdin=None, timeout=3600, env=None, stdout_path=None):
    """Run a harness binary. Returns (returncode, stdout_text, stderr_text)."""
    bindir = ensure_harness()
    e = dict(os.environ)
    if env:
        e.update(env)
    out = open(stdout_path, "w") if stdout_path else subprocess.PIPE
    try:
        p = subprocess.run([os.path.join(bindir, name)] + list(args), input=stdin, stdout=out,
                           stderr=subprocess.PIPE, text=True, timeout=timeout, env=e)
    except subprocess.TimeoutExpired:
        raise ToolError(f"{name} timed out after {timeout}s")
    finally:
        if stdout_path:
            out.close()
    return p.returncode, (p.stdout if not stdout_path else ""), p.stderr


# ---------------------------------------------------------------- work dirs
def workdir(name):
    if repo_override():
        name = name + "-mut" + str(os.getpid())      # concurrent mutation runs must not share scratch files
    d = os.path.join(WORK, name)
    shutil.rmtree(d, ignore_errors=True)
    os.makedirs(d, exist_ok=True)
    return d


def cleanup(d):
    shutil.rmtree(d, ignore_errors=True)
    try:
        os.rmdir(WORK)
    except OSError:
        pass


# ---------------------------------------------------------------- TLC
class TlcResult:
    def __init__(self):
        self.rc = None
        self.out = ""
        self.generated = 0
        self.distinct = 0
        self.depth = 0
        self.ok = False            # finished without error / violation
        self.invariant = None      # name of violated invariant / property, if any
        self.error = None          # textual error, if any
        self.printed = []          # PrintT payload lines (raw text)
        self.coverage = {}         # action -> (distinct, total) from -coverage
        self.wall = 0.0

    def lines(self, tag):
        """PrintT(<<"TAG", ...>>) lines whose first element is the string tag -> raw text after it."""
        pre = '<<"%s"' % tag
        return [l for l in self.printed if l.startswith(pre)]


_RE_STATES = re.compile(r"^(\d[\d,]*) states generated, (\d[\d,]*) distinct states found", re.M)
_RE_DEPTH = re.compile(r"depth of the complete state graph search is (\d+)")
_RE_INV = re.compile(r"Invariant (\S+) is violated")
_RE_PROP = re.compile(r"Temporal properties were violated|Action property (\S+) is violated")
_RE_COV = re.compile(r"^<(\w+) line \d+, col \d+ to line \d+, col \d+ of module (\w+)>: (\d+):(\d+)", re.M)


def tlc(module, cfg=None, cwd=None, workers=8, timeout=1800, env=None, deque=False, xss=False,
        xmx="6g", coverage=False, simulate=None, extra=(), deadlock=False, metadir=None, depth=None):
    """Run TLC on <module>.tla in cwd with <cfg>. Returns a TlcResult (never raises on violation)."""
    cwd = cwd or SPEC
    cfg = cfg or (module + ".cfg")
    metadir = metadir or os.path.join(workdir("tlc-" + module + "-" + str(os.getpid())), "states")
    jopts = ["-XX:+UseParallelGC", "-Xmx" + xmx]
    if xss:
        jopts.append("-Xss1g")
    if deque:
        jopts.append("-Dtlc2.tool.queue.IStateQueue=StateDeque")
    # library path: all spec subdirectories so that EXTENDS works across them
    libs = [os.path.join(SPEC, d) for d in sorted(os.listdir(SPEC)) if os.path.isdir(os.path.join(SPEC, d))]
    jopts.append("-DTLA-Library=" + os.pathsep.join(libs))
    cmd = ["java"] + jopts + ["-cp", TLA_JAR, "tlc2.TLC", "-workers", str(workers), "-metadir", metadir,
                              "-cleanup", "-noGenerateSpecTE", "-config", cfg]
    if not deadlock:
        cmd.append("-deadlock")  # -deadlock = do NOT check deadlock
    if coverage:
        cmd += ["-coverage", "1"]
    if simulate:
        cmd += ["-simulate", simulate]
    if depth:
        cmd += ["-depth", str(depth)]
    cmd += list(extra) + [module + ".tla"]
    e = dict(os.environ)
    e.pop("JAVA_TOOL_OPTIONS", None)
    if env:
        e.update({k: str(v) for k, v in env.items()})
    r = TlcResult()
    t0 = time.time()
    try:
        p = subprocess.run(["timeout", str(timeout)] + cmd, cwd=cwd, env=e, stdout=subprocess.PIPE,
                           stderr=subprocess.STDOUT, text=True)
    finally:
        shutil.rmtree(os.path.dirname(metadir), ignore_errors=True)
    r.wall = time.time() - t0
    r.rc = p.returncode
    r.out = p.stdout
    if p.returncode == 124:
        r.error = "timeout"
        return r
    ms = _RE_STATES.findall(p.stdout)
    if ms:
        r.generated = int(ms[-1][0].replace(",", ""))
        r.distinct = int(ms[-1][1].replace(",", ""))
    m = _RE_DEPTH.search(p.stdout)
    if m:
        r.depth = int(m.group(1))
    m = _RE_INV.search(p.stdout)
    if m:
        r.invariant = m.group(1)
    m = _RE_PROP.search(p.stdout)
    if m and not r.invariant:
        r.invariant = m.group(1) or "temporal"
    r.printed = [l for l in p.stdout.splitlines() if l.startswith("<<") or l.startswith('"')]
    for a, mod, d, t in _RE_COV.findall(p.stdout):
        r.coverage[mod + "." + a] = (int(d), int(t))
    if "Model checking completed. No error has been found." in p.stdout or \
            (simulate and p.returncode == 0):
        r.ok = True
    elif r.invariant is None:
        # some other error (parse error, evaluation error, assumption failure, postcondition failure)
        em = re.search(r"Error: (.*)", p.stdout)
        r.error = em.group(1) if em else f"tlc exit {p.returncode}"
    return r


def tlc_must_parse(r, what):
    if r.error and r.invariant is None:
        log(r.out[-6000:])
        raise ToolError(f"TLC failed on {what}: {r.error}")


def sany(path):
    p = subprocess.run(["java", "-cp", TLA_JAR, "tla2sany.SANY", os.path.basename(path)],
                       cwd=os.path.dirname(path), stdout=subprocess.PIPE, stderr=subprocess.STDOUT, text=True)
    return p.returncode == 0 and "error" not in p.stdout.lower().replace("semantic errors:\n\n", ""), p.stdout


# ---------------------------------------------------------------- Apalache
def apalache(module, args, cwd=None, timeout=900):
    cwd = cwd or SPEC
    out_dir = workdir("apalache-" + os.path.basename(module) + "-" + str(os.getpid()))
    cmd = ["timeout", str(timeout), "apalache-mc", "check", "--out-dir=" + out_dir] + list(args) + [module]
    t0 = time.time()
    p = subprocess.run(cmd, cwd=cwd, stdout=subprocess.PIPE, stderr=subprocess.STDOUT, text=True)
    shutil.rmtree(out_dir, ignore_errors=True)
    return p.returncode, p.stdout, time.time() - t0


# ---------------------------------------------------------------- TLA+ value printing -> python
def parse_tla(text):
    """Parse a TLA+ value printed by TLC (tuples, records, strings, ints, booleans, sets) to python."""
    pos = 0
    n = len(text)

    def ws():
        nonlocal pos
        while pos < n and text[pos] in " \n\t\r":
            pos += 1

    def val():
        nonlocal pos
        ws()
        if text.startswith("<<", pos):
            pos += 2
            out = []
            ws()
            if text.startswith(">>", pos):
                pos += 2
                return out
            while True:
                out.append(val())
                ws()
                if text.startswith(">>", pos):
                    pos += 2
                    return out
                assert text[pos] == ",", (text[pos:pos + 20])
                pos += 1
        if text[pos] == "{":
            pos += 1
            out = []
            ws()
            if text[pos] == "}":
                pos += 1
                return out
            while True:
                out.append(val())
                ws()
                if text[pos] == "}":
                    pos += 1
                    return out
                assert text[pos] == ","
                pos += 1
        if text[pos] == "[":
            pos += 1
            out = {}
            while True:
                ws()
                m = re.match(r"(\w+)\s*\|->", text[pos:])
                assert m, text[pos:pos + 30]
                pos += m.end()
                out[m.group(1)] = val()
                ws()
                if text[pos] == "]":
                    pos += 1
                    return out
                assert text[pos] == ","
                pos += 1
        if text[pos] == '"':
            j = pos + 1
            buf = []
            while text[j] != '"':
                if text[j] == "\\":
                    j += 1
                buf.append(text[j])
                j += 1
            pos = j + 1
            return "".join(buf)
        m = re.match(r"-?\d+", text[pos:])
        if m:
            pos += m.end()
            return int(m.group(0))
        m = re.match(r"TRUE|FALSE", text[pos:])
        if m:
            pos += m.end()
            return m.group(0) == "TRUE"
        raise ValueError("cannot parse TLA value at: " + text[pos:pos + 40])

    return val()


# ---------------------------------------------------------------- findings / violations
class Violation:
    def __init__(self, prop, signature, detail, scenario):
        self.prop = prop
        self.signature = signature      # string identifying the failing input class / call site
        self.detail = detail            # human-readable
        self.scenario = scenario        # JSON-able: what to replay

    def key(self):
        return (self.prop, self.signature)


def load_known():
    p = os.path.join(VERIF, "known_findings.json")
    if not os.path.exists(p):
        return []
    return json.load(open(p)).get("findings", [])


def match_known(v, known):
    for k in known:
        if k.get("status", "open") != "open":
            continue  # 'fixed' entries suppress nothing
        if k["property"] != v.prop:
            continue
        if re.fullmatch(k["signature"], v.signature):
            return k
    return None


def report(prop, violations, max_lines=20):
    """Print VIOLATION / KNOWN-FINDING lines; write replay files. Returns (n_new, n_known)."""
    known = load_known()
    new, kn = {}, {}
    for v in violations:
        k = match_known(v, known)
        (kn if k else new).setdefault(v.signature, []).append((v, k))
    for sig, items in kn.items():
        v, k = items[0]
        print(f"KNOWN-FINDING: property={prop} {k['what']} [signature={sig}; {len(items)} case(s) this run]")
    shown = 0
    for sig, items in new.items():
        v, _ = items[0]
        os.makedirs(os.path.join(REPLAYS, prop), exist_ok=True)
        blob = json.dumps({"property": prop, "signature": sig, "detail": v.detail, "scenario": v.scenario,
                           "n_cases_with_this_signature": len(items)}, indent=1, sort_keys=True)
        h = hashlib.sha1(blob.encode()).hexdigest()[:12]
        path = os.path.join(REPLAYS, prop, h + ".json")
        with open(path, "w") as f:
            f.write(blob)
        if shown < max_lines:
            print(f"VIOLATION property={prop} replay={path}")
            print(f"  signature={sig} cases={len(items)} detail={v.detail}"[:600])
            shown += 1
    sys.stdout.flush()
    return sum(len(x) for x in new.values()), sum(len(x) for x in kn.values())


# ---------------------------------------------------------------- evidence
def write_evidence(prop, tier, seed, level, coverage, assumptions, wall_s, violations):
    # development runs against a scratch copy of the repository (VERIF_REPO) must not overwrite the evidence of /repo
    evid = EVID if not os.environ.get("VERIF_REPO") else os.path.join(WORK, "evidence-scratch")
    os.makedirs(evid, exist_ok=True)
    ev = {"property_id": prop, "tier": tier, "seed": int(seed), "level": level, "coverage": coverage,
          "assumptions": assumptions, "wall_s": round(wall_s, 2), "violations": int(violations)}
    with open(os.path.join(evid, prop + ".json"), "w") as f:
        json.dump(ev, f, indent=1, sort_keys=True)
        f.write("\n")


def read_ndjson(path):
    out = []
    with open(path) as f:
        for line in f:
            line = line.strip()
            if line:
                out.append(json.loads(line))
    return out

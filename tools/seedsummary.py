#!/usr/bin/env python3
"""Regenerates /verif/seeded/SUMMARY.md from seeded/*/meta.json and seeded/descriptions.json."""
import glob, json, os
V = os.path.dirname(os.path.dirname(os.path.abspath(__file__)))
desc = json.load(open(os.path.join(V, "seeded", "descriptions.json")))
rows = []
for mp in sorted(glob.glob(os.path.join(V, "seeded", "*", "meta.json"))):
    key = os.path.basename(os.path.dirname(mp))
    m = json.load(open(mp))
    d = desc.get(key, {})
    m.update({"what_it_breaks": d.get("what"), "needs_to_manifest": d.get("needs")})
    json.dump(m, open(mp, "w"), indent=1)
    conf = all(m.get(k) for k in ("demo_passes_without", "existing_suite_passes_with", "demo_fails_with"))
    checks = "; ".join(f"{c}: exit {v['exit']}" + (f" ({v['signatures'][0]})" if v.get("signatures") else "") for c, v in m.get("checks", {}).items())
    rows.append((key, "yes" if conf else "NO", ", ".join(m.get("caught_by", [])) or "-", d.get("what", ""), d.get("needs", ""), checks))
with open(os.path.join(V, "seeded", "SUMMARY.md"), "w") as f:
    f.write("# Seeded changes (written by independent sub-agents from the property text only) and the checks run against them\n\n")
    f.write("`confirmed` = I re-ran it in a scratch worktree: demo passes without, existing suite passes with, demo fails with the change.\n\n")
    f.write("| seed | confirmed | caught by | change | needs | check results (quick tier) |\n|---|---|---|---|---|---|\n")
    for r in rows:
        f.write("| " + " | ".join(str(x).replace("|", "/") for x in r) + " |\n")
    n = len(rows); c = sum(1 for r in rows if r[2] != "-")
    f.write(f"\n{c} of {n} seeded changes are caught by at least one check at the quick tier.\n")
print("summary written")
